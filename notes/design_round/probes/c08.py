from common import *
import copy, pickle, hashlib
from hierarc.Likelihood.cosmo_likelihood import CosmoLikelihood
rng = np.random.default_rng(0); bad = 0
def snap(o, depth=0):
    if isinstance(o, np.ndarray): return ("arr", o.shape, hashlib.md5(np.ascontiguousarray(o).tobytes()).hexdigest())
    if isinstance(o, dict): return ("dict", tuple((k, snap(v)) for k, v in o.items()))
    if isinstance(o, (list, tuple)): return ("seq", tuple(snap(v) for v in o))
    if isinstance(o, (int, float, str, bool, type(None), np.floating, np.integer)): return o
    return ("obj", type(o).__name__)
types = [t for t in TYPES if t != "DdtDdKDE"]
lenses = []
for i, t in enumerate(types):
    kw = dict(z_lens=0.3+0.03*i, z_source=1.5+0.1*i, likelihood_type=t, **lens_kwargs(t, rng))
    lenses.append(kw)
mag = rng.normal(19, .1, 5); cov = pd(rng, 5, .1); z = np.linspace(.1, 1., 5)
kwargs_model = dict(ppn_sampling=True, lambda_mst_sampling=True, lambda_mst_distribution="GAUSSIAN", sne_apparent_m_sampling=True, sne_distribution="GAUSSIAN", sigma_v_systematics=True, los_sampling=True, los_distributions=["GAUSSIAN"])
kb = dict(kwargs_lower_cosmo=dict(h0=10, om=0.05, gamma_ppn=0), kwargs_upper_cosmo=dict(h0=150, om=1, gamma_ppn=5), kwargs_lower_lens=dict(lambda_mst=0.5, lambda_mst_sigma=0), kwargs_upper_lens=dict(lambda_mst=1.5, lambda_mst_sigma=0.5),
          kwargs_lower_source=dict(mu_sne=10, sigma_sne=0), kwargs_upper_source=dict(mu_sne=30, sigma_sne=1), kwargs_lower_kin=dict(sigma_v_sys_error=0), kwargs_upper_kin=dict(sigma_v_sys_error=1),
          kwargs_lower_los=[dict(mean=-.5, sigma=0)], kwargs_upper_los=[dict(mean=.5, sigma=.5)])
sne = dict(mag_mean=mag, cov_mag=cov, zhel=z, zcmb=z)
s_in = snap((lenses, kwargs_model, kb, sne))
cl = CosmoLikelihood(lenses, "FLCDM", kwargs_model, kb, sne_likelihood="CUSTOM", kwargs_sne_likelihood=sne, interpolate_cosmo=True, num_redshift_interp=50)
print(cl.param.param_list())
lo, hi = map(np.array, cl.param.param_bounds)
def point(sharp):
    x = lo + rng.uniform(.2, .8, len(lo))*(hi-lo)
    names = cl.param.param_list()
    if sharp:
        for nme in ["lambda_mst_sigma", "sigma_sne", "sigma_los_0"]: x[names.index(nme)] = 0.
    return x
sharp_pts = [point(True) for _ in range(6)]
ref = [float(np.squeeze(cl.likelihood(p))) for p in sharp_pts]
cl2 = copy.deepcopy(cl); cl3 = pickle.loads(pickle.dumps(cl))
hist = []
for step in range(60):
    kind = rng.integers(0, 4)
    if kind == 0: p = point(False)
    elif kind == 1: p = point(True)
    elif kind == 2: p = point(True); p[0] = hi[0] + 1
    else: p = sharp_pts[rng.integers(len(sharp_pts))]
    p0 = p.copy()
    v = cl.likelihood(p)
    if not np.array_equal(p, p0): bad += 1; print("ARGS MUTATED")
    hist.append(kind)
    j = rng.integers(len(sharp_pts))
    for obj, nm in [(cl, "same"), (cl2, "deepcopy"), (cl3, "pickle")]:
        np.random.seed(int(rng.integers(1e6)))
        v = float(np.squeeze(obj.likelihood(sharp_pts[j])))
        if v != ref[j]: bad += 1; print("HISTORY/COPY DEP", nm, v, ref[j], v-ref[j])
if snap((lenses, kwargs_model, kb, sne)) != s_in: bad += 1; print("CONFIG MUTATED")
# seed reproducibility with scatter
p = point(False)
np.random.seed(5); a = cl.likelihood(p); np.random.seed(5); b = cl.likelihood(p); np.random.seed(5); c = cl3.likelihood(p)
if not (a == b == c): bad += 1; print("SEED", a, b, c)
print("C08 bad=", bad)
