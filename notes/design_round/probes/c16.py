from common import *
import itertools, hashlib, json
from hierarc.LensPosterior.kin_constraints import KinConstraints
from hierarc.LensPosterior.kin_constraints_composite import KinConstraintsComposite
rng = np.random.default_rng(0); bad = 0
def J_of(kw, nbin=2):
    def norm(o):
        if isinstance(o, dict): return {k: norm(v) for k, v in sorted(o.items())}
        if isinstance(o, (list, tuple)): return [norm(v) for v in o]
        if isinstance(o, np.ndarray): return [float(x) for x in o.ravel()]
        return float(o) if isinstance(o, (int, float, np.floating, np.integer)) else o
    s = json.dumps(norm(kw), sort_keys=True)
    h = int(hashlib.md5(s.encode()).hexdigest()[:8], 16)/2**32
    return np.array([1.0 + h, 2.0 + h*h])
class Stub:
    log = []
    def kinematics_modeling_settings(self, *a, **k): pass
    def velocity_dispersion_map_dimension_less(self, **kw):
        Stub.log.append(kw); return J_of(kw)
class KC(Stub, KinConstraints): pass
class KCC(Stub, KinConstraintsComposite): pass
ap = {"aperture_type": "slit", "length": 1, "width": 1, "center_ra": 0, "center_dec": 0, "angle": 0}
see = {"psf_type": "GAUSSIAN", "fwhm": 1.4}; num = {"interpol_grid_num": 100, "log_integration": True, "max_integrate": 100, "min_integrate": 0.001}
for model in ["OM", "GOM", "const"]:
    for gpl in [None, np.linspace(1.8, 2.2, 3)]:
        Stub.log = []
        kc = KC(0.5, 1.5, 1.0, 0.01, 2.05, 0.1, 0.8, 0.05, [200., 210.], ap, see, num, model, sigma_v_error_independent=[10., 12.], sigma_v_error_covariant=3., gamma_pl_scaling=gpl)
        cfg = kc.hierarchy_configuration(num_sample_model=4)
        names = cfg["kin_scaling_param_list"]; axes = cfg["j_kin_scaling_param_axes"]; grids = cfg["j_kin_scaling_grid_list"]
        def args_at(vals):
            d = dict(zip(names, vals))
            if model == "const": ka = {"beta": d["a_ani"]}
            else:
                ka = {"r_ani": d["a_ani"]*0.8}
                if model == "GOM": ka["beta_inf"] = d["beta_inf"]
            g = d.get("gamma_pl", 2.05)
            return dict(kwargs_lens=[{"theta_E": 1.0, "gamma": g, "center_x": 0, "center_y": 0}], kwargs_lens_light=[{"Rs": 0.8*0.551, "amp": 1.0}], kwargs_anisotropy=ka, r_eff=0.8, theta_E=1.0, gamma=g)
        base_vals = {"OM": [1], "GOM": [1, 1], "const": [0.1]}[model] + ([2.05] if gpl is not None else [])
        J0 = J_of(args_at(base_vals))
        for idx in itertools.product(*[range(len(a)) for a in axes]):
            vals = [axes[i][idx[i]] for i in range(len(axes))]
            exp = J_of(args_at(vals))/J0
            got = np.array([g[idx] for g in grids])
            if not np.allclose(got, exp, rtol=1e-12): bad += 1; print("GRID", model, gpl is not None, idx, got, exp); break
        C = cfg["error_cov_measurement"]; expC = np.diag([100., 144.]) + 9.
        if not np.allclose(C, expC): bad += 1; print("COV", C)
        if (gpl is not None) != (cfg["prior_list"] == [["gamma_pl", 2.05, 0.1]]): bad += 1; print("PRIOR", cfg["prior_list"])
        draws = [l for l in Stub.log[:4]]
        for l in draws:
            if not (l["theta_E"] >= 0 and l["r_eff"] > 0): bad += 1; print("RANGE")
print("C16 KinConstraints bad=", bad)
# composite
light = [{"amp": np.array([10., 5.]), "sigma": np.array([.3, .9])}]
for m2l_pop in [True, False]:
    for model in ["OM", "GOM"]:
        Stub.log = []
        nS = 7
        try:
            kcc = KCC(0.5, 1.5, gamma_in_array=np.linspace(.5, 1.5, 3), log_m2l_array=np.linspace(.1, .5, 3) if m2l_pop else rng.uniform(.1, .5, nS),
                  alpha_Rs_array=rng.uniform(.5, 1, nS), r_s_angle_array=rng.uniform(5, 10, nS), theta_E=1., theta_E_error=.01, gamma=2., gamma_error=.1, r_eff=.8, r_eff_error=.05,
                  sigma_v_measured=[200., 210.], kwargs_aperture=ap, kwargs_seeing=see, kwargs_numerics_galkin=num, anisotropy_model=model,
                  sigma_v_error_independent=[10., 12.], sigma_v_error_covariant=3., kwargs_lens_light=light, lens_light_model_list=["MULTI_GAUSSIAN"], is_m2l_population_level=m2l_pop)
            cfg = kcc.hierarchy_configuration(num_sample_model=3)
            sc = kcc.lensCosmo.sigma_crit_angle
            # inspect a no_error call: stellar amp
            calls = Stub.log
            c = calls[-1]
            amp_star = c["kwargs_lens"][1]["amp"]
            print("composite", "pop" if m2l_pop else "per-lens", model, cfg["kin_scaling_param_list"], [np.shape(g) for g in cfg["j_kin_scaling_grid_list"]][:1], "amp_star/light_amp*sigma_crit =", np.round(amp_star/light[0]["amp"]*sc, 4))
        except Exception as e:
            import traceback; traceback.print_exc(); print("composite RAISE", m2l_pop, model, type(e).__name__, e)
