from common import *
from scipy.stats import multivariate_normal as mvn
from hierarc.Likelihood.SneLikelihood.sne_likelihood import SneLikelihood
from hierarc.Likelihood.hierarchy_likelihood import LensLikelihood
rng = np.random.default_rng(0); bad = 0
n = 6; z = np.sort(rng.uniform(.05, 1.5, n)); zh = z + rng.normal(0, 1e-3, n); mag = rng.normal(20, 1, n); cov = pd(rng, n, .15)
S = SneLikelihood("CUSTOM", mag_mean=mag, cov_mag=cov, zhel=zh, zcmb=z)
covcopy = cov.copy()
for name in ["CUSTOM", "Pantheon_binned", "Roman_forecast"]:
    Sx = S if name == "CUSTOM" else SneLikelihood(name)
    for trial in range(10):
        om = rng.uniform(.1, .5); h1, h2 = rng.uniform(40, 100, 2)
        c1, c2 = cosmo_interp(h1, om, 3), cosmo_interp(h2, om, 3)
        za, zb = rng.uniform(.05, 1., 2); m = rng.uniform(18, 25); sig = rng.uniform(0, .3)
        # free normalisation
        a = Sx.log_likelihood(c1, None, sig, za); b = Sx.log_likelihood(c2, None, sig, zb)
        if not np.isclose(a, b, rtol=1e-9, atol=1e-7): bad += 1; print("FREE", name, a, b)
        # explicit anchor: H0 free
        a = Sx.log_likelihood(c1, m, sig, za); b = Sx.log_likelihood(c2, m, sig, za)
        if not np.isclose(a, b, rtol=1e-9, atol=1e-7): bad += 1; print("H0", name, a, b)
        mu = lambda c, zz: 5*np.log10((1+zz)**2*c.angular_diameter_distance(zz).value)
        b = Sx.log_likelihood(c1, m + mu(c1, zb) - mu(c1, za), sig, zb)
        if not np.isclose(a, b, rtol=1e-9, atol=1e-6): bad += 1; print("ANCHOR", name, a, b)
        if name == "CUSTOM":
            d = 5*np.log10((1+zh)*(1+z)*c1.angular_diameter_distance(z).value) - mu(c1, za)
            ref = mvn.logpdf(mag, d + m, cov + sig**2*np.eye(n))
            if not np.isclose(a, ref, rtol=1e-9): bad += 1; print("MVN", a, ref)
if not np.array_equal(cov, covcopy): bad += 1; print("COV MUTATED")
# lens side convention
cosmo = cosmo_interp(70, .3, 3)
ll = LensLikelihood(z_lens=.5, z_source=1.2, likelihood_type="Mag", **lens_kwargs("Mag", rng))
d = ll.luminosity_distance_modulus(cosmo, 0.3)
ref = 5*np.log10(2.2**2*cosmo.angular_diameter_distance(1.2).value) - 5*np.log10(1.3**2*cosmo.angular_diameter_distance(.3).value)
if not np.isclose(d, ref, rtol=1e-12): bad += 1; print("LENS MOD", d, ref)
print("C11 bad=", bad)
# C19
bad = 0
for t in ["IFUKinCov", "DsDdsGaussian", "DSPL", "Mag"]:
    for trial in range(10):
        kw = lens_kwargs(t, rng); ll = LensLikelihood(z_lens=.5, z_source=2., likelihood_type=t, **kw)
        om = rng.uniform(.1, .5); h1, h2 = rng.uniform(40, 100, 2)
        kl = dict(lambda_mst=rng.uniform(.8, 1.2), gamma_ppn=rng.uniform(.5, 1.5)); ks = dict(mu_sne=19.5, sigma_sne=0, z_apparent_m_anchor=.1)
        a = float(np.squeeze(ll.lens_log_likelihood(cosmo_interp(h1, om, 3.5), kwargs_lens=kl, kwargs_source=ks)))
        b = float(np.squeeze(ll.lens_log_likelihood(cosmo_interp(h2, om, 3.5), kwargs_lens=kl, kwargs_source=ks)))
        if not np.isclose(a, b, rtol=1e-8, atol=1e-7): bad += 1; print("C19 ratio", t, a, b)
for trial in range(10):
    c = rng.uniform(.5, 2); h = rng.uniform(50, 90); om = .3
    l1 = LensLikelihood(z_lens=.5, z_source=2., likelihood_type="DdtGaussian", ddt_mean=4000., ddt_sigma=200.)
    l2 = LensLikelihood(z_lens=.5, z_source=2., likelihood_type="DdtGaussian", ddt_mean=4000./c, ddt_sigma=200./c)
    a = l1.lens_log_likelihood(cosmo_interp(h, om, 3), kwargs_lens=dict(lambda_mst=.95)); b = l2.lens_log_likelihood(cosmo_interp(h*c, om, 3), kwargs_lens=dict(lambda_mst=.95))
    if not np.isclose(a, b, rtol=1e-8): bad += 1; print("C19 td", a, b)
print("C19 bad=", bad)
# C20
bad = 0
for trial in range(20):
    pri = [["lambda_mst", 1., .05], ["gamma_ppn", 1., .2], ["a_ani", 1., .3], ["nonexistent", 0., 1.], ["gamma_pl", 2., .1]]
    base = dict(z_lens=.5, z_source=2., likelihood_type="DdtGaussian", ddt_mean=4000., ddt_sigma=200., mst_ifu=True, lambda_scaling_property=.5, alpha_lambda_sampling=True, gamma_pl_index=1)
    l0 = LensLikelihood(**base); l1 = LensLikelihood(prior_list=pri, **base)
    kl = dict(lambda_mst=1.3, lambda_ifu=rng.uniform(.9, 1.1), alpha_lambda=rng.uniform(-.1, .1), gamma_ppn=rng.uniform(.8, 1.2), gamma_pl_list=[1.7, rng.uniform(1.9, 2.1), 2.4])
    kk = dict(a_ani=rng.uniform(.5, 2))
    cosmo = cosmo_interp()
    a = l0.lens_log_likelihood(cosmo, kwargs_lens=kl, kwargs_kin=kk); b = l1.lens_log_likelihood(cosmo, kwargs_lens=kl, kwargs_kin=kk)
    lam = kl["lambda_ifu"] + kl["alpha_lambda"]*.5
    exp = -(lam-1)**2/(2*.05**2) - (kl["gamma_ppn"]-1)**2/(2*.2**2) - (kk["a_ani"]-1)**2/(2*.3**2) - (kl["gamma_pl_list"][1]-2)**2/(2*.1**2)
    if not np.isclose(b - a, exp, rtol=1e-9): bad += 1; print("C20", b-a, exp)
print("C20 bad=", bad)
