# child of c15_kill.py: runs the sampler on an HDF5 backend and SIGKILLs itself inside the k-th likelihood call
import sys, os, numpy as np, warnings, signal
warnings.simplefilter("ignore")
import emcee
from hierarc.Sampling.mcmc_sampling import MCMCSampler
kill_at, path = int(sys.argv[1]), sys.argv[2]
lens = dict(z_lens=0.5, z_source=2.0, likelihood_type="DdtGaussian", ddt_mean=4000., ddt_sigma=200.)
kb = dict(kwargs_lower_cosmo=dict(h0=10, om=0.05), kwargs_upper_cosmo=dict(h0=150, om=0.9))
S = MCMCSampler([lens], "FLCDM", {}, kb, interpolate_cosmo=True, num_redshift_interp=30)
calls = {"n": 0}; orig = S.chain.likelihood
def lk(x):
    calls["n"] += 1
    if calls["n"] == kill_at: os.kill(os.getpid(), signal.SIGKILL)
    return orig(x)
S.chain.likelihood = lk
np.random.seed(1)
S.mcmc_emcee(6, 0, 10, dict(kwargs_cosmo=dict(h0=70, om=.3)), dict(kwargs_cosmo=dict(h0=5, om=.05)), backend=emcee.backends.HDFBackend(path))
