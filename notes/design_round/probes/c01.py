import numpy as np, random, itertools, warnings
warnings.simplefilter("ignore")
from hierarc.Sampling.ParamManager.param_manager import ParamManager
rnd = random.Random(1)
COS = ["FLCDM","FwCDM","w0waCDM","oLCDM","NONE"]
def rand_cfg():
    losd = [rnd.choice(["GEV","GAUSSIAN","NONE"]) for _ in range(rnd.randint(0,3))]
    cfg = dict(cosmology=rnd.choice(COS), ppn_sampling=rnd.random()<.5,
      lambda_mst_sampling=rnd.random()<.6, lambda_mst_distribution=rnd.choice(["NONE","GAUSSIAN"]),
      anisotropy_sampling=rnd.random()<.6, anisotropy_model=rnd.choice(["OM","GOM","const","NONE"]),
      anisotropy_distribution=rnd.choice(["NONE","GAUSSIAN","GAUSSIAN_SCALED"]),
      gamma_in_sampling=rnd.random()<.5, gamma_in_distribution=rnd.choice(["NONE","GAUSSIAN"]),
      log_m2l_sampling=rnd.random()<.5, log_m2l_distribution=rnd.choice(["NONE","GAUSSIAN"]),
      lambda_ifu_sampling=rnd.random()<.5, lambda_ifu_distribution=rnd.choice(["NONE","GAUSSIAN"]),
      alpha_lambda_sampling=rnd.random()<.5, beta_lambda_sampling=rnd.random()<.5,
      alpha_gamma_in_sampling=rnd.random()<.5, alpha_log_m2l_sampling=rnd.random()<.5,
      gamma_pl_num=rnd.randint(0,3), gamma_pl_global_sampling=rnd.random()<.5, gamma_pl_global_dist=rnd.choice(["NONE","GAUSSIAN"]),
      sigma_v_systematics=rnd.random()<.5, sne_apparent_m_sampling=rnd.random()<.5, sne_distribution=rnd.choice(["GAUSSIAN","NONE"]),
      log_scatter=rnd.random()<.5, los_sampling=rnd.random()<.7, los_distributions=losd)
    allk = dict(cosmo=["h0","om","w","w0","wa","ok","gamma_ppn"],
       lens=["lambda_mst","lambda_mst_sigma","lambda_ifu","lambda_ifu_sigma","gamma_in","gamma_in_sigma","log_m2l","log_m2l_sigma","alpha_lambda","beta_lambda","alpha_gamma_in","alpha_log_m2l","gamma_pl_mean","gamma_pl_sigma"],
       kin=["a_ani","a_ani_sigma","beta_inf","beta_inf_sigma","sigma_v_sys_error"], source=["mu_sne","sigma_sne"])
    for b, ks in allk.items():
        cfg["kwargs_fixed_"+b] = {k: 1000+rnd.random() for k in ks if rnd.random()<.25}
    cfg["kwargs_fixed_los"] = [{k: 2000+rnd.random() for k in ["mean","sigma","xi"] if rnd.random()<.25} for _ in losd]
    return cfg
bad = 0
for t in range(3000):
    cfg = rand_cfg()
    pm = ParamManager(**cfg)
    names = pm.param_list(); latex = pm.param_list(latex_style=True)
    n = len(names)
    assert len(latex) == n == pm.num_param
    args = [0.1 + 0.37*i for i in range(n)]
    kw = pm.args2kwargs(args)
    back = pm.kwargs2args(*kw)
    if not np.allclose(back, args, rtol=1e-13, atol=0) or len(back) != n:
        bad += 1; print("ROUNDTRIP", cfg, args, back); break
    # name alignment: perturb component i, find which dict entry changes
    flat = lambda kw: {**{("c",k):v for k,v in kw[0].items()}, **{("l",k):(tuple(v) if isinstance(v,list) else v) for k,v in kw[1].items()}, **{("k",k):v for k,v in kw[2].items()}, **{("s",k):v for k,v in kw[3].items()}, **{("los%d"%j,k):v for j,d in enumerate(kw[4]) for k,v in d.items()}}
    f0 = flat(kw)
    for i in range(n):
        a2 = list(args); a2[i] += 0.5
        f1 = flat(pm.args2kwargs(a2))
        ch = [k for k in f0 if f0[k] != f1[k]]
        if len(ch) != 1: bad += 1; print("MULTI", cfg, i, ch); break
        key = ch[0]
        nm = names[i]
        if key[0].startswith("los"):
            exp = "%s_los_%s" % (key[1], key[0][3:])
        elif key[1] == "gamma_pl_list":
            j = [x != y for x, y in zip(f0[key], f1[key])].index(True); exp = "gamma_pl_%d" % j
        else: exp = key[1]
        if exp != nm: bad += 1; print("NAME", cfg, i, nm, exp); break
    # fixed
    for b, idx in [("cosmo",0),("lens",1),("kin",2),("source",3)]:
        for k, v in cfg["kwargs_fixed_"+b].items():
            if k in kw[idx] and kw[idx][k] != v: bad += 1; print("FIXEDVAL", k)
            if k in names: bad += 1; print("FIXED IN NAMES", k, cfg)
print("done bad=", bad)
