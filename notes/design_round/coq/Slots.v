From Coq Require Import Reals List String Bool Arith Lia Lra.
Require Import Ladder.
Import ListNotations.
Open Scope string_scope.

(* ---------- guarded slots ---------- *)
Inductive tsel := T1 (t : tr) | TIf (a : atom) (t1 t2 : tr).
Definition tsel_sem (c : cfg) (t : tsel) : R -> R :=
  match t with T1 t => trsem t | TIf a t1 t2 => if aeval c a then trsem t1 else trsem t2 end.
Inductive src := Fixed | Free (t : tsel).
Record slot := { sg : guard; sk : string; ss : src }.
Record kslot := { kg : guard; kk : string; kt : tsel }.

Definition run_slot (c : cfg) (args : list R) (s : slot) (st0 : st) : option st :=
  let '(kw, i) := st0 in
  if geval c (sg s) then
    match ss s with
    | Fixed => match lookup (sk s) (cfix c) with Some v => Some ((sk s, v) :: kw, i) | None => None end
    | Free t => match nth_error args i with Some x => Some ((sk s, tsel_sem c t x) :: kw, S i) | None => None end
    end
  else Some st0.
Fixpoint run_slots c args (l : list slot) (s : st) : option st :=
  match l with [] => Some s | x :: r => match run_slot c args x s with Some s' => run_slots c args r s' | None => None end end.

Fixpoint run_k2a (c : cfg) (kw : list (string * R)) (l : list kslot) : option (list R) :=
  match l with
  | [] => Some []
  | x :: r =>
      if geval c (kg x) then
        match lookup (kk x) kw, run_k2a c kw r with
        | Some v, Some vs => Some (tsel_sem c (kt x) v :: vs)
        | _, _ => None
        end
      else run_k2a c kw r
  end.

(* ---------- the decidable compatibility check ---------- *)
Definition tr_eqb (a b : tr) : bool :=
  match a, b with Id, Id | Pow10, Pow10 | Log10, Log10 => true | _, _ => false end.
Definition tr_inv (a b : tr) : bool :=    (* b undoes a *)
  match a, b with Id, Id | Pow10, Log10 => true | _, _ => false end.
Scheme Equality for list.
Definition atom_eqb (a b : atom) : bool :=
  match a, b with
  | ABool f, ABool g => String.eqb f g
  | AStrEq f v, AStrEq g w => String.eqb f g && String.eqb v w
  | AStrIn f vs, AStrIn g ws => String.eqb f g && list_beq string String.eqb vs ws
  | AFixed k, AFixed l => String.eqb k l
  | _, _ => false
  end.
Lemma list_beq_string_eq l1 l2 : list_beq string String.eqb l1 l2 = true -> l1 = l2.
Proof. revert l2; induction l1; destruct l2; cbn; try discriminate; auto.
  intros H; apply andb_true_iff in H as [H1 H2]. apply String.eqb_eq in H1. f_equal; auto. Qed.
Lemma atom_eqb_eq a b : atom_eqb a b = true -> a = b.
Proof.
  destruct a, b; cbn; try discriminate; intros H.
  - apply String.eqb_eq in H; congruence.
  - apply andb_true_iff in H as [H1 H2]. apply String.eqb_eq in H1, H2; congruence.
  - apply andb_true_iff in H as [H1 H2]. apply String.eqb_eq in H1. apply list_beq_string_eq in H2; congruence.
  - apply String.eqb_eq in H; congruence.
Qed.
Definition lit_eqb (x y : lit) := atom_eqb (fst x) (fst y) && Bool.eqb (snd x) (snd y).
Lemma lit_eqb_eq x y : lit_eqb x y = true -> x = y.
Proof. destruct x, y; unfold lit_eqb; cbn. intros H. apply andb_true_iff in H as [H1 H2].
  apply atom_eqb_eq in H1. apply Bool.eqb_prop in H2. congruence. Qed.
Fixpoint guard_eqb (g h : guard) : bool :=
  match g, h with [], [] => true | x :: g', y :: h' => lit_eqb x y && guard_eqb g' h' | _, _ => false end.
Lemma guard_eqb_eq g h : guard_eqb g h = true -> g = h.
Proof. revert h; induction g; destruct h; cbn; try discriminate; auto.
  intros H. apply andb_true_iff in H as [H1 H2]. apply lit_eqb_eq in H1. f_equal; auto. Qed.

Definition tsel_inv (a b : tsel) : bool :=
  match a, b with
  | T1 x, T1 y => tr_inv x y
  | TIf p x1 x2, TIf q y1 y2 => atom_eqb p q && tr_inv x1 y1 && tr_inv x2 y2
  | _, _ => false
  end.

(* free slots of S must pair off, in order, with K *)
Fixpoint compat (S : list slot) (K : list kslot) : bool :=
  match S with
  | [] => match K with [] => true | _ => false end
  | s :: S' =>
      match ss s with
      | Fixed => compat S' K
      | Free t =>
          match K with
          | k :: K' => guard_eqb (sg s) (kg k) && String.eqb (sk s) (kk k) && tsel_inv t (kt k) && compat S' K'
          | [] => false
          end
      end
  end.
Fixpoint nodupb (l : list string) : bool :=
  match l with [] => true | x :: r => negb (mem x r) && nodupb r end.

(* ---------- soundness ---------- *)
Lemma ln10_neq0 : ln 10 <> 0%R.
Proof. assert (0 < ln 10)%R by (rewrite <- ln_1; apply ln_increasing; lra). lra. Qed.
Lemma tr_inv_sound a b x : tr_inv a b = true -> trsem b (trsem a x) = x.
Proof.
  destruct a, b; cbn; try discriminate; intros _; [reflexivity|].
  unfold Rpower. rewrite ln_exp. field. apply ln10_neq0.
Qed.
Lemma tsel_inv_sound c a b x : tsel_inv a b = true -> tsel_sem c b (tsel_sem c a x) = x.
Proof.
  destruct a as [t|p t1 t2], b as [u|q u1 u2]; cbn; try discriminate.
  - apply tr_inv_sound.
  - intros H. apply andb_true_iff in H as [H H2]. apply andb_true_iff in H as [H0 H1].
    apply atom_eqb_eq in H0; subst q. destruct (aeval c p); now apply tr_inv_sound.
Qed.

Lemma mem_false_neq k l : mem k l = false -> forall x, In x l -> x <> k.
Proof. unfold mem. intros H x Hx ->. assert (existsb (String.eqb k) l = true).
  { apply existsb_exists. exists k; split; auto. apply String.eqb_refl. } congruence. Qed.

(* keys set by the remaining slots never clash with what is already in kw *)
Lemma run_slots_lookup c args : forall S kw i kw' n k v,
  run_slots c args S (kw, i) = Some (kw', n) ->
  lookup k kw = Some v -> mem k (map sk S) = false -> lookup k kw' = Some v.
Proof.
  induction S as [|s S IH]; intros kw i kw' n k v Hr Hk Hm; cbn in Hr.
  - now inversion Hr; subst.
  - cbn [map] in Hm. unfold mem in Hm. cbn in Hm. apply orb_false_iff in Hm as [Hks Hm].
    unfold run_slot in Hr. destruct (geval c (sg s)).
    + destruct (ss s).
      * destruct (lookup (sk s) (cfix c)); [|discriminate].
        eapply IH; [exact Hr| |exact Hm]. cbn. now rewrite Hks.
      * destruct (nth_error args i); [|discriminate].
        eapply IH; [exact Hr| |exact Hm]. cbn. now rewrite Hks.
    + eapply IH; eauto.
Qed.

Theorem roundtrip_slots c args : forall S K kw i kw' n,
  compat S K = true -> nodupb (map sk S) = true ->
  run_slots c args S (kw, i) = Some (kw', n) ->
  i <= n /\ n <= List.length args /\ run_k2a c kw' K = Some (firstn (n - i) (skipn i args)) \/ (i > List.length args).
Proof.
  induction S as [|s S IH]; intros K kw i kw' n Hc Hn Hr.
  - cbn in Hc, Hr. destruct K; [|discriminate]. inversion Hr; subst.
    destruct (le_gt_dec n (List.length args)); [left|right; lia]. repeat split; auto.
    rewrite Nat.sub_diag. reflexivity.
  - cbn [map nodupb] in Hn. apply andb_true_iff in Hn as [Hfresh Hn]. apply negb_true_iff in Hfresh.
    cbn [run_slots] in Hr. cbn [compat] in Hc. unfold run_slot in Hr.
    destruct (ss s) as [|t] eqn:Hs.
    + (* Fixed *)
      destruct (geval c (sg s)).
      * destruct (lookup (sk s) (cfix c)); [|discriminate]. eapply IH; eauto.
      * eapply IH; eauto.
    + destruct K as [|k K]; [discriminate|].
      apply andb_true_iff in Hc as [Hc HcK]. apply andb_true_iff in Hc as [Hc Hinv].
      apply andb_true_iff in Hc as [Hg Hk]. apply guard_eqb_eq in Hg. apply String.eqb_eq in Hk.
      cbn [run_k2a]. rewrite <- Hg, <- Hk.
      destruct (geval c (sg s)) eqn:Hge.
      * destruct (nth_error args i) as [x|] eqn:Hx; [|discriminate].
        assert (Hi : i < List.length args) by (apply nth_error_Some; congruence).
        pose proof (run_slots_lookup c args S _ _ _ _ (sk s) (tsel_sem c t x) Hr) as Hl.
        rewrite Hl; [|cbn; now rewrite String.eqb_refl|exact Hfresh].
        destruct (IH K _ _ _ _ HcK Hn Hr) as [(H1 & H2 & H3)|H3]; [|lia].
        left. repeat split; try lia. rewrite H3.
        rewrite (tsel_inv_sound c _ _ _ Hinv).
        replace (n - i) with (Datatypes.S (n - Datatypes.S i)) by lia.
        f_equal.
        assert (Hsk : skipn i args = x :: skipn (Datatypes.S i) args).
        { clear -Hx. revert args Hx; induction i; intros [|a l]; cbn; try discriminate.
          - now intros [= ->]. - intros H; now apply IHi. }
        rewrite Hsk. reflexivity.
      * eapply IH; eauto.
Qed.
Print Assumptions roundtrip_slots.
