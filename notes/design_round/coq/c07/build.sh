#!/bin/sh
# exploratory prototype (design round): the num_data table of the 14 likelihood classes, read in Coq from the serialised classes
set -e
python3 py2coq.py spec.json Src.v
for f in PyAst Src NumData; do timeout 120 coqc -Q . Py $f.v; done
rm -f *.vo *.vok *.vos *.glob .*.aux Src.v
echo PROTOTYPE_OK
