From Coq Require Import ZArith String List Bool.
Require Import Py.PyAst Py.Src.
Import ListNotations.
Open Scope string_scope.

(* does the constructor body assign self.<a> (at top level or inside if-branches)? *)
Fixpoint assigns_self (fuel : nat) (a : string) (ss : list stmt) : bool :=
  match fuel with O => false | S f =>
  existsb (fun s => match s with
    | SAssign (EAttr (EName x) b) _ => String.eqb x "self" && String.eqb b a
    | SIf _ t e => assigns_self f a t || assigns_self f a e
    | _ => false end) ss end.
(* what the base class does: `return self._lens_type.num_data` -- an attribute read, not a call *)
Definition base_reads_attr : bool :=
  match f_body src_LensLikelihoodBase_num_data with
  | [SReturn (Some (EAttr (EAttr (EName s) lt) nd))] => String.eqb s "self" && String.eqb lt "_lens_type" && String.eqb nd "num_data"
  | _ => false end.

Inductive kind := Attr | Method | Missing.
Definition kind_of (init : fundef) (meth : option fundef) : kind :=
  if assigns_self 20 "num_data" (f_body init) then Attr else match meth with Some _ => Method | None => Missing end.
Definition table : list (string * kind) :=
  [("DdtGaussian", kind_of src_DdtGaussianLikelihood_init None);
   ("DdtDdKDE", kind_of src_DdtDdKDELikelihood_init None);
   ("DdtDdGaussian", kind_of src_DdtDdGaussian_init None);
   ("DsDdsGaussian", kind_of src_DsDdsGaussianLikelihood_init None);
   ("DdtLogNorm", kind_of src_DdtLogNormLikelihood_init None);
   ("IFUKinCov", kind_of src_KinLikelihood_init None);
   ("DdtHist", kind_of src_DdtHistLikelihood_init None);
   ("DdtHistKDE", kind_of src_DdtHistKDELikelihood_init None);
   ("DdtHistKin", kind_of src_DdtHistKinLikelihood_init None);
   ("DdtGaussKin", kind_of src_DdtGaussKinLikelihood_init None);
   ("Mag", kind_of src_MagnificationLikelihood_init None);
   ("TDMag", kind_of src_TDMagLikelihood_init None);
   ("TDMagMagnitude", kind_of src_TDMagMagnitudeLikelihood_init None);
   ("DSPL", kind_of src_DSPLikelihood_init (Some src_DSPLikelihood_num_data))].
Eval vm_compute in (base_reads_attr, table).

(* C07/C14: the base returns the attribute uncalled, so every type must store an integer attribute.  Refuted: *)
Theorem C07_num_data_refuted : base_reads_attr = true /\ exists t, In (t, Method) table.
Proof. split; [vm_compute; reflexivity|]. exists "DSPL". vm_compute. repeat (try (left; reflexivity); right). Qed.
Theorem C07_num_data_others : forall t k, In (t, k) table -> t <> "DSPL" -> k = Attr.
Proof.
  intros t k H Hn. vm_compute in H.
  repeat (destruct H as [H|H]; [injection H as <- <-; try reflexivity; exfalso; apply Hn; reflexivity|]).
  contradiction.
Qed.
