From Coq Require Import Reals ZArith String List Bool Lra Lia.
Require Import Py.PyAst Py.PyVal Py.PySem Py.Src Py.XLemmas Py.Unfold.
Import ListNotations.
Open Scope string_scope.
Fixpoint assoc {A} (k : string) (l : list (string * A)) : option A :=
  match l with [] => None | (k', v) :: t => if String.eqb k k' then Some v else assoc k t end.
Definition num (r : R) := VNum (Fin r).
Definition dict (l : list (string * val)) := VDict (map (fun kv => (VStr (fst kv), snd kv)) l).
Definition single_oracle : callee :=
  COracle (fun args kws w => Ok (num (rng w (cur w)), World (rng w) (S (cur w)) (("single", []) :: olog w) (decs w) (pc w))).
Definition mtab : list (string * callee) :=
  [("draw_bool", CFun src_LOSDistribution_draw_bool);
   ("check_dist", CFun src_LensLikelihood_check_dist);
   ("_kwargs_init", CFun src_LensLikelihood_kwargs_init);
   ("log_likelihood_single", single_oracle);
   ("hyper_param_likelihood", CFun src_LensLikelihood_hyper_param_likelihood)].
Definition G : fenv := FEnv (fun cls m => assoc m mtab) (fun _ => None).
Definition los_none := VObj "LOSDistribution" [("_draw_kappa_individual", VBool false); ("_draw_kappa_global", VBool false)].
Definition lens_obj (N : Z) := VObj "LensLikelihood" [("_los", los_none); ("_num_distribution_draws", VInt N)].
Open Scope R_scope.

Fixpoint acc (l : nat -> R) (k : nat) : R := match k with O => IZR 0 | S j => acc l j + exp (l j) end.
Fixpoint pcs (l : nat -> R) (s : R) (k : nat) : list Prop := match k with O => [s <> 0] | S j => (0 < exp (l j)) :: pcs l s j end.
Fixpoint reps (n : nat) (tl : list bool) : list bool := match n with O => tl | S m => true :: reps m tl end.
Ltac RUNR t := let r := eval lazy -[Rplus Rmult Rminus Rdiv Rinv Ropp Rmax Rmin Rlt Rle Rgt Rge ln exp sqrt log10 IZR dec Rpower pow PI DBL_MAX not Z.of_nat reps repeat zrange Z.to_nat acc pcs] in t in change t with r.
Ltac RUNF t := let r := eval lazy -[Rplus Rmult Rminus Rdiv Rinv Ropp Rmax Rmin Rlt Rle Rgt Rge ln exp sqrt log10 IZR dec Rpower pow PI DBL_MAX not Z.of_nat reps repeat acc pcs] in t in change t with r.
Lemma run_stmts_cons step s rest ρ w :
  run_stmts step (s :: rest) ρ w = seq_out (step s ρ w) (fun ρ' w' => run_stmts step rest ρ' w').
Proof. reflexivity. Qed.
(* run the next statement of a closed prefix *)
Ltac STEP :=
  rewrite run_stmts_cons;
  match goal with |- context [seq_out (exec_stmt ?t ?a ?es ?b ?c ?d ?e ?f) _] => RUNF (exec_stmt t a es b c d e f) end;
  cbn [seq_out bind fst snd].



Definition envk (N : nat) (s a : R) (j : nat) (ll : R) : env :=
  [("self", lens_obj (Z.of_nat N)); ("ddt", VNum (Fin 4000)); ("dd", VNum (Fin 1200));
   ("delta_lum_dist", VNum (Fin 0)); ("beta_dsp", VNone);
   ("kwargs_lens", VDict [(VStr "lambda_mst_sigma", VNum (Fin s))]);
   ("kwargs_kin", VDict []); ("kwargs_source", VDict []); ("kwargs_los", VNone); ("cosmo", VNone);
   ("kwargs_kin_copy", VDict []); ("sigma_v_sys_error", VNone);
   ("likelihood", VNum (Fin a)); ("i", VInt (Z.of_nat j)); ("logl", VNum (Fin ll)); ("exp_logl", VNum (Fin (exp ll)))].
Definition wk (l : nat -> R) (s : R) (k m : nat) (tl : list bool) : world :=
  World l k (repeat ("single", []) k) (reps m tl) (pcs l s k).

Lemma loop_rest N l s tl step :
  step = for_step (eval G 197) (exec G 197) 197 (EName "i")
              (ECall (EName "range") [EAttr (EName "self") "_num_distribution_draws"] [])
              (match src_LensLikelihood_hyper_param_likelihood with
               | FunDef _ _ _ _ body => match nth 5 body SPass with SIf _ _ (_ :: SFor _ _ b :: _) => b | _ => [] end end) ->
  forall m j,
  iter_loop step (zrange (Z.of_nat (S j)) m) (Z.of_nat (S j)) (envk N s (acc l (S j)) j (l j)) (wk l s (S j) m tl)
  = Ok (ONormal (envk N s (acc l (S j + m)) (j + m) (l (j + m)%nat)), wk l s (S j + m) 0 tl).
Proof.
  intros Hstep. induction m as [|m IH]; intros j.
  - cbn [iter_loop zrange]. rewrite !Nat.add_0_r. reflexivity.
  - cbn [zrange iter_loop]. subst step. unfold wk, envk. cbn [reps].
    match goal with |- context [for_step ?a ?b ?c ?d ?e ?f ?g ?h ?i ?jj] => RUNF (for_step a b c d e f g h i jj) end.
    cbn [bind fst snd].
    replace (Z.of_nat (S j) + 1)%Z with (Z.of_nat (S (S j))) by lia.
    change (acc l (S j) + exp (l (S j))) with (acc l (S (S j))).
    specialize (IH (S j)). unfold envk, wk in IH |- *. cbn [repeat reps pcs] in IH |- *.
    replace (S j + S m)%nat with (S (S j) + m)%nat by lia.
    replace (j + S m)%nat with (S j + m)%nat by lia.
    exact IH.
Qed.
Theorem hyper_param_is_log_mean : forall (N : nat) (l : nat -> R) (s : R), s <> 0 -> (1 <= N)%nat ->
  yields G 200 (CFun src_LensLikelihood_hyper_param_likelihood) (Some (lens_obj (Z.of_nat N)))
    [num 4000; num 1200; num 0] [("kwargs_lens", dict [("lambda_mst_sigma", num s)])] l 0
    (num (ln (acc l N / IZR (Z.of_nat N)))) N (repeat ("single", []) N).
Proof.
  intros N l s Hs HN. unfold yields. destruct N as [|N']; [lia|].
  exists (false :: reps (S N') [false; false; true]). eexists. split.
  rewrite call_fun.
  cbv beta zeta delta [f_static f_params f_kwarg f_body src_LensLikelihood_hyper_param_likelihood] iota.
  match goal with |- context [bind_params ?a ?b ?c ?d] => RUNF (bind_params a b c d) end.
  cbn [bind fst snd].
  rewrite exec_S.
  do 5 STEP.
  rewrite run_stmts_cons. cbn [exec_stmt].
  match goal with |- context [eval G 198 ?c ?r ?w] => RUNF (eval G 198 c r w) end.
  cbn [bind fst snd]. 
  match goal with |- context [m_truthy ?a ?b] => RUNF (m_truthy a b) end.
  cbn [bind fst snd].
  (* the else block *)
  rewrite exec_S. STEP.
  rewrite run_stmts_cons. cbn [exec_stmt].
  match goal with |- context [eval G 197 ?c ?r ?w] => RUNR (eval G 197 c r w) end.
  cbn [bind fst snd as_list]. rewrite Nat2Z.id.
  cbn [zrange reps iter_loop].
  match goal with |- context [for_step ?a ?b ?c ?d ?e ?f ?g ?h ?i ?j] => RUNF (for_step a b c d e f g h i j) end.
  cbn [bind fst snd].
  change (0 + 1)%Z with (Z.of_nat 1).
  change (0 + exp (l 0%nat)) with (acc l 1).
  match goal with |- context [iter_loop ?st ?it ?ix ?r ?w] =>
    let H := fresh in
    pose proof (loop_rest (S N') l s [false; false; true] st eq_refl N' 0%nat) as H;
    change (iter_loop st it ix r w)
      with (iter_loop st (zrange (Z.of_nat 1) N') (Z.of_nat 1) (envk (S N') s (acc l 1) 0 (l 0%nat)) (wk l s 1 N' [false; false; true]));
    rewrite H; clear H end.
  unfold envk, wk. cbn [seq_out bind fst snd Nat.add reps].
  match goal with |- context [run_stmts ?st ?ss ?r ?w] => RUNF (run_stmts st ss r w) end.
  cbn [seq_out bind fst snd run_stmts].
  reflexivity.
  (* the answers were all consumed, N single-draw calls were logged, and every asserted fact holds *)
  assert (Hacc : forall k, (1 <= k)%nat -> 0 < acc l k).
  { induction k as [|k IHk]; [lia|]. intros _. cbn [acc]. destruct k as [|k].
    - cbn [acc]. pose proof (exp_pos (l 0%nat)). lra.
    - pose proof (exp_pos (l (S k))). assert (0 < acc l (S k)) by (apply IHk; lia). lra. }
  assert (Hpcs : forall k, holds (pcs l s k)).
  { induction k as [|k IHk]; cbn [pcs holds]; [tauto|]. split; [apply exp_pos|exact IHk]. }
  pose proof (Hacc (S N') HN) as Hpos.
  assert (HNpos : 0 < IZR (Z.of_nat (S N'))) by (apply IZR_lt; lia).
  cbn [decs cur olog pc holds pcs]. repeat split; try lra; try apply Hpcs; try apply exp_pos.
  apply Rdiv_lt_0_compat; lra.
Qed.
Print Assumptions hyper_param_is_log_mean.
