From Coq Require Import Reals ZArith String List Bool Lra.
Require Import Py.PyAst Py.PyVal Py.PySem Py.Src Py.XLemmas.
Import ListNotations.
Open Scope string_scope.
Fixpoint assoc {A} (k : string) (l : list (string * A)) : option A :=
  match l with [] => None | (k', v) :: t => if String.eqb k k' then Some v else assoc k t end.
Definition num (r : R) := VNum (Fin r).
Definition dict (l : list (string * val)) := VDict (map (fun kv => (VStr (fst kv), snd kv)) l).

(* the single-draw likelihood is an oracle: the k-th call returns the k-th entry of the stream and is logged *)
Definition single_oracle : callee :=
  COracle (fun args kws w => Ok (num (rng w (cur w)), World (rng w) (S (cur w)) (("single", []) :: olog w) (decs w) (pc w))).
Definition mtab : list (string * callee) :=
  [("draw_bool", CFun src_LOSDistribution_draw_bool);
   ("check_dist", CFun src_LensLikelihood_check_dist);
   ("_kwargs_init", CFun src_LensLikelihood_kwargs_init);
   ("log_likelihood_single", single_oracle);
   ("hyper_param_likelihood", CFun src_LensLikelihood_hyper_param_likelihood)].
Definition G : fenv := FEnv (fun cls m => assoc m mtab) (fun _ => None).
Definition los_none := VObj "LOSDistribution" [("_draw_kappa_individual", VBool false); ("_draw_kappa_global", VBool false)].
Definition lens_obj (N : Z) := VObj "LensLikelihood" [("_los", los_none); ("_num_distribution_draws", VInt N)].
Open Scope R_scope.

(* C04, N = 3: with a non-zero lambda_mst scatter the value is log of the MEAN of the three likelihoods,
   exactly three single-draw evaluations, for every stream of single-draw values *)
Theorem hyper_param_mean_of_three (l : nat -> R) (s : R) : s <> 0 ->
  yields G 200 (CFun src_LensLikelihood_hyper_param_likelihood) (Some (lens_obj 3))
    [num 4000; num 1200; num 0] [("kwargs_lens", dict [("lambda_mst_sigma", num s)])] l 0
    (num (ln ((exp (l 0%nat) + exp (l 1%nat) + exp (l 2%nat)) / 3))) 3
    [("single", []); ("single", []); ("single", [])].
Proof.
  intros Hs.
  (* answers: a_ani_sigma = 0 ? yes; lambda_mst_sigma = 0 ? no;  per draw: 0 < exp l ? yes (x3);
     likelihood <= 0 ? no;  N = 0 in the division ? no;  0 < mean ? yes *)
  exists [false;  true; true; true;  false; false; true]. eexists. split.
  run.
  replace (0 + exp (l 0%nat) + exp (l 1%nat) + exp (l 2%nat)) with (exp (l 0%nat) + exp (l 1%nat) + exp (l 2%nat)) by ring.
  reflexivity.
  cbn.
  pose proof (exp_pos (l 0%nat)); pose proof (exp_pos (l 1%nat)); pose proof (exp_pos (l 2%nat)).
  repeat split; try lra.

Qed.
