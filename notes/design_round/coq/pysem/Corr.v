From Coq Require Import Reals ZArith String List Bool Lra.
From Interval Require Import Tactic.
Require Import Py.PyAst Py.PyVal Py.PySem Py.Src Py.XLemmas.
Import ListNotations.
Open Scope string_scope.
Fixpoint assoc {A} (k : string) (l : list (string * A)) : option A :=
  match l with [] => None | (k', v) :: t => if String.eqb k k' then Some v else assoc k t end.
Definition mtab : list (string * callee) :=
  [("_displace_ppn", CFun src_TransformedCosmography_displace_ppn);
   ("_displace_lambda_mst", CFun src_TransformedCosmography_displace_lambda_mst);
   ("displace_prediction", CFun src_TransformedCosmography_displace_prediction)].
Definition G : fenv := FEnv (fun cls m => assoc m mtab) (fun _ => None).
Definition self := VObj "LensLikelihood" [].
Definition num (r : R) := VNum (Fin r).
Open Scope R_scope.

(* numeric agreement of a model value with the float the implementation printed *)
Fixpoint close (tol : R) (v : val) (py : list R) : Prop :=
  match v, py with
  | VTuple (VNum (Fin x) :: r), p :: q => Rabs (x - p) <= tol * Rmax 1 (Rabs p) /\ close tol (VTuple r) q
  | VTuple [], [] => True
  | VNum (Fin x), [p] => Rabs (x - p) <= tol * Rmax 1 (Rabs p)
  | _, _ => False
  end.

Ltac norm_max :=
  repeat match goal with
  | |- context [Rmax ?a ?b] => first [ rewrite (Rmax_left a b) by lra | rewrite (Rmax_right a b) by lra ]
  | |- context [Rmin ?a ?b] => first [ rewrite (Rmin_left a b) by lra | rewrite (Rmin_right a b) by lra ]
  end.
Ltac real_fact :=
  norm_dec; norm_max;
  first [ lra | interval
        | apply Rle_not_lt; first [lra | interval] | apply Rlt_not_le; first [lra | interval]
        | apply Rlt_not_eq; first [lra | interval]
        | apply Rgt_not_eq; first [lra | interval] ].

(* find the answers by asking the interpreter which fact it needs next *)
Ltac find_answers mk ds :=
  let r := eval lazy -[Rplus Rmult Rminus Rdiv Rinv Ropp Rmax Rmin Rlt Rle Rgt Rge ln exp sqrt log10 IZR dec Rpower pow PI DBL_MAX not Rabs] in (mk ds) in
  lazymatch r with
  | Need ?P =>
      first [ (let H := fresh in assert (H : P) by real_fact; clear H);
              let ds' := eval cbv in (ds ++ [true])%list in find_answers mk ds'
            | (let H := fresh in assert (H : ~ P) by real_fact; clear H);
              let ds' := eval cbv in (ds ++ [false])%list in find_answers mk ds' ]
  | Ok _ => exists ds
  | ?other => fail 1 "interpreter stopped with" other
  end.

(* one generated correspondence case: inputs as decimals, the implementation's output as decimals *)
Lemma case_0001 : exists ds v w',
  call G 100 (CFun src_TransformedCosmography_displace_prediction) (Some self)
       [num 4123.5; num 1310.25] [("gamma_ppn", num 1.2); ("lambda_mst", num 0.93); ("kappa_ext", num (-0.04)); ("mag_source", num 19.7)]
       (World (fun _ => 0) 0 [] ds []) = Ok (v, w')
  /\ decs w' = [] /\ holds (pc w')
  /\ close 1e-9 v [3988.24920; 1441.275; 19.627581439263576].
Proof.
  find_answers (fun ds => call G 100 (CFun src_TransformedCosmography_displace_prediction) (Some self)
       [num 4123.5; num 1310.25] [("gamma_ppn", num 1.2); ("lambda_mst", num 0.93); ("kappa_ext", num (-0.04)); ("mag_source", num 19.7)]
       (World (fun _ => 0) 0 [] ds [])) (@nil bool).
  do 2 eexists. split; [run; reflexivity|].
  cbn -[Rabs Rmax log10 Rmult Rminus Rplus Rdiv Rle Rlt dec Ropp].
  norm_dec. norm_max. unfold log10.
  repeat split; try lra; try (intro; lra).
  all: rewrite Rmax_right by (apply Rabs_pos_lt || (unfold Rabs; destruct (Rcase_abs _); lra)); try interval.
Qed.
