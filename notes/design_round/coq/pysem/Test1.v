From Coq Require Import Reals ZArith String List Bool Lra.
Require Import Py.PyAst Py.PyVal Py.PySem Py.Src Py.XLemmas.
Import ListNotations.
Open Scope string_scope.
Definition mtab : list (string * callee) :=
  [("_displace_ppn", CFun src_TransformedCosmography_displace_ppn);
   ("_displace_lambda_mst", CFun src_TransformedCosmography_displace_lambda_mst);
   ("displace_prediction", CFun src_TransformedCosmography_displace_prediction);
   ("draw_bool", CFun src_LOSDistribution_draw_bool);
   ("check_dist", CFun src_LensLikelihood_check_dist)].
Fixpoint assoc {A} (k : string) (l : list (string * A)) : option A :=
  match l with [] => None | (k', v) :: t => if String.eqb k k' then Some v else assoc k t end.
Definition G : fenv := FEnv (fun cls m => assoc m mtab) (fun _ => None).
Definition self := VObj "LensLikelihood" [].
Definition num (r : R) := VNum (Fin r).
Definition dict (l : list (string * val)) := VDict (map (fun kv => (VStr (fst kv), snd kv)) l).
Open Scope R_scope.

Theorem displace_prediction_spec ddt dd g lam kap m rg cu :
  1/10000 <= lam * (1 - kap) ->
  yields G 100 (CFun src_TransformedCosmography_displace_prediction) (Some self)
       [num ddt; num dd] [("gamma_ppn", num g); ("lambda_mst", num lam); ("kappa_ext", num kap); ("mag_source", num m)] rg cu
       (VTuple [num (ddt * (lam * (1 - kap))); num (dd * (1 + g) / 2); num (m + 5 * log10 (lam * (1 - kap)))]) cu [].
Proof.
  intros H. assert (lam <> 0) by (intro; subst; lra).
  exists [false; false; true]. eexists. split.
  Time run. Time norm_dec.
  Time replace (lam * (1 + - kap)) with (lam * (1 - kap)) by ring.
  Time rewrite Rmax_left by lra.
  unfold num. Time replace (dd * (1 + g) / (20 / 10) * lam / lam) with (dd * (1 + g) / 2) by (field; assumption).
  Time reflexivity.
  Time cbn.
  Time repeat split; try lra.
Time Qed.

Definition los_none := VObj "LOSDistribution" [("_draw_kappa_individual", VBool false); ("_draw_kappa_global", VBool false)].
Definition lens_obj := VObj "LensLikelihood" [("_los", los_none)].

(* C04: the sharp/distribution decision ignores the IFU scatter *)
Theorem check_dist_ignores_ifu_scatter : exists s_ifu : R, s_ifu <> 0 /\ forall rg cu,
  yields G 60 (CFun src_LensLikelihood_check_dist) (Some lens_obj)
    [dict [("lambda_mst_sigma", num 0); ("lambda_ifu_sigma", num s_ifu)]; dict []; dict []; VNone] [] rg cu (VBool true) cu [].
Proof.
  exists (1/5). split; [lra|]. intros rg cu.
  exists [true]. eexists. split.
  Time run.
  Time reflexivity.
  Time cbn.
  Time repeat split; lra.
Time Qed.
Print Assumptions check_dist_ignores_ifu_scatter.
