#!/bin/sh
# exploratory prototype (design round): serialise a few real hierArc functions and prove C03/C04 facts about them
set -e
python3 py2coq.py spec.json Src.v
for f in PyAst PyVal PySem Src XLemmas Unfold Test1 Test3 Corr TestN; do timeout 300 coqc -Q . Py $f.v; done
rm -f *.vo *.vok *.vos *.glob .*.aux Src.v
echo PROTOTYPE_OK
