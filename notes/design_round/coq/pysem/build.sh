#!/bin/sh
# exploratory prototype (design round): serialise real hierArc functions and prove C03/C04/C09 facts about them
set -e
python3 py2coq.py spec.json Src.v
python3 py2coq.py spec2.json Src2.v
for f in PyAst PyVal PySem Src Src2 XLemmas Unfold Test1 Test3 Corr TestN TestRec; do timeout 300 coqc -Q . Py $f.v > /dev/null; done
rm -f *.vo *.vok *.vos *.glob .*.aux Src.v Src2.v
echo PROTOTYPE_OK
