From Coq Require Import Reals List String Bool Arith Lia Lra.
Import ListNotations.
Open Scope string_scope.

(* ---------- configuration and atoms ---------- *)
Inductive atom :=
| ABool (f : string)                       (* self._f is True *)
| AStrEq (f v : string)                    (* self._f == "v" *)
| AStrIn (f : string) (vs : list string)   (* self._f in [..] *)
| AFixed (k : string).                     (* "k" in self._kwargs_fixed *)

Record cfg := { cb : string -> bool; cs : string -> string; cfix : list (string * R) }.

Fixpoint lookup {A} (k : string) (l : list (string * A)) : option A :=
  match l with [] => None | (k', v) :: t => if String.eqb k k' then Some v else lookup k t end.
Definition mem (k : string) (l : list string) := existsb (String.eqb k) l.

Definition aeval (c : cfg) (a : atom) : bool :=
  match a with
  | ABool f => cb c f
  | AStrEq f v => String.eqb (cs c f) v
  | AStrIn f vs => mem (cs c f) vs
  | AFixed k => match lookup k (cfix c) with Some _ => true | None => false end
  end.

Definition lit := (atom * bool)%type.
Definition guard := list lit.
Definition leval (c : cfg) (l : lit) := Bool.eqb (aeval c (fst l)) (snd l).
Definition geval (c : cfg) (g : guard) := forallb (leval c) g.

(* ---------- ladder trees (image of the Python if-trees) ---------- *)
Inductive tr := Id | Pow10 | Log10.
Inductive act :=                  (* leaves of args2kwargs *)
| SetFixed (k : string) | SetArg (k : string) (t : tr) | Inc.
Inductive tree (L : Type) := Leaf (l : L) | If (a : atom) (t e : list (tree L)).
Arguments Leaf {L}. Arguments If {L}.

Definition trsem (t : tr) (x : R) : R :=
  match t with Id => x | Pow10 => Rpower 10 x | Log10 => (ln x / ln 10)%R end.

Definition st := (list (string * R) * nat)%type.
Definition do_act (c : cfg) (args : list R) (a : act) (s : st) : option st :=
  let '(kw, i) := s in
  match a with
  | SetFixed k => match lookup k (cfix c) with Some v => Some ((k, v) :: kw, i) | None => None end
  | SetArg k t => match nth_error args i with Some x => Some ((k, trsem t x) :: kw, i) | None => None end
  | Inc => Some (kw, S i)
  end.

Section Exec.
Variable (c : cfg) (args : list R).
Fixpoint exec_tree (fuel : nat) (t : tree act) (s : st) {struct fuel} : option st :=
  match fuel with O => None | S f =>
  match t with
  | Leaf a => do_act c args a s
  | If a th el =>
      (fix go (l : list (tree act)) (s : st) : option st :=
         match l with [] => Some s | x :: r => match exec_tree f x s with Some s' => go r s' | None => None end end)
        (if aeval c a then th else el) s
  end end.
End Exec.

(* flatten: path enumeration *)
Fixpoint flatten_tree (fuel : nat) (t : tree act) : list (guard * act) :=
  match fuel with O => [] | S f =>
  match t with
  | Leaf a => [([], a)]
  | If a th el =>
      map (fun ga => ((a, true) :: fst ga, snd ga)) (flat_map (flatten_tree f) th) ++
      map (fun ga => ((a, false) :: fst ga, snd ga)) (flat_map (flatten_tree f) el)
  end end.

Fixpoint exec_flat (c : cfg) (args : list R) (l : list (guard * act)) (s : st) : option st :=
  match l with
  | [] => Some s
  | (g, a) :: r => if geval c g then match do_act c args a s with Some s' => exec_flat c args r s' | None => None end
                   else exec_flat c args r s
  end.

Fixpoint exec_list (c : cfg) (args : list R) (fuel : nat) (l : list (tree act)) (s : st) : option st :=
  match l with [] => Some s | x :: r => match exec_tree c args fuel x s with Some s' => exec_list c args fuel r s' | None => None end end.

Lemma exec_flat_app c args l1 l2 s :
  exec_flat c args (l1 ++ l2) s = match exec_flat c args l1 s with Some s' => exec_flat c args l2 s' | None => None end.
Proof.
  revert s; induction l1 as [|[g a] r IH]; intros s; cbn [app exec_flat]; [reflexivity|].
  destruct (geval c g); [destruct (do_act c args a s)|]; auto.
Qed.

Lemma geval_cons c a b g : geval c ((a, b) :: g) = Bool.eqb (aeval c a) b && geval c g.
Proof. reflexivity. Qed.

Lemma exec_flat_guard_on c args a b l s : aeval c a = b ->
  exec_flat c args (map (fun ga => ((a, b) :: fst ga, snd ga)) l) s = exec_flat c args l s.
Proof.
  intros H; revert s; induction l as [|[g x] r IH]; intros s; cbn [map exec_flat fst snd]; [reflexivity|].
  rewrite geval_cons, H, Bool.eqb_reflx. cbn [andb].
  destruct (geval c g); [destruct (do_act c args x s)|]; auto.
Qed.
Lemma exec_flat_guard_off c args a b l s : aeval c a = negb b ->
  exec_flat c args (map (fun ga => ((a, b) :: fst ga, snd ga)) l) s = Some s.
Proof.
  intros H; revert s; induction l as [|[g x] r IH]; intros s; cbn [map exec_flat fst snd]; [reflexivity|].
  rewrite geval_cons, H. replace (Bool.eqb (negb b) b) with false by (destruct b; reflexivity).
  cbn [andb]. apply IH.
Qed.

(* depth bound so that fuel suffices *)
Fixpoint depth (t : tree act) : nat :=
  match t with Leaf _ => 1 | If _ th el =>
    S (fold_right Nat.max 0 (map depth th ++ map depth el)) end.

Lemma max_in l x : In x l -> x <= fold_right Nat.max 0 l.
Proof. induction l; cbn; [tauto|]. intros [->|H]; [lia|]. specialize (IHl H). lia. Qed.

Lemma flatten_sound c args : forall fuel t s, depth t <= fuel ->
  exec_tree c args fuel t s = exec_flat c args (flatten_tree fuel t) s.
Proof.
  induction fuel as [|f IH]; intros t s Hd.
  - destruct t; cbn in Hd; lia.
  - destruct t as [a|a th el]; cbn [exec_tree flatten_tree].
    + cbn. destruct (do_act c args a s); reflexivity.
    + assert (Hth : forall x, In x th -> depth x <= f).
      { intros x Hx. cbn in Hd. apply le_S_n in Hd.
        etransitivity; [|exact Hd]. apply max_in. apply in_or_app; left. now apply in_map. }
      assert (Hel : forall x, In x el -> depth x <= f).
      { intros x Hx. cbn in Hd. apply le_S_n in Hd.
        etransitivity; [|exact Hd]. apply max_in. apply in_or_app; right. now apply in_map. }
      assert (Hgo : forall l, (forall x, In x l -> depth x <= f) -> forall s,
        (fix go (l : list (tree act)) (s : st) : option st :=
         match l with [] => Some s | x :: r => match exec_tree c args f x s with Some s' => go r s' | None => None end end) l s
        = exec_flat c args (flat_map (flatten_tree f) l) s).
      { induction l as [|x r IHl]; intros Hl s0; cbn [flat_map]; [reflexivity|].
        rewrite exec_flat_app. rewrite <- IH by (apply Hl; now left).
        destruct (exec_tree c args f x s0); [|reflexivity]. apply IHl. intros y Hy; apply Hl; now right. }
      rewrite exec_flat_app.
      destruct (aeval c a) eqn:Ha.
      * rewrite exec_flat_guard_on by exact Ha. rewrite <- Hgo by exact Hth.
        match goal with |- ?X = _ => destruct X end; [|reflexivity].
        symmetry. apply exec_flat_guard_off. now rewrite Ha.
      * rewrite (exec_flat_guard_off c args a true) by now rewrite Ha.
        rewrite exec_flat_guard_on by exact Ha. apply Hgo; exact Hel.
Qed.
Print Assumptions flatten_sound.
