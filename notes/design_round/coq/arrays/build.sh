#!/bin/sh
# exploratory prototype (design round): numpy-array fragment of the interpreter; KinLikelihood.log_likelihood for n = 2
set -e
python3 py2coq.py spec.json Src.v
for f in PyAst PyVal PySem Src XLemmas TestKin; do timeout 300 coqc -Q . Py $f.v > /dev/null; done
rm -f *.vo *.vok *.vos *.glob .*.aux Src.v
echo PROTOTYPE_OK
