From Coq Require Import Reals Lra List String ZArith.
Import ListNotations.
Open Scope string_scope. Open Scope R_scope.
Inductive binop := Add | Sub | Mul | Div.
Inductive expr :=
| ENum (m : Z) (e : nat)           (* m / 10^e : the decimal literal as written *)
| EVar (x : string)
| EBin (o : binop) (a b : expr)
| ECall (f : string) (args : list expr).
Inductive stmt := SAssign (x : string) (e : expr) | SReturn (es : list expr).
Inductive res (A:Type) := Ok (a:A) | Err (s:string).
Arguments Ok {A}. Arguments Err {A}.
Definition env := list (string * R).
Fixpoint lookup (x:string) (s:env) : res R :=
  match s with [] => Err ("unbound " ++ x) | (y,v)::t => if String.eqb x y then Ok v else lookup x t end.
Definition log10 x := ln x / ln 10.
Definition bind {A B} (r: res A) (f: A -> res B) : res B := match r with Ok a => f a | Err s => Err s end.
Definition lit (m:Z) (e:nat) : R := IZR m / IZR (Z.pow 10 (Z.of_nat e)).
Fixpoint eval (s:env) (e:expr) {struct e} : res R :=
  match e with
  | ENum m k => Ok (lit m k)
  | EVar x => lookup x s
  | EBin o a b => bind (eval s a) (fun va => bind (eval s b) (fun vb =>
      match o with Add => Ok (va+vb) | Sub => Ok (va-vb) | Mul => Ok (va*vb)
      | Div => if Req_EM_T vb 0 then Err "div0" else Ok (va/vb) end))
  | ECall "np.maximum" [a;b] => bind (eval s a) (fun va => bind (eval s b) (fun vb => Ok (Rmax va vb)))
  | ECall "np.log10" [a] => bind (eval s a) (fun va => if Rlt_dec 0 va then Ok (log10 va) else Err "log10 dom")
  | ECall _ _ => Err "unsupported call"
  end.
Fixpoint exec (s:env) (p:list stmt) : res (list R) :=
  match p with
  | [] => Err "no return"
  | SAssign x e :: t => bind (eval s e) (fun v => exec ((x,v)::s) t)
  | SReturn es :: _ => (fix go l := match l with [] => Ok [] | e::r =>
        bind (eval s e) (fun v => bind (go r) (fun vs => Ok (v::vs))) end) es
  end.
(* what py2coq emits for TransformedCosmography._displace_lambda_mst *)
Definition src_displace_lambda_mst : list stmt := [
 SAssign "lambda_tot" (EBin Mul (EVar "lambda_mst") (EBin Sub (ENum 1 0) (EVar "kappa_ext")));
 SAssign "lambda_tot" (ECall "np.maximum" [EVar "lambda_tot"; ENum 1 4]);
 SAssign "ddt_" (EBin Mul (EVar "ddt") (EVar "lambda_tot"));
 SAssign "sigma_v2_scaling" (EVar "lambda_mst");
 SAssign "dd_" (EBin Div (EBin Mul (EVar "dd") (EVar "sigma_v2_scaling")) (EVar "lambda_mst"));
 SAssign "mag_source_" (EBin Add (EVar "mag_source") (EBin Mul (ENum 5 0) (ECall "np.log10" [EVar "lambda_tot"])));
 SReturn [EVar "ddt_"; EVar "dd_"; EVar "mag_source_"]].
Ltac run := cbv -[Rplus Rmult Rminus Rdiv Rinv Ropp Rmax Rmin ln exp sqrt log10 IZR Req_EM_T Rlt_dec Rle_dec lit].
Theorem displace_spec ddt dd lam kap m : 1/10000 <= lam*(1-kap) ->
  exec [("ddt",ddt);("dd",dd);("lambda_mst",lam);("kappa_ext",kap);("mag_source",m)] src_displace_lambda_mst
  = Ok [ddt*(lam*(1-kap)); dd; m + 5*log10 (lam*(1-kap))].
Proof.
  intros H. run.
  assert (Hl: lit 1 0 = 1) by (unfold lit; simpl; field).
  assert (Hf: lit 1 4 = 1/10000) by (unfold lit; simpl; lra).
  rewrite Hl, Hf. rewrite Rmax_left by lra.
  destruct (Req_EM_T lam 0) as [e|n].
  - exfalso. subst. lra.
  - destruct (Rlt_dec 0 (lam*(1-kap))) as [p|np]; [|exfalso; lra].
    assert (Hl5: lit 5 0 = 5) by (unfold lit; simpl; field). rewrite Hl5.
    f_equal. f_equal. f_equal. field; assumption.
Qed.
