#!/bin/sh
# exploratory prototype (design round): C01 round trip for KinParam and CosmoParam, proved from the serialised source
set -e
python3 py2coq.py spec.json Src.v
for f in PyAst LTree Slots ToLadder Src Kin; do timeout 300 coqc -Q . C01 $f.v; done
rm -f *.vo *.vok *.vos *.glob .*.aux Src.v
echo PROTOTYPE_OK
