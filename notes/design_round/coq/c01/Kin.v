From Coq Require Import Reals ZArith List String Bool Lia.
Require Import C01.PyAst C01.LTree C01.Slots C01.ToLadder C01.Src.
Import ListNotations.
Open Scope string_scope.

(* generic glue: from the computed checks to the theorem about the trees *)
Definition depth_ok {L} (fuel : nat) (l : list (tree L)) : bool := forallb (fun x => Nat.leb (depth x) fuel) l.
Lemma depth_ok_sound {L} fuel (l : list (tree L)) : depth_ok fuel l = true -> forall x, In x l -> depth x <= fuel.
Proof. unfold depth_ok. rewrite forallb_forall. intros H x Hx. apply Nat.leb_le. now apply H. Qed.

Theorem block_roundtrip (ta : list (tree a2k_leaf)) (tk : list (tree k2a_leaf)) (fuel : nat) :
  depth_ok fuel ta = true -> depth_ok fuel tk = true ->
  compat (flat_map (flatten_tree fuel) ta) (flat_map (flatten_tree fuel) tk) = true ->
  keys_ok (flat_map (flatten_tree fuel) ta) = true ->
  forall (c : cfg) (args : list R) kw n,
    exec_list (do_a2k args) c fuel ta ([], 0) = Some (kw, n) ->
    n <= List.length args /\ exec_list (do_k2a kw) c fuel tk [] = Some (firstn n args).
Proof.
  intros Da Dk Hc Hk c args kw n Hr.
  rewrite exec_list_flat in Hr by (apply depth_ok_sound; exact Da).
  rewrite exec_list_flat by (apply depth_ok_sound; exact Dk).
  destruct (roundtrip_flat c args _ _ [] 0 kw n [] Hc Hk (Nat.le_0_l _) Hr) as [H1 H2].
  split; [lia|]. rewrite H2. cbn. now rewrite Nat.sub_0_r.
Qed.

(* ---- KinParam, CosmoParam, SourceParam, LensParam (without the gamma_pl loop): read from the serialised source ---- *)
Definition get {A} (o : option (list A)) : list A := match o with Some l => l | None => [] end.
Definition kin_ta := Eval vm_compute in get (a2k_of 100 (f_body src_KinParam_args2kwargs)).
Definition kin_tk := Eval vm_compute in get (k2a_of 100 (f_body src_KinParam_kwargs2args)).
Lemma kin_read : a2k_of 100 (f_body src_KinParam_args2kwargs) = Some kin_ta /\ k2a_of 100 (f_body src_KinParam_kwargs2args) = Some kin_tk.
Proof. split; vm_compute; reflexivity. Qed.

Theorem C01_kin_roundtrip : forall (c : cfg) (args : list R) kw n,
  exec_list (do_a2k args) c 50 kin_ta ([], 0) = Some (kw, n) ->
  n <= List.length args /\ exec_list (do_k2a kw) c 50 kin_tk [] = Some (firstn n args).
Proof. apply block_roundtrip; vm_compute; reflexivity. Qed.

Definition cos_ta := Eval vm_compute in get (a2k_of 100 (f_body src_CosmoParam_args2kwargs)).
Definition cos_tk := Eval vm_compute in get (k2a_of 100 (f_body src_CosmoParam_kwargs2args)).
Lemma cos_read : a2k_of 100 (f_body src_CosmoParam_args2kwargs) = Some cos_ta /\ k2a_of 100 (f_body src_CosmoParam_kwargs2args) = Some cos_tk.
Proof. split; vm_compute; reflexivity. Qed.
Theorem C01_cosmo_roundtrip : forall (c : cfg) (args : list R) kw n,
  exec_list (do_a2k args) c 50 cos_ta ([], 0) = Some (kw, n) ->
  n <= List.length args /\ exec_list (do_k2a kw) c 50 cos_tk [] = Some (firstn n args).
Proof. apply block_roundtrip; vm_compute; reflexivity. Qed.

Eval vm_compute in (a2k_of 100 (f_body src_SourceParam_args2kwargs), k2a_of 100 (f_body src_SourceParam_kwargs2args)).
Eval vm_compute in (match a2k_of 200 (f_body src_LensParam_args2kwargs) with Some l => List.length l | None => 999 end,
                    match k2a_of 200 (f_body src_LensParam_kwargs2args) with Some l => List.length l | None => 999 end).
Print Assumptions C01_kin_roundtrip.
