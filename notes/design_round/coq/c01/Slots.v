From Coq Require Import Reals List String Bool Arith Lia Lra.
Require Import C01.LTree.
Import ListNotations.
Open Scope string_scope.

Inductive tr := Id | Pow10 | Log10.
Inductive tsel := T1 (t : tr) | TIf (a : atom) (t1 t2 : tr).
Definition trsem (t : tr) (x : R) : R :=
  match t with Id => x | Pow10 => Rpower 10 x | Log10 => (ln x / ln 10)%R end.
Definition tsel_sem (c : cfg) (t : tsel) : R -> R :=
  match t with T1 t => trsem t | TIf a t1 t2 => if aeval c a then trsem t1 else trsem t2 end.

Inductive a2k_leaf := AFix (k : string) | AFree (k : string) (t : tsel).
Inductive k2a_leaf := KApp (k : string) (t : tsel).
Definition akey (l : a2k_leaf) := match l with AFix k | AFree k _ => k end.

Definition a2k_st := (list (string * R) * nat)%type.
Definition do_a2k (args : list R) (c : cfg) (l : a2k_leaf) (s : a2k_st) : option a2k_st :=
  let '(kw, i) := s in
  match l with
  | AFix k => match lookup k (cfix c) with Some v => Some ((k, v) :: kw, i) | None => None end
  | AFree k t => match nth_error args i with Some x => Some ((k, tsel_sem c t x) :: kw, S i) | None => None end
  end.
Definition do_k2a (kw : list (string * R)) (c : cfg) (l : k2a_leaf) (acc : list R) : option (list R) :=
  match l with KApp k t => match lookup k kw with Some v => Some (acc ++ [tsel_sem c t v])%list | None => None end end.
Definition do_name (c : cfg) (l : string) (acc : list string) : option (list string) := Some (acc ++ [l])%list.

(* ---------- decidable compatibility ---------- *)
Definition tr_inv (a b : tr) : bool := match a, b with Id, Id | Pow10, Log10 => true | _, _ => false end.
Fixpoint strs_eqb (l1 l2 : list string) : bool :=
  match l1, l2 with [], [] => true | a :: r, b :: s => String.eqb a b && strs_eqb r s | _, _ => false end.
Lemma strs_eqb_eq l1 l2 : strs_eqb l1 l2 = true -> l1 = l2.
Proof. revert l2; induction l1; destruct l2; cbn; try discriminate; auto.
  intros H; apply andb_true_iff in H as [H1 H2]. apply String.eqb_eq in H1. f_equal; auto. Qed.
Definition atom_eqb (a b : atom) : bool :=
  match a, b with
  | ABool f, ABool g => String.eqb f g
  | AStrEq f v, AStrEq g w => String.eqb f g && String.eqb v w
  | AStrIn f vs, AStrIn g ws => String.eqb f g && strs_eqb vs ws
  | AFixed k, AFixed l => String.eqb k l
  | ALatex, ALatex => true
  | _, _ => false
  end.
Lemma atom_eqb_eq a b : atom_eqb a b = true -> a = b.
Proof.
  destruct a, b; cbn; try discriminate; intros H; auto.
  - apply String.eqb_eq in H; congruence.
  - apply andb_true_iff in H as [H1 H2]. apply String.eqb_eq in H1, H2; congruence.
  - apply andb_true_iff in H as [H1 H2]. apply String.eqb_eq in H1. apply strs_eqb_eq in H2; congruence.
  - apply String.eqb_eq in H; congruence.
Qed.
Definition lit_eqb (x y : lit) := atom_eqb (fst x) (fst y) && Bool.eqb (snd x) (snd y).
Lemma lit_eqb_eq x y : lit_eqb x y = true -> x = y.
Proof. destruct x, y; unfold lit_eqb; cbn. intros H. apply andb_true_iff in H as [H1 H2].
  apply atom_eqb_eq in H1. apply Bool.eqb_prop in H2. congruence. Qed.
Fixpoint guard_eqb (g h : guard) : bool :=
  match g, h with [], [] => true | x :: g', y :: h' => lit_eqb x y && guard_eqb g' h' | _, _ => false end.
Lemma guard_eqb_eq g h : guard_eqb g h = true -> g = h.
Proof. revert h; induction g; destruct h; cbn; try discriminate; auto.
  intros H. apply andb_true_iff in H as [H1 H2]. apply lit_eqb_eq in H1. f_equal; auto. Qed.
Definition tsel_inv (a b : tsel) : bool :=
  match a, b with
  | T1 x, T1 y => tr_inv x y
  | TIf p x1 x2, TIf q y1 y2 => atom_eqb p q && tr_inv x1 y1 && tr_inv x2 y2
  | _, _ => false
  end.

Fixpoint compat (S : list (guard * a2k_leaf)) (K : list (guard * k2a_leaf)) : bool :=
  match S with
  | [] => match K with [] => true | _ => false end
  | (g, AFix _) :: S' => compat S' K
  | (g, AFree k t) :: S' =>
      match K with
      | (h, KApp k' t') :: K' => guard_eqb g h && String.eqb k k' && tsel_inv t t' && compat S' K'
      | [] => false
      end
  end.
(* keys may repeat only under mutually exclusive guards: here the simple sufficient check "all distinct
   except the Fixed/Free pair of one key guarded by (AFixed k, true)/(AFixed k, false)" is replaced by the
   semantic fact we need: a later ACTIVE slot never has the key of an earlier active one. *)
Fixpoint has_lit (l : lit) (g : guard) : bool := match g with [] => false | x :: r => lit_eqb x l || has_lit l r end.
Definition excl (g h : guard) : bool := existsb (fun l => has_lit (fst l, negb (snd l)) h) g.
Fixpoint keys_ok (S : list (guard * a2k_leaf)) : bool :=
  match S with
  | [] => true
  | (g, l) :: r => forallb (fun gl => negb (String.eqb (akey (snd gl)) (akey l)) || excl g (fst gl)) r && keys_ok r
  end.

(* ---------- soundness ---------- *)
Lemma ln10_neq0 : ln 10 <> 0%R.
Proof. assert (0 < ln 10)%R by (rewrite <- ln_1; apply ln_increasing; lra). lra. Qed.
Lemma tr_inv_sound a b x : tr_inv a b = true -> trsem b (trsem a x) = x.
Proof. destruct a, b; cbn; try discriminate; intros _; [reflexivity|].
  unfold Rpower. rewrite ln_exp. field. apply ln10_neq0. Qed.
Lemma tsel_inv_sound c a b x : tsel_inv a b = true -> tsel_sem c b (tsel_sem c a x) = x.
Proof.
  destruct a as [t|p t1 t2], b as [u|q u1 u2]; cbn; try discriminate.
  - apply tr_inv_sound.
  - intros H. apply andb_true_iff in H as [H H2]. apply andb_true_iff in H as [H0 H1].
    apply atom_eqb_eq in H0; subst q. destruct (aeval c p); now apply tr_inv_sound.
Qed.
Lemma has_lit_geval c l g : has_lit l g = true -> geval c g = true -> Bool.eqb (aeval c (fst l)) (snd l) = true.
Proof.
  induction g as [|x r IH]; cbn; [discriminate|]. intros H Hg.
  apply andb_true_iff in Hg as [Hx Hr]. apply orb_true_iff in H as [H|H]; [|auto].
  apply lit_eqb_eq in H. now subst.
Qed.
Lemma excl_sound c g h : excl g h = true -> geval c g = true -> geval c h = true -> False.
Proof.
  unfold excl. intros H Hg Hh. apply existsb_exists in H as [[a b] [Hin H]]. cbn in H.
  pose proof (has_lit_geval c _ _ H Hh) as E1. cbn in E1.
  assert (E2 : Bool.eqb (aeval c a) b = true).
  { unfold geval in Hg. rewrite forallb_forall in Hg. exact (Hg _ Hin). }
  apply Bool.eqb_prop in E1, E2. rewrite E2 in E1. destruct b; discriminate.
Qed.

Section RT.
Variables (c : cfg) (args : list R).
Notation run_a := (exec_flat (do_a2k args) c).

Lemma run_a_lookup : forall S kw i kw' n k v g0,
  run_a S (kw, i) = Some (kw', n) -> lookup k kw = Some v -> geval c g0 = true ->
  forallb (fun gl => negb (String.eqb (akey (snd gl)) k) || excl g0 (fst gl)) S = true ->
  lookup k kw' = Some v.
Proof.
  induction S as [|[g l] S IH]; intros kw i kw' n k v g0 Hr Hk Hg0 Hm; cbn in Hr.
  - now inversion Hr; subst.
  - cbn [forallb] in Hm. apply andb_true_iff in Hm as [Hh Hm]. cbn [snd fst] in Hh.
    destruct (geval c g) eqn:Hg.
    + assert (Hne : String.eqb (akey l) k = false).
      { apply orb_true_iff in Hh as [Hh|Hh]; [now apply negb_true_iff in Hh|].
        exfalso. eapply excl_sound; eauto. }
      destruct l as [k0|k0 t]; cbn in Hr, Hne.
      * destruct (lookup k0 (cfix c)); [|discriminate].
        eapply IH; [exact Hr| |exact Hg0|exact Hm]. cbn. rewrite String.eqb_sym, Hne. exact Hk.
      * destruct (nth_error args i); [|discriminate].
        eapply IH; [exact Hr| |exact Hg0|exact Hm]. cbn. rewrite String.eqb_sym, Hne. exact Hk.
    + eapply IH; eauto.
Qed.

Theorem roundtrip_flat : forall S K kw i kw' n acc,
  compat S K = true -> keys_ok S = true -> (i <= List.length args)%nat ->
  run_a S (kw, i) = Some (kw', n) ->
  (i <= n <= List.length args)%nat /\
  exec_flat (do_k2a kw') c K acc = Some (acc ++ firstn (n - i) (skipn i args))%list.
Proof.
  induction S as [|[g l] S IH]; intros K kw i kw' n acc Hc Hn Hi Hr.
  - cbn in Hc, Hr. destruct K; [|discriminate]. inversion Hr; subst. split; [lia|].
    rewrite Nat.sub_diag. cbn. now rewrite app_nil_r.
  - cbn [keys_ok] in Hn. apply andb_true_iff in Hn as [Hfresh Hn].
    cbn [exec_flat] in Hr. cbn [compat] in Hc.
    destruct l as [k0|k0 t].
    + destruct (geval c g); [cbn in Hr; destruct (lookup k0 (cfix c)); [|discriminate]|]; eapply IH; eauto.
    + destruct K as [|[h [k' t']] K]; [discriminate|].
      apply andb_true_iff in Hc as [Hc HcK]. apply andb_true_iff in Hc as [Hc Hinv].
      apply andb_true_iff in Hc as [Hg Hk]. apply guard_eqb_eq in Hg. apply String.eqb_eq in Hk. subst h k'.
      cbn [exec_flat].
      destruct (geval c g) eqn:Hge.
      * cbn in Hr. destruct (nth_error args i) as [x|] eqn:Hx; [|discriminate].
        assert (Hil : (i < List.length args)%nat) by (apply nth_error_Some; congruence).
        pose proof (run_a_lookup S _ _ _ _ k0 (tsel_sem c t x) g Hr) as Hl.
        cbn [do_k2a]. rewrite Hl; [|cbn; now rewrite String.eqb_refl|exact Hge|exact Hfresh].
        destruct (IH K _ _ _ _ (acc ++ [tsel_sem c t' (tsel_sem c t x)])%list HcK Hn Hil Hr) as [H1 H3].
        split; [lia|]. rewrite H3, (tsel_inv_sound c _ _ _ Hinv), <- app_assoc. f_equal.
        replace (n - i)%nat with (Datatypes.S (n - Datatypes.S i)) by lia.
        assert (Hsk : skipn i args = x :: skipn (Datatypes.S i) args).
        { clear -Hx. revert args Hx; induction i; intros [|a l]; cbn; try discriminate.
          - now intros [= ->]. - intros H; now apply IHi. }
        rewrite Hsk. reflexivity.
      * eapply IH; eauto.
Qed.
End RT.
