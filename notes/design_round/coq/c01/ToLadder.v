From Coq Require Import Reals ZArith List String Bool.
Require Import C01.PyAst C01.LTree C01.Slots.
Import ListNotations.
Open Scope string_scope.

(* Reading the serialised Python bodies as ladders.  Purely syntactic, total, returns None on anything
   outside the recognised shapes (fail closed).  No string literal is ever used as a match pattern. *)
Definition is_name (s : string) (e : expr) : bool := match e with EName x => String.eqb x s | _ => false end.
Definition self_attr (e : expr) : option string :=
  match e with EAttr o a => if is_name "self" o then Some a else None | _ => None end.
Fixpoint strs_of (l : list expr) : option (list string) :=
  match l with [] => Some [] | EStr s :: r => match strs_of r with Some t => Some (s :: t) | None => None end | _ => None end.

(* condition -> (atom, polarity) : the condition is true iff [aeval atom = polarity] *)
Definition cond_of (e : expr) : option (atom * bool) :=
  match e with
  | ECmp CIs x (EBool true) =>
      if is_name "latex_style" x then Some (ALatex, true)
      else match self_attr x with Some f => Some (ABool f, true) | None => None end
  | ECmp o (EStr k) d =>
      match self_attr d, o with
      | Some a, CIn => if String.eqb a "_kwargs_fixed" then Some (AFixed k, true) else None
      | Some a, CNotIn => if String.eqb a "_kwargs_fixed" then Some (AFixed k, false) else None
      | _, _ => None end
  | ECmp o x (EList vs) =>
      match self_attr x, strs_of vs, o with
      | Some f, Some l, CIn => Some (AStrIn f l, true)
      | Some f, Some l, CNotIn => Some (AStrIn f l, false)
      | _, _, _ => None end
  | ECmp CEq x (EStr v) => match self_attr x with Some f => Some (AStrEq f v, true) | None => None end
  | _ => match self_attr e with Some f => Some (ABool f, true) | None => None end
  end.
Definition mk_if {L} (ap : atom * bool) (t e : list (tree L)) : tree L :=
  if snd ap then If (fst ap) t e else If (fst ap) e t.

(* kwargs["K"] *)
Definition kw_key (e : expr) : option string :=
  match e with ESub d (EStr k) => if is_name "kwargs" d then Some k else None | _ => None end.
(* args[i] or 10 ** (args[i]) *)
Definition arg_read (e : expr) : option tr :=
  match e with
  | ESub a i => if is_name "args" a && is_name "i" i then Some Id else None
  | EBin Pow (EInt 10) (ESub a i) => if is_name "args" a && is_name "i" i then Some Pow10 else None
  | _ => None
  end.
Definition fixed_read (e : expr) : option string :=
  match e with ESub d (EStr k) => match self_attr d with Some a => if String.eqb a "_kwargs_fixed" then Some k else None | None => None end | _ => None end.
Definition is_inc (s : stmt) : bool := match s with SAug Add t (EInt 1) => is_name "i" t | _ => false end.
Definition set_from_arg (s : stmt) : option (string * tr) :=
  match s with SAssign t v => match kw_key t, arg_read v with Some k, Some r => Some (k, r) | _, _ => None end | _ => None end.

Fixpoint a2k_of (fuel : nat) (ss : list stmt) : option (list (tree a2k_leaf)) :=
  match fuel with O => None | S f =>
  match ss with
  | [] => Some []
  | [SReturn (Some (ETuple [k; i]))] => if is_name "kwargs" k && is_name "i" i then Some [] else None
  | SAssign t (EDict []) :: rest => if is_name "kwargs" t then a2k_of f rest else None
  (* if log_scatter: K = 10 ** args[i]  else: K = args[i] ;  i += 1 *)
  | SIf c [s1] [s2] :: inc :: rest =>
      match cond_of c, set_from_arg s1, set_from_arg s2, is_inc inc with
      | Some (a, true), Some (k1, t1), Some (k2, t2), true =>
          if String.eqb k1 k2 then match a2k_of f rest with Some r => Some (Leaf (AFree k1 (TIf a t1 t2)) :: r) | None => None end else None
      | Some ap, _, _, _ =>
          match a2k_of f [s1], a2k_of f [s2], a2k_of f (inc :: rest) with
          | Some t, Some e, Some r => Some (mk_if ap t e :: r) | _, _, _ => None end
      | None, _, _, _ => None
      end
  | SIf c t e :: rest =>
      match cond_of c, a2k_of f t, a2k_of f e, a2k_of f rest with
      | Some ap, Some tb, Some eb, Some r => Some (mk_if ap tb eb :: r) | _, _, _, _ => None end
  | SAssign t v :: rest =>
      match kw_key t with
      | None => None
      | Some k =>
          match fixed_read v, arg_read v, rest with
          | Some k', _, _ => if String.eqb k k' then match a2k_of f rest with Some r => Some (Leaf (AFix k) :: r) | None => None end else None
          | None, Some r0, inc :: rest' =>
              if is_inc inc then match a2k_of f rest' with Some r => Some (Leaf (AFree k (T1 r0)) :: r) | None => None end else None
          | _, _, _ => None
          end
      end
  | _ => None
  end end.

(* args.append(kwargs["K"])  or  args.append(np.log10(kwargs["K"])) *)
Definition append_of (s : stmt) : option (string * tr) :=
  match s with
  | SExpr (ECall (EAttr r m) [v] []) =>
      if is_name "args" r && String.eqb m "append" then
        match v with
        | ECall (EAttr np fn) [v'] [] =>
            if is_name "np" np && String.eqb fn "log10" then match kw_key v' with Some k => Some (k, Log10) | None => None end else None
        | _ => match kw_key v with Some k => Some (k, Id) | None => None end
        end
      else None
  | _ => None
  end.
Fixpoint k2a_of (fuel : nat) (ss : list stmt) : option (list (tree k2a_leaf)) :=
  match fuel with O => None | S f =>
  match ss with
  | [] => Some []
  | [SReturn (Some r)] => if is_name "args" r then Some [] else None
  | SAssign t (EList []) :: rest => if is_name "args" t then k2a_of f rest else None
  | SIf c t e :: rest =>
      match cond_of c, t, e with
      | Some (a, true), [s1], [s2] =>
          match append_of s1, append_of s2 with
          | Some (k1, t1), Some (k2, t2) =>
              if String.eqb k1 k2 then match k2a_of f rest with Some r => Some (Leaf (KApp k1 (TIf a t1 t2)) :: r) | None => None end else None
          | _, _ => match k2a_of f t, k2a_of f e, k2a_of f rest with
                    | Some tb, Some eb, Some r => Some (If a tb eb :: r) | _, _, _ => None end
          end
      | Some ap, _, _ =>
          match k2a_of f t, k2a_of f e, k2a_of f rest with
          | Some tb, Some eb, Some r => Some (mk_if ap tb eb :: r) | _, _, _ => None end
      | None, _, _ => None
      end
  | s :: rest =>
      match append_of s with
      | Some (k, t) => match k2a_of f rest with Some r => Some (Leaf (KApp k (T1 t)) :: r) | None => None end
      | None => None end
  end end.

(* list.append("name") *)
Definition name_of (s : stmt) : option string :=
  match s with
  | SExpr (ECall (EAttr r m) [EStr n] []) => if is_name "list" r && String.eqb m "append" then Some n else None
  | _ => None
  end.
Fixpoint names_of (fuel : nat) (ss : list stmt) : option (list (tree string)) :=
  match fuel with O => None | S f =>
  match ss with
  | [] => Some []
  | [SReturn (Some r)] => if is_name "list" r then Some [] else None
  | SAssign t (EList []) :: rest => if is_name "list" t then names_of f rest else None
  | SIf c t e :: rest =>
      match cond_of c, names_of f t, names_of f e, names_of f rest with
      | Some ap, Some tb, Some eb, Some r => Some (mk_if ap tb eb :: r) | _, _, _, _ => None end
  | s :: rest =>
      match name_of s with
      | Some n => match names_of f rest with Some r => Some (Leaf n :: r) | None => None end
      | None => None end
  end end.
