
(* the composite marginalisation evaluates J at the point the grids are normalised by (anisotropy base values, MEAN of the inner-slope axis,
   MEAN of the mass-to-light axis in the population-level mode), errors on; J-model = mean over the draws, covariance = numpy.cov of sqrt(J) *)
Theorem C16_composite_marginalisation : forall a0 a1 b0 b1 g0 g1 g2 l0 l1 (cv ka : val) rg cu, 0 <= a0 -> 0 <= a1 -> 0 <= b0 -> 0 <= b1 ->
  yields (Gmc a0 a1 b0 b1 cv ka) 120 (CFun src_KinConstraintsComposite_model_marginalization) (Some (cobj g0 g1 g2 l0 l1 true)) [VInt 2] [] rg cu
    (VTuple [vec [(a0 + (b0 + 0)) / 2; (a1 + (b1 + 0)) / 2]; cv]) cu
    [("np.cov", [VArr [VList [num (sqrt a0); num (sqrt b0)]; VList [num (sqrt a1); num (sqrt b1)]]]);
     ("j_kin_draw_composite", [ka; num ((g0 + (g1 + (g2 + 0))) / 3); num ((l0 + (l1 + 0)) / 2); VBool false]);
     ("j_kin_draw_composite", [ka; num ((g0 + (g1 + (g2 + 0))) / 3); num ((l0 + (l1 + 0)) / 2); VBool false])]
  /\ yields (Gmc a0 a1 b0 b1 cv ka) 120 (CFun src_KinConstraintsComposite_model_marginalization) (Some (cobj g0 g1 g2 l0 l1 false)) [VInt 2] [] rg cu
    (VTuple [vec [(a0 + (b0 + 0)) / 2; (a1 + (b1 + 0)) / 2]; cv]) cu
    [("np.cov", [VArr [VList [num (sqrt a0); num (sqrt b0)]; VList [num (sqrt a1); num (sqrt b1)]]]);
     ("j_kin_draw_composite_m2l", [ka; num ((g0 + (g1 + (g2 + 0))) / 3); VBool false]);
     ("j_kin_draw_composite_m2l", [ka; num ((g0 + (g1 + (g2 + 0))) / 3); VBool false])].
Proof. intros. split; [apply comp_marginalisation_pop | apply comp_marginalisation_m2l]; assumption. Qed.
Print Assumptions C16_composite_marginalisation.
