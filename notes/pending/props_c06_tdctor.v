
(* ---- what the evaluators of C06_mag / C06_tdmag find in the object: the constructors ---- *)
Require Import C06.TDCtor.
(* TDMag / TDMagMagnitude (one delay, two images): data vector = (delay, brightnesses), model = (Fermat difference, magnifications), the DATA
   covariance is block diagonal - delay block, brightness block, zeros between - and the Fermat unit is Mpc / c / day * arcsec^2 *)
Theorem C06_tdmag_constructors : forall cMpc cc cday carc t0 vt x0 x1 a00 a01 a10 a11 f0 g0 g1 q00 q01 q02 q10 q11 q12 q20 q21 q22 zp rg cu, cc <> 0 -> cday <> 0 ->
  (exists o,
   yields (Gtc cMpc cc cday carc) 120 (CClass "TDMagLikelihood" src_TDMagLikelihood_init) None
     [Mag.vec [t0]; Mag.mat [[vt]]; Mag.vec [x0; x1]; Mag.mat [[a00; a01]; [a10; a11]]; Mag.vec [f0]; Mag.vec [g0; g1]; Mag.mat [[q00; q01; q02]; [q10; q11; q12]; [q20; q21; q22]]]
     [("magnitude_zero_point", Mag.num zp)] rg cu o cu []
   /\ fieldc o "_data_vector" = Some (Mag.vec [t0; x0; x1]) /\ fieldc o "_model_tot" = Some (Mag.vec [f0; g0; g1])
   /\ fieldc o "_cov_data" = Some (Mag.mat [[vt; 0; 0]; [0; a00; a01]; [0; a10; a11]])
   /\ fieldc o "_cov_model" = Some (Mag.mat [[q00; q01; q02]; [q10; q11; q12]; [q20; q21; q22]])
   /\ fieldc o "_n_td" = Some (VInt 1) /\ fieldc o "_n_amp" = Some (VInt 2) /\ fieldc o "num_data" = Some (VInt 3)
   /\ fieldc o "_fermat_unit_conversion" = Some (Mag.num (cMpc / cc / cday * carc ^ 2))
   /\ fieldc o "_magnitude_zero_point" = Some (Mag.num zp))
  /\ (exists o,
   yields (Gtc cMpc cc cday carc) 120 (CClass "TDMagMagnitudeLikelihood" src_TDMagMagnitudeLikelihood_init) None
     [Mag.vec [t0]; Mag.mat [[vt]]; Mag.vec [x0; x1]; Mag.mat [[a00; a01]; [a10; a11]]; Mag.vec [f0]; Mag.vec [g0; g1]; Mag.mat [[q00; q01; q02]; [q10; q11; q12]; [q20; q21; q22]]] [] rg cu o cu []
   /\ fieldc o "_data_vector" = Some (Mag.vec [t0; x0; x1]) /\ fieldc o "_model_tot" = Some (Mag.vec [f0; g0; g1])
   /\ fieldc o "_cov_data" = Some (Mag.mat [[vt; 0; 0]; [0; a00; a01]; [0; a10; a11]])
   /\ fieldc o "_n_td" = Some (VInt 1) /\ fieldc o "_n_amp" = Some (VInt 2) /\ fieldc o "num_data" = Some (VInt 3)).
Proof. intros. split; [apply tdmag_ctor | apply tdmagmag_ctor]; assumption. Qed.
Print Assumptions C06_tdmag_constructors.
Theorem C06_mag_constructor : forall cMpc cc cday carc a0 a1 c00 c01 c10 c11 mu0 mu1 q00 q01 q10 q11 zp rg cu,
  yields (Gtc cMpc cc cday carc) 80 (CClass "MagnificationLikelihood" src_MagnificationLikelihood_init) None
    [Mag.vec [a0; a1]; Mag.mat [[c00; c01]; [c10; c11]]; Mag.vec [mu0; mu1]; Mag.mat [[q00; q01]; [q10; q11]]] [("magnitude_zero_point", Mag.num zp)] rg cu
    (mag_obj a0 a1 c00 c01 c10 c11 mu0 mu1 q00 q01 q10 q11 zp) cu [].
Proof. intros. apply mag_ctor. Qed.
Print Assumptions C06_mag_constructor.
