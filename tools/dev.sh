#!/bin/bash
# tools/dev.sh <Cxx> <File.v>... : development aid - regenerate build/<Cxx>/Src.v from /repo (only recompiled when it changed) and compile the named
# files of coq/<Cxx>/ (or "from" entries already materialised in build/) in build/<Cxx>, with timing. Not used by the checks.
P=$1; shift
V=$(cd $(dirname $0)/.. && pwd); B=${VERIF_BUILD:-$V/build}/$P; mkdir -p $B
REPO=${HIERARC_REPO:-/repo}
/venv/bin/python - <<PY
import json,os
d=json.load(open("$V/coq/$P/prop.json"))
json.dump([dict(file=os.path.join("$REPO",e["file"]),items=e["items"]) for e in d.get("spec",[])],open("$B/spec.json","w"))
PY
/venv/bin/python $V/tools/py2coq.py $B/spec.json $B/Src.new.v || exit 2
if ! cmp -s $B/Src.new.v $B/Src.v || [ ! -f $B/Src.vo ]; then mv $B/Src.new.v $B/Src.v; echo "Src.v changed: recompiling"; (cd $B && timeout 300 coqc -q -Q $V/coq/Base Py -Q . $P Src.v) || exit 2; else rm $B/Src.new.v; fi
for f in "$@"; do
  [ -f $V/coq/$P/$f ] && cp $V/coq/$P/$f $B/$f
  s=$(date +%s.%N)
  (cd $B && timeout ${T:-600} coqc -q -Q $V/coq/Base Py -Q . $P $f 2>&1 | tail -${TAIL:-40}); rc=${PIPESTATUS[0]}
  echo "== $f $(echo "$(date +%s.%N) - $s" | bc | cut -c1-6)s"
done
