#!/venv/bin/python
"""tools/corr_time.py <Cxx> : time every generated PySem/CPython lemma of build/<Cxx>/PyCorr_*.v separately (tactic and Qed)"""
import re, sys, glob, subprocess, os
P = sys.argv[1]
bd = "/verif/build/%s" % P
for f in sorted(glob.glob(bd + "/PyCorr_*.v")):
    s = open(f).read()
    i = s.index("(* ")
    head = s[:i]
    for k, p in enumerate([p for p in re.split(r"(?=\(\* [A-Za-z_0-9/]+ : observed)", s[i:]) if p.strip()]):
        name = re.match(r"\(\* (\S+)", p).group(1)
        open(bd + "/TT.v", "w").write(head + p.replace("Proof. corr_case. Qed.", "Proof. Time corr_case. Time Qed."))
        r = subprocess.run("timeout 600 coqc -q -Q /verif/coq/Base Py -Q . %s TT.v" % P, shell=True, cwd=bd, capture_output=True, text=True)
        t = re.findall(r"Finished transaction in ([0-9.]+) secs", r.stdout + r.stderr)
        print("%-40s %s %s" % (name, t, "" if r.returncode == 0 else "FAILED " + (r.stderr.strip()[-200:])))
for e in ("TT.v", "TT.vo", "TT.glob", ".TT.aux", "TT.vok", "TT.vos"):
    try: os.remove(os.path.join(bd, e))
    except OSError: pass
