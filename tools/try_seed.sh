#!/bin/bash
# tools/try_seed.sh <Cxx> <A|B> [tier] [check-ids...]  : confirm a seeded change in its scratch worktree, then run our check(s) against it in /repo
set -u
P=$1; V=$2; TIER=${3:-quick}; shift 3 2>/dev/null || shift $#
CHECKS=${*:-$P}
WT=/tmp/seed/$P; OUT=$WT/_out
[ -f $OUT/$V.diff ] || { echo "no $OUT/$V.diff"; exit 2; }
cd $WT && git checkout -q -- . 
echo "== demo on pristine:"; PYTHONPATH=$WT timeout 600 /venv/bin/python $OUT/demo_$V.py 2>&1 | tail -2; echo "   exit=$?"
git apply $OUT/$V.diff || { echo "patch does not apply"; exit 2; }
echo "== demo with change:"; PYTHONPATH=$WT timeout 600 /venv/bin/python $OUT/demo_$V.py 2>&1 | tail -3
if [ "${SUITE:-1}" = "1" ]; then
  echo "== suite with change:"; PYTHONPATH=$WT timeout 1500 /venv/bin/python -m pytest -q -p no:cacheprovider --timeout=900 test --junitxml=$OUT/junit_$V.xml >/dev/null 2>&1
  /venv/bin/python - <<PY
import json, xml.etree.ElementTree as ET
b=set(json.load(open('/root/.vp/BASELINE.json'))['stable_pass'])
res={}
for tc in ET.parse('$OUT/junit_$V.xml').iter('testcase'):
    res[tc.get('classname')+'::'+tc.get('name')] = not any(c.tag in('failure','error') for c in tc)
bad=[n for n in b if not res.get(n)]
print('   baseline tests now failing:', bad if bad else 'none', '| passing total', sum(res.values()))
PY
fi
git checkout -q -- . ; rm -f test_emcee.h5
# run our checks against a SEPARATE copy of /repo (same HEAD) with the change applied, separate build/evidence dirs: never touches /repo
SR=/tmp/seedrepo_$P$V
git -C /repo worktree remove --force $SR 2>/dev/null; git -C /repo worktree add -q --detach $SR HEAD
cd $SR && git apply $OUT/$V.diff || { echo "patch does not apply to HEAD"; exit 2; }
cd /verif
for c in $CHECKS; do echo "== ./check $c $TIER with change:"; HIERARC_REPO=$SR VERIF_BUILD=/tmp/seedbuild_$P$V VERIF_EVIDENCE=/tmp/seedbuild_$P$V/evidence ./check $c $TIER 2>&1 | grep -E "^VIOLATION|quick:|broken\[" | cut -c1-300 | tail -14; done
git -C /repo worktree remove --force $SR; rm -rf /tmp/seedbuild_$P$V
