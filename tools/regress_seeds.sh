#!/bin/bash
# tools/regress_seeds.sh [parallelism] : run every kept seeded change against its own property's quick check (scratch worktrees); summary in build/seed_regression.txt
cd "$(dirname "$0")/.."; mkdir -p build
ls -d seeded/*/ | xargs -n1 basename | xargs -P ${1:-5} -I{} sh -c 'tools/check_seed.sh {} quick > build/seedreg_{}.log 2>&1'
for s in $(ls -d seeded/*/ | xargs -n1 basename); do
  v=$(grep -c "VIOLATION" build/seedreg_$s.log); nf=$(grep -c "no-failing-input-found" build/seedreg_$s.log); br=$(grep -c "broken\[proof\]" build/seedreg_$s.log); bc=$(grep -c "broken\[correspondence\]" build/seedreg_$s.log)
  echo "$s violations=$v (no-failing-input=$nf) broken_proofs=$br broken_correspondence=$bc"
done > build/seed_regression.txt
grep -c "violations=0" build/seed_regression.txt
