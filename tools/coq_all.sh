#!/bin/bash
# tools/coq_all.sh [ids...] : compile every property's Coq development (and run the correspondences) without the oracles; development aid
cd /verif
IDS=${*:-$(ls coq | grep '^C[0-9][0-9]$')}
for p in $IDS; do echo $p; done | VERIF_SKIP_ORACLE=1 VERIF_EVIDENCE=/verif/build/_dev_evidence xargs -P 6 -I{} sh -c './check {} quick 2>&1 | grep -v "^KNOWN-FINDING" | cut -c1-400'
