#!/bin/bash
# tools/corr_seeds.sh <Cxx> <nseeds> [tier] : run the PySem/CPython correspondence of one property for several seeds (needs build/<Cxx>/Src.vo from a check run)
P=$1; N=${2:-4}; T=${3:-quick}
cd /verif
for s in $(seq 0 $((N-1))); do
  PYTHONPATH=/repo PYTHONHASHSEED=0 /venv/bin/python harness/corr_pysem.py --prop $P --tier $T --seed $s --out build/$P/corr_seed_$s.json --builddir build/$P | tail -1
  /venv/bin/python -c "
import json;d=json.load(open('build/$P/corr_seed_$s.json'))
for m in d['mismatches']: print('   MISMATCH', m.get('case'), (m.get('detail') or '')[-400:])"
done
