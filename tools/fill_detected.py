#!/usr/bin/env python3
"""tools/fill_detected.py <dir with seedreg_<seed>.log files> : write the 'detected_by' text of kept seeds that still say 'pending',
from what the seed's own property check reported in the regression run (broken proofs / correspondence lemmas / oracle replays)."""
import json, os, re, sys
logdir = sys.argv[1]
NOTES = {
 "C02_H": "MISSED by C02 quick at first (no prior box had an edge on which a rescaled distance vanishes). Added the oracle scenario run_zero_edges (boxes with lower edges lambda_mst = 0 and gamma_ppn = -1, every lens type); it also found two genuine defects of the pinned tree on that edge (DSPL: ZeroDivisionError, DdtDdKDE: ValueError from the KDE), recorded as known findings keyed by lens type. ",
 "C08_I": "MISSED by C08 quick at first (two cooperating sites: a callee returning its stored dictionary and a caller updating the result in place; Effects.v treats call results as fresh, the oracle never fixed EVERY cosmological parameter). Oracle now has a scenario in which nothing cosmological is sampled and tabulated distances are passed in some calls. ",
 "C05_G": "At first only 'no-failing-input-found'. Oracle now passes kwargs_fixed_cosmo dictionaries carrying keys the declared model does not use. ",
 "C05_H": "At first only 'no-failing-input-found'. Oracle now scans with ONE numpy vector updated in place between the calls. ",
 "C03_G": "At first only 'no-failing-input-found' (the oracle built LensLikelihood directly with the scaling switches set). Oracle now also evaluates every lens as a sample of one, the population switches travelling through kwargs_global_model. ",
 "C10_H": "At first only 'no-failing-input-found' (bounds were asked once per object). Oracle now asks param_bounds_interpol again after an evaluation. ",
 "C20_H": "At first only 'no-failing-input-found' (every prior object was evaluated with one set of realised parameters). Oracle now evaluates one prior object / one lens several times with different realised-parameter sets. ",
 "C02_E": "MISSED by C02 quick at first (every oLCDM theorem and oracle case had at least one lens, so folding the dark-energy test into the per-lens loop changed nothing that was looked at). Added theorem C02_olcdm_guard_without_lenses and the oracle scenario run_nolens (SNe-only sample). ",
 "C02_F": "MISSED by C02 quick at first (the oracle's prior boxes were strictly inside the interpolation range, the anisotropy draw was not in C02's model). Added Edge.v / C02_mean_on_range_edge_accepted (inclusive range test, OM/const/GOM) and oracle configurations whose box IS the interpolation range. ",
 "C07_F": "MISSED by C07 quick at first ([{}]*n aliasing in LOSParam.args2kwargs: outside C07's model, and the oracle handed kwargs_los directly). Added the oracle stream run_los_populations (several sampled populations through CosmoLikelihood.likelihood: additivity and non-interference). Also caught by C01's PySem/CPython correspondence (value semantics vs aliasing). ",
 "C10_F": "MISSED by C10 quick at first (the hand-over of the scaling in log_likelihood_single was outside C10's model; the oracle's lens path used IFUKinCov only). Added C10_scaling_reaches_the_data_likelihood (C03's wiring model recompiled against C10's source) and DsDdsGaussian / DdtDdGaussian lenses with a grid in the oracle. ",
 "C01_F": "At first only 'no-failing-input-found' (fixed values in the oracle were all non-zero). Oracle now fixes parameters at exactly 0. ",
 "C05_F": "At first only 'no-failing-input-found'. Oracle now hands a curved table to likelihoods declared FLCDM / FwCDM / w0waCDM / NONE. ",
 "C08_H": "At first only 'no-failing-input-found' (Effects.v flags the pop on a parameter). Oracle now runs histories with a failed (raising) evaluation in between. ",
 "C04_F": "At first only 'no-failing-input-found'. Oracle lenses are now told log_scatter=True in 40% of the cases. ",
 "C07_E": "At first only 'no-failing-input-found'. Oracle now has samples with an undefined (NaN) double-source-plane term next to finite lenses. ",
 "C14_F": "At first only 'no-failing-input-found'. Oracle now checks the model Ddt of IFU-population lenses whose only scatter is lambda_ifu_sigma. ",
 "C15_F": "At first only 'no-failing-input-found': the oracle's tolerance test accepted -1.8e308 for -inf (inf <= inf). Repaired: -inf only equals -inf. ",
 "C06_H": "MISSED by C06 quick at first (no case with an empty magnitude block; the 1-delay/1-image theorem still held). Added oracle cases with zero magnitudes and theorem C06_tdmag_magnitude_without_magnitudes. ",
 "C12_G": "At first only 'no-failing-input-found' (bandwidth-rule cases never had repeated sample values). Oracle now keeps 'discrete' chains with different weights on the copies. ",
 "C14_G": "At first only 'no-failing-input-found'. Oracle now has IFU maps with 110-240 bins (normalised likelihood vs the reported quantities). ",
 "C11_G": "At first only 'no-failing-input-found'. Oracle now hands over column-major covariances in 40% of the custom samples. ",
 "C11_H": "At first only 'no-failing-input-found' (custom samples were always sorted by redshift). Oracle now lists half of them in another order. ",
 "C19_G": "At first only 'no-failing-input-found'. Oracle now makes an equation-of-state step at fixed (h0, om) on one object before the H0 rescaling. ",
 "C06_E": "Oracle got IFU maps with 120-260 bins (det C outside the binary64 range) in anticipation. ",
}
for s in sorted(os.listdir("/verif/seeded")):
    mp = "/verif/seeded/%s/meta.json" % s
    if not os.path.exists(mp): continue
    m = json.load(open(mp))
    if m.get("detected_by") != "pending": continue
    lp = os.path.join(logdir, "seedreg_%s.log" % s)
    txt = open(lp).read() if os.path.exists(lp) else ""
    P = s.split("_")[0]
    summ = re.search(r"quick: obligations=(\d+) discharged=(\d+) .*? broken=(\d+) violations=(\d+)", txt)
    proofs = re.findall(r"broken\[proof\] ([^:]+:[^:]+):", txt)
    corr = re.findall(r"broken\[correspondence\] ([^ ]+)", txt)
    trans = re.findall(r"broken\[(translate|coqchk|axiom|forbidden)\]", txt)
    nviol = len(re.findall(r"VIOLATION property", txt)); nnf = len(re.findall(r"no-failing-input-found", txt))
    parts = []
    if proofs: parts.append("proof breaks (%s)" % ", ".join(proofs[:3]))
    if corr: parts.append("%d PySem/CPython or ladder correspondence lemma(s) break" % len(corr))
    if trans: parts.append("broken: " + ", ".join(sorted(set(trans))))
    if nviol - nnf > 0: parts.append("oracle replay(s) with a failing input (%d+)" % (nviol - nnf))
    if nnf: parts.append("no-failing-input-found for the broken obligation")
    if summ and not proofs and int(summ.group(2)) < int(summ.group(1)): parts.append("%s of %s obligations discharged" % (summ.group(2), summ.group(1)))
    m["detected_by"] = NOTES.get(s, "") + "%s quick: " % P + ("; ".join(parts) if parts else "NOT DETECTED")
    json.dump(m, open(mp, "w"), indent=1)
    print(s, "->", m["detected_by"][:150])
