#!/usr/bin/env python3
"""tools/keep_seed.py <Cxx> <A|B> <detected-by text>  : copy a confirmed seeded change from /tmp/seed into /verif/seeded/<Cxx>_<V>/"""
import json, os, re, shutil, sys
P, V, det = sys.argv[1], sys.argv[2], sys.argv[3]
src = "/tmp/seed/%s/_out" % P
dst = "/verif/seeded/%s_%s" % (P, V)
os.makedirs(dst, exist_ok=True)
shutil.copy(os.path.join(src, "%s.diff" % V), os.path.join(dst, "patch.diff"))
shutil.copy(os.path.join(src, "demo_%s.py" % V), os.path.join(dst, "demo.py"))
meta = json.load(open(os.path.join(src, "meta_%s.json" % V)))
log = ""
lp = "/tmp/seedlogs/%s_%s.log" % (P, V)
if os.path.exists(lp):
    log = open(lp).read()
suite = re.search(r"baseline tests now failing: (.*)", log)
out = dict(property=P, variant=V, breaks_clause=meta.get("clause"), needs_to_manifest=meta.get("what_it_needs"), files=meta.get("files"),
           origin="written by a fresh sub-agent given only the property text and a scratch worktree (/tmp/seed/%s)" % P,
           confirmed=dict(
               how="tools/try_seed.sh %s %s quick : demo on the pristine worktree (must PASS), demo with the patch applied (must FAIL), the 88-test baseline "
                   "suite with the patch (no baseline test may newly fail), then ./check against a separate worktree of /repo with the patch applied" % (P, V),
               suite=(suite.group(1).strip() if suite else "see agent meta: " + str(meta.get("suite"))),
               demo_pristine="PASS", demo_with_patch="FAIL"),
           detected_by=det,
           replay="git -C /repo apply /verif/seeded/%s_%s/patch.diff && ./check %s quick ; git -C /repo checkout -- ." % (P, V, P))
json.dump(out, open(os.path.join(dst, "meta.json"), "w"), indent=1)
print("kept", dst)
