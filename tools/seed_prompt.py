#!/usr/bin/env python3
"""tools/seed_prompt.py <Cxx> [variants]  : print the brief handed to a fresh sub-agent that seeds a property-breaking change.
The brief contains ONLY the property text and the scratch worktree path (nothing from /verif)."""
import json, sys
P = sys.argv[1]
variants = sys.argv[2] if len(sys.argv) > 2 else "A,B"
wt = sys.argv[3] if len(sys.argv) > 3 else "/tmp/seed/%s" % P
for l in open("/verif/properties.jsonl"):
    p = json.loads(l)
    if p["id"] == P:
        break
vs = variants.split(",")
print("""You are testing how well a verification effort can notice regressions in the Python library hierArc
(hierarchical Bayesian cosmology from strong lenses). Your own scratch git worktree of the library is at

    %(wt)s        (python: /venv/bin/python, run things with PYTHONPATH=%(wt)s ; no network)

Work ONLY inside that directory (never touch /repo or /verif, do not read /verif). Here is one semantic property that the
library is supposed to satisfy:

    %(id)s — %(title)s

    %(statement)s

    Quantified over: %(qtext)s
    Code it is anchored in: %(files)s

Your task: write %(n)d DIFFERENT small change(s) to the library source (under hierarc/, not the tests) — call them %(names)s — each of which
  * BREAKS this property (some clause of it) for some inputs,
  * still imports/compiles and leaves the existing test suite passing
    (cd %(wt)s && PYTHONPATH=%(wt)s /venv/bin/python -m pytest -q -p no:cacheprovider --timeout=900 test  — run it with your change applied;
     tests that already fail WITHOUT your change do not count; the run takes several minutes, so run it once per variant at the end),
  * is realistic: the kind of slip a maintainer could make in a refactor or a "small optimisation" (an off-by-one, a swapped argument,
    a wrong key, a stale cache, an in-place update, a dropped copy, a mis-ordered axis, a sign, a condition that is slightly too
    wide or too narrow), NOT sabotage that ordinary use would expose at once,
  * needs something SPECIFIC to manifest: a particular configuration or switch combination, an unusual input, a multi-step sequence
    of calls, a particular crash/stop point, or two cooperating sites that each look fine alone. Prefer changes in different files /
    different clauses of the property for the different variants.

For each variant V in {%(names)s} leave in %(wt)s/_out/ :
  * V.diff          — `git diff` of the change against the pristine worktree (must apply with `git apply` to the pristine tree),
  * demo_V.py       — a small standalone program that exits 0 and prints PASS on the pristine tree, and exits non-zero (printing
                      what differs) with the change applied; it must exercise the real library API and check the property's clause
                      directly (compare against an independent reference computation, not against a recorded number),
  * meta_V.json     — {"clause": "<which clause of the property it breaks, quoted>", "what_it_needs": "<what is needed for it to
                      manifest>", "files": ["<changed files>"], "suite": "<the pytest summary line with the change applied>"}.
Between variants restore the worktree with `git checkout -- .` (keep _out/, it is untracked). Finish with the worktree pristine.
Check yourself that: demo passes on pristine, fails with the change, and the suite summary with the change shows no new failures
compared with the pristine tree (note: some tests may fail or error on the pristine tree already in this sandbox; record the pristine
summary line too if you see failures). Note the sandbox has newer numpy/scipy/astropy/lenstronomy than the library was written for;
if a library path you want to use fails on the pristine tree, choose another path.
Report briefly what each variant does.""" % dict(
    wt=wt, id=p["id"], title=p["title"], statement=p["statement"], qtext=p["quantifier"]["text"],
    files=", ".join(p["anchors"]["files"]), n=len(vs), names=", ".join(vs)))
