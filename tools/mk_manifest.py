#!/usr/bin/env python3
"""Regenerate MANIFEST.json from coq/Cxx/prop.json (one source of truth per property)."""
import json, glob, os
V = os.path.dirname(os.path.dirname(os.path.abspath(__file__)))
props = [json.loads(l) for l in open(os.path.join(V, "properties.jsonl"))]
checks, na = [], []
for p in props:
    pid = p["id"]
    cfgp = os.path.join(V, "coq", pid, "prop.json")
    if not os.path.exists(cfgp):
        na.append(dict(property_id=pid, reason="check not built yet (work in progress in this session); the design for it is DESIGN.md section 4/" + pid))
        continue
    cfg = json.load(open(cfgp))
    if cfg.get("disabled"):
        na.append(dict(property_id=pid, reason=cfg["disabled"])); continue
    checks.append(dict(
        property_id=pid,
        quick_cmd="./check %s quick" % pid,
        thorough_cmd="./check %s thorough" % pid,
        evidence_file="/verif/evidence/%s.json" % pid,
        replay_cmd_template="./check %s --replay {path}" % pid,
        engine="coq-pysem",
        level_claimed=dict(category="proof", text=cfg["level_text"], design_ref="DESIGN.md section 4 / " + pid),
        level_note=cfg["level_note"],
        technique=cfg.get("technique", "Coq 8.16 theorems over the Python source re-serialised on every run (py2coq + PySem), plus model/implementation correspondence; implementation-level oracle searches failing inputs")))
m = dict(
    version=1,
    setup_cmd="./check setup",
    hooks=dict(guard="HIERARC_VERIF", enable="no hooks are needed: the harness monkey-patches / subclasses from outside; HIERARC_VERIF is unused",
               baseline_off_cmd="cd /repo && /venv/bin/python -m pytest -ra -q -p no:cacheprovider --timeout=900 --continue-on-collection-errors",
               source_commits=[], add_only=True),
    engines=[dict(name="coq-pysem", path="/verif/coq", serves_properties=[c["property_id"] for c in checks],
                  kind_free_text="Coq 8.16.1 development: deep-embedded Python AST regenerated from /repo by tools/py2coq.py, definitional interpreter PySem with decision-guided reals, per-property Model.v/Properties.v; harness/check.py drives build, correspondence, oracle, verdict, evidence")],
    checks=checks,
    notes="Genuine defects repaired in /repo are `fix:` commits listed in known_findings.json (fixed); remaining findings are listed there with their keys. See DESIGN.md.",
    not_applicable=na)
json.dump(m, open(os.path.join(V, "MANIFEST.json"), "w"), indent=1)
print("checks:", [c["property_id"] for c in checks], "n/a:", [x["property_id"] for x in na])
