#!/bin/bash
# tools/check_seed.sh <seed name e.g. C14_D> [tier] [check ids...] : apply /verif/seeded/<name>/patch.diff to a scratch worktree of /repo and run
# the given checks (default: the seed's own property) against it. Never touches /repo itself. Prints the verdict lines.
ROOT=$(cd "$(dirname "$0")/.." && pwd)      # the verification tree this script belongs to (a snapshot of it works the same way)
S=$1; TIER=${2:-quick}; shift 2 2>/dev/null || shift $#
P=${S%%_*}
CHECKS=${*:-$P}
SR=/tmp/seedrepo_$S
git -C /repo worktree remove --force $SR 2>/dev/null
git -C /repo worktree add -q --detach $SR HEAD || exit 2
( cd $SR && git apply $ROOT/seeded/$S/patch.diff ) || { echo "patch does not apply"; git -C /repo worktree remove --force $SR; exit 2; }
cd $ROOT
for c in $CHECKS; do
  HIERARC_REPO=$SR VERIF_BUILD=/tmp/seedbuild_$S VERIF_EVIDENCE=/tmp/seedbuild_$S/evidence ./check $c $TIER 2>&1 | grep -v "^KNOWN-FINDING" | grep "VIOLATION\|$TIER:\|broken\[" | cut -c1-230 | sed "s/^/[$S vs $c] /" | head -8
done
git -C /repo worktree remove --force $SR; rm -rf /tmp/seedbuild_$S
