#!/venv/bin/python
"""tools/update_design.py : regenerate Appendix H (theorem inventory) and Appendix I (seeded changes) of DESIGN.md from coq/*/Properties.v and seeded/*/meta.json"""
import json, glob, os, re
p = "/verif/DESIGN.md"
s = open(p).read()
inv = []
for d in sorted(glob.glob("/verif/coq/C*/")):
    pid = os.path.basename(d[:-1])
    txt = open(d + "Properties.v").read()
    names = re.findall(r"^\s*(?:Theorem|Corollary|Example)\s+([A-Za-z0-9_']+)", txt, re.M)
    inv.append("* **%s** (%d): %s" % (pid, len(names), ", ".join("`%s`" % n for n in names)))
seed = []
for d in sorted(glob.glob("/verif/seeded/*/")):
    m = json.load(open(d + "meta.json"))
    seed.append("| %s | %s | %s | %s |" % (os.path.basename(d[:-1]), ", ".join(os.path.basename(f) for f in (m.get("files") or [])),
                                          (m.get("needs_to_manifest") or "")[:200].replace("|", "/").replace("\n", " "),
                                          (m.get("detected_by") or "").replace("|", "/").replace("\n", " ")))
h0 = s.index("## Appendix H"); i0 = s.index("## Appendix I"); j0 = s.index("## Appendix J")
H = "## Appendix H — theorem inventory (`coq/Cxx/Properties.v`; statements are copied into `evidence/Cxx.json` on every run)\n\n" + "\n".join(inv) + "\n\n"
missed = sum(1 for l in seed if "MISSED" in l)
I = ("## Appendix I — seeded property-breaking changes and what catches them\n\n"
     "Each was written by a fresh sub-agent that saw only the property text and a scratch worktree, confirmed by\n"
     "`tools/try_seed.sh` (demonstration passes on the pristine tree and fails with the change; no baseline test newly fails),\n"
     "then run against `./check` in a separate worktree of /repo. %d changes are kept; %d of them were MISSED by the property's own quick\n"
     "check when first tried - each such entry records what was added (theorem and/or oracle scenario) so that it is caught now.\n"
     "\"oracle replay only\" = the property's theorems still check because the edited line belongs to a function proved under another\n"
     "property, which is named and was run against the change.\n\n"
     "| seed | file(s) | needs | detected by |\n|---|---|---|---|\n" % (len(seed), missed) + "\n".join(seed) + "\n\n")
s = s[:h0] + H + I + s[j0:]
open(p, "w").write(s)
print("inventory: %d properties, %d seeds (%d missed at first)" % (len(inv), len(seed), missed))
