#!/usr/bin/env python3
"""Serialise selected Python functions to Coq terms of type PyAst.fundef. Purely syntactic, fail-closed."""
import ast, sys, json
from decimal import Decimal

def q(s): return '"' + s.replace('"', '""') + '"'
def lst(xs): return "[" + "; ".join(xs) + "]"
def opt(x): return "None" if x is None else "(Some %s)" % x

BIN = {ast.Add: "Add", ast.Sub: "Sub", ast.Mult: "Mul", ast.Div: "Div", ast.Pow: "Pow", ast.Mod: "Mod", ast.BitAnd: "BitAnd"}
CMP = {ast.Lt: "CLt", ast.LtE: "CLtE", ast.Gt: "CGt", ast.GtE: "CGtE", ast.Eq: "CEq", ast.NotEq: "CNotEq",
       ast.Is: "CIs", ast.IsNot: "CIsNot", ast.In: "CIn", ast.NotIn: "CNotIn"}

def fl(x, src):
    d = Decimal(src) if src is not None else Decimal(repr(x))
    sign, digits, exp = d.as_tuple()
    m = int("".join(map(str, digits))) * (-1 if sign else 1)
    if exp > 0: m, exp = m * 10**exp, 0
    return "(EFloat (%d) (%d))" % (m, exp)

class Ser:
    def __init__(self, source): self.source = source
    def expr(self, e):
        if isinstance(e, ast.Constant):
            v = e.value
            if v is None: return "ENone"
            if isinstance(v, bool): return "(EBool %s)" % ("true" if v else "false")
            if isinstance(v, int): return "(EInt (%d))" % v
            if isinstance(v, float): return fl(v, ast.get_source_segment(self.source, e))
            if isinstance(v, str): return "(EStr %s)" % q(v)
            return '(EUnsupported "const")'
        if isinstance(e, ast.Name): return "(EName %s)" % q(e.id)
        if isinstance(e, ast.Attribute): return "(EAttr %s %s)" % (self.expr(e.value), q(e.attr))
        if isinstance(e, ast.Subscript):
            return "(ESub %s %s)" % (self.expr(e.value), self.expr(e.slice))
        if isinstance(e, ast.Slice):
            # a[lo:hi] is, by Python's own definition, a[slice(lo, hi)]; written as a call of the builtin `slice`
            if e.step is not None: return '(EUnsupported "slice step")'
            return "(ECall (EName \"slice\") [%s; %s] [])" % (self.expr(e.lower) if e.lower is not None else "ENone",
                                                              self.expr(e.upper) if e.upper is not None else "ENone")
        if isinstance(e, ast.BinOp) and type(e.op) in BIN: return "(EBin %s %s %s)" % (BIN[type(e.op)], self.expr(e.left), self.expr(e.right))
        if isinstance(e, ast.UnaryOp):
            if isinstance(e.op, ast.USub): return "(EUn USub %s)" % self.expr(e.operand)
            if isinstance(e.op, ast.Not): return "(EUn UNot %s)" % self.expr(e.operand)
        if isinstance(e, ast.Compare) and len(e.ops) == 1 and type(e.ops[0]) in CMP:
            return "(ECmp %s %s %s)" % (CMP[type(e.ops[0])], self.expr(e.left), self.expr(e.comparators[0]))
        if isinstance(e, ast.BoolOp): return "(EBoolOp %s %s)" % ("BAnd" if isinstance(e.op, ast.And) else "BOr", lst(map(self.expr, e.values)))
        if isinstance(e, ast.Call):
            args = []
            for a in e.args:
                if isinstance(a, ast.Starred): return '(EUnsupported "starred")'
                args.append(self.expr(a))
            kws = ["(%s, %s)" % (opt(q(k.arg)) if k.arg else "None", self.expr(k.value)) for k in e.keywords]
            return "(ECall %s %s %s)" % (self.expr(e.func), lst(args), lst(kws))
        if isinstance(e, ast.List): return "(EList %s)" % lst(map(self.expr, e.elts))
        if isinstance(e, ast.Tuple): return "(ETuple %s)" % lst(map(self.expr, e.elts))
        if isinstance(e, ast.Dict):
            return "(EDict %s)" % lst("(%s, %s)" % (opt(self.expr(k)) if k is not None else "None", self.expr(v)) for k, v in zip(e.keys, e.values))
        if isinstance(e, ast.IfExp): return "(EIfExp %s %s %s)" % (self.expr(e.test), self.expr(e.body), self.expr(e.orelse))
        if isinstance(e, ast.ListComp) and len(e.generators) == 1 and not e.generators[0].is_async:
            g = e.generators[0]
            return "(EListComp %s %s %s %s)" % (self.expr(e.elt), self.expr(g.target), self.expr(g.iter), lst(map(self.expr, g.ifs)))
        return "(EUnsupported %s)" % q(type(e).__name__)
    def stmts(self, ss): return lst(x for x in (self.stmt(s) for s in ss) if x)
    def stmt(self, s):
        if isinstance(s, ast.Expr) and isinstance(s.value, ast.Constant) and isinstance(s.value.value, str): return None  # docstring
        if isinstance(s, ast.Assign) and len(s.targets) == 1: return "SAssign %s %s" % (self.expr(s.targets[0]), self.expr(s.value))
        if isinstance(s, ast.AugAssign) and type(s.op) in BIN: return "SAug %s %s %s" % (BIN[type(s.op)], self.expr(s.target), self.expr(s.value))
        if isinstance(s, ast.If): return "SIf %s %s %s" % (self.expr(s.test), self.stmts(s.body), self.stmts(s.orelse))
        if isinstance(s, ast.For) and not s.orelse: return "SFor %s %s %s" % (self.expr(s.target), self.expr(s.iter), self.stmts(s.body))
        if isinstance(s, ast.Return): return "SReturn %s" % opt(self.expr(s.value) if s.value is not None else None)
        if isinstance(s, ast.Expr): return "SExpr %s" % self.expr(s.value)
        if isinstance(s, ast.Raise):
            exc = s.exc.func.id if isinstance(s.exc, ast.Call) and isinstance(s.exc.func, ast.Name) else (s.exc.id if isinstance(s.exc, ast.Name) else "Exception")
            return "SRaise %s" % q(exc)
        if isinstance(s, ast.Try) and not s.finalbody and not s.orelse and len(s.handlers) == 1:
            return "STry %s %s" % (self.stmts(s.body), self.stmts(s.handlers[0].body))
        if isinstance(s, ast.With) and len(s.items) == 1 and (s.items[0].optional_vars is None or isinstance(s.items[0].optional_vars, ast.Name)):
            it = s.items[0]
            return "SWith %s %s %s" % (self.expr(it.context_expr), opt(q(it.optional_vars.id)) if it.optional_vars is not None else "None", self.stmts(s.body))
        if isinstance(s, ast.Pass): return "SPass"
        if isinstance(s, (ast.Import, ast.ImportFrom)): return "SPass"   # names resolve through the function environment
        if isinstance(s, ast.Assert): return "SAssert %s" % self.expr(s.test)
        return "SUnsupported %s" % q(type(s).__name__)
    def fundef(self, f, coqname):
        a = f.args
        if a.vararg or a.kwonlyargs or a.posonlyargs:
            return "Definition %s : fundef := FunDef %s false [] None [SUnsupported \"signature\"]." % (coqname, q(f.name))
        nd = len(a.defaults); n = len(a.args)
        ps = []
        for i, p in enumerate(a.args):
            d = a.defaults[i - (n - nd)] if i >= n - nd else None
            ps.append("(%s, %s)" % (q(p.arg), opt(self.expr(d)) if d is not None else "None"))
        static = any(isinstance(d, ast.Name) and d.id == "staticmethod" for d in f.decorator_list)
        # a @property is a method that is CALLED by attribute access: recorded in the function's name as "@name"
        prop = any(isinstance(d, ast.Name) and d.id == "property" for d in f.decorator_list)
        return "Definition %s : fundef :=\n  FunDef %s %s %s %s\n  %s." % (coqname, q(("@" if prop else "") + f.name), "true" if static else "false", lst(ps), opt(q(a.kwarg.arg)) if a.kwarg else "None", self.stmts(f.body))

def main(spec_path, out):
    spec = json.load(open(spec_path))   # [{"file":..., "items":[["Class","method"], [null,"function"]]}]
    lines = ["From Coq Require Import ZArith String List.", "Require Import Py.PyAst.", "Import ListNotations.", "Open Scope string_scope.", ""]
    allnames = []
    everything = []
    bases = []
    for entry in spec:
        src = open(entry["file"]).read(); tree = ast.parse(src); ser = Ser(src)
        if entry["items"] == "*":
            # every method of every class and every module-level function of the file (used by whole-program analyses)
            items = []
            for n in tree.body:
                if isinstance(n, ast.FunctionDef): items.append([None, n.name])
                if isinstance(n, ast.ClassDef):
                    items += [[n.name, m.name] for m in n.body if isinstance(m, ast.FunctionDef)]
            entry = dict(entry, items=items, star=True)
        for cls, fn in entry["items"]:
            if cls is None and fn.startswith("="):
                # module-level constant:  NAME = <expr>   ->  Definition src_const_NAME : expr
                cname = fn[1:]; found = None
                for n in tree.body:
                    if isinstance(n, ast.Assign) and len(n.targets) == 1 and isinstance(n.targets[0], ast.Name) and n.targets[0].id == cname:
                        found = n
                if found is None: lines.append("(* MISSING constant %s in %s *)" % (cname, entry["file"])); continue
                lines.append("(* %s : constant %s, line %d *)" % (entry["file"], cname, found.lineno))
                lines.append("Definition src_const_%s : expr :=\n  %s." % (cname.strip("_"), ser.expr(found.value))); lines.append("")
                continue
            node = None
            for n in tree.body:
                if cls is None and isinstance(n, ast.FunctionDef) and n.name == fn: node = n
                if cls is not None and isinstance(n, ast.ClassDef) and n.name == cls:
                    if not any(c == cls for c, _ in bases):
                        bases.append((cls, [b.id if isinstance(b, ast.Name) else ast.unparse(b) for b in n.bases]))
                    for m in n.body:
                        if isinstance(m, ast.FunctionDef) and m.name == fn: node = m
            name = "src_%s_%s" % (cls or "fn", fn.strip("_") if fn != "__init__" else "init")
            if node is None: lines.append("(* MISSING %s.%s in %s *)" % (cls, fn, entry["file"])); continue
            lines.append("(* %s : %s.%s, line %d *)" % (entry["file"], cls, fn, node.lineno))
            lines.append(ser.fundef(node, name)); lines.append("")
            if not any(b == name for _, b in everything): everything.append(("%s.%s" % (cls or "", fn), name))
            if entry.get("star"): allnames.append(("%s.%s" % (cls or "", fn), name))
    if bases:
        lines.append("(* the base classes of every class with a serialised method, as written in the class statement *)")
        lines.append("Definition src_bases : list (string * list string) :=\n  [" + ";\n   ".join("(%s, %s)" % (q(c), lst(q(b) for b in bs)) for c, bs in bases) + "].")
    if everything:
        lines.append("(* every serialised function of this property, by qualified name *)")
        lines.append("Definition src_fundefs : list (string * fundef) :=\n  [" + ";\n   ".join("(%s, %s)" % (q(a), b) for a, b in everything) + "].")
    if allnames:
        lines.append("Definition src_all : list (string * fundef) :=\n  [" + ";\n   ".join("(%s, %s)" % (q(a), b) for a, b in allnames) + "].")
    open(out, "w").write("\n".join(lines))
if __name__ == "__main__": main(sys.argv[1], sys.argv[2])
