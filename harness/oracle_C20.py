"""Oracle C20 -- per-lens Gaussian priors act on the lens' own realised parameters only.

Executable statement of property C20 against PriorLikelihood + LensLikelihood.log_likelihood_single (through
LensLikelihood.lens_log_likelihood and LensSampleLikelihood), and against the prior_list emitted by
KinConstraints / DdtKinConstraints / KinConstraintsComposite.hierarchy_configuration.

Realised parameters of one draw (read from the code): {**draw_lens(**kwargs_lens), **draw_anisotropy(**kwargs_kin)} =
  lambda_mst = N( (lambda_ifu if mst_ifu else lambda_mst) + alpha_lambda*x + beta_lambda*y , sigma )   (drawn iff lambda_mst_distribution=GAUSSIAN)
  gamma_ppn  = kwargs_lens["gamma_ppn"] (default 1)
  gamma_in   = N(gamma_in [+ alpha_gamma_in*x iff gamma_in_distribution=GAUSSIAN], gamma_in_sigma)      iff gamma_in_sampling
  log_m2l    = N(log_m2l + alpha_log_m2l*x, log_m2l_sigma)                                              iff log_m2l_sampling
  gamma_pl   = gamma_pl_list[gamma_pl_index] if the lens has an index, else N(gamma_pl_mean, gamma_pl_sigma) iff gamma_pl_global_sampling
  a_ani / beta_inf = drawn values (GAUSSIAN, GAUSSIAN_SCALED; 1 - N(a, s)^2 for GAUSSIAN_TAN_RAD) when anisotropy_sampling, else the
               values of kwargs_kin passed through when present.

Sub-checks (violation keys):
  C20:sum                 sharp hyper-parameters: L(with prior_list) - L(without) == sum_k -(x_k-mu_k)^2/(2 s_k^2) over the listed names that
                          are realised (x from the closed formulas above; duplicates counted twice)                       (rel 1e-10)
  C20:term:<name>         the same for a one-entry prior list [name, mu, s] (names the failing parameter)
  C20:term_at_zero:<name> the same where the realised value is exactly 0 (isotropic a_ani=0, GAUSSIAN_TAN_RAD at a=1 -> 1-a^2=0, GOM beta_inf=0,
                          log_m2l=0, gamma_in=0, gamma_ppn=0, a lens' own / the global gamma_pl=0): presence in the realised dict is what counts,
                          not truthiness.  About a quarter of the single / sample cases put one or more realised parameters exactly at 0 (with
                          zero width for that parameter, any widths elsewhere) and attach a prior with mean != 0 to one of them; the sharp,
                          scattered (C20:scatter_inside_average) and sample (C20:sample_term / C20:sample_total) checks all see these points.
  C20:absent:<name>       a one-entry prior on a name the lens does not realise leaves the value bit-identical
  C20:empty               prior_list None / [] gives bit-identical values
  C20:realised:<name>     the value returned by the wrapped draw functions equals the closed formula (sharp case)
  C20:scatter_inside_average   scattered hyper-parameters: value == log(mean_i exp(l_i + prior(realised_i))) with l_i, realised_i recorded
                          per draw by wrapping draw_lens / draw_anisotropy / log_likelihood on the instance             (rel 1e-10)
  C20:prior_changes_draws with the same numpy seed the per-draw data likelihoods l_i and realised values are identical with and without prior
  C20:isolation           LensSampleLikelihood: a prior attached to lens i leaves the term of every lens j != i bit-identical
  C20:sample_term / C20:sample_total   the term of lens i (and the total, sharp case) moves by exactly lens i's prior sum, with lens i's OWN
                          gamma_pl_list slot (slots are assigned in sample order to the lenses that interpolate gamma_pl)
  C20:emitted:gamma_pl:<Class>   hierarchy_configuration()["prior_list"] == [["gamma_pl", gamma, gamma_error]] iff gamma_pl is interpolated
  C20:emitted:gamma_in    composite: == [["gamma_in", mean, std]] iff both numbers are given (else no prior)
  C20:emitted:end_to_end  the emitted configuration, fed to LensSampleLikelihood, shifts the lens term by -(gamma_pl_i-gamma_i)^2/(2 err_i^2)
  C20:raises              hierArc raised on a well-formed configuration

Tolerance: with/without differ by one float addition per draw: |diff - expected| <= 1e-10 * max(1, |L|, |expected|).
"""
import sys, os, json, traceback, copy
sys.path.insert(0, os.path.dirname(os.path.abspath(__file__)))
from common import *  # noqa
from scipy.special import logsumexp as _lse

PROP = "C20"
RULE = ("lens log-likelihood with prior_list minus without == sum over listed names the lens realises of -(x-mu)^2/(2 sigma^2) at the realised "
        "value, inside the population average; nothing for absent names; never touches another lens; emitted gamma_pl/gamma_in priors")
RT = 1e-10
C_KMS = 299792.458
LENS_TYPES = ["DdtGaussian", "DdtLogNorm", "DsDdsGaussian", "DdtDdGaussian", "IFUKinCov", "DdtGaussKin", "DSPL", "Mag"]
REALISABLE = ["lambda_mst", "gamma_ppn", "gamma_in", "log_m2l", "gamma_pl", "a_ani", "beta_inf"]
ABSENT = ["nonexistent", "lambda_ifu", "alpha_lambda", "beta_lambda", "kappa_ext", "h0", "lambda_mst_sigma", "gamma_pl_list", "gamma_pl_mean",
          "a_ani_sigma", "mu_sne", "gamma_pl_0", "Lambda_mst", "sigma_v_sys_error"]
AXES = dict(a_ani=[0.3, 1.0, 2.0, 3.5, 5.0], beta_inf=[0.0, 0.4, 0.7, 1.0], gamma_in=[0.5, 0.9, 1.2, 1.5], log_m2l=[-0.2, 0.2, 0.6],
            gamma_pl=[1.6, 1.9, 2.1, 2.4])
A_ANI_WITH_ZERO = [-0.5, 0.0, 0.3, 1.0, 2.0, 3.5, 5.0]      # hierArc's own 'const' axis is linspace(-0.49, 1, ...): beta = 0 is an interior point
SCALINGS = [[], ["a_ani"], ["a_ani", "beta_inf"], ["a_ani", "gamma_pl"], ["gamma_pl"], ["gamma_in", "log_m2l"], ["a_ani", "gamma_in", "log_m2l"],
            ["gamma_in"], ["a_ani", "beta_inf", "gamma_pl"]]
ARRAY_KEYS = ["sigma_v_measurement", "j_model", "error_cov_measurement", "error_cov_j_sqrt", "amp_measured", "cov_amp_measured",
              "magnification_model", "cov_magnification_model"]

_COSMO = None


def cosmo():
    global _COSMO
    if _COSMO is None:
        _COSMO = cosmo_interp(70., 0.3, zmax=5.5, n=150)
    return _COSMO


# ------------------------------------------------------------------------------------------------
# generation
# ------------------------------------------------------------------------------------------------
def gen_lens(rng, idx, sample_mode=False):
    """one lens configuration (json-able after jsonable()); data close to the fiducial cosmology so that values are O(1-100)"""
    C = cosmo()
    t = str(rng.choice(LENS_TYPES))
    zl = float(rng.uniform(.1, 1.0)); zs = float(zl + rng.uniform(.3, 2.2))
    dd = C.angular_diameter_distance(zl).value; ds = C.angular_diameter_distance(zs).value
    dds = C.angular_diameter_distance_z1z2(zl, zs).value
    ddt = (1 + zl) * dd * ds / dds; r = ds / dds
    off = lambda s: float(1 + s * rng.normal())
    kw = dict(z_lens=zl, z_source=zs, likelihood_type=t, name="L%d" % idx, num_distribution_draws=int(rng.integers(2, 9)),
              normalized=bool(rng.random() < .5))

    def kin():
        n = int(rng.integers(1, 4))
        st = rng.uniform(180, 320, n)
        return dict(sigma_v_measurement=st * (1 + .04 * rng.normal(size=n)), j_model=(st / C_KMS) ** 2 / r,
                    error_cov_measurement=pd(rng, n, float(rng.uniform(6, 15))),
                    error_cov_j_sqrt=pd(rng, n, float(rng.uniform(3, 10)) / (np.sqrt(r) * C_KMS)))
    if t == "DdtGaussian": kw.update(ddt_mean=ddt * off(.05), ddt_sigma=ddt * float(rng.uniform(.03, .1)))
    elif t == "DdtLogNorm": kw.update(ddt_mu=float(np.log(ddt * off(.03))), ddt_sigma=float(rng.uniform(.03, .1)))
    elif t == "DsDdsGaussian": kw.update(ds_dds_mean=r * off(.05), ds_dds_sigma=r * float(rng.uniform(.04, .12)))
    elif t == "DdtDdGaussian": kw.update(ddt_mean=ddt * off(.05), ddt_sigma=ddt * float(rng.uniform(.03, .1)), dd_mean=dd * off(.05), dd_sigma=dd * float(rng.uniform(.04, .12)))
    elif t == "IFUKinCov": kw.update(kin())
    elif t == "DdtGaussKin": kw.update(ddt_mean=ddt * off(.05), ddt_sigma=ddt * float(rng.uniform(.03, .1)), **kin())
    elif t == "DSPL":
        zs2 = float(zs + rng.uniform(.3, 1.5))
        ds2 = C.angular_diameter_distance(zs2).value; dds2 = C.angular_diameter_distance_z1z2(zl, zs2).value
        kw.update(z_source2=zs2, beta_dspl=float(dds / ds * ds2 / dds2 * off(.01)), sigma_beta_dspl=float(rng.uniform(.01, .05)))
    elif t == "Mag":
        n = int(rng.integers(2, 5)); mu = rng.uniform(1, 8, n)
        mod = lambda z: 5 * np.log10((1 + z) ** 2 * C.angular_diameter_distance(z).value)
        amp = float(10 ** (-((19.0 + mod(zs) - mod(0.1)) - 20) / 2.5))
        s1, s2 = .05 * amp * mu, .08 * mu
        kw.update(amp_measured=amp * mu * (1 + .05 * rng.normal(size=n)), cov_amp_measured=pd(rng, n, 1.) * np.outer(s1, s1),
                  magnification_model=mu, cov_magnification_model=pd(rng, n, 1.) * np.outer(s2, s2))
    # ---- which parameters the lens realises --------------------------------------------------------
    S = list(SCALINGS[int(rng.integers(0, len(SCALINGS)))])
    ani_on = ("a_ani" in S) or rng.random() < .3
    if ani_on:
        model = "GOM" if "beta_inf" in S else str(rng.choice(["OM", "const", "GOM"], p=[.5, .3, .2]))
        dists = ["NONE", "GAUSSIAN"] + (["GAUSSIAN_SCALED"] if model in ("OM", "GOM") else []) + (["GAUSSIAN_TAN_RAD"] if "a_ani" not in S else [])
        kw.update(anisotropy_sampling=True, anisotropy_model=model, anisotropy_distribution=str(rng.choice(dists)))
    if "gamma_in" in S or rng.random() < .25:
        kw.update(gamma_in_sampling=True, gamma_in_distribution=str(rng.choice(["NONE", "GAUSSIAN"])))
    if "log_m2l" in S or rng.random() < .25:
        kw.update(log_m2l_sampling=True, log_m2l_distribution=str(rng.choice(["NONE", "GAUSSIAN"])))
    gp = "index" if "gamma_pl" in S else str(rng.choice(["none", "index", "global", "both"], p=[.55, .2, .15, .1]))
    if sample_mode:
        gp = "index" if "gamma_pl" in S else "none"      # LensSampleLikelihood assigns the slots itself
    elif "gamma_pl" in S and rng.random() < .25:
        gp = "global"
    if gp in ("index", "both") and not sample_mode: kw["gamma_pl_index"] = int(rng.integers(0, 4))
    if gp in ("global", "both"): kw.update(gamma_pl_global_sampling=True, gamma_pl_global_dist=str(rng.choice(["NONE", "GAUSSIAN"])))
    if S:
        nk = len(kw["j_model"]) if "j_model" in kw else 1
        axes = dict(AXES)
        if "a_ani" in S and rng.random() < .4: axes["a_ani"] = A_ANI_WITH_ZERO
        shape = tuple(len(axes[p]) for p in S)
        kw.update(kin_scaling_param_list=S, j_kin_scaling_param_axes=[np.array(axes[p]) for p in S],
                  j_kin_scaling_grid_list=[rng.uniform(.75, 1.35, shape) for _ in range(nk)])
    kw["lambda_mst_distribution"] = str(rng.choice(["NONE", "GAUSSIAN"]))
    if rng.random() < .4: kw["mst_ifu"] = True
    if rng.random() < .5: kw["lambda_scaling_property"] = float(rng.uniform(-1, 1))
    if rng.random() < .3: kw["lambda_scaling_property_beta"] = float(rng.uniform(-1, 1))
    if rng.random() < .3: kw.update(global_los_distribution=0, los_distributions=["GAUSSIAN"])
    if t in ("IFUKinCov", "DdtGaussKin") and rng.random() < .3: kw["sigma_sys_error_include"] = True
    return kw


def gen_point(rng, sharp):
    """hyper-parameters valid for every lens configuration of gen_lens (all axes are shared)"""
    u = lambda lo, hi: float(rng.uniform(lo, hi))
    sg = lambda lo, hi: 0.0 if (sharp or rng.random() < .35) else u(lo, hi)
    kl = dict(lambda_mst=u(.8, 1.2), lambda_mst_sigma=sg(.01, .08), lambda_ifu=u(.8, 1.2), lambda_ifu_sigma=sg(.01, .08),
              alpha_lambda=u(-.15, .15), beta_lambda=u(-.1, .1), gamma_ppn=u(.7, 1.3),
              gamma_in=u(.85, 1.15), gamma_in_sigma=sg(.01, .08), alpha_gamma_in=u(-.1, .1),
              log_m2l=u(.05, .35), log_m2l_sigma=sg(.01, .05), alpha_log_m2l=u(-.1, .1),
              gamma_pl_list=[u(1.75, 2.25) for _ in range(4)], gamma_pl_mean=u(1.85, 2.15), gamma_pl_sigma=sg(.01, .05))
    for k in ("alpha_lambda", "beta_lambda", "gamma_ppn", "alpha_gamma_in", "alpha_log_m2l"):
        if rng.random() < .2: kl.pop(k)                 # defaults of draw_lens apply
    kk = dict(a_ani=u(.4, .9) if rng.random() < .5 else u(1.0, 3.5), a_ani_sigma=sg(.03, .2), beta_inf=u(.2, .8), beta_inf_sigma=sg(.02, .08))
    if rng.random() < .4: kk["sigma_v_sys_error"] = u(.01, .05)
    ks = dict(mu_sne=19.0 + float(rng.normal(0, .05)), sigma_sne=sg(.02, .1), z_apparent_m_anchor=0.1)
    klos = [dict(mean=u(-.03, .05), sigma=sg(.005, .02))]
    return dict(kwargs_lens=kl, kwargs_kin=kk, kwargs_source=ks, kwargs_los=klos)


def fix_point_for(lens, pt):
    """GAUSSIAN_TAN_RAD realises 1 - a^2 and GAUSSIAN_SCALED multiplies the width by a: nothing to fix (a_ani is unbounded there); but
    a lens WITHOUT anisotropy sampling and with a_ani in no grid simply passes a_ani through.  Only guarantee bounds of bounded axes."""
    kk = pt["kwargs_kin"]
    S = list(lens.get("kin_scaling_param_list", []))
    if "a_ani" in S:
        ax = lens["j_kin_scaling_param_axes"][S.index("a_ani")]
        if not (float(ax[0]) + 0.05 <= kk["a_ani"] <= float(ax[-1]) - 0.5):
            kk["a_ani"] = 1.5
    return pt


def inject_zeros(rng, lenses, pt, single):
    """put one or more realised parameters EXACTLY at 0 (legitimate values: isotropic orbits, beta_inf = 0, M/L = 1, gamma_ppn = 0, ...), with zero
    width for that parameter so that the realised value is exactly 0 in every draw.  Only names whose 0 is admissible for every lens in `lenses`
    (inside the interpolation axis when the parameter is interpolated).  -> list of the names set to zero"""
    kl, kk = pt["kwargs_lens"], pt["kwargs_kin"]

    def zero_ok(l, nm):
        S = list(l.get("kin_scaling_param_list", []))
        if nm not in S: return True
        ax = l["j_kin_scaling_param_axes"][S.index(nm)]
        return float(ax[0]) <= 0.0 <= float(ax[-1])
    tan = [l.get("anisotropy_distribution") == "GAUSSIAN_TAN_RAD" for l in lenses]
    cands = ["gamma_ppn"]
    if all(zero_ok(l, "a_ani") for l in lenses) and (all(tan) or not any(tan)): cands.append("a_ani")
    for nm in ("beta_inf", "log_m2l", "gamma_in"):
        if all(zero_ok(l, nm) for l in lenses): cands.append(nm)
    l0 = lenses[0]
    if single and l0["likelihood_type"] != "DSPL" and "gamma_pl" not in l0.get("kin_scaling_param_list", []) and \
            (l0.get("gamma_pl_index") is not None or l0.get("gamma_pl_global_sampling")):
        cands.append("gamma_pl")        # the slope only enters through the DSPL likelihood or the interpolation
    chosen = [c for c in cands if rng.random() < .45] or [str(rng.choice(cands))]
    for nm in chosen:
        if nm == "gamma_ppn": kl["gamma_ppn"] = 0.0
        elif nm == "a_ani": kk.update(a_ani=(1.0 if all(tan) else 0.0), a_ani_sigma=0.0)       # GAUSSIAN_TAN_RAD realises 1 - a^2
        elif nm == "beta_inf": kk.update(beta_inf=0.0, beta_inf_sigma=0.0)
        elif nm == "log_m2l": kl.update(log_m2l=0.0, log_m2l_sigma=0.0, alpha_log_m2l=0.0)
        elif nm == "gamma_in": kl.update(gamma_in=0.0, gamma_in_sigma=0.0, alpha_gamma_in=0.0)
        elif nm == "gamma_pl":
            if l0.get("gamma_pl_index") is not None: kl["gamma_pl_list"][int(l0["gamma_pl_index"])] = 0.0
            else: kl.update(gamma_pl_mean=0.0, gamma_pl_sigma=0.0)
    return chosen


def zero_prior(rng, names):
    """a prior with a mean well away from 0 on one of `names`"""
    nm = str(names[int(rng.integers(len(names)))])
    return [nm, float(rng.choice([-1., 1.]) * rng.uniform(.1, .6)), float(10 ** rng.uniform(-1.5, 0.))]


def gen_priors(rng, realised_names):
    k = int(rng.choice([0, 1, 2, 3, 4, 6], p=[.08, .2, .25, .25, .15, .07]))
    out = []
    for _ in range(k):
        if rng.random() < .7 and realised_names:
            nm = str(rng.choice(realised_names))
        elif rng.random() < .5:
            nm = str(rng.choice(REALISABLE))
        else:
            nm = str(rng.choice(ABSENT))
        centre = dict(lambda_mst=1., gamma_ppn=1., gamma_in=1., log_m2l=.2, gamma_pl=2., a_ani=1.5, beta_inf=.5).get(nm, 0.)
        out.append([nm, float(centre + rng.normal(0, .3)), float(10 ** rng.uniform(-2, .3))])
    return out


# ------------------------------------------------------------------------------------------------
# reference
# ------------------------------------------------------------------------------------------------
def realised_sharp(lens, pt, gamma_pl_index=None):
    """closed-form realised parameters for sharp hyper-parameters (all widths zero)"""
    kl, kk = pt["kwargs_lens"], pt["kwargs_kin"]
    x, y = lens.get("lambda_scaling_property", 0), lens.get("lambda_scaling_property_beta", 0)
    out = {}
    base = kl.get("lambda_ifu", 1) if lens.get("mst_ifu") else kl.get("lambda_mst", 1)
    out["lambda_mst"] = base + kl.get("alpha_lambda", 0) * x + kl.get("beta_lambda", 0) * y
    out["gamma_ppn"] = kl.get("gamma_ppn", 1)
    if lens.get("gamma_in_sampling"):
        out["gamma_in"] = kl.get("gamma_in", 1) + (kl.get("alpha_gamma_in", 0) * x if lens.get("gamma_in_distribution") == "GAUSSIAN" else 0)
    if lens.get("log_m2l_sampling"):
        out["log_m2l"] = kl.get("log_m2l", 1) + kl.get("alpha_log_m2l", 0) * x
    idx = lens.get("gamma_pl_index", gamma_pl_index)
    if idx is not None:
        out["gamma_pl"] = kl["gamma_pl_list"][idx]
    elif lens.get("gamma_pl_global_sampling"):
        out["gamma_pl"] = kl.get("gamma_pl_mean", 2)
    if lens.get("anisotropy_sampling"):
        a = kk["a_ani"]
        out["a_ani"] = 1 - a ** 2 if lens.get("anisotropy_distribution") == "GAUSSIAN_TAN_RAD" else a
        if lens.get("anisotropy_model") == "GOM":
            out["beta_inf"] = kk["beta_inf"]
    else:
        if kk.get("a_ani") is not None: out["a_ani"] = kk["a_ani"]
        if kk.get("beta_inf") is not None: out["beta_inf"] = kk["beta_inf"]
    return out


def prior_sum(priors, realised):
    s = 0.0
    for nm, mu, sg in priors:
        if nm in realised:
            s += -(float(realised[nm]) - mu) ** 2 / (2 * sg ** 2)
    return s


# ------------------------------------------------------------------------------------------------
# building / tapping
# ------------------------------------------------------------------------------------------------
def build_lens(lj, prior_list="__none__", drop=()):
    kw = {}
    for k, v in unjson(lj).items():
        if k in drop: continue
        if k in ARRAY_KEYS and v is not None: kw[k] = np.array(v, dtype=float)
        elif k in ("j_kin_scaling_param_axes", "j_kin_scaling_grid_list"): kw[k] = [np.array(a, dtype=float) for a in v]
        else: kw[k] = v
    if prior_list != "__none__":
        kw["prior_list"] = prior_list
    return kw


class Tap(object):
    """records, per single draw, the realised parameters and the data log-likelihood, by wrapping bound methods on the instance"""

    def __init__(self, ll):
        self.lens, self.kin, self.li = [], [], []
        self._d1 = self._d2 = 0
        ld, ad = ll._lens_distribution, ll._aniso_distribution
        o1, o2, o3 = ld.draw_lens, ad.draw_anisotropy, ll.log_likelihood

        def draw_lens(*a, **k):
            self._d1 += 1
            try: r = o1(*a, **k)
            finally: self._d1 -= 1
            if self._d1 == 0: self.lens.append(dict(r))     # the library re-draws recursively when out of bounds: keep the outer result
            return r

        def draw_anisotropy(*a, **k):
            self._d2 += 1
            try: r = o2(*a, **k)
            finally: self._d2 -= 1
            if self._d2 == 0: self.kin.append(dict(r))
            return r

        def log_likelihood(*a, **k):
            r = o3(*a, **k)
            self.li.append(fscalar(r))
            return r
        ld.draw_lens, ad.draw_anisotropy, ll.log_likelihood = draw_lens, draw_anisotropy, log_likelihood

    def realised(self):
        return [{**a, **b} for a, b in zip(self.lens, self.kin)]


def lens_value(ll, pt, seed):
    np.random.seed(seed)
    return fscalar(ll.lens_log_likelihood(cosmo(), kwargs_lens=copy.deepcopy(pt["kwargs_lens"]), kwargs_kin=copy.deepcopy(pt["kwargs_kin"]),
                                          kwargs_source=copy.deepcopy(pt["kwargs_source"]), kwargs_los=copy.deepcopy(pt["kwargs_los"])))


def tol(*v):
    return RT * max([1.0] + [abs(float(x)) for x in v])


def usable(*v):
    return all(np.isfinite(x) and x > -1e290 for x in v)


# ------------------------------------------------------------------------------------------------
# stream 1: one lens
# ------------------------------------------------------------------------------------------------
def run_single(rec, inp):
    from hierarc.Likelihood.hierarchy_likelihood import LensLikelihood
    lens, pt, priors, seed = inp["lens"], unjson(inp["point"]), [list(p) for p in unjson(inp["priors"])], int(inp["np_seed"])
    sharp = bool(inp["sharp"])
    as_tuple = inp.get("priors_as") == "tuple"
    mk = lambda pl: (tuple(tuple(p) for p in pl) if as_tuple else pl)
    try:
        l0 = LensLikelihood(**build_lens(lens))
        l1 = LensLikelihood(**build_lens(lens, prior_list=mk(priors)))
        le = LensLikelihood(**build_lens(lens, prior_list=([] if seed % 2 else None)))
    except Exception as e:
        rec.violation("C20:raises", "LensLikelihood could not be built", inp, repr(e)); return False
    t0, t1 = Tap(l0), Tap(l1)
    try:
        v0 = lens_value(l0, pt, seed); v1 = lens_value(l1, pt, seed); ve = lens_value(le, pt, seed)
    except Exception as e:
        rec.violation("C20:raises", "lens_log_likelihood raised", inp, repr(e)); return False
    if not usable(v0):
        rec.tally("trivial:-inf"); return False
    rec.check(ve == v0, "C20:empty", "an empty / None prior list changes the value", inp, dict(v_empty=ve, v0=v0), "identical")
    n0, n1 = len(t0.li), len(t1.li)
    if not (len(t0.lens) == len(t0.kin) == n0 and len(t1.lens) == len(t1.kin) == n1):
        # every single-draw evaluation must consist of exactly one lens draw, one anisotropy draw and one data likelihood
        rec.violation("C20:prior_changes_draws", "number of lens / anisotropy draws per data-likelihood evaluation is not one", inp,
                      dict(without_prior=[len(t0.lens), len(t0.kin), n0], with_prior=[len(t1.lens), len(t1.kin), n1]), "one draw of each per evaluation")
        return True
    # prior must not change what is drawn / evaluated
    same = (n0 == n1) and all(a == b for a, b in zip(t0.li, t1.li)) and all(a == b for a, b in zip(t0.realised(), t1.realised()))
    rec.check(same, "C20:prior_changes_draws", "with the same seed the draws / per-draw data likelihoods differ with and without prior", inp,
              dict(n0=n0, n1=n1), "identical sequences")
    R = t1.realised()
    if sharp:
        ref = realised_sharp(lens, pt)
        if n1 != 1:
            # several identical evaluations are possible (known C04 finding on inapplicable scatter) but not with all widths at zero
            rec.error("sharp point evaluated %d times" % n1)
        got = R[0]
        for nm in sorted(set(ref) | set(got)):
            ok = (nm in ref) and (nm in got) and abs(float(got[nm]) - float(ref[nm])) <= 1e-12 * max(1, abs(float(ref[nm])))
            rec.check(ok, "C20:realised:" + nm, "realised parameter differs from the closed formula", inp,
                      dict(got=got.get(nm, "absent"), idx=lens.get("gamma_pl_index")), ref.get(nm, "absent"))
        exp = prior_sum(priors, ref)
        rec.check(usable(v1) and abs((v1 - v0) - exp) <= tol(v0, exp), "C20:sum", "with-prior minus without-prior != sum of Gaussian terms at the realised values", inp,
                  dict(v0=v0, v1=v1, diff=v1 - v0, realised=ref), exp)
        # one-entry lists: names the parameter
        names = list(dict.fromkeys([p[0] for p in priors] + [str(x) for x in inp.get("extra_names", [])]))
        for nm in names:
            p = next((q for q in priors if q[0] == nm), [nm, 0.3, 0.7])
            try:
                lp = LensLikelihood(**build_lens(lens, prior_list=mk([p])))
                vp = lens_value(lp, pt, seed)
            except Exception as e:
                rec.violation("C20:raises", "lens_log_likelihood raised with a one-entry prior", inp, dict(prior=p, err=repr(e))); continue
            if nm in ref:
                e1 = -(float(ref[nm]) - p[1]) ** 2 / (2 * p[2] ** 2)
                rec.check(abs((vp - v0) - e1) <= tol(v0, e1), ("C20:term_at_zero:" if float(ref[nm]) == 0.0 else "C20:term:") + nm, "one-entry prior: shift != -(x-mu)^2/(2 sigma^2) at the realised x", inp,
                          dict(prior=p, x=ref[nm], diff=vp - v0), e1)
            else:
                rec.check(vp == v0, "C20:absent:" + nm, "a prior on a parameter the lens does not realise changes its likelihood", inp,
                          dict(prior=p, diff=vp - v0, realised=sorted(ref)), 0.0)
    else:
        ps = np.array([prior_sum(priors, r) for r in R])
        li = np.array(t1.li)
        tot = li + ps
        fin = np.isfinite(tot)
        N = int(lens.get("num_distribution_draws", 50))
        if n1 == 1:
            exp = float(tot[0])          # nothing to draw for this lens although some width is non-zero elsewhere
        else:
            exp = float(_lse(tot[fin]) - np.log(N)) if fin.any() else -np.inf
            if n1 != N: rec.error("scatter point evaluated %d times, N=%d" % (n1, N))
        rec.check(usable(v1) and np.isfinite(exp) and abs(v1 - exp) <= tol(v1, exp), "C20:scatter_inside_average",
                  "value != log-mean-exp of (per-draw data likelihood + prior at that draw's realised parameters)", inp,
                  dict(v1=v1, v0=v0, n=n1, prior_per_draw=ps[:4]), exp)
    return True


# ------------------------------------------------------------------------------------------------
# stream 2: sample of lenses
# ------------------------------------------------------------------------------------------------
def run_sample(rec, inp):
    from hierarc.Likelihood.lens_sample_likelihood import LensSampleLikelihood
    lenses, pt, seed, sharp = inp["lenses"], unjson(inp["point"]), int(inp["np_seed"]), bool(inp["sharp"])
    plists = [[list(p) for p in unjson(pl)] for pl in inp["priors"]]
    k = len(lenses); who = int(inp["who"])

    def make(which):
        ls = [build_lens(l, prior_list=(plists[j] if j in which else "__none__"), drop=("normalized",)) for j, l in enumerate(lenses)]
        return LensSampleLikelihood(ls, normalized=bool(inp["normalized"]), kwargs_global_model={})
    try:
        S0, Sall, Sone = make(()), make(range(k)), make((who,))
    except Exception as e:
        rec.violation("C20:raises", "LensSampleLikelihood could not be built", inp, repr(e)); return False
    # slots of gamma_pl in sample order
    slot, c = {}, 0
    for j, l in enumerate(lenses):
        if "gamma_pl" in l.get("kin_scaling_param_list", []):
            slot[j] = c; c += 1
    pt = copy.deepcopy(pt); pt["kwargs_lens"]["gamma_pl_list"] = pt["kwargs_lens"]["gamma_pl_list"][:max(c, 1)]
    try:
        terms = {}
        for nm, S in (("0", S0), ("all", Sall), ("one", Sone)):
            taps = [Tap(L) for L in S._lens_list]
            terms[nm] = ([lens_value(L, pt, seed + 13 * j) for j, L in enumerate(S._lens_list)], taps)
        np.random.seed(seed); T0 = fscalar(S0.log_likelihood(cosmo(), **{k_: copy.deepcopy(v) for k_, v in pt.items()}))
        np.random.seed(seed); Tall = fscalar(Sall.log_likelihood(cosmo(), **{k_: copy.deepcopy(v) for k_, v in pt.items()}))
    except Exception as e:
        rec.violation("C20:raises", "sample likelihood raised", inp, repr(e)); return False
    v0, vall, vone = terms["0"][0], terms["all"][0], terms["one"][0]
    if not usable(*v0):
        rec.tally("trivial:-inf"); return False
    exp_tot = 0.0
    for j in range(k):
        if j != who:
            rec.check(vone[j] == v0[j], "C20:isolation", "a prior attached to lens i changes the term of lens j", inp,
                      dict(i=who, j=j, term_without=v0[j], term_with=vone[j]), "bit-identical")
        tap = terms["all"][1][j]
        # the three evaluations above share the taps' lists per sample; terms['all'] holds exactly one evaluation per lens + the total run
        n_single = len(tap.li) // 2 if len(tap.li) % 2 == 0 else None
        if sharp:
            ref = realised_sharp(lenses[j], pt, gamma_pl_index=slot.get(j))
            e = prior_sum(plists[j], ref)
            exp_tot += e
            rec.check(abs((vall[j] - v0[j]) - e) <= tol(v0[j], e), "C20:sample_term", "lens term moves by something else than its own prior sum", inp,
                      dict(lens=j, slot=slot.get(j), diff=vall[j] - v0[j], realised=ref), e)
            if j == who:
                rec.check(abs((vone[j] - v0[j]) - e) <= tol(v0[j], e), "C20:sample_term", "lens term (only this lens has priors) moves by something else than its prior sum", inp,
                          dict(lens=j, diff=vone[j] - v0[j]), e)
        elif n_single:
            R = tap.realised()[:n_single]; li = np.array(tap.li[:n_single])
            ps = np.array([prior_sum(plists[j], r) for r in R]); tot = li + ps; fin = np.isfinite(tot)
            N = int(lenses[j].get("num_distribution_draws", 50))
            e = float(tot[0]) if n_single == 1 else (float(_lse(tot[fin]) - np.log(N)) if fin.any() else -np.inf)
            rec.check(np.isfinite(e) and abs(vall[j] - e) <= tol(vall[j], e), "C20:scatter_inside_average", "sample: lens term != log-mean-exp of (l_i + prior_i)", inp,
                      dict(lens=j, v=vall[j], n=n_single), e)
            # lens j's own slot of gamma_pl_list is what a gamma_pl prior sees
            if j in slot:
                want = pt["kwargs_lens"]["gamma_pl_list"][slot[j]]
                rec.check(all(r.get("gamma_pl") == want for r in R), "C20:realised:gamma_pl", "sample: lens does not realise its own gamma_pl slot", inp,
                          dict(lens=j, slot=slot[j], got=[r.get("gamma_pl") for r in R[:2]]), want)
    if sharp and usable(T0, Tall):
        rec.check(abs((Tall - T0) - exp_tot) <= tol(T0, exp_tot), "C20:sample_total", "sample total moves by something else than the sum of the per-lens prior sums", inp,
                  dict(T0=T0, Tall=Tall, diff=Tall - T0), exp_tot)
    return True


# ------------------------------------------------------------------------------------------------
# stream 3: emitted priors
# ------------------------------------------------------------------------------------------------
_STUBS = {}


def stub_classes():
    if _STUBS: return _STUBS
    import hashlib
    from hierarc.LensPosterior.kin_constraints import KinConstraints
    from hierarc.LensPosterior.ddt_kin_constraints import DdtKinConstraints
    from hierarc.LensPosterior.kin_constraints_composite import KinConstraintsComposite

    def J_of(kw, n):
        def norm(o):
            if isinstance(o, dict): return {k: norm(v) for k, v in sorted(o.items())}
            if isinstance(o, (list, tuple)): return [norm(v) for v in o]
            if isinstance(o, np.ndarray): return [round(float(x), 12) for x in o.ravel()]
            return round(float(o), 12) if isinstance(o, (int, float, np.floating, np.integer)) else o
        h = int(hashlib.md5(json.dumps(norm(kw), sort_keys=True).encode()).hexdigest()[:8], 16) / 2 ** 32
        # physically scaled: sigma_v = sqrt(J Ds/Dds) c ~ 250 km/s
        return (250. / C_KMS) ** 2 / 1.6 * (1 + .25 * h) * np.linspace(1., 1.1, n)

    class Stub(object):
        # lenstronomy 1.14.2: the real kinematics_modeling_settings refuses these settings; the numerical J() is irrelevant to C20
        def kinematics_modeling_settings(self, *a, **k): pass

        def velocity_dispersion_map_dimension_less(self, **kw):
            return J_of(kw, len(self._sigma_v_measured))
    _STUBS["KinConstraints"] = type("KC", (Stub, KinConstraints), {})
    _STUBS["DdtKinConstraints"] = type("DKC", (Stub, DdtKinConstraints), {})
    _STUBS["KinConstraintsComposite"] = type("KCC", (Stub, KinConstraintsComposite), {})
    return _STUBS


AP = {"aperture_type": "slit", "length": 1, "width": 1, "center_ra": 0, "center_dec": 0, "angle": 0}
SEE = {"psf_type": "GAUSSIAN", "fwhm": 1.4}
NUM = {"interpol_grid_num": 100, "log_integration": True, "max_integrate": 100, "min_integrate": 0.001}


def gen_emitted(rng):
    cls = str(rng.choice(["KinConstraints", "DdtKinConstraints", "KinConstraintsComposite"], p=[.4, .3, .3]))
    n = int(rng.integers(1, 4))
    d = dict(cls=cls, z_lens=float(rng.uniform(.2, .8)), z_source=float(rng.uniform(1.2, 3.)), theta_E=float(rng.uniform(.7, 1.8)), theta_E_error=float(rng.uniform(.005, .05)),
             gamma=float(rng.uniform(1.8, 2.25)), gamma_error=float(rng.uniform(.02, .2)), r_eff=float(rng.uniform(.5, 1.5)), r_eff_error=float(rng.uniform(.02, .1)),
             sigma_v_measured=[float(x) for x in rng.uniform(200, 300, n)], sigma_v_error_independent=[float(x) for x in rng.uniform(8, 15, n)],
             sigma_v_error_covariant=float(rng.uniform(1, 5)), anisotropy_model=str(rng.choice(["OM", "GOM", "const"] if cls != "KinConstraintsComposite" else ["OM", "const"])),
             num_sample_model=int(rng.integers(3, 6)), np_seed=int(rng.integers(0, 2 ** 31 - 1)))
    if cls == "KinConstraintsComposite":
        d.update(gamma_in_prior_mean=(float(rng.uniform(.8, 1.2)) if rng.random() < .6 else None), gamma_in_prior_std=(float(rng.uniform(.05, .3)) if rng.random() < .6 else None),
                 m2l_pop=bool(rng.random() < .7), nS=int(rng.integers(4, 8)))
    else:
        ng = int(rng.integers(2, 5))
        lo = float(rng.uniform(1.5, 1.75)); hi = float(rng.uniform(2.3, 2.6))
        d["gamma_pl_scaling"] = ([float(x) for x in np.linspace(lo, hi, ng)] if rng.random() < .65 else None)
        if cls == "DdtKinConstraints":
            d["ddt_samples"] = [float(x) for x in rng.normal(4000, 250, 120)]
    d["gamma_pl_eval"] = float(rng.uniform(1.8, 2.25)); d["a_ani_eval"] = float(rng.uniform(.6, 1.8) if d["anisotropy_model"] != "const" else rng.uniform(0., .6))
    d["beta_inf_eval"] = float(rng.uniform(.2, .9))
    return d


def run_emitted(rec, inp):
    d = unjson(inp)
    K = stub_classes()[d["cls"]]
    common_kw = dict(theta_E=d["theta_E"], theta_E_error=d["theta_E_error"], gamma=d["gamma"], gamma_error=d["gamma_error"], r_eff=d["r_eff"], r_eff_error=d["r_eff_error"],
                     sigma_v_measured=d["sigma_v_measured"], kwargs_aperture=AP, kwargs_seeing=SEE, kwargs_numerics_galkin=NUM, anisotropy_model=d["anisotropy_model"],
                     sigma_v_error_independent=d["sigma_v_error_independent"], sigma_v_error_covariant=d["sigma_v_error_covariant"])
    np.random.seed(int(d["np_seed"]))
    try:
        if d["cls"] == "KinConstraints":
            kc = K(d["z_lens"], d["z_source"], gamma_pl_scaling=(None if d["gamma_pl_scaling"] is None else np.array(d["gamma_pl_scaling"])), **common_kw)
        elif d["cls"] == "DdtKinConstraints":
            kc = K(z_lens=d["z_lens"], z_source=d["z_source"], ddt_samples=np.array(d["ddt_samples"]), ddt_weights=None,
                   gamma_pl_scaling=(None if d["gamma_pl_scaling"] is None else np.array(d["gamma_pl_scaling"])), **common_kw)
        else:
            sub = rng_of(d["np_seed"], 2001); nS = int(d["nS"])
            light = [{"amp": np.array([10., 5.]), "sigma": np.array([.3, .9])}]
            kc = K(d["z_lens"], d["z_source"], gamma_in_array=np.linspace(.5, 1.5, 3), log_m2l_array=(np.linspace(.1, .5, 3) if d["m2l_pop"] else sub.uniform(.1, .5, nS)),
                   alpha_Rs_array=sub.uniform(.5, 1, nS), r_s_angle_array=sub.uniform(5, 10, nS), kwargs_lens_light=light, lens_light_model_list=["MULTI_GAUSSIAN"],
                   gamma_in_prior_mean=d["gamma_in_prior_mean"], gamma_in_prior_std=d["gamma_in_prior_std"], is_m2l_population_level=d["m2l_pop"], **common_kw)
        cfg = kc.hierarchy_configuration(num_sample_model=int(d["num_sample_model"]))
    except Exception as e:
        rec.violation("C20:raises", "%s.hierarchy_configuration raised" % d["cls"], inp, repr(e)); return False
    pl = cfg.get("prior_list", "missing")
    num = lambda v: float(v) if isinstance(v, (int, float, np.floating, np.integer)) else v
    plain = lambda x: [[num(q) for q in p] for p in x] if isinstance(x, (list, tuple)) else x
    if d["cls"] != "KinConstraintsComposite":
        interpolated = "gamma_pl" in list(cfg["kin_scaling_param_list"])
        rec.check(interpolated == (d["gamma_pl_scaling"] is not None), "C20:emitted:gamma_pl:" + d["cls"], "gamma_pl_scaling given but gamma_pl not in the interpolated parameters (or vice versa)", inp,
                  list(cfg["kin_scaling_param_list"]))
        want = [["gamma_pl", d["gamma"], d["gamma_error"]]] if d["gamma_pl_scaling"] is not None else []
        rec.check(plain(pl) == want, "C20:emitted:gamma_pl:" + d["cls"], "emitted prior_list is not [['gamma_pl', gamma, gamma_error]] iff gamma_pl is interpolated", inp, plain(pl), want)
    else:
        both = d["gamma_in_prior_mean"] is not None and d["gamma_in_prior_std"] is not None
        want = [["gamma_in", d["gamma_in_prior_mean"], d["gamma_in_prior_std"]]] if both else None
        rec.check(plain(pl) == want, "C20:emitted:gamma_in", "composite prior_list is not [['gamma_in', mean, std]] iff both numbers are given", inp, plain(pl), want)
    # end to end: the emitted configuration inside a two-lens sample
    try:
        from hierarc.Likelihood.lens_sample_likelihood import LensSampleLikelihood
        names = list(cfg["kin_scaling_param_list"])
        other = dict(z_lens=.4, z_source=1.7, likelihood_type="DsDdsGaussian", ds_dds_mean=1.5, ds_dds_sigma=.1, kin_scaling_param_list=["gamma_pl"],
                     j_kin_scaling_param_axes=[np.array([1.5, 2.0, 2.6])], j_kin_scaling_grid_list=[np.array([.9, 1., 1.1])], prior_list=[["gamma_pl", 2.0, 0.05]])
        first = bool(d["np_seed"] % 2)
        cfg0 = {k: v for k, v in cfg.items() if k != "prior_list"}
        gm = dict(anisotropy_sampling=True, anisotropy_distribution="NONE", gamma_in_sampling=("gamma_in" in names), log_m2l_sampling=("log_m2l" in names))
        order = (lambda c: [other, c]) if first else (lambda c: [c, other])
        S1 = LensSampleLikelihood(order(cfg), normalized=False, kwargs_global_model=gm)
        S0 = LensSampleLikelihood(order(cfg0), normalized=False, kwargs_global_model=gm)
        has = "gamma_pl" in names
        gl = [2.03, d["gamma_pl_eval"]] if first else [d["gamma_pl_eval"], 2.03]
        if not has: gl = [2.03]
        kl = dict(lambda_mst=1.02, gamma_pl_list=gl, gamma_in=1.05, log_m2l=.3)
        kk = dict(a_ani=d["a_ani_eval"], beta_inf=d["beta_inf_eval"])
        a = fscalar(S1.log_likelihood(cosmo(), kwargs_lens=kl, kwargs_kin=kk)); b = fscalar(S0.log_likelihood(cosmo(), kwargs_lens=kl, kwargs_kin=kk))
        real = dict(gamma_pl=d["gamma_pl_eval"], gamma_in=1.05) if has else dict(gamma_in=1.05)
        if not ("gamma_in" in names): real.pop("gamma_in")
        exp = prior_sum(want or [], real)      # the specified prior, not the emitted one
        if usable(a, b):
            rec.check(abs((a - b) - exp) <= tol(a, exp), "C20:emitted:end_to_end", "emitted configuration in a sample: shift != prior at the lens' own gamma_pl / gamma_in", inp,
                      dict(diff=a - b, prior=plain(pl), realised=real, position=1 if first else 0), exp)
    except Exception as e:
        rec.violation("C20:raises", "emitted configuration could not be evaluated in LensSampleLikelihood", inp, repr(e))
    return True


# ------------------------------------------------------------------------------------------------
def gen_single(rng):
    sharp = bool(rng.random() < .55)
    lens = gen_lens(rng, 0)
    pt = fix_point_for(lens, gen_point(rng, sharp))
    zeros = inject_zeros(rng, [lens], pt, True) if rng.random() < .25 else []
    ref = realised_sharp(lens, pt)
    ref_names = sorted(ref)
    priors = gen_priors(rng, ref_names)
    extra = [str(rng.choice(ABSENT))] + ([str(rng.choice(REALISABLE))] if rng.random() < .5 else [])
    zn = [n for n in zeros if n in ref]
    if zn:
        priors.insert(int(rng.integers(0, len(priors) + 1)), zero_prior(rng, zn))
        extra += zn
    return dict(stream="single", lens=jsonable(lens), point=pt, priors=priors, sharp=sharp, np_seed=int(rng.integers(0, 2 ** 31 - 1)),
                extra_names=extra, priors_as=str(rng.choice(["list", "tuple"], p=[.8, .2])), zeros=zeros)


def gen_sample(rng):
    sharp = bool(rng.random() < .55)
    k = int(rng.integers(2, 5))
    lenses = [gen_lens(rng, j, sample_mode=True) for j in range(k)]
    pt = gen_point(rng, sharp)
    for l in lenses: fix_point_for(l, pt)
    zeros = inject_zeros(rng, lenses, pt, False) if rng.random() < .25 else []
    priors = [gen_priors(rng, sorted(realised_sharp(l, pt, gamma_pl_index=0))) for l in lenses]
    for l, pl in zip(lenses, priors):
        zn = [n for n in zeros if n in realised_sharp(l, pt, gamma_pl_index=0)]
        if zn and rng.random() < .7: pl.append(zero_prior(rng, zn))
    return dict(stream="sample", lenses=jsonable(lenses), point=pt, priors=priors, sharp=sharp, who=int(rng.integers(0, k)),
                normalized=bool(rng.random() < .5), np_seed=int(rng.integers(0, 2 ** 31 - 1)), zeros=zeros)


def gen_history(rng):
    names = ["lambda_mst", "gamma_ppn", "a_ani", "beta_inf", "gamma_in", "log_m2l", "gamma_pl", "not_a_parameter"]
    k = int(rng.integers(1, 5))
    priors = [[str(n), float(np.round(rng.uniform(-1, 2), 3)), float(np.round(rng.uniform(0.05, 1.0), 3))] for n in rng.choice(names, k, replace=True)]
    seq = []
    for _ in range(int(rng.integers(2, 6))):
        have = [n for n in names[:-1] if rng.random() < 0.5]
        seq.append({n: float(np.round(rng.uniform(-1, 3), 3)) for n in have})
    return dict(stream="history", priors=priors, seq=seq, via_lens=bool(rng.random() < 0.4))


def run_history(rec, inp):
    """ONE prior object (and one lens carrying it) evaluated several times in a row with DIFFERENT sets of realised parameters: every call
    must be the formula over the parameters realised in THAT call (a lens without anisotropy sampling realises a_ani / beta_inf only when they
    are handed over)."""
    from hierarc.Likelihood.prior_likelihood import PriorLikelihood
    pl = PriorLikelihood(prior_list=[list(p) for p in inp["priors"]])
    for j, real in enumerate(inp["seq"]):
        ref = prior_sum(inp["priors"], real)
        try: v = float(pl.log_likelihood(dict(real)))
        except Exception as e:
            rec.violation("C20:history:raises", "the prior object raised on call %d of a sequence" % j, dict(inp, call=j), repr(e)[:160], ref); return True
        rec.check(abs(v - ref) <= 1e-9 * max(1.0, abs(ref)), "C20:history:value", "call %d on the same prior object is not the formula over the parameters realised in that call" % j,
                  dict(inp, call=j), v, ref)
    if inp["via_lens"]:
        from hierarc.Likelihood.hierarchy_likelihood import LensLikelihood
        base = dict(z_lens=0.5, z_source=1.5, likelihood_type="DdtGaussian", ddt_mean=3000., ddt_sigma=200.)
        pri = [p for p in inp["priors"] if p[0] in ("lambda_mst", "gamma_ppn", "a_ani", "beta_inf")]
        with_p = LensLikelihood(prior_list=[list(p) for p in pri], **base); without = LensLikelihood(**base)
        c = cosmo()
        for j, real in enumerate(inp["seq"]):
            kl = dict(lambda_mst=real.get("lambda_mst", 1.0), gamma_ppn=real.get("gamma_ppn", 1.0))
            kk = {n: real[n] for n in ("a_ani", "beta_inf") if n in real}
            realised = dict(kl, **kk)
            ref = prior_sum(pri, realised)
            try: d = fscalar(with_p.lens_log_likelihood(c, kwargs_lens=kl, kwargs_kin=kk)) - fscalar(without.lens_log_likelihood(c, kwargs_lens=kl, kwargs_kin=kk))
            except Exception as e:
                rec.violation("C20:history:raises", "a lens carrying a prior raised on call %d of a sequence" % j, dict(inp, call=j, lens=True), repr(e)[:160], ref); return True
            rec.check(abs(d - ref) <= 1e-8 * max(1.0, abs(ref)), "C20:history:lens_value", "call %d on the same lens: prior term is not the formula over the parameters realised in that call" % j,
                      dict(inp, call=j, lens=True), d, ref)
    return len({frozenset(r) for r in inp["seq"]}) > 1


def run_case(rec, inp):
    s = inp.get("stream")
    if s == "history": return run_history(rec, inp)
    if s == "single": return run_single(rec, inp)
    if s == "sample": return run_sample(rec, inp)
    if s == "emitted": return run_emitted(rec, inp)
    raise ValueError("unknown stream %r" % s)


def main():
    args = parse_args(PROP)
    rec = Recorder(PROP, args.tier, args.seed, RULE)
    if args.replay:
        with open(args.replay) as fh:
            rep = json.load(fh)
        rec.case(dict(replay=rep.get("key")), kind="replay")
        try:
            run_case(rec, rep["input"])
        except Exception:
            rec.error(traceback.format_exc(limit=6))
        rec.write(args.out)
        return
    n_single, n_sample, n_emit = (500, 120, 40) if args.tier == "quick" else (10000, 2400, 500)
    rngh = rng_of(args.seed, 21)
    for i in range(60 if args.tier == "quick" else 1200):
        try:
            inp = gen_history(rngh)
            nt = run_case(rec, inp)
            rec.case(dict(i=i, priors=inp["priors"], calls=len(inp["seq"]), via_lens=inp["via_lens"]), nontrivial=bool(nt), kind="history|%s" % ("lens" if inp["via_lens"] else "object"))
        except Exception:
            rec.error(traceback.format_exc(limit=6))
    rng = rng_of(args.seed, 20)
    for i in range(n_single + n_sample + n_emit):
        try:
            if i < n_single:
                inp = gen_single(rng)
                l = inp["lens"]
                descr = dict(i=i, t=l["likelihood_type"], S=l.get("kin_scaling_param_list"), priors=inp["priors"], sharp=inp["sharp"], seed=inp["np_seed"])
                kind = "single|%s|%s" % (l["likelihood_type"], "sharp" if inp["sharp"] else "scatter")
                for p in inp["priors"]: rec.tally("prior_name:" + p[0])
                for z in inp["zeros"]: rec.tally("realised_exactly_zero:" + z)
            elif i < n_single + n_sample:
                inp = gen_sample(rng)
                descr = dict(i=i, t=[l["likelihood_type"] for l in inp["lenses"]], priors=inp["priors"], sharp=inp["sharp"], who=inp["who"], seed=inp["np_seed"])
                kind = "sample|k=%d|%s" % (len(inp["lenses"]), "sharp" if inp["sharp"] else "scatter")
            else:
                inp = gen_emitted(rng); inp["stream"] = "emitted"
                descr = {k: v for k, v in inp.items() if k not in ("ddt_samples",)}
                kind = "emitted|" + inp["cls"]
            nt = run_case(rec, inp)
            rec.case(descr, nontrivial=bool(nt), kind=kind)
        except Exception:
            rec.error(traceback.format_exc(limit=6))
    rec.write(args.out)


if __name__ == "__main__":
    main()
