#!/usr/bin/env python
"""Implementation-level oracle for property C11.

C11: the supernova likelihood is free of the distance scale (H0) and, with a free normalisation, of the anchor;
with an explicit anchor magnitude it only depends on modulus differences to the anchor (re-anchoring with the
modulus difference leaves it unchanged); custom samples: sigma adds sigma^2 to the diagonal of the covariance
without touching stored data, value == multivariate-normal log-density; the lens-side modulus offset of lensed
SNe uses the same convention and SourceParam injects the anchor.

Sub-checks ("check" field of the input; --replay dispatches on it)
  sne     SneLikelihood on CUSTOM (synthetic) / Pantheon_binned / Roman_forecast: invariances, reference value,
          call sequences, stored data bit-identical
  lens    LensLikelihood.luminosity_distance_modulus vs an independent FLRW integral, re-anchoring of a lensed-SN
          likelihood, a custom SN at the source redshift ties both conventions
  source  SourceParam: z_apparent_m_anchor injected, mu_sne / sigma_sne routing
  e2e     CosmoLikelihood(Mag lens + custom SNe): value == lens reference + SNe reference at ONE anchor; re-anchoring
"""
import sys, os
sys.path.insert(0, os.path.dirname(os.path.abspath(__file__)))
from common import *  # noqa
import copy
from scipy.integrate import quad
from scipy.stats import multivariate_normal as mvn

SNE_DIR = os.path.join(REPO, "hierarc", "Data", "SNe")


# ------------------------------------------------------------------------------------------------------
# cosmologies (object handed to hierArc) and an independent FLRW distance
# ------------------------------------------------------------------------------------------------------
def build_cosmo(spec, factor=1.0):
    from astropy.cosmology import FlatLambdaCDM, FlatwCDM, LambdaCDM
    h0 = spec["H0"] * factor
    k = spec["kind"]
    if k == "interp":
        return cosmo_interp(h0, spec["Om0"], zmax=spec.get("zmax", 3.2), n=int(spec.get("n", 150)))
    if k == "flat":
        return FlatLambdaCDM(H0=h0, Om0=spec["Om0"])
    if k == "wcdm":
        return FlatwCDM(H0=h0, Om0=spec["Om0"], w0=spec["w0"])
    if k == "curved":
        return LambdaCDM(H0=h0, Om0=spec["Om0"], Ode0=spec["Ode0"])
    raise ValueError(k)


def flrw_dl_ratio_mag(spec, z1, z0):
    """5 log10( D_L(z1) / D_L(z0) ) from a direct quadrature of 1/E; independent of astropy / lenstronomy"""
    om = spec["Om0"]
    w = spec.get("w0", -1.0)
    ode = spec.get("Ode0", 1.0 - om)
    ok = 1.0 - om - ode if spec["kind"] == "curved" else 0.0

    def dm(z):
        f = lambda x: 1.0 / np.sqrt(om * (1 + x) ** 3 + ok * (1 + x) ** 2 + ode * (1 + x) ** (3 * (1 + w)))
        dc = quad(f, 0, z, epsabs=1e-13, epsrel=1e-12)[0]
        if ok > 1e-12:
            return np.sinh(np.sqrt(ok) * dc) / np.sqrt(ok)
        if ok < -1e-12:
            return np.sin(np.sqrt(-ok) * dc) / np.sqrt(-ok)
        return dc
    return 5 * np.log10((1 + z1) * dm(z1) / ((1 + z0) * dm(z0)))


def mu_of(c, z):
    """5 log10((1+z)^2 D_A(z)) with the D_A of the cosmology OBJECT (what both likelihoods must agree on)"""
    z = np.asarray(z, dtype=float)
    return 5 * np.log10((1 + z) ** 2 * np.asarray(c.angular_diameter_distance(z).value, dtype=float))


def gen_cosmo(rng, allow_interp=True):
    kind = str(rng.choice(["interp", "flat", "wcdm", "curved"] if allow_interp else ["flat", "wcdm", "curved"]))
    spec = dict(kind=kind, H0=float(rng.uniform(40, 100)), Om0=float(rng.uniform(0.1, 0.5)))
    if kind == "wcdm":
        spec["w0"] = float(rng.uniform(-1.6, -0.5))
    if kind == "curved":
        spec["Ode0"] = float(rng.uniform(0.4, 0.9))
    return spec


# ------------------------------------------------------------------------------------------------------
# samples
# ------------------------------------------------------------------------------------------------------
def custom_sample(inp):
    g = np.random.default_rng([int(inp["data_seed"]), 1111])
    n = int(inp["n"])
    z = np.sort(g.uniform(0.01, 2.0, n))
    zh = z + (g.normal(0, 2e-3, n) if inp.get("zhel_differs", True) else 0.)
    zh = np.maximum(zh, 1e-3)
    true = dict(kind="flat", H0=70., Om0=0.3)
    mu = np.array([flrw_dl_ratio_mag(true, zi, 0.1) for zi in z])
    scale = float(inp.get("cov_scale", 0.15))
    cov = pd(g, n, scale) if not inp.get("diag_cov", False) else np.diag(g.uniform(0.3, 1.5, n) * scale ** 2)
    mag = float(inp.get("M", 19.0)) + mu + g.multivariate_normal(np.zeros(n), cov)
    # (own stream, derived from the data seed) half of the samples list the supernovae in another order than by redshift (discovery order),
    # and 40% hand the covariance over column-major (a transposed / Fortran-ordered array, e.g. a catalogue sub-selection cov[sel][:, sel])
    g2 = np.random.default_rng([int(inp["data_seed"]), 2222])
    if n > 1 and g2.random() < 0.5:
        perm = g2.permutation(n)
        mag, zh, z, cov = mag[perm], zh[perm], z[perm], cov[np.ix_(perm, perm)]
    if g2.random() < 0.4:
        cov = np.asfortranarray(cov)
    return mag, cov, zh, z


def read_file_sample(name):
    """own parser of the bundled files: returns mag, zhel, zcmb, full covariance, weights-variance"""
    if name == "Pantheon_binned":
        f, cf, pec = os.path.join(SNE_DIR, "pantheon_binned_lcparam_DS17f.txt"), None, 0.0
    else:
        f = os.path.join(SNE_DIR, "RomanWFIRST", "lcparam_WFIRST_G10.txt")
        cf, pec = os.path.join(SNE_DIR, "RomanWFIRST", "sys_WFIRST_G10_0.txt"), 0.001
    with open(f) as fh:
        head = fh.readline().lstrip("#").split()
    t = np.loadtxt(f, comments="#", ndmin=2)
    col = {h: t[:, i] for i, h in enumerate(head[:t.shape[1]])}  # the header names one column more than the rows hold
    zc, zh, mag, dmb = col["zcmb"], col["zhel"], col["mb"], col["dmb"]
    n = len(zc)
    if cf is None:
        sys_cov = np.zeros((n, n))
    else:
        v = np.loadtxt(cf)
        sys_cov = v[1:].reshape(n, n) if len(v) == n * n + 1 else v.reshape(n, n)
    var = dmb ** 2 + (5 / np.log(10)) ** 2 * pec ** 2 * ((1 + zc) / (zc * (1 + 0.5 * zc))) ** 2
    return mag, zh, zc, sys_cov + np.diag(var), var


def snapshot(S):
    """bit-level copy of every ndarray reachable from the likelihood object (depth 2)"""
    out = {}
    for owner_name, owner in (("S", S), ("L", getattr(S, "_likelihood", None))):
        if owner is None:
            continue
        for k, v in vars(owner).items():
            if isinstance(v, np.ndarray):
                out[owner_name + "." + k] = v.copy()
    return out


def same_snapshot(a, b):
    return set(a) == set(b) and all(a[k].shape == b[k].shape and a[k].tobytes() == b[k].tobytes() for k in a)


def check_sne(rec, inp):
    from hierarc.Likelihood.SneLikelihood.sne_likelihood import SneLikelihood
    name = inp["sample"]
    spec, fac = inp["cosmo"], float(inp["h0_factor"])
    za, zb, m, sig = float(inp["za"]), float(inp["zb"]), float(inp["m"]), inp["sigma"]
    try:
        if name == "CUSTOM":
            mag, cov, zh, zc = custom_sample(inp)
            held = [a.copy() for a in (mag, cov, zh, zc)]
            S = SneLikelihood("CUSTOM", mag_mean=mag, cov_mag=cov, zhel=zh, zcmb=zc,
                              no_intrinsic_scatter=bool(inp.get("no_intrinsic_scatter", False)))
            sig_eff = 0.0 if (sig is None or inp.get("no_intrinsic_scatter", False)) else float(sig)
            ctot = held[1] + sig_eff ** 2 * np.eye(len(mag))
            wvar = np.diag(ctot).copy()
        else:
            S = SneLikelihood(name)
            mag, zh, zc, ctot, wvar = read_file_sample(name)
            held = None
        c1, c2 = build_cosmo(spec), build_cosmo(spec, fac)
        snap0 = snapshot(S)
    except Exception:
        rec.error(traceback.format_exc(limit=3))
        return
    tag = name
    tol = dict(rtol=1e-9, atol=2e-7)  # log10 of distances that differ by a factor: cancellation at the 1e-15 level
    #                                  times chi^2 gradients of <= 1e6 per magnitude for the forecast sample

    def f(c, mm, ss, z_anchor):
        return fscalar(S.log_likelihood(c, apparent_m_z=mm, sigma_m_z=ss, z_anchor=z_anchor))
    try:
        # --- free normalisation: H0 and anchor drop out ---------------------------------------------------
        a, b, c_ = f(c1, None, sig, za), f(c2, None, sig, zb), f(c1, None, sig, zb)
        rec.check(rec.close(a, b, **tol) and rec.close(a, c_, **tol), "C11:free_norm:" + tag,
                  "free normalisation: log-likelihood changes with H0 rescaling / anchor redshift", inp, [a, b, c_], "equal")
        # --- explicit anchor magnitude: H0 drops out, re-anchoring with the modulus difference -----------------
        e1, e2 = f(c1, m, sig, za), f(c2, m, sig, za)
        rec.check(rec.close(e1, e2, **tol), "C11:h0_explicit:" + tag,
                  "explicit anchor magnitude: log-likelihood depends on H0", inp, [e1, e2], "equal")
        shift = float(mu_of(c1, zb) - mu_of(c1, za))
        e3 = f(c1, m + shift, sig, zb)
        rec.check(rec.close(e1, e3, **tol), "C11:anchor_shift:" + tag,
                  "(m, z_a) and (m + mu(z_b) - mu(z_a), z_b) give different log-likelihoods", inp, [e1, e3], "equal")
        # --- reference value --------------------------------------------------------------------------------------
        d = 5 * np.log10((1 + zh) * (1 + zc) * np.asarray(c1.angular_diameter_distance(zc).value, dtype=float)) - float(mu_of(c1, za))
        m_hat = float(np.sum((mag - d) / wvar) / np.sum(1. / wvar))
        if name == "CUSTOM":
            ref = lambda mm: float(mvn.logpdf(mag, d + mm, ctot, allow_singular=False))
        else:
            cinv = np.linalg.inv(ctot)
            ref = lambda mm: float(-0.5 * ((mag - d - mm) @ cinv @ (mag - d - mm) + np.log(np.sum(cinv) / (2 * np.pi))))
        rec.check(rec.close(e1, ref(m), rtol=1e-9, atol=1e-7), "C11:reference:" + tag,
                  "explicit-anchor value != reference log-density (custom: multivariate normal with C + sigma^2 I)", inp,
                  e1, ref(m))
        rec.check(rec.close(a, ref(m_hat), rtol=1e-9, atol=1e-7), "C11:reference_free:" + tag,
                  "free-normalisation value != reference at the inverse-variance weighted magnitude estimate", inp, a,
                  ref(m_hat))
        # default anchor is z = 0.1 on this side (the lens side uses the same default)
        rec.check(fscalar(S.log_likelihood(c1, apparent_m_z=m, sigma_m_z=sig)) == f(c1, m, sig, 0.1), "C11:default_anchor:sne",
                  "default z_anchor is not 0.1", inp)
        # --- scatter: sigma = 0 == None; call sequences; stored data untouched ---------------------------------------
        if name == "CUSTOM":
            s0, sn = f(c1, m, 0.0, za), f(c1, m, None, za)
            rec.check(rec.close(s0, sn, rtol=1e-10, atol=1e-9), "C11:sigma_zero", "sigma = 0 differs from no scatter", inp,
                      [s0, sn], "equal")
            if not inp.get("no_intrinsic_scatter", False):
                big = f(c1, m, 0.37, za)
                refb = float(mvn.logpdf(mag, d + m, held[1] + 0.37 ** 2 * np.eye(len(mag))))
                rec.check(rec.close(big, refb, rtol=1e-9, atol=1e-7), "C11:scatter_diag",
                          "sigma does not add sigma^2 to the diagonal of the covariance", inp, big, refb)
        seq = inp.get("sequence", [0.2, None, 0.05, 0.0])
        first = [f(c1, mm, ss, zz) for (mm, ss, zz) in ((m, sig, za), (None, sig, zb))]
        for ss in seq:
            f(c2, m if ss else None, ss, zb)
            f(c1, None, ss, za)
        again = [f(c1, mm, ss, zz) for (mm, ss, zz) in ((m, sig, za), (None, sig, zb))]
        rec.check(first == again, "C11:history:" + tag, "value changes after intermediate calls with other scatter/anchors",
                  inp, again, first)
        rec.check(same_snapshot(snap0, snapshot(S)), "C11:stored_mutated:" + tag,
                  "arrays stored in the likelihood object changed during log_likelihood calls", inp)
        if held is not None:
            rec.check(all(np.array_equal(x, y) for x, y in zip(held, (mag, cov, zh, zc))), "C11:input_mutated",
                      "caller's sample arrays (magnitudes / covariance / redshifts) were modified", inp)
    except Exception as e:
        rec.check(False, "C11:raised:sne:" + type(e).__name__, "SneLikelihood.log_likelihood raised on a valid input", inp,
                  str(e)[:120])


# ------------------------------------------------------------------------------------------------------
def mag_loglike_ref(kw, mu_intrinsic):
    amp = 10 ** (-(mu_intrinsic - 20.) / 2.5)
    return float(mvn.logpdf(kw["amp_measured"], amp * kw["magnification_model"],
                            kw["cov_amp_measured"] + amp ** 2 * kw["cov_magnification_model"]))


def check_lens(rec, inp):
    from hierarc.Likelihood.hierarchy_likelihood import LensLikelihood
    from hierarc.Likelihood.SneLikelihood.sne_likelihood import SneLikelihood
    t, zl, zs = inp["type"], float(inp["z_lens"]), float(inp["z_source"])
    za, zb, m = float(inp["za"]), float(inp["zb"]), float(inp["m"])
    spec = inp["cosmo"]
    g = np.random.default_rng([int(inp["data_seed"]), 1112])
    kw = lens_kwargs(t, g)
    try:
        c1, c2 = build_cosmo(spec), build_cosmo(spec, float(inp["h0_factor"]))
        L = LensLikelihood(z_lens=zl, z_source=zs, likelihood_type=t, **copy.deepcopy(kw))
    except Exception:
        rec.error(traceback.format_exc(limit=3))
        return
    try:
        d = fscalar(L.luminosity_distance_modulus(c1, za))
        if t not in MAG_TYPES:
            rec.check(d == 0, "C11:lens_modulus:nonmag", "non-magnification lens gets a non-zero modulus offset", inp, d, 0)
            return
        same_obj = float(mu_of(c1, zs) - mu_of(c1, za))
        rec.check(rec.close(d, same_obj, rtol=1e-12, atol=1e-11), "C11:lens_modulus:convention",
                  "lens-side offset != 5log10((1+zs)^2 DA(zs)) - 5log10((1+za)^2 DA(za))", inp, d, same_obj)
        if spec["kind"] != "interp":
            # astropy integrates 1/E with quad (rel. 1e-8 at worst): 1e-6 mag is 100x that, a (1+z) slip is >= 0.02 mag
            indep = float(flrw_dl_ratio_mag(spec, zs, za))
            rec.check(abs(d - indep) < 1e-6, "C11:lens_modulus:flrw",
                      "lens-side offset != independent FLRW luminosity-distance modulus difference", inp, d, indep)
        d2 = fscalar(L.luminosity_distance_modulus(c2, za))
        rec.check(rec.close(d, d2, rtol=1e-10, atol=1e-10), "C11:lens_modulus:h0", "lens-side offset depends on H0", inp,
                  [d, d2], "equal")
        # --- a lensed-SN likelihood is re-anchoring invariant with the SAME shift as the SNe likelihood ---------------
        shift = float(mu_of(c1, zb) - mu_of(c1, za))
        ks = lambda mm, zz: dict(mu_sne=mm, sigma_sne=0, z_apparent_m_anchor=zz)
        kl = dict(lambda_mst=1.0)
        v1 = fscalar(L.lens_log_likelihood(c1, kwargs_lens=kl, kwargs_source=ks(m, za)))
        v2 = fscalar(L.lens_log_likelihood(c1, kwargs_lens=kl, kwargs_source=ks(m + shift, zb)))
        rec.check(rec.close(v1, v2, rtol=1e-9, atol=1e-8), "C11:lens_anchor_shift:" + t,
                  "lensed-SN likelihood: (m, z_a) and (m + mu(z_b) - mu(z_a), z_b) differ", inp, [v1, v2], "equal")
        v3 = fscalar(L.lens_log_likelihood(c1, kwargs_lens=kl, kwargs_source=dict(mu_sne=m, sigma_sne=0)))
        v4 = fscalar(L.lens_log_likelihood(c1, kwargs_lens=kl, kwargs_source=ks(m, 0.1)))
        rec.check(v3 == v4, "C11:default_anchor:lens", "lens-side default anchor is not z = 0.1", inp, [v3, v4], "equal")
        if t == "Mag":
            r = mag_loglike_ref(kw, m + same_obj)
            rec.check(rec.close(v1, r, rtol=1e-9, atol=1e-8), "C11:lens_value:Mag",
                      "Mag lens likelihood != reference at source magnitude m + modulus offset", inp, v1, r)
        # --- one SN placed at the source redshift: the SNe likelihood peaks exactly at the lens-side source magnitude -----
        var = 0.01
        S = SneLikelihood("CUSTOM", mag_mean=np.array([m + d]), cov_mag=np.array([[var]]), zhel=np.array([zs]),
                          zcmb=np.array([zs]))
        peak = fscalar(S.log_likelihood(c1, apparent_m_z=m, sigma_m_z=None, z_anchor=za))
        rec.check(abs(peak - (-0.5 * np.log(2 * np.pi * var))) < 1e-9, "C11:two_sided_convention",
                  "a SN at the source redshift with the lens-side predicted magnitude is not at the peak of the SNe likelihood",
                  inp, peak, -0.5 * np.log(2 * np.pi * var))
    except Exception as e:
        rec.check(False, "C11:raised:lens:" + type(e).__name__, "lens-side modulus / likelihood raised on a valid input", inp,
                  str(e)[:120])


def check_source(rec, inp):
    from hierarc.Sampling.ParamManager.source_param import SourceParam
    za = float(inp["za"])
    fixed = dict(inp.get("fixed", {}))
    samp, dist = bool(inp["sampling"]), inp["distribution"]
    try:
        P = SourceParam(sne_apparent_m_sampling=samp, sne_distribution=dist, kwargs_fixed=fixed, z_apparent_m_anchor=za)
        names = P.param_list()
        exp_names = []
        if samp:
            if "mu_sne" not in fixed:
                exp_names.append("mu_sne")
            if dist == "GAUSSIAN" and "sigma_sne" not in fixed:
                exp_names.append("sigma_sne")
        args = [101.0, 17.25, 0.125, 202.0]
        kw, i = P.args2kwargs(args, i=1)
        exp = {"z_apparent_m_anchor": za}
        j = 1
        if samp:
            exp["mu_sne"] = fixed["mu_sne"] if "mu_sne" in fixed else args[j]
            j += 0 if "mu_sne" in fixed else 1
            if dist == "GAUSSIAN":
                exp["sigma_sne"] = fixed["sigma_sne"] if "sigma_sne" in fixed else args[j]
                j += 0 if "sigma_sne" in fixed else 1
        rec.check(names == exp_names and kw == exp and i == j, "C11:source_param",
                  "SourceParam.args2kwargs does not inject z_apparent_m_anchor / route mu_sne, sigma_sne", inp, [names, kw, i],
                  [exp_names, exp, j])
        back = P.kwargs2args(kw)
        rec.check(list(back) == args[1:j], "C11:source_param:roundtrip", "kwargs2args does not invert args2kwargs", inp, back,
                  args[1:j])
    except Exception as e:
        rec.check(False, "C11:raised:source:" + type(e).__name__, "SourceParam raised", inp, str(e)[:120])


def check_e2e(rec, inp):
    from hierarc.Likelihood.cosmo_likelihood import CosmoLikelihood
    za, zb, m = float(inp["za"]), float(inp["zb"]), float(inp["m"])
    zl, zs = float(inp["z_lens"]), float(inp["z_source"])
    g = np.random.default_rng([int(inp["data_seed"]), 1113])
    kw = lens_kwargs("Mag", g)
    mag, cov, zh, zc = custom_sample(inp)
    kc = dict(h0=float(inp["h0"]), om=float(inp["om"]))

    def make(z_anchor):
        return CosmoLikelihood(
            [dict(z_lens=zl, z_source=zs, likelihood_type="Mag", **copy.deepcopy(kw))], "FLCDM",
            kwargs_model=dict(sne_apparent_m_sampling=True, sne_distribution="GAUSSIAN", z_apparent_m_anchor=z_anchor),
            kwargs_bounds=dict(kwargs_lower_cosmo=dict(h0=0, om=0), kwargs_upper_cosmo=dict(h0=5000, om=1), kwargs_fixed_cosmo={},
                               kwargs_lower_source=dict(mu_sne=-100, sigma_sne=0), kwargs_upper_source=dict(mu_sne=100, sigma_sne=10),
                               kwargs_fixed_source=dict(sigma_sne=0)),
            sne_likelihood="CUSTOM", kwargs_sne_likelihood=dict(mag_mean=mag.copy(), cov_mag=cov.copy(), zhel=zh.copy(), zcmb=zc.copy()),
            interpolate_cosmo=bool(inp["interpolate_cosmo"]), num_redshift_interp=200)
    try:
        A = make(za)
        c = A.cosmo_instance(kc)
        va = fscalar(A.likelihood(A.param.kwargs2args(kwargs_cosmo=kc, kwargs_source=dict(mu_sne=m, sigma_sne=0))))
        # with interpolate_cosmo the distance table ends at max(z_source, z_SNe, anchor): two anchors above the data give two
        # different tables (1e-6 relative interpolation differences, and A's table does not reach z_b), so the relational
        # check needs a common table; otherwise only the value check below is made
        same_table = (not inp["interpolate_cosmo"]) or max(za, zb) <= max(zs, float(np.max(zc)))
        if same_table:
            B = make(zb)
            shift = float(mu_of(c, zb) - mu_of(c, za))
            vb = fscalar(B.likelihood(B.param.kwargs2args(kwargs_cosmo=kc, kwargs_source=dict(mu_sne=m + shift, sigma_sne=0))))
            rec.check(rec.close(va, vb, rtol=1e-9, atol=1e-7), "C11:e2e:anchor_shift",
                      "joint lens+SNe likelihood changes when the anchor is moved with the modulus difference", inp, [va, vb], "equal")
        else:
            rec.tally("e2e:anchor_above_data(value check only)")
        d = 5 * np.log10((1 + zh) * (1 + zc) * np.asarray(c.angular_diameter_distance(zc).value, dtype=float)) - float(mu_of(c, za))
        ref = float(mvn.logpdf(mag, d + m, cov)) + mag_loglike_ref(kw, m + float(mu_of(c, zs) - mu_of(c, za)))
        rec.check(rec.close(va, ref, rtol=1e-9, atol=1e-7), "C11:e2e:value",
                  "joint value != SNe reference + Mag-lens reference evaluated with ONE (magnitude, anchor) pair", inp, va, ref)
        # H0-free as a whole (Mag lens and SNe only see distance ratios)
        kc2 = dict(h0=kc["h0"] * float(inp["h0_factor"]), om=kc["om"])
        vh = fscalar(A.likelihood(A.param.kwargs2args(kwargs_cosmo=kc2, kwargs_source=dict(mu_sne=m, sigma_sne=0))))
        rec.check(rec.close(va, vh, rtol=1e-9, atol=1e-6), "C11:e2e:h0", "joint Mag-lens + SNe likelihood depends on H0", inp,
                  [va, vh], "equal")
    except Exception as e:
        rec.check(False, "C11:raised:e2e:" + type(e).__name__, "CosmoLikelihood with SNe raised on a valid input", inp, str(e)[:160])


CHECKS = dict(sne=check_sne, lens=check_lens, source=check_source, e2e=check_e2e)


# ------------------------------------------------------------------------------------------------------
def run(rec, args):
    quick = args.tier == "quick"
    rng = rng_of(args.seed, 11)

    def common_fields(allow_interp=True):
        za, zb = [float(v) for v in rng.uniform(0.02, 1.4, 2)]
        if rng.uniform() < 0.15:
            za = 0.1
        return dict(cosmo=gen_cosmo(rng, allow_interp), h0_factor=float(rng.choice([rng.uniform(0.3, 3.), 0.5, 10.])), za=za, zb=zb,
                    m=(float(rng.uniform(15, 26)) if rng.random() < 0.8 else float(rng.choice([0.0, 0.0, -0.7, 1.0]))),   # relative magnitudes incl. exactly 0
                    data_seed=int(rng.integers(0, 2 ** 31)))
    # --- SNe -------------------------------------------------------------------------------------------
    for r in range(120 if quick else 800):
        inp = dict(check="sne", sample="CUSTOM", n=int(rng.choice([1, 2, 3, 5, 8, 12, 30])), **common_fields())
        inp.update(sigma=[None, 0.0, float(rng.uniform(0.01, 0.5)), float(rng.uniform(0.01, 0.5))][int(rng.integers(0, 4))],
                   zhel_differs=bool(rng.uniform() < 0.7), diag_cov=bool(rng.uniform() < 0.25),
                   cov_scale=float(rng.choice([0.02, 0.1, 0.15, 0.4])), M=float(rng.uniform(-20, 25)),
                   no_intrinsic_scatter=bool(rng.uniform() < 0.2),
                   sequence=[[0.2, None, 0.05, 0.0], [None], [0.3, 0.3], [0.0, 1.0, None]][int(rng.integers(0, 4))])
        rec.case(inp, kind="sne:CUSTOM/%s/%s" % (inp["cosmo"]["kind"], "sigma" if inp["sigma"] else "nosigma"))
        rec.guard(check_sne, rec, inp)
    for name in ["Pantheon_binned", "Roman_forecast"]:
        for r in range(20 if quick else 100):
            inp = dict(check="sne", sample=name, **common_fields())
            inp.update(sigma=[None, 0.0, float(rng.uniform(0.01, 0.3))][int(rng.integers(0, 3))])
            rec.case(inp, kind="sne:%s/%s" % (name, inp["cosmo"]["kind"]))
            rec.guard(check_sne, rec, inp)
    # --- lens side ----------------------------------------------------------------------------------------
    for r in range(120 if quick else 800):
        t = str(rng.choice(MAG_TYPES + ["DdtGaussian", "IFUKinCov"], p=[.35, .25, .25, .1, .05]))
        zl = float(rng.uniform(0.1, 1.0))
        inp = dict(check="lens", type=t, z_lens=zl, z_source=float(zl + rng.uniform(0.2, 1.8)), **common_fields())
        rec.case(inp, kind="lens:%s/%s" % (t, inp["cosmo"]["kind"]))
        rec.guard(check_lens, rec, inp)
    # --- SourceParam (full table) -----------------------------------------------------------------------------
    for samp in [True, False]:
        for dist in ["GAUSSIAN", "NONE"]:
            for fixed in [{}, {"mu_sne": 19.4}, {"sigma_sne": 0.07}, {"mu_sne": 19.4, "sigma_sne": 0.07}]:
                inp = dict(check="source", sampling=samp, distribution=dist, fixed=fixed, za=float(rng.uniform(0.01, 1.5)))
                rec.case(inp, kind="source:%s/%s" % (samp, dist))
                rec.guard(check_source, rec, inp)
    # --- end to end ------------------------------------------------------------------------------------------------
    for r in range(24 if quick else 150):
        zl = float(rng.uniform(0.1, 0.8))
        f = common_fields()
        inp = dict(check="e2e", z_lens=zl, z_source=float(zl + rng.uniform(0.2, 1.2)), n=int(rng.choice([1, 4, 9])),
                   h0=float(rng.uniform(50, 90)), om=float(rng.uniform(0.15, 0.45)), interpolate_cosmo=bool(rng.integers(0, 2)),
                   za=f["za"], zb=f["zb"], m=f["m"], data_seed=f["data_seed"], h0_factor=f["h0_factor"], M=float(rng.uniform(18, 20)))
        rec.case(inp, kind="e2e:%s" % ("interp" if inp["interpolate_cosmo"] else "astropy"))
        rec.guard(check_e2e, rec, inp)


def main():
    args = parse_args("C11")
    rec = Recorder("C11", args.tier, args.seed,
                   "SNe likelihood H0- and anchor-free / re-anchoring invariant; custom: mvn with C + sigma^2 I, stored data "
                   "untouched; lens-side modulus offset uses the same (magnitude, anchor) convention")
    if args.replay:
        with open(args.replay) as f:
            r = unjson(json.load(f))
        inp = r["input"]
        rec.case(inp, kind="replay")
        rec.guard(CHECKS[inp["check"]], rec, inp)
    else:
        rec.guard(run, rec, args)
    out = rec.write(args.out)
    print("C11 %s seed=%d: %d cases, %d violations %s, %d errors, %.1fs" % (
        args.tier, args.seed, out["evaluations"], len(out["violations"]), sorted(out["violation_counts"]), len(out["errors"]), out["wall_s"]))


if __name__ == "__main__":
    main()
