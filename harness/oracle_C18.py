"""Oracle C18 -- IFU radial binning is a flux*weight weighted convex mean of the finite fibres.

Executable statement of property C18 against hierarc.Util.ifu_util
(binned_dispersion, binned_velocity, binned_total, _2d_t0_1d).

Conventions read from the code (and fixed in the independent reference below):
  * centre = FIRST maximum of flux_map in row-major order (np.where(flux == max)[..][0]); fibre (i, j) has
    r = sqrt((i-cx)^2 + (j-cy)^2) * fiber_scale   (i = first/row index, j = second/column index);
  * a fibre is used iff value_map[i,j] AND weight_map[i,j] are finite (flux is never tested);
  * bin k holds the fibres with r_bins[k] <= r < r_bins[k+1];
  * dispersion bin:  sum(s w f)/sum(w f),   returned weight: sum(w f)/sum(f)   (sums over the bin);
  * velocity bin:    w2 = w/(2|v|);  v_r = sqrt(sum(v^2 w2 f)/sum(w2 f)),  returned weight: sum(w2 f)/sum(f) * 2 v_r;
  * total: sqrt(v_r^2+s_r^2), weight (W_s s_r^2 + W_v v_r^2)/tot^2, error = 1/sqrt(weight).

Sub-checks (violation keys):
  C18:flatten            _2d_t0_1d returns exactly the finite fibres, in row-major order, with radii about the first flux maximum
  C18:mean:dispersion    binned dispersion == independent weighted mean, every populated bin            (rel 1e-10)
  C18:mean:velocity      binned velocity   == independent reference                                   (rel 1e-10)
  C18:weight:dispersion / C18:weight:velocity   returned bin weights == reference                     (rel 1e-10)
  C18:convex:dispersion / C18:convex:velocity   min <= bin value <= max over the contributing fibres (|v| for velocity)
  C18:convex:weight      min w <= returned dispersion weight <= max w
  C18:scale:flux / C18:scale:weight   value unchanged under flux*c, weight*c; returned weight unchanged / multiplied by c
  C18:nonfinite_ignored  replacing the value at a dropped fibre by another non-finite value, or changing weight and value
                         there arbitrarily while one of them stays non-finite, changes nothing (bitwise)
  C18:uniform            uniform value map -> that value in every populated bin                        (rel 1e-12)
  C18:total:value / C18:total:error   binned_total against the reference built from the reference bins  (rel 1e-10)
  C18:edge               fibres exactly on a bin edge: r == r_in included, r == r_out excluded (covered by mean:* on
                         edge-aligned bins; this key is used when only the edge-aligned reference disagrees)
  C18:input_modified     the maps / bin array are not modified
  C18:raises             an exception on a well-formed input

Tolerance: each bin is a ratio of two sums of <= a few hundred positive terms; summation-order differences are
<= n*eps ~ 1e-13, so 1e-10 relative is safe and still 7 orders below any change of weighting.
"""
import sys, os, json, traceback
sys.path.insert(0, os.path.dirname(os.path.abspath(__file__)))
from common import *  # noqa

PROP = "C18"
RULE = ("binned_dispersion/velocity/total == flux*weight weighted means of finite fibres with r_in <= r < r_out about the "
        "first flux maximum; convex; invariant under flux*c, weight*c; non-finite fibres ignored; uniform -> uniform")
RT = 1e-10


# ---------------- independent reference -----------------------------------------------------------
def ref_centre(flux):
    """first maximum in row-major order, by explicit scan"""
    best, cx, cy = -np.inf, 0, 0
    nx, ny = flux.shape
    for i in range(nx):
        for j in range(ny):
            if flux[i, j] > best:
                best, cx, cy = flux[i, j], i, j
    return cx, cy


def ref_radius(shape, cx, cy, fs):
    ii, jj = np.meshgrid(np.arange(shape[0]), np.arange(shape[1]), indexing="ij")
    d2 = (ii - cx) ** 2 + (jj - cy) ** 2        # exact integers
    return np.sqrt(d2.astype(float)) * fs


def ref_bins(value, weight, flux, fs, rb, velocity=False, edges="[)"):
    """returns list of dicts per bin: n, val, wgt, lo, hi, wlo, whi (n=0 only for empty bins).
    edges="[)" is the property's convention r_in <= r < r_out; "(]" is only used to classify a failure."""
    cx, cy = ref_centre(flux)
    r = ref_radius(flux.shape, cx, cy, fs)
    good = np.isfinite(value) & np.isfinite(weight)
    out = []
    for k in range(len(rb) - 1):
        if edges == "[)": m = good & (r >= rb[k]) & (r < rb[k + 1])
        elif edges == "(]": m = good & (r > rb[k]) & (r <= rb[k + 1])
        else: m = good & (r >= rb[k]) & (r <= rb[k + 1])
        n = int(m.sum())
        if n == 0:
            out.append(dict(n=0)); continue
        v, w, f = value[m], weight[m], flux[m]
        if not velocity:
            val = float(np.sum(v * w * f) / np.sum(w * f))
            wgt = float(np.sum(w * f) / np.sum(f))
            lo, hi = float(v.min()), float(v.max())
        else:
            a = np.abs(v)
            w2 = w / (2 * a)
            val = float(np.sqrt(np.sum(a * a * w2 * f) / np.sum(w2 * f)))
            wgt = float(np.sum(w2 * f) / np.sum(f) * 2 * val)
            lo, hi = float(a.min()), float(a.max())
        out.append(dict(n=n, val=val, wgt=wgt, lo=lo, hi=hi, wlo=float(w.min()), whi=float(w.max())))
    return out


# ---------------- generation ----------------------------------------------------------------------
def gen_case(rng, boundary=False):
    shp_kind = rng.choice(["rect", "square", "row", "col", "tiny"], p=[.5, .2, .1, .1, .1])
    if shp_kind == "rect":
        nx, ny = int(rng.integers(3, 13)), int(rng.integers(3, 13))
        if nx == ny: ny += 1
    elif shp_kind == "square": nx = ny = int(rng.integers(3, 12))
    elif shp_kind == "row": nx, ny = 1, int(rng.integers(2, 15))
    elif shp_kind == "col": nx, ny = int(rng.integers(2, 15)), 1
    else: nx, ny = int(rng.integers(1, 3)), int(rng.integers(1, 3))
    fs = float(rng.choice([1.0, 0.5, 0.7, 0.1, 3.0, rng.uniform(.05, 4)]))
    disp = rng.uniform(100, 400, (nx, ny))
    vel = rng.uniform(5, 150, (nx, ny)) * rng.choice([-1., 1.], (nx, ny))
    wd = rng.uniform(.2, 5, (nx, ny)) * 10.0 ** rng.integers(-3, 3)
    wv = rng.uniform(.2, 5, (nx, ny)) * 10.0 ** rng.integers(-3, 3)
    # flux: peaked profile + noise so that the centre is an interior fibre most of the time
    px, py = rng.integers(0, nx), rng.integers(0, ny)
    ii, jj = np.meshgrid(np.arange(nx), np.arange(ny), indexing="ij")
    flux = 10 * np.exp(-((ii - px) ** 2 + (jj - py) ** 2) / (2 * rng.uniform(1, 4) ** 2)) + rng.uniform(.05, 1., (nx, ny))
    flux_kind = str(rng.choice(["peaked", "flat_random", "ties", "all_equal"], p=[.55, .2, .2, .05]))
    if flux_kind == "flat_random":
        flux = rng.uniform(.1, 10, (nx, ny))
    elif flux_kind == "ties":  # several fibres share the maximum
        top = float(flux.max()) * 1.5
        nt = int(rng.integers(2, 5))
        for _ in range(nt):
            flux[rng.integers(0, nx), rng.integers(0, ny)] = top
    elif flux_kind == "all_equal":
        flux = np.full((nx, ny), 2.5)
    # non-finite fibres
    pbad = float(rng.choice([0., .05, .15, .4]))
    specials = [np.nan, np.inf, -np.inf]
    for arr in (disp, vel, wd, wv):
        m = rng.random((nx, ny)) < pbad
        arr[m] = rng.choice(specials, int(m.sum()))
    # bin edges
    cx, cy = ref_centre(flux)
    r = ref_radius((nx, ny), cx, cy, fs)
    rvals = np.unique(r)
    edge_kind = str(rng.choice(["random", "aligned", "offset_start", "short", "single"], p=[.35, .35, .1, .1, .1]))
    rmax = float(rvals[-1]) if len(rvals) else 1.0
    if edge_kind == "aligned" and len(rvals) >= 2:
        # edges exactly at radii realised by fibres (computed with the same float expression sqrt(int)*fs)
        k = int(rng.integers(2, min(6, len(rvals)) + 1))
        e = np.sort(rng.choice(rvals, size=k, replace=False))
        rb = list(e)
        if rng.random() < .5: rb = [0.0] + [x for x in rb if x > 0]
        if rng.random() < .5: rb = rb + [rmax * 1.5 + fs]
    elif edge_kind == "offset_start":
        nb = int(rng.integers(1, 5)); rb = list(np.sort(rng.uniform(.3 * fs, rmax + fs, nb + 1)))
    elif edge_kind == "short":
        nb = int(rng.integers(1, 4)); rb = [0.0] + list(np.sort(rng.uniform(0, .6 * rmax + 1e-3, nb)))
    elif edge_kind == "single":
        rb = [0.0, rmax + fs]
    else:
        nb = int(rng.integers(1, 7)); rb = [0.0] + list(np.sort(rng.uniform(0, rmax + 2 * fs, nb)))
    rb = [float(x) for x in rb]
    if len(rb) < 2: rb = [0.0, rmax + fs]
    c = rng.uniform(.01, 100, 2)
    if rng.random() < .3: c = 2.0 ** rng.integers(-5, 6, 2)
    if rng.random() < .25: c = np.array([10.0 ** rng.uniform(-18, -8), 10.0 ** rng.uniform(-6, 0)])   # physical (cgs-like) flux units: sums far below 1
    return dict(disp=disp.tolist(), vel=vel.tolist(), wd=wd.tolist(), wv=wv.tolist(), flux=flux.tolist(), fiber_scale=fs,
                r_bins=rb, c_flux=float(c[0]), c_weight=float(c[1]), flux_kind=flux_kind, edge_kind=edge_kind,
                rb_as=str(rng.choice(["array", "list"])), sub=int(rng.integers(0, 2 ** 31)))


def _arr(x):
    a = np.array(unjson(x), dtype=float)
    return a


def close(a, b, rt=RT):
    return abs(a - b) <= rt * max(abs(a), abs(b), 1e-300)


def run_case(rec, inp):
    from hierarc.Util import ifu_util
    disp, vel, wd, wv, flux = (_arr(inp[k]) for k in ("disp", "vel", "wd", "wv", "flux"))
    fs = float(inp["fiber_scale"])
    rb_list = [float(x) for x in unjson(inp["r_bins"])]
    rb = np.array(rb_list) if inp.get("rb_as", "array") == "array" else list(rb_list)
    rbn = np.array(rb_list)
    cf, cw = float(inp["c_flux"]), float(inp["c_weight"])
    sub = rng_of(inp.get("sub", 0), 1800)
    snap = [a.copy() for a in (disp, vel, wd, wv, flux)]
    nb = len(rb_list) - 1

    def call(fn, *a):
        try:
            with np.errstate(all="ignore"):
                return fn(*a)
        except Exception as e:
            rec.violation("C18:raises", "%s raised on a well-formed input" % fn.__name__, inp, repr(e), "no exception")
            return None

    # ---- flattening helper -----------------------------------------------------------------------
    cx, cy = ref_centre(flux)
    r_ref = ref_radius(flux.shape, cx, cy, fs)
    for nm, vm, wm in (("disp", disp, wd), ("vel", vel, wv)):
        res = call(ifu_util._2d_t0_1d, vm, wm, flux, fs)
        if res is None: continue
        good = np.isfinite(vm) & np.isfinite(wm)
        exp = (r_ref[good], vm[good], wm[good], flux[good])   # boolean indexing = row-major order
        ok = all(np.shape(g) == np.shape(e) and np.array_equal(np.asarray(g, float), e) for g, e in zip(res, exp))
        rec.check(ok, "C18:flatten", "_2d_t0_1d differs from (radii about first flux maximum, finite fibres, row-major)", inp,
                  dict(map=nm, n_out=int(np.size(res[0])), centre=[cx, cy]), dict(n=int(good.sum())))
    # ---- dispersion / velocity bins --------------------------------------------------------------
    results = {}
    for tag, fn, vm, wm, isv in (("dispersion", ifu_util.binned_dispersion, disp, wd, False),
                                 ("velocity", ifu_util.binned_velocity, vel, wv, True)):
        res = call(fn, vm, wm, flux, fs, rb)
        if res is None: continue
        val, wgt = np.asarray(res[0], float), np.asarray(res[1], float)
        ref = ref_bins(vm, wm, flux, fs, rbn, velocity=isv)
        results[tag] = (val, wgt, ref)
        if not rec.check(val.shape == (nb,) and wgt.shape == (nb,), "C18:mean:" + tag, "wrong number of bins returned", inp,
                         [list(val.shape), list(wgt.shape)], nb):
            continue
        for k, rk in enumerate(ref):
            if rk["n"] == 0:
                rec.tally("bins:empty"); continue
            rec.tally("bins:populated")
            info = dict(map=tag, bin=k, n=rk["n"], got=float(val[k]), ref=rk["val"])
            key = "C18:mean:" + tag
            if not (np.isfinite(val[k]) and close(val[k], rk["val"])):
                # classify: does another edge convention explain the value?
                for conv in ("(]", "[]"):
                    alt = ref_bins(vm, wm, flux, fs, rbn, velocity=isv, edges=conv)[k]
                    if alt["n"] and close(val[k], alt["val"]):
                        key = "C18:edge"; info["explained_by"] = conv
            rec.check(np.isfinite(val[k]) and close(val[k], rk["val"]), key, "binned value differs from the weighted mean of the fibres in r_in<=r<r_out", inp, info, rk["val"])
            rec.check(np.isfinite(wgt[k]) and close(wgt[k], rk["wgt"]), "C18:weight:" + tag, "returned bin weight differs from reference", inp,
                      dict(map=tag, bin=k, got=float(wgt[k])), rk["wgt"])
            span = max(abs(rk["lo"]), abs(rk["hi"]))
            rec.check(rk["lo"] - 1e-10 * span <= val[k] <= rk["hi"] + 1e-10 * span, "C18:convex:" + tag,
                      "binned value outside [min, max] of the contributing fibres", inp, info, [rk["lo"], rk["hi"]])
            if not isv:
                rec.check(rk["wlo"] * (1 - 1e-10) <= wgt[k] <= rk["whi"] * (1 + 1e-10), "C18:convex:weight",
                          "flux-weighted mean weight outside [min w, max w]", inp, dict(bin=k, got=float(wgt[k])), [rk["wlo"], rk["whi"]])
        pop = np.array([rk["n"] > 0 for rk in ref])
        # scale invariance (two calls are the point)
        r2 = call(fn, vm, wm, flux * cf, fs, rb)
        if r2 is not None and pop.any():
            rec.check(np.allclose(np.asarray(r2[0])[pop], val[pop], rtol=1e-11, atol=0), "C18:scale:flux", "binned value changes under flux*c", inp, dict(map=tag, c=cf))
            rec.check(np.allclose(np.asarray(r2[1])[pop], wgt[pop], rtol=1e-11, atol=0), "C18:scale:flux", "bin weight changes under flux*c", inp, dict(map=tag, c=cf))
        r3 = call(fn, vm, wm * cw, flux, fs, rb)
        if r3 is not None and pop.any():
            rec.check(np.allclose(np.asarray(r3[0])[pop], val[pop], rtol=1e-11, atol=0), "C18:scale:weight", "binned value changes under weight*c", inp, dict(map=tag, c=cw))
            rec.check(np.allclose(np.asarray(r3[1])[pop], wgt[pop] * cw, rtol=1e-11, atol=0), "C18:scale:weight", "bin weight is not multiplied by c under weight*c", inp, dict(map=tag, c=cw))
        # non-finite fibres ignored: perturb the dropped fibres, keeping them dropped
        bad = ~(np.isfinite(vm) & np.isfinite(wm))
        if bad.any():
            vm2, wm2 = vm.copy(), wm.copy()
            idx = np.argwhere(bad)
            for (i, j) in idx:
                mode = sub.integers(0, 3)
                if mode == 0:   vm2[i, j], wm2[i, j] = sub.choice([np.nan, np.inf, -np.inf]), sub.uniform(.1, 10)
                elif mode == 1: vm2[i, j], wm2[i, j] = sub.uniform(-1e3, 1e3), sub.choice([np.nan, np.inf, -np.inf])
                else:           vm2[i, j], wm2[i, j] = sub.choice([np.nan, np.inf]), sub.choice([np.nan, -np.inf])
            r4 = call(fn, vm2, wm2, flux, fs, rb)
            if r4 is not None and pop.any():
                rec.check(np.array_equal(np.asarray(r4[0])[pop], val[pop]) and np.array_equal(np.asarray(r4[1])[pop], wgt[pop]),
                          "C18:nonfinite_ignored", "result depends on the content of a dropped (non-finite) fibre", inp, dict(map=tag, n_bad=int(bad.sum())))
        # uniform map
        u = float(sub.uniform(50, 500)) * (-1 if (isv and sub.random() < .5) else 1)
        um = np.where(np.isfinite(vm), u, vm)
        r5 = call(fn, um, wm, flux, fs, rb)
        if r5 is not None and pop.any():
            got = np.asarray(r5[0], float)[pop]
            rec.check(np.allclose(got, abs(u) if isv else u, rtol=1e-12, atol=0), "C18:uniform", "uniform map does not return the uniform value in a populated bin", inp,
                      dict(map=tag, u=u, got=got), abs(u) if isv else u)
    # ---- total -----------------------------------------------------------------------------------
    res = call(ifu_util.binned_total, disp, wd, vel, wv, flux, fs, rb)
    if res is not None and "dispersion" in results and "velocity" in results:
        tot, err = np.asarray(res[0], float), np.asarray(res[1], float)
        rd, rv = results["dispersion"][2], results["velocity"][2]
        for k in range(nb):
            if rd[k]["n"] == 0 or rv[k]["n"] == 0: continue
            s, v, Ws, Wv = rd[k]["val"], rv[k]["val"], rd[k]["wgt"], rv[k]["wgt"]
            t_ref = float(np.sqrt(v * v + s * s))
            w_ref = (Ws * s * s + Wv * v * v) / (v * v + s * s)
            e_ref = 1.0 / np.sqrt(w_ref)
            rec.check(np.isfinite(tot[k]) and close(tot[k], t_ref), "C18:total:value", "binned_total != sqrt(v^2+sigma^2) of the reference bins", inp,
                      dict(bin=k, got=float(tot[k])), t_ref)
            rec.check(np.isfinite(err[k]) and close(err[k], e_ref), "C18:total:error", "binned_total error != 1/sqrt((W_s s^2+W_v v^2)/(v^2+s^2))", inp,
                      dict(bin=k, got=float(err[k])), e_ref)
            # the combined weight is a convex combination of the two bin weights
            wt = 1.0 / err[k] ** 2 if np.isfinite(err[k]) and err[k] > 0 else np.nan
            rec.check(np.isfinite(wt) and min(Ws, Wv) * (1 - 1e-9) <= wt <= max(Ws, Wv) * (1 + 1e-9), "C18:total:error",
                      "combined weight outside [min, max] of the two bin weights", inp, dict(bin=k, got=float(wt)), [min(Ws, Wv), max(Ws, Wv)])
    # ---- inputs untouched -------------------------------------------------------------------------
    same = all(np.array_equal(a, b, equal_nan=True) for a, b in zip(snap, (disp, vel, wd, wv, flux))) and list(np.asarray(rb, float)) == rb_list
    rec.check(same, "C18:input_modified", "an input map or the bin array was modified", inp)


def main():
    args = parse_args(PROP)
    rec = Recorder(PROP, args.tier, args.seed, RULE)
    if args.replay:
        with open(args.replay) as fh:
            rep = json.load(fh)
        rec.case(dict(replay=rep.get("key")), kind="replay")
        try:
            run_case(rec, rep["input"])
        except Exception:
            rec.error(traceback.format_exc(limit=4))
        rec.write(args.out)
        return
    n = 1500 if args.tier == "quick" else 15000
    rng = rng_of(args.seed, 18)
    for t in range(n):
        try:
            inp = gen_case(rng)
            shp = np.shape(inp["flux"])
            nbad = int(np.sum(~np.isfinite(np.array(unjson(inp["disp"]), float))))
            rec.case(dict(t=t, shape=list(shp), fs=inp["fiber_scale"], rb=inp["r_bins"], flux=inp["flux_kind"], nbad=nbad),
                     nontrivial=(shp[0] * shp[1] > 2), kind="%s|%s" % (inp["flux_kind"], inp["edge_kind"]))
            rec.tally("shape:" + ("row/col" if 1 in shp else "square" if shp[0] == shp[1] else "rect"))
            rec.tally("nonfinite:" + ("none" if nbad == 0 else "some"))
            run_case(rec, inp)
        except Exception:
            rec.error(traceback.format_exc(limit=4))
    rec.write(args.out)


if __name__ == "__main__":
    main()
