"""Oracle for C08: likelihood evaluation is a pure, reproducible, copyable function of its inputs.

One scenario = one random configuration (lens list of mixed types with nested arrays, global model switches incl. global
GAUSSIAN / GEV line-of-sight populations, bounds and fixed dictionaries, optional custom SNe sample / SNe file sample / KDE chain / custom prior / fixed cosmology / tabulated
distances) and a random call history on ONE CosmoLikelihood object: sharp points, scatter points, out-of-bounds points,
points failing the curvature guard, calls with user-tabulated distances, argument vectors given as list / array / view of
a walker array.  copy.deepcopy and pickle clones are taken before the history and in the middle of it.

Sub-checks / keys:
  C08:mutated:<input>          deep snapshot (recursive hash of every array/list/dict) of a caller-supplied input changed
                               during a call: args | walkers | lenses | kwargs_model | kwargs_bounds | sne | chain |
                               kwargs_kde | tabulated | kwargs_lens/kin/source/los (direct lens call)
  C08:history:<same|deepcopy|pickle|midcopy|midpickle>   value at a sharp point differs from the value a fresh object gave
                               (after any history, under any np.random state)
  C08:seed:<same|deepcopy|pickle|...>   with scatter: same np.random.seed => same value, before and after history, on clones
  C08:self_state_written       pickled state of the object changed after the first (cache-warming) call
  C08:lens_direct:<what>       LensLikelihood.lens_log_likelihood / sigma_v_measured_vs_predict called directly with
                               kwargs_kin containing sigma_v_sys_error: repeatable (value), key not popped (-> mutated key)
  C08:sne_repeat:<what>        SneLikelihood (custom, file) evaluated repeatedly with sigma_sne: value repeatable, sharp value
                               unchanged afterwards, stored covariance untouched
  C08:kde_rescale              KDE-chain term: chain samples, rescale dictionary and the argument vector untouched, value repeatable
  C08:copy_reproducibility:<component>   one stochastic component per case (los_individual_GEV | los_individual_PDF | los_global_GAUSSIAN |
                               los_global_GEV | lambda_mst | lambda_ifu | a_ani_GAUSSIAN | a_ani_GAUSSIAN_SCALED | a_ani_GAUSSIAN_TAN_RAD |
                               beta_inf_GOM | gamma_in | log_m2l | gamma_pl_global | sigma_sne | joint), on a LensLikelihood and on a
                               CosmoLikelihood: with np.random.seed(s) the original, its deep copy, its pickle round trip and a pickle of
                               the deep copy return the value of a never-copied object, bit-identically, evaluated once / repeatedly /
                               twice after one seed / interleaved original-copy and copy-original, and leave the global stream at the
                               same position (no copy owns a private generator)
  C08:raises:<where>           hierArc raised where a value is promised
"""
import os
for _v in ("OMP_NUM_THREADS", "OPENBLAS_NUM_THREADS", "MKL_NUM_THREADS"):
    os.environ.setdefault(_v, "1")   # tiny matrices: threaded BLAS only adds latency and nondeterminism
import sys, json, time, traceback, copy, pickle, hashlib, math
sys.path.insert(0, os.path.dirname(os.path.abspath(__file__)))
from common import Recorder, parse_args, jsonable, unjson, fscalar, pd, TYPES, KIN_TYPES, MAG_TYPES, lens_kwargs, cosmo_interp
import numpy as np

from hierarc.Likelihood.cosmo_likelihood import CosmoLikelihood
from hierarc.Likelihood.hierarchy_likelihood import LensLikelihood
from hierarc.Likelihood.SneLikelihood.sne_likelihood import SneLikelihood
from hierarc.Likelihood.KDELikelihood.chain import Chain

PROP = "C08"
AX_G = np.linspace(1.5, 2.5, 6)
AX_A = np.linspace(0.5, 2.0, 5)


# ------------------------------------------------------------------ deep snapshots
def snap(o, depth=0):
    """recursive, order-sensitive fingerprint of every array / list / dict / scalar reachable from o"""
    if depth > 12:
        return ("deep",)
    if isinstance(o, np.ndarray):
        if o.dtype == object:
            return ("objarr", tuple(snap(v, depth + 1) for v in o.ravel().tolist()))
        return ("arr", str(o.dtype), o.shape, hashlib.sha1(np.ascontiguousarray(o).tobytes()).hexdigest())
    if isinstance(o, dict):
        return ("dict", tuple((repr(k), snap(v, depth + 1)) for k, v in o.items()))
    if isinstance(o, (list, tuple)):
        return (type(o).__name__, tuple(snap(v, depth + 1) for v in o))
    if isinstance(o, (bool, int, float, str, type(None), np.floating, np.integer, np.bool_)):
        return (type(o).__name__, repr(o))
    if callable(o) and hasattr(o, "__name__"):
        return ("fn", o.__name__)
    if hasattr(o, "__dict__") and type(o).__module__.startswith("hierarc"):
        return ("obj", type(o).__name__, snap(vars(o), depth + 1))
    return ("opaque", type(o).__name__, repr(o)[:200])


def state_hash(obj):
    """fingerprint of everything reachable from the object's attributes (values, not identities): numpy arrays, containers,
    scalars, and the __dict__ of any object (hierarc, scipy interpolants / KDEs, sklearn estimators, astropy models)"""
    h = hashlib.sha1()
    seen = set()

    def walk(o, depth):
        if depth > 25:
            h.update(b"<deep>"); return
        if isinstance(o, np.ndarray):
            if o.dtype == object:
                for v in o.ravel().tolist(): walk(v, depth + 1)
            else:
                h.update(str(o.dtype).encode()); h.update(repr(o.shape).encode()); h.update(np.ascontiguousarray(o).tobytes())
            return
        if isinstance(o, (bool, int, float, complex, str, bytes, type(None), np.generic)):
            h.update(repr(o).encode()); return
        if id(o) in seen:
            h.update(b"<seen>"); return
        if isinstance(o, dict):
            seen.add(id(o))
            for k, v in o.items():
                h.update(repr(k).encode()); walk(v, depth + 1)
            return
        if isinstance(o, (list, tuple, set, frozenset)):
            seen.add(id(o))
            for v in (sorted(o, key=repr) if isinstance(o, (set, frozenset)) else o): walk(v, depth + 1)
            return
        if hasattr(o, "__self__") and hasattr(o, "__func__"):          # bound method (e.g. kde.score)
            h.update(o.__func__.__name__.encode()); walk(o.__self__, depth + 1); return
        if callable(o) and hasattr(o, "__name__") and not hasattr(o, "__dict__"):
            h.update(o.__name__.encode()); return
        mod = type(o).__module__ or ""
        if hasattr(o, "__dict__") and mod.split(".")[0] in ("hierarc", "lenstronomy", "scipy", "sklearn"):
            seen.add(id(o))
            h.update(type(o).__name__.encode())
            for k, v in vars(o).items():
                if k == "_cosmo_fixed_interp" and depth == 0:
                    continue        # the one predicted self-write (lazy cache of the fixed cosmology), tracked separately
                h.update(k.encode()); walk(v, depth + 1)
            return
        h.update(("<%s>" % type(o).__name__).encode())                  # astropy models, units, functions: immutable for our purposes
    walk(obj, 0)
    return h.hexdigest()


def custom_prior(kwargs_cosmo, kwargs_lens, kwargs_kin, kwargs_source, kwargs_los):
    return -(kwargs_cosmo["h0"] - 70.0) ** 2 / 200.0


def rng_case(case):
    return np.random.default_rng([int(c) for c in case])


# ------------------------------------------------------------------ configuration
def gen_config(rng, index):
    cosmology = ["FLCDM", "oLCDM", "w0waCDM", "FwCDM"][index % 4]
    km = dict()
    lo_c, hi_c = dict(h0=20.0, om=0.05), dict(h0=150.0, om=0.9)
    if cosmology == "oLCDM": lo_c["ok"], hi_c["ok"] = -0.5, 0.5
    if cosmology == "FwCDM": lo_c["w"], hi_c["w"] = -2.0, -0.3
    if cosmology == "w0waCDM": lo_c.update(w0=-2.0, wa=-1.0); hi_c.update(w0=-0.3, wa=1.0)
    lo_l, hi_l, lo_k, hi_k, lo_s, hi_s = {}, {}, {}, {}, {}, {}
    fixed_l, fixed_c = {}, {}
    if rng.random() < 0.6:
        km["ppn_sampling"] = True; lo_c["gamma_ppn"], hi_c["gamma_ppn"] = 0.5, 1.5
    km["lambda_mst_sampling"] = True
    km["lambda_mst_distribution"] = str(rng.choice(["GAUSSIAN", "GAUSSIAN", "NONE"]))
    lo_l["lambda_mst"], hi_l["lambda_mst"] = 0.8, 1.2
    if km["lambda_mst_distribution"] == "GAUSSIAN": lo_l["lambda_mst_sigma"], hi_l["lambda_mst_sigma"] = 0.0, 0.2
    ifu = bool(rng.random() < 0.6)
    if ifu:
        km.update(lambda_ifu_sampling=True, lambda_ifu_distribution="GAUSSIAN")
        lo_l.update(lambda_ifu=0.8, lambda_ifu_sigma=0.0); hi_l.update(lambda_ifu=1.2, lambda_ifu_sigma=0.2)
    if rng.random() < 0.5:
        km["alpha_lambda_sampling"] = True
        if rng.random() < 0.4:
            fixed_l["alpha_lambda"] = 0.05
        else:
            lo_l["alpha_lambda"], hi_l["alpha_lambda"] = -0.2, 0.2
    ani = bool(rng.random() < 0.6)
    if ani:
        km.update(anisotropy_sampling=True, anisotropy_model="const", anisotropy_distribution=str(rng.choice(["GAUSSIAN", "NONE"])))
        lo_k["a_ani"], hi_k["a_ani"] = 0.7, 1.8
        if km["anisotropy_distribution"] == "GAUSSIAN": lo_k["a_ani_sigma"], hi_k["a_ani_sigma"] = 0.0, 0.15
    else:
        km["anisotropy_model"] = "NONE"
    sysm = bool(rng.random() < 0.6)
    if sysm:
        km["sigma_v_systematics"] = True; lo_k["sigma_v_sys_error"], hi_k["sigma_v_sys_error"] = 0.0, 0.2
    km.update(sne_apparent_m_sampling=True, sne_distribution="GAUSSIAN", z_apparent_m_anchor=float(rng.choice([0.1, 0.2])))
    lo_s.update(mu_sne=18.0, sigma_sne=0.0); hi_s.update(mu_sne=21.0, sigma_sne=0.3)
    losd = [str(rng.choice(["GAUSSIAN", "GEV"])) for _ in range(2)]          # global line-of-sight populations (GEV draws through scipy.stats)
    km.update(los_sampling=True, los_distributions=losd)
    lo_los = [dict(mean=-0.1, sigma=0.0, **({"xi": -0.2} if q == "GEV" else {})) for q in losd]
    hi_los = [dict(mean=0.1, sigma=0.1, **({"xi": 0.2} if q == "GEV" else {})) for q in losd]
    if cosmology == "FLCDM" and rng.random() < 0.3:
        fixed_c["om"] = 0.31; lo_c.pop("om"); hi_c.pop("om")
        if rng.random() < 0.6 and "gamma_ppn" not in lo_c:      # EVERY cosmological parameter held fixed: the cosmology block samples nothing
            fixed_c["h0"] = 71.3; lo_c.pop("h0"); hi_c.pop("h0")
    all_fixed = (index % 8 == 4)      # every eighth scenario (an FLCDM one): nothing cosmological is sampled, tabulated distances are passed in some calls
    if all_fixed:
        km.pop("ppn_sampling", None); lo_c.pop("gamma_ppn", None); hi_c.pop("gamma_ppn", None)
        fixed_c.update(om=0.31, h0=71.3)
        for k in ("om", "h0"): lo_c.pop(k, None); hi_c.pop(k, None)
    # lenses: every type once (shuffled), extra random ones
    order = [str(t) for t in rng.permutation(TYPES)]
    nl = int(rng.integers(6, 15))
    types = order[:nl]
    lenses = []
    for i, t in enumerate(types):
        nk = int(rng.integers(1, 4))
        kw = dict(z_lens=0.25 + 0.04 * i, z_source=1.2 + 0.1 * i, likelihood_type=t, name="L%d" % i, **lens_kwargs(t, rng, nkin=nk))
        if t == "DdtDdKDE":
            kw["ddt_samples"] = kw["ddt_samples"][:120]; kw["dd_samples"] = kw["dd_samples"][:120]
        if t in ("DdtHist", "DdtHistKDE", "DdtHistKin"):
            kw["ddt_samples"] = kw["ddt_samples"][:200]
            if kw.get("ddt_weights", None) is not None: kw["ddt_weights"] = kw["ddt_weights"][:200]
        kw["num_distribution_draws"] = int(rng.integers(3, 7))
        if t in KIN_TYPES:
            n = len(kw["j_model"])
            kw["sigma_sys_error_include"] = bool(rng.random() < 0.7)
            choice = rng.random()
            if choice < 0.35:
                kw.update(kin_scaling_param_list=["gamma_pl"], j_kin_scaling_param_axes=[AX_G.copy()],
                          j_kin_scaling_grid_list=[rng.uniform(.8, 1.2, 6) for _ in range(n)])
            elif choice < 0.6 and ani:
                kw.update(kin_scaling_param_list=["a_ani"], j_kin_scaling_param_axes=[AX_A.copy()],
                          j_kin_scaling_grid_list=[rng.uniform(.8, 1.2, 5) for _ in range(n)])
            elif choice < 0.8 and ani:
                kw.update(kin_scaling_param_list=["a_ani", "gamma_pl"], j_kin_scaling_param_axes=[AX_A.copy(), AX_G.copy()],
                          j_kin_scaling_grid_list=[rng.uniform(.8, 1.2, (5, 6)) for _ in range(n)])
        if t == "DSPL" and rng.random() < 0.5: kw["kin_scaling_param_list"] = ["gamma_pl"]
        if ifu and rng.random() < 0.4: kw["mst_ifu"] = True
        if rng.random() < 0.6: kw["global_los_distribution"] = int(rng.integers(0, 2))
        if rng.random() < 0.3: kw["lambda_scaling_property"] = float(rng.uniform(-1, 1))
        if rng.random() < 0.2: kw["prior_list"] = [["lambda_mst", 1.0, 0.1]]
        if rng.random() < 0.2: kw["kwargs_lens_properties"] = dict(note="x", arr=rng.normal(size=3))
        lenses.append(kw)
    npl = sum(1 for l in lenses if "gamma_pl" in (l.get("kin_scaling_param_list") or []))
    if npl:
        lo_l["gamma_pl_list"], hi_l["gamma_pl_list"] = [1.6] * npl, [2.4] * npl
    kb = dict(kwargs_lower_cosmo=lo_c, kwargs_upper_cosmo=hi_c, kwargs_lower_lens=lo_l, kwargs_upper_lens=hi_l,
              kwargs_lower_kin=lo_k, kwargs_upper_kin=hi_k, kwargs_lower_source=lo_s, kwargs_upper_source=hi_s,
              kwargs_lower_los=lo_los, kwargs_upper_los=hi_los)
    if fixed_l: kb["kwargs_fixed_lens"] = fixed_l
    if fixed_c: kb["kwargs_fixed_cosmo"] = fixed_c
    # optional terms
    extra = dict(sne_likelihood=None, kwargs_sne_likelihood=None, KDE_likelihood_chain=None, kwargs_kde_likelihood=None,
                 custom_prior=None, cosmo_fixed=None)
    r = rng.random()
    if r < 0.5:
        nsn = int(rng.integers(4, 9)); zc = np.sort(rng.uniform(0.03, 1.2, nsn))
        extra["sne_likelihood"] = "CUSTOM"
        extra["kwargs_sne_likelihood"] = dict(mag_mean=19 + 5 * np.log10(zc * (1 + zc)) + rng.normal(0, .1, nsn), cov_mag=pd(rng, nsn, 0.12),
                                              zhel=zc + rng.normal(0, 1e-3, nsn), zcmb=zc)
    elif r < 0.65:
        extra["sne_likelihood"] = str(rng.choice(["Pantheon_binned", "Roman_forecast"]))
    chain_cols = None
    if rng.random() < 0.5:
        nch = int(rng.integers(60, 150))
        chain_cols = {"h0": rng.normal(70, 5, nch)}
        if "om" not in fixed_c: chain_cols["om"] = rng.normal(0.3, 0.05, nch)
        extra["KDE_likelihood_chain"] = Chain("kw", "probe", chain_cols, rng.uniform(0.5, 2, nch), cosmology, rescale=True)
        extra["kwargs_kde_likelihood"] = dict(likelihood_type=str(rng.choice(["kde_full", "kde_hist_nd"])), bandwidth=float(rng.uniform(0.05, 0.3)), nbins_hist=8)
    if rng.random() < 0.5: extra["custom_prior"] = custom_prior
    interp = bool(rng.random() < 0.7)
    if rng.random() < 0.35:
        from astropy.cosmology import FlatLambdaCDM
        extra["cosmo_fixed"] = FlatLambdaCDM(H0=float(rng.uniform(60, 80)), Om0=0.3)
    tab = None
    if rng.random() < 0.4 or all_fixed:
        from astropy.cosmology import FlatLambdaCDM
        zt = np.linspace(0, 3.2, 120)
        tab = dict(ang_diameter_distances=FlatLambdaCDM(H0=72.0, Om0=0.28).angular_diameter_distance(zt).value, redshifts=zt)
        if cosmology == "oLCDM": tab["K"] = 0.0; tab["ok"] = 0.0
    return dict(cosmology=cosmology, lenses=lenses, kwargs_model=km, kwargs_bounds=kb, extra=extra, interp=interp,
                num_interp=int(rng.choice([40, 80])), tab=tab, normalized=bool(rng.random() < 0.3))


def build(cfg):
    e = cfg["extra"]
    return CosmoLikelihood(cfg["lenses"], cfg["cosmology"], cfg["kwargs_model"], cfg["kwargs_bounds"], sne_likelihood=e["sne_likelihood"],
                           kwargs_sne_likelihood=e["kwargs_sne_likelihood"], KDE_likelihood_chain=e["KDE_likelihood_chain"],
                           kwargs_kde_likelihood=e["kwargs_kde_likelihood"], normalized=cfg["normalized"], custom_prior=e["custom_prior"],
                           interpolate_cosmo=cfg["interp"], num_redshift_interp=cfg["num_interp"], cosmo_fixed=e["cosmo_fixed"])


def describe(cfg):
    e = cfg["extra"]
    return dict(cosmology=cfg["cosmology"], types=[l["likelihood_type"] for l in cfg["lenses"]], model=cfg["kwargs_model"],
                sne=e["sne_likelihood"], kde=None if e["kwargs_kde_likelihood"] is None else e["kwargs_kde_likelihood"]["likelihood_type"],
                prior=e["custom_prior"] is not None, cosmo_fixed=e["cosmo_fixed"] is not None, interp=cfg["interp"], tabulated=cfg["tab"] is not None,
                fixed={k: v for k, v in cfg["kwargs_bounds"].items() if "fixed" in k})


INPUT_KEYS = ["lenses", "kwargs_model", "kwargs_bounds", "sne", "chain", "kwargs_kde", "tabulated", "walkers"]


def inputs_of(cfg, walkers):
    e = cfg["extra"]
    return dict(lenses=cfg["lenses"], kwargs_model=cfg["kwargs_model"], kwargs_bounds=cfg["kwargs_bounds"], sne=e["kwargs_sne_likelihood"],
                chain=e["KDE_likelihood_chain"], kwargs_kde=e["kwargs_kde_likelihood"], tabulated=cfg["tab"], walkers=walkers)


def run_scenario(rec, case, nsteps):
    rng = rng_case(case)
    cfg = gen_config(rng, int(case[2]))
    d = dict(case=list(case), nsteps=nsteps, config=describe(cfg))
    rec.case(d["config"], kind="scenario:%s" % cfg["cosmology"])
    try:
        cl = build(cfg)
        fresh = build(copy.deepcopy(cfg))        # reference object, evaluated once per sharp point, never shared
    except Exception as e:
        rec.violation("C08:raises:CosmoLikelihood", "constructor raised %r" % (e,), d, traceback.format_exc(limit=4))
        return
    names = cl.param.param_list()
    lo, hi = (np.array(x, dtype=float) for x in cl.param.param_bounds)
    sig_idx = [i for i, n in enumerate(names) if n.endswith("_sigma") or n == "sigma_sne" or n.startswith("sigma_los")]
    ok_idx = names.index("ok") if "ok" in names else None

    def point(sharp):
        x = lo + rng.uniform(0.2, 0.8, len(lo)) * (hi - lo)
        if ok_idx is not None:
            x[ok_idx] = rng.uniform(-0.15, 0.15)
        if sharp:
            x[sig_idx] = 0.0
        return x
    nwalk = 8
    walkers = np.array([point(bool(k % 2)) for k in range(nwalk)])
    inputs = inputs_of(cfg, walkers)
    s0 = {k: snap(inputs[k]) for k in INPUT_KEYS}

    def check_inputs(step, what):
        for k in INPUT_KEYS:
            if snap(inputs[k]) != s0[k]:
                rec.violation("C08:mutated:" + k, "caller-supplied input changed during %s" % what, dict(d, step=step), "snapshot differs", "unchanged")
                s0[k] = snap(inputs[k])

    def evaluate(obj, p, tab=None):
        return fscalar(obj.likelihood(p) if tab is None else obj.likelihood(p, kwargs_cosmo_interp=tab))

    # reference values on the fresh object
    use_tab = cfg["tab"] is not None
    sharp_pts = [point(True) for _ in range(5)]
    sharp_tab = [bool(use_tab and rng.random() < 0.4) for _ in sharp_pts]
    scat_pts = [point(False) for _ in range(2)]
    scat_seed = [int(rng.integers(1 << 30)) for _ in scat_pts]
    try:
        ref = [evaluate(fresh, p.copy(), copy.deepcopy(cfg["tab"]) if t else None) for p, t in zip(sharp_pts, sharp_tab)]
        ref_sc = []
        for p, s in zip(scat_pts, scat_seed):
            np.random.seed(s); ref_sc.append(evaluate(fresh, p.copy()))
    except Exception as e:
        rec.violation("C08:raises:likelihood", "likelihood raised at an in-bounds point: %r" % (e,), dict(d, names=names), traceback.format_exc(limit=4))
        return
    if not all(np.isfinite(ref)):
        rec.tally("nonfinite_reference_point")
    objs = {"same": cl}
    try:
        objs["deepcopy"] = copy.deepcopy(cl)
        objs["pickle"] = pickle.loads(pickle.dumps(cl))
    except Exception as e:
        rec.violation("C08:raises:clone", "deepcopy/pickle of the likelihood object raised %r" % (e,), d, traceback.format_exc(limit=3))
    check_inputs(-1, "construction / cloning")
    hashes = {}
    history = []
    for step in range(nsteps):
        kind = str(rng.choice(["scatter", "sharp", "oob", "stored", "walker_view", "list_args", "guard", "tab"]))
        if kind == "guard" and ok_idx is None: kind = "sharp"
        if kind == "tab" and not use_tab: kind = "scatter"
        tab = None
        if kind == "scatter": p = point(False)
        elif kind == "sharp": p = point(True)
        elif kind == "oob":
            p = point(bool(rng.random() < 0.5)); j = int(rng.integers(len(p))); p[j] = hi[j] + 1.0 if rng.random() < 0.5 else lo[j] - 1.0
        elif kind == "stored": p = sharp_pts[int(rng.integers(len(sharp_pts)))]
        elif kind == "walker_view": p = walkers[int(rng.integers(nwalk))]          # a view, as emcee passes
        elif kind == "list_args": p = [float(x) for x in point(bool(rng.random() < 0.5))]
        elif kind == "guard":
            p = point(True); p[ok_idx] = -0.5; p[names.index("om")] = 0.06      # E^2 < 0 at the source redshifts
        else:
            p = point(bool(rng.random() < 0.5)); tab = cfg["tab"]
        history.append(kind)
        p_before = snap(p)
        np.random.seed(int(rng.integers(1 << 30)))
        try:
            v = evaluate(cl, p, tab)
        except Exception as e:
            rec.violation("C08:raises:likelihood", "likelihood raised on a %s point: %r" % (kind, e), dict(d, step=step, history=history),
                          traceback.format_exc(limit=4))
            continue
        rec.tally("step:" + kind)
        rec.check(snap(p) == p_before, "C08:mutated:args", "the sampling vector was modified by likelihood()", dict(d, step=step, history=history, kind=kind),
                  jsonable(p), "unchanged")
        if kind == "oob":
            rec.check(v == -np.inf, "C08:history:same", "out-of-bounds point does not give -inf", dict(d, step=step, history=history), v, "-inf")
        check_inputs(step, "likelihood() on a %s point" % kind)
        # clones taken in the middle of the history
        if step == nsteps // 2:
            try:
                objs["midcopy"] = copy.deepcopy(cl); objs["midpickle"] = pickle.loads(pickle.dumps(cl))
            except Exception as e:
                rec.violation("C08:raises:clone", "mid-history deepcopy/pickle raised %r" % (e,), dict(d, step=step))
        # value at a sharp point: independent of history and of the np.random state, identical on clones
        j = int(rng.integers(len(sharp_pts)))
        others = [k for k in objs if k != "same"]
        # the shared object after every call, one of the clones in turn (an astropy model costs ~40 ms per evaluation)
        todo = ["same"] + ([others[step % len(others)]] if others else [])
        for nm in todo:
            obj = objs[nm]
            np.random.seed(int(rng.integers(1 << 30)))
            try:
                w = evaluate(obj, sharp_pts[j].copy(), cfg["tab"] if sharp_tab[j] else None)
            except Exception as e:
                rec.violation("C08:raises:likelihood", "raised on %s object: %r" % (nm, e), dict(d, step=step, history=history))
                continue
            rec.check(w == ref[j], "C08:history:" + nm, "value at a sharp point depends on the call history / random state / copy",
                      dict(d, step=step, history=history, point=sharp_pts[j], names=names), w, ref[j])
        # with scatter: reproducible from np.random.seed, also after history and on clones
        if step % 4 == 3:
            j = int(rng.integers(len(scat_pts)))
            for nm, obj in objs.items():
                np.random.seed(scat_seed[j])
                w = evaluate(obj, scat_pts[j].copy())
                rec.check(w == ref_sc[j], "C08:seed:" + nm, "scatter value not reproducible from np.random.seed after history / on a copy",
                          dict(d, step=step, history=history, point=scat_pts[j], np_seed=scat_seed[j], names=names), w, ref_sc[j])
        # the object's own state: nothing may be written after the cache-warming first calls
        try:
            for nm in todo:
                obj = objs[nm]
                cache = getattr(obj, "_cosmo_fixed_interp", None)
                # main state constant; the cache may appear once (None -> value) and must then stay
                h = (state_hash(obj), None if cache is None else state_hash(cache))
                if nm in hashes and hashes[nm][0] == h[0] and hashes[nm][1] is None:
                    hashes[nm] = h
                if nm in hashes and hashes[nm] != h:
                    rec.violation("C08:self_state_written", "state of the likelihood object changed during evaluation (%s)" % nm,
                                  dict(d, step=step, history=history), "pickle hash differs", "unchanged after first call")
                hashes[nm] = h
        except Exception as e:
            rec.error("state_hash: %r" % (e,))
    check_inputs(nsteps, "final re-check")


# ------------------------------------------------------------------ direct lens call with sigma_v_sys_error in kwargs_kin
def run_lens_direct(rec, case):
    rng = rng_case(case)
    t = KIN_TYPES[int(case[2]) % 3] if rng.random() < 0.7 else str(rng.choice(TYPES))
    n = int(rng.integers(1, 5))
    kw = dict(z_lens=0.4, z_source=1.8, likelihood_type=t, num_distribution_draws=5, **lens_kwargs(t, rng, nkin=n))
    scal = False
    if t in KIN_TYPES:
        kw["sigma_sys_error_include"] = bool(rng.random() < 0.7)
        if rng.random() < 0.6:
            scal = True
            kw.update(kin_scaling_param_list=["a_ani", "gamma_pl"], j_kin_scaling_param_axes=[AX_A.copy(), AX_G.copy()],
                      j_kin_scaling_grid_list=[rng.uniform(.8, 1.2, (5, 6)) for _ in range(n)])
    kw.update(anisotropy_model="const", anisotropy_sampling=True, anisotropy_distribution="GAUSSIAN", lambda_mst_distribution="GAUSSIAN",
              los_distributions=["GAUSSIAN"], global_los_distribution=0)
    d = dict(case=list(case), type=t, scaling=scal)
    rec.case(d, kind="lens_direct:" + t)
    C = cosmo_interp(zmax=4.0, n=100)
    kl = dict(lambda_mst=1.03, lambda_mst_sigma=0.0, gamma_ppn=1.0, gamma_pl_list=[2.07])
    kk = dict(a_ani=1.3, a_ani_sigma=0.0, sigma_v_sys_error=float(rng.uniform(0.01, 0.1)))
    ks = dict(mu_sne=19.2, sigma_sne=0.0, z_apparent_m_anchor=0.1)
    klos = [dict(mean=0.01, sigma=0.0)]
    if int(case[2]) % 2 == 1:
        # hand-written, MINIMAL dictionaries (optional keys left to their defaults): filling in a default must not write into the caller's dict
        ks = dict(mu_sne=19.2, sigma_sne=0.0) if rng.random() < 0.5 else {}
        kl = {k: v for k, v in kl.items() if k != "gamma_ppn"}
        d["minimal_dicts"] = True
    try:
        L = LensLikelihood(gamma_pl_index=0 if scal else None, **kw)
    except Exception as e:
        rec.violation("C08:raises:LensLikelihood", "constructor raised %r" % (e,), d, traceback.format_exc(limit=3))
        return
    for mode in ("sharp", "scatter"):
        if mode == "scatter":
            kl["lambda_mst_sigma"] = 0.05; kk["a_ani_sigma"] = 0.1; klos[0]["sigma"] = 0.02
        kws = dict(kwargs_lens=kl, kwargs_kin=kk, kwargs_source=ks, kwargs_los=klos)
        s_before = {k: snap(v) for k, v in kws.items()}
        s_kw = snap(kw)
        vals = []
        try:
            for rep in range(3):
                np.random.seed(11)
                vals.append(fscalar(L.lens_log_likelihood(C, **kws)))
            np.random.seed(11)
            L.sigma_v_measured_vs_predict(C, kwargs_lens=kl, kwargs_kin=kk, kwargs_los=klos)
            if scal:
                # a history with a FAILED evaluation in it: the sampler proposes a mean outside the interpolation grid (hierArc raises
                # ValueError, as documented), the caller carries on with the same dictionaries
                a_ok = kk["a_ani"]; kk["a_ani"] = float(AX_A[-1]) + 5.0
                try:
                    np.random.seed(11); L.lens_log_likelihood(C, **kws)
                    rec.tally("out_of_grid_mean_did_not_raise")
                except ValueError:
                    rec.tally("history_with_failed_evaluation")
                kk["a_ani"] = a_ok
            np.random.seed(11)
            vals.append(fscalar(L.lens_log_likelihood(C, **kws)))
        except Exception as e:
            rec.violation("C08:raises:lens_log_likelihood", "raised %r" % (e,), dict(d, mode=mode), traceback.format_exc(limit=3))
            continue
        for k in kws:
            rec.check(snap(kws[k]) == s_before[k], "C08:mutated:" + k, "caller's %s modified by the direct lens call (%s)" % (k, mode),
                      dict(d, mode=mode), jsonable(kws[k]), "unchanged (sigma_v_sys_error must not be popped)")
        rec.check(snap(kw) == s_kw, "C08:mutated:lenses", "lens configuration modified by evaluation", dict(d, mode=mode))
        rec.check(all(v == vals[0] for v in vals), "C08:lens_direct:repeat_" + mode, "repeated direct lens calls (same seed) give different values",
                  dict(d, mode=mode), vals, "all equal")


# ------------------------------------------------------------------ SNe likelihood evaluated repeatedly with scatter
def run_sne(rec, case):
    rng = rng_case(case)
    C = cosmo_interp(zmax=3.0, n=150)
    custom = bool(int(case[2]) % 3 != 2)
    d = dict(case=list(case), custom=custom)
    if custom:
        nsn = int(rng.integers(3, 12)); zc = np.sort(rng.uniform(0.02, 1.5, nsn))
        sne = dict(mag_mean=19 + 5 * np.log10(zc * (1 + zc)) + rng.normal(0, .1, nsn), cov_mag=pd(rng, nsn, 0.1), zhel=zc + 1e-3, zcmb=zc,
                   no_intrinsic_scatter=bool(rng.random() < 0.2))
        name = "CUSTOM"
    else:
        sne = {}; name = str(rng.choice(["Pantheon_binned", "Roman_forecast"]))
    d["sample"] = name
    rec.case(d, kind="sne:" + name)
    try:
        S = SneLikelihood(sample_name=name, **sne)
    except Exception as e:
        rec.violation("C08:raises:SneLikelihood", "constructor raised %r" % (e,), d, traceback.format_exc(limit=3))
        return
    s_in = snap(sne)
    stored = snap(vars(S._likelihood))
    m = float(rng.uniform(18.5, 19.5))
    try:
        v0 = fscalar(S.log_likelihood(C, apparent_m_z=m, sigma_m_z=None))
        v00 = fscalar(S.log_likelihood(C, apparent_m_z=m, sigma_m_z=0.0))
        sig = float(rng.uniform(0.05, 0.3))
        vs = [fscalar(S.log_likelihood(C, apparent_m_z=m, sigma_m_z=sig)) for _ in range(4)]
        vs2 = fscalar(S.log_likelihood(C, apparent_m_z=m, sigma_m_z=2 * sig))
        vs.append(fscalar(S.log_likelihood(C, apparent_m_z=m, sigma_m_z=sig)))
        v1 = fscalar(S.log_likelihood(C, apparent_m_z=m, sigma_m_z=None))
        v11 = fscalar(S.log_likelihood(C, apparent_m_z=m, sigma_m_z=0.0))
        vn = [fscalar(S.log_likelihood(C, apparent_m_z=None, sigma_m_z=sig)) for _ in range(2)]
    except Exception as e:
        rec.violation("C08:raises:SneLikelihood", "log_likelihood raised %r" % (e,), d, traceback.format_exc(limit=3))
        return
    rec.check(all(v == vs[0] for v in vs) and vn[0] == vn[1], "C08:sne_repeat:value", "repeated evaluation with the same sigma_sne gives different values",
              dict(d, sigma=sig), vs, "all equal")
    rec.check(v0 == v1 and v00 == v11, "C08:sne_repeat:sharp_after_scatter", "value without scatter changed after evaluations with scatter",
              dict(d, sigma=sig), [v1, v11], [v0, v00])
    rec.check(snap(vars(S._likelihood)) == stored, "C08:sne_repeat:stored_covariance", "stored covariance / inverse of the SNe likelihood was modified",
              dict(d, sigma=sig))
    rec.check(snap(sne) == s_in, "C08:mutated:sne", "caller's SNe arrays modified", dict(d, sigma=sig))


# ------------------------------------------------------------------ KDE-chain branch
def run_kde(rec, case):
    rng = rng_case(case)
    cosmology = str(rng.choice(["FLCDM", "FwCDM"]))
    nch = int(rng.integers(60, 200))
    cols = {"om": rng.normal(0.3, 0.04, nch), "h0": rng.normal(70, 4, nch)}
    if cosmology == "FwCDM": cols["w"] = rng.normal(-1, 0.1, nch)
    ch = Chain("kw", "probe", cols, rng.uniform(0.5, 2, nch), cosmology, rescale=True)
    kkde = dict(likelihood_type=str(rng.choice(["kde_full", "kde_hist_nd"])), bandwidth=float(rng.uniform(0.05, 0.3)), nbins_hist=8)
    lenses = [dict(z_lens=0.5, z_source=1.5, likelihood_type="DdtGaussian", ddt_mean=3300., ddt_sigma=300.)]
    kb = dict(kwargs_lower_cosmo=dict(h0=0, om=0, w=-3), kwargs_upper_cosmo=dict(h0=200, om=1, w=0))
    d = dict(case=list(case), cosmology=cosmology, kde=kkde, n_chain=nch)
    rec.case(d, kind="kde:" + kkde["likelihood_type"])
    try:
        cl = CosmoLikelihood(lenses, cosmology, {}, kb, KDE_likelihood_chain=ch, kwargs_kde_likelihood=kkde, interpolate_cosmo=True, num_redshift_interp=50)
    except Exception as e:
        rec.violation("C08:raises:CosmoLikelihood", "constructor raised %r" % (e,), d, traceback.format_exc(limit=3))
        return
    s_chain = snap(ch)
    pts = np.array([[rng.uniform(60, 80), rng.uniform(0.2, 0.4)] + ([rng.uniform(-1.2, -0.8)] if cosmology == "FwCDM" else []) for _ in range(6)])
    s_pts = snap(pts)
    try:
        first = [fscalar(cl.likelihood(pts[i])) for i in range(len(pts))]          # rows are views into pts
        second = [fscalar(cl.likelihood(pts[i])) for i in reversed(range(len(pts)))][::-1]
        cl2 = pickle.loads(pickle.dumps(cl))
        third = [fscalar(cl2.likelihood(pts[i])) for i in range(len(pts))]
    except Exception as e:
        rec.violation("C08:raises:likelihood", "raised %r" % (e,), d, traceback.format_exc(limit=3))
        return
    rec.check(first == second == third, "C08:kde_rescale", "KDE-chain term not repeatable (same object / pickle clone)", d, [second, third], first)
    rec.check(snap(ch) == s_chain, "C08:mutated:chain", "Chain (samples / weights / rescale dictionary) modified by likelihood()", d)
    rec.check(snap(pts) == s_pts, "C08:mutated:args", "argument vectors (views of a walker array) modified by the KDE rescaling", d, jsonable(pts), "unchanged")


# ------------------------------------------------------------------ copies draw from the SAME (global, seedable) random stream
# One case = one stochastic component a lens can be configured with (or all of them jointly), on a LensLikelihood called
# directly and on a CosmoLikelihood holding that lens.  np.random.seed(s) must determine the value on the original, on its
# deep copy, on its pickle round trip and on a pickle of the deep copy (emcee Pool / multiprocessing) -- bit-identical to
# what a never-copied object built from the same configuration returns -- when evaluated once, repeatedly, in either
# order (original first / copy first), and the evaluation must consume the global stream identically (the next
# np.random.random() agrees), i.e. no copy may own a private generator.
COMPONENTS = ["los_individual_GEV", "los_individual_PDF", "los_global_GAUSSIAN", "los_global_GEV", "lambda_mst", "lambda_ifu",
              "a_ani_GAUSSIAN", "a_ani_GAUSSIAN_SCALED", "a_ani_GAUSSIAN_TAN_RAD", "beta_inf_GOM", "gamma_in", "log_m2l",
              "gamma_pl_global", "sigma_sne", "joint"]
AX_C = dict(a_ani=np.linspace(0.2, 5.0, 7), beta_inf=np.linspace(0.0, 1.0, 5), gamma_in=np.linspace(0.2, 2.2, 6),
            log_m2l=np.linspace(-0.2, 1.0, 5), gamma_pl=np.linspace(1.5, 2.5, 6))
C_KMS = 299792.458
_FID = {}


def fid_cosmo():
    if "c" not in _FID:
        _FID["c"] = cosmo_interp(70.0, 0.3, zmax=4.0, n=120)
    return _FID["c"]


def component_case(rng, comp):
    """-> (lens kwargs [without the global switches], kwargs_model for CosmoLikelihood, hyper-parameter dicts, cosmo_level ok)
    Data are placed on the prediction of the fiducial cosmology so that the values are finite and of order -1..-100."""
    C = fid_cosmo()
    kinlike = comp in ("a_ani_GAUSSIAN", "a_ani_GAUSSIAN_SCALED", "a_ani_GAUSSIAN_TAN_RAD", "beta_inf_GOM", "gamma_in", "log_m2l")
    if kinlike: pool = KIN_TYPES
    elif comp == "sigma_sne": pool = MAG_TYPES
    elif comp == "gamma_pl_global": pool = KIN_TYPES + ["DSPL"]
    elif comp == "joint": pool = KIN_TYPES + ["TDMag"]
    elif comp.startswith("los_"): pool = [t for t in TYPES if t != "DSPL"]          # DSPL does not depend on kappa_ext
    else: pool = TYPES
    t = str(pool[int(rng.integers(len(pool)))])
    zl = float(rng.uniform(0.2, 0.7)); zs = float(zl + rng.uniform(0.6, 1.8))
    dd = fscalar(C.angular_diameter_distance(zl).value); ds = fscalar(C.angular_diameter_distance(zs).value)
    dds = fscalar(C.angular_diameter_distance_z1z2(zl, zs).value); ddt = (1 + zl) * dd * ds / dds; r = ds / dds
    nk = int(rng.integers(1, 4))
    d = lens_kwargs(t, rng, nkin=nk)
    f = float(1 + rng.normal(0, 0.02))
    if "ddt_samples" in d: d["ddt_samples"] = (d["ddt_samples"] + (ddt * f - 4000.))[:150]
    if "dd_samples" in d: d["dd_samples"] = (d["dd_samples"] + (dd * f - 1200.))[:150]
    if d.get("ddt_weights", None) is not None: d["ddt_weights"] = d["ddt_weights"][:150]
    if "ddt_mean" in d: d["ddt_mean"], d["ddt_sigma"] = ddt * f, 0.06 * ddt
    if "dd_mean" in d: d["dd_mean"], d["dd_sigma"] = dd * f, 0.07 * dd
    if "ds_dds_mean" in d: d["ds_dds_mean"], d["ds_dds_sigma"] = r * f, 0.08 * r
    if "ddt_mu" in d: d["ddt_mu"] = float(np.log(ddt * f))
    if "j_model" in d:
        sv = rng.uniform(200, 300, nk)
        d["j_model"] = list((sv / C_KMS) ** 2 / r); d["error_cov_j_sqrt"] = pd(rng, nk, 5.0 / (C_KMS * np.sqrt(r)))
        d["sigma_v_measurement"] = list(sv * (1 + rng.normal(0, 0.02, nk)))
    if t == "DSPL":
        zs2 = zs + 1.0
        ds2 = fscalar(C.angular_diameter_distance(zs2).value); dds2 = fscalar(C.angular_diameter_distance_z1z2(zl, zs2).value)
        d.update(z_source2=zs2, beta_dspl=float(dds / ds * ds2 / dds2 * f), sigma_beta_dspl=0.03)
    lens = dict(z_lens=zl, z_source=zs, likelihood_type=t, name="c", num_distribution_draws=int(rng.integers(2, 9)), **d)
    km = {}
    kl, kk, ks, klos = {}, {}, {}, []
    mu_sne = 19.3
    if t in MAG_TYPES:      # source magnitude reproducing the measured amplitudes / magnitudes
        da = fscalar(C.angular_diameter_distance(0.1).value)
        dl = 5 * np.log10((1 + zs) ** 2 * ds) - 5 * np.log10(1.1 ** 2 * da)
        mu_sne = float((19.7 if t == "TDMagMagnitude" else 20 - 2.5 * np.log10(2.0)) - dl)
    n_grid = len(d["j_model"]) if "j_model" in d else 1

    def grid(names):
        shape = tuple(len(AX_C[k]) for k in names)
        lens.update(kin_scaling_param_list=list(names), j_kin_scaling_param_axes=[AX_C[k].copy() for k in names],
                    j_kin_scaling_grid_list=[rng.uniform(0.85, 1.2, size=shape) for _ in range(n_grid)])

    def los_individual(kind):
        if kind == "GEV":
            lens.update(los_distribution_individual="GEV", kwargs_los_individual=dict(xi=float(rng.uniform(-0.2, 0.2)), mean=float(rng.uniform(-0.01, 0.04)),
                                                                                         sigma=float(rng.uniform(0.01, 0.04))))
        else:
            nb = int(rng.integers(5, 15))
            lens.update(los_distribution_individual="PDF", kwargs_los_individual=dict(bin_edges=np.linspace(-0.05, 0.1, nb + 1), pdf_array=rng.uniform(0.2, 1, nb)))

    def los_global(kind):
        npop = int(rng.integers(1, 4)); k = int(rng.integers(npop))
        dists = [str(rng.choice(["GAUSSIAN", "GEV"])) for _ in range(npop)]; dists[k] = kind
        km.update(los_sampling=True, los_distributions=dists)
        lens["global_los_distribution"] = k
        for dist in dists:
            e = dict(mean=float(rng.uniform(-0.02, 0.05)), sigma=float(rng.uniform(0.01, 0.04)))
            if dist == "GEV": e["xi"] = float(rng.uniform(-0.2, 0.2))
            klos.append(e)

    def lam(ifu):
        km.update(lambda_mst_sampling=True, lambda_mst_distribution="GAUSSIAN")
        kl.update(lambda_mst=float(rng.uniform(0.95, 1.05)), lambda_mst_sigma=0.0 if ifu else float(rng.uniform(0.02, 0.08)))
        if ifu:
            km.update(lambda_ifu_sampling=True, lambda_ifu_distribution="GAUSSIAN"); lens["mst_ifu"] = True
            kl.update(lambda_ifu=float(rng.uniform(0.95, 1.05)), lambda_ifu_sigma=float(rng.uniform(0.02, 0.08)))

    def aniso(model, dist, names):
        km.update(anisotropy_sampling=True, anisotropy_model=model, anisotropy_distribution=dist)
        a = float(rng.uniform(1.2, 3.0)) if dist != "GAUSSIAN_TAN_RAD" else float(rng.uniform(0.5, 0.8))   # TAN_RAD realises 1 - N(a, s)^2
        kk.update(a_ani=a, a_ani_sigma=float(rng.uniform(0.05, 0.3)) / (a if dist == "GAUSSIAN_SCALED" else 1.0))
        if dist == "GAUSSIAN_TAN_RAD": kk["a_ani_sigma"] = float(rng.uniform(0.03, 0.1))
        if model == "GOM": kk.update(beta_inf=float(rng.uniform(0.3, 0.7)), beta_inf_sigma=float(rng.uniform(0.05, 0.3)))    # some re-draws outside [0, 1]
        return names

    cosmo_level = True
    names = []
    if comp == "los_individual_GEV": los_individual("GEV")
    elif comp == "los_individual_PDF": los_individual("PDF")
    elif comp == "los_global_GAUSSIAN": los_global("GAUSSIAN")
    elif comp == "los_global_GEV": los_global("GEV")
    elif comp == "lambda_mst": lam(False)
    elif comp == "lambda_ifu": lam(True)
    elif comp == "a_ani_GAUSSIAN": names = aniso(str(rng.choice(["OM", "const"])), "GAUSSIAN", ["a_ani"])
    elif comp == "a_ani_GAUSSIAN_SCALED": names = aniso("OM", "GAUSSIAN_SCALED", ["a_ani"])
    elif comp == "a_ani_GAUSSIAN_TAN_RAD":
        names = aniso("const", "GAUSSIAN_TAN_RAD", ["a_ani"]); cosmo_level = False      # ParamManager has no a_ani_sigma for this distribution
    elif comp == "beta_inf_GOM": names = aniso("GOM", str(rng.choice(["GAUSSIAN", "GAUSSIAN_SCALED"])), ["a_ani", "beta_inf"])
    elif comp in ("gamma_in", "log_m2l"):
        names = ["gamma_in", "log_m2l"] if rng.random() < 0.5 else [comp]
        if "gamma_in" in names: km.update(gamma_in_sampling=True, gamma_in_distribution="GAUSSIAN")
        if "log_m2l" in names: km.update(log_m2l_sampling=True, log_m2l_distribution="GAUSSIAN")
        kl.update(gamma_in=float(rng.uniform(0.9, 1.5)), gamma_in_sigma=0.0, log_m2l=float(rng.uniform(0.2, 0.6)), log_m2l_sigma=0.0)
        kl[comp + "_sigma"] = float(rng.uniform(0.05, 0.4))       # some re-draws outside the interpolation range
    elif comp == "gamma_pl_global":
        km.update(gamma_pl_global_sampling=True, gamma_pl_global_dist="GAUSSIAN")
        kl.update(gamma_pl_mean=float(rng.uniform(1.9, 2.1)), gamma_pl_sigma=float(rng.uniform(0.02, 0.1)))
        if t != "DSPL": names = ["gamma_pl"]
    elif comp == "sigma_sne":
        km.update(sne_apparent_m_sampling=True, sne_distribution="GAUSSIAN")
        ks.update(mu_sne=mu_sne, sigma_sne=float(rng.uniform(0.03, 0.2)))
    elif comp == "joint":
        lam(bool(rng.random() < 0.5))
        if rng.random() < 0.5: los_individual(str(rng.choice(["GEV", "PDF"])))
        else: los_global(str(rng.choice(["GEV", "GAUSSIAN"])))
        km.update(sne_apparent_m_sampling=True, sne_distribution="GAUSSIAN"); ks.update(mu_sne=mu_sne, sigma_sne=float(rng.uniform(0.03, 0.2)))
        if t in KIN_TYPES:
            names = aniso("GOM", "GAUSSIAN", ["a_ani", "beta_inf"]) + ["gamma_in", "log_m2l"]
            km.update(gamma_in_sampling=True, gamma_in_distribution="GAUSSIAN", log_m2l_sampling=True, log_m2l_distribution="GAUSSIAN")
            kl.update(gamma_in=1.2, gamma_in_sigma=0.1, log_m2l=0.4, log_m2l_sigma=0.05)
            km["sigma_v_systematics"] = True; kk["sigma_v_sys_error"] = 0.03; lens["sigma_sys_error_include"] = True
        km.update(gamma_pl_global_sampling=True, gamma_pl_global_dist="GAUSSIAN"); kl.update(gamma_pl_mean=2.0, gamma_pl_sigma=0.05)
    if names and t != "DSPL": grid(names)
    if t in MAG_TYPES and "mu_sne" not in ks:
        km.update(sne_apparent_m_sampling=True, sne_distribution="GAUSSIAN"); ks.update(mu_sne=mu_sne, sigma_sne=0.0)
    if "sne_apparent_m_sampling" in km: km["z_apparent_m_anchor"] = 0.1
    return lens, km, dict(kwargs_lens=kl, kwargs_kin=kk, kwargs_source=ks, kwargs_los=klos), cosmo_level


def run_copy_repro(rec, case):
    rng = rng_case(case)
    comp = COMPONENTS[int(case[2]) % len(COMPONENTS)]
    lens, km, hyper, cosmo_level = component_case(rng, comp)
    key = "C08:copy_reproducibility:" + comp
    fixed_cosmo = bool(rng.random() < 0.5)
    d = dict(case=list(case), component=comp, type=lens["likelihood_type"], N=lens["num_distribution_draws"], model=km,
             los_individual=lens.get("los_distribution_individual"), global_los=lens.get("global_los_distribution"), hyper=hyper, cosmo_fixed=fixed_cosmo)
    rec.case(d, kind="copy:" + comp)
    s, a0, a1 = (int(rng.integers(1 << 30)) for _ in range(3))
    C = fid_cosmo()
    global_keys = ["anisotropy_model", "anisotropy_sampling", "anisotropy_distribution", "los_distributions", "lambda_mst_distribution", "gamma_in_sampling",
                   "gamma_in_distribution", "log_m2l_sampling", "log_m2l_distribution", "gamma_pl_global_sampling", "gamma_pl_global_dist"]

    def build_lens():
        kw = copy.deepcopy(lens); kw.update({k: copy.deepcopy(km[k]) for k in global_keys if k in km})
        return LensLikelihood(**kw)

    def eval_lens(L):
        h = copy.deepcopy(hyper)
        if not h["kwargs_los"]: h["kwargs_los"] = None
        if "mu_sne" in h["kwargs_source"]: h["kwargs_source"]["z_apparent_m_anchor"] = 0.1
        return fscalar(L.lens_log_likelihood(C, **h))

    def wide(sign):
        out = {}
        for blk in ("kwargs_lens", "kwargs_kin", "kwargs_source"):
            out[blk] = {k: v + sign * 50.0 for k, v in hyper[blk].items()}
        out["kwargs_los"] = [{k: v + sign * 50.0 for k, v in e.items()} for e in hyper["kwargs_los"]]
        return out
    lo, hi = wide(-1), wide(+1)

    def build_cosmo():
        kb = dict(kwargs_lower_cosmo=dict(h0=0.0, om=0.0), kwargs_upper_cosmo=dict(h0=200.0, om=1.0),
                  kwargs_lower_lens=lo["kwargs_lens"], kwargs_upper_lens=hi["kwargs_lens"], kwargs_lower_kin=lo["kwargs_kin"], kwargs_upper_kin=hi["kwargs_kin"],
                  kwargs_lower_source=lo["kwargs_source"], kwargs_upper_source=hi["kwargs_source"], kwargs_lower_los=lo["kwargs_los"], kwargs_upper_los=hi["kwargs_los"])
        cf = None
        if fixed_cosmo:
            from astropy.cosmology import FlatLambdaCDM
            cf = FlatLambdaCDM(H0=70.0, Om0=0.3)
        return CosmoLikelihood([copy.deepcopy(lens)], "FLCDM", copy.deepcopy(km), copy.deepcopy(kb), interpolate_cosmo=True, num_redshift_interp=30, cosmo_fixed=cf)

    def eval_cosmo(cl):
        args = np.array(cl.param.kwargs2args(kwargs_cosmo=dict(h0=70.0, om=0.3), kwargs_lens=hyper["kwargs_lens"], kwargs_kin=hyper["kwargs_kin"],
                                             kwargs_source=hyper["kwargs_source"], kwargs_los=hyper["kwargs_los"]), dtype=float)
        return fscalar(cl.likelihood(args))

    for level, build, evaluate in (("lens", build_lens, eval_lens), ("cosmo", build_cosmo, eval_cosmo)):
        if level == "cosmo" and not cosmo_level:
            continue
        dl = dict(d, level=level, np_seed=s)
        try:
            obj, fresh = build(), build()
        except Exception as e:
            rec.violation("C08:raises:" + ("LensLikelihood" if level == "lens" else "CosmoLikelihood"), "constructor raised %r" % (e,), dl, traceback.format_exc(limit=3))
            continue

        def seeded(o, n=1):
            np.random.seed(s)
            vals = [evaluate(o) for _ in range(n)]
            return vals, float(np.random.random())      # the position of the global stream after the evaluation(s)
        try:
            (r1, r2), tail2 = seeded(fresh, 2)
            (r1b,), tail1 = seeded(fresh, 1)
            np.random.seed(a0); evaluate(obj)                      # some earlier evaluation on the object that is going to be copied
            np.random.seed(a1)                                     # arbitrary state of the global generator when the copies are made
        except Exception as e:
            rec.violation("C08:raises:likelihood", "evaluation raised %r" % (e,), dl, traceback.format_exc(limit=3))
            continue
        try:
            objs = {"same": obj, "deepcopy": copy.deepcopy(obj), "pickle": pickle.loads(pickle.dumps(obj))}
            objs["pickle_of_deepcopy"] = pickle.loads(pickle.dumps(objs["deepcopy"]))
        except Exception as e:
            rec.violation("C08:raises:clone", "deepcopy/pickle of the likelihood object raised %r" % (e,), dl, traceback.format_exc(limit=3))
            continue
        if r1 == r2 or not np.isfinite(r1):
            rec.tally("copy:trivial(no scatter reached the value or -inf)")
        rec.check(r1b == r1, key, "never-copied object: the same np.random.seed gives two different values", dict(dl, object="fresh"), [r1, r1b], "equal")
        order = list(objs)
        try:
            # (1) one seeded evaluation, repeated; original first, then copies first
            for tag, seq in (("original_first", order), ("copies_first", order[::-1])):
                for nm in seq:
                    for rep in range(2):
                        v, tl = seeded(objs[nm], 1)
                        rec.check(v[0] == r1, key, "np.random.seed(s) does not determine the value on the %s object (value of a never-copied object expected)" % nm,
                                  dict(dl, object=nm, order=tag, repeat=rep), v[0], r1)
                        rec.check(tl == tail1, key, "the evaluation on the %s object does not consume the global numpy stream like the original (private generator?)" % nm,
                                  dict(dl, object=nm, order=tag, repeat=rep, what="next np.random.random() after the evaluation"), tl, tail1)
            # (2) two consecutive evaluations after one seed
            for nm in order:
                v, tl = seeded(objs[nm], 2)
                rec.check(v == [r1, r2] and tl == tail2, key, "two consecutive evaluations after np.random.seed(s) differ from those of a never-copied object (%s)" % nm,
                          dict(dl, object=nm, order="twice_after_one_seed"), v + [tl], [r1, r2, tail2])
            # (3) original and copy interleaved on one stream, both orders
            for nm in order[1:]:
                for tag, pair in (("original_then_copy", (obj, objs[nm])), ("copy_then_original", (objs[nm], obj))):
                    np.random.seed(s)
                    v = [evaluate(pair[0]), evaluate(pair[1])]
                    rec.check(v == [r1, r2], key, "original and %s evaluated one after the other on one seeded stream: values differ from two evaluations of one object" % nm,
                              dict(dl, object=nm, order=tag), v, [r1, r2])
        except Exception as e:
            rec.violation("C08:raises:likelihood", "raised on a copy: %r" % (e,), dl, traceback.format_exc(limit=3))


STREAMS = {1: None, 2: run_lens_direct, 3: run_sne, 4: run_kde, 5: run_copy_repro}
COUNTS = {"quick": {1: 12, 2: 24, 3: 18, 4: 12, 5: 2 * len(COMPONENTS)}, "thorough": {1: 64, 2: 240, 3: 180, 4: 120, 5: 12 * len(COMPONENTS)}}
NSTEPS = {"quick": 20, "thorough": 48}


def main():
    a = parse_args(PROP)
    rec = Recorder(PROP, a.tier, a.seed, "no caller input mutated; sharp value == fresh-object value after any history, on deepcopy/pickle clones; scatter seed-reproducible")
    if a.replay:
        rp = unjson(json.load(open(a.replay)))
        inp = rp["input"]
        case = [int(c) for c in inp["case"]]
        try:
            if case[1] == 1:
                run_scenario(rec, case, int(inp.get("nsteps", NSTEPS[a.tier])))
            else:
                STREAMS[case[1]](rec, case)
        except Exception:
            rec.error(traceback.format_exc(limit=6))
        rec.write(a.out)
        return
    budget = 34 if a.tier == "quick" else 330
    for stream in (2, 3, 4, 5, 1):
        for i in range(COUNTS[a.tier][stream]):
            if time.process_time() - rec.cpu0 > 2 * budget:
                rec.tally("stopped_on_time_budget")
                break
            try:
                if stream == 1:
                    run_scenario(rec, [a.seed, 1, i], NSTEPS[a.tier])
                else:
                    STREAMS[stream](rec, [a.seed, stream, i])
            except Exception:
                rec.error("case %s: %s" % ([a.seed, stream, i], traceback.format_exc(limit=6)))
    out = rec.write(a.out)
    print(json.dumps(dict(property=PROP, evaluations=out["evaluations"], violations=out["violation_counts"],
                          errors=len(out["errors"]), wall_s=out["wall_s"])))


if __name__ == "__main__":
    main()
