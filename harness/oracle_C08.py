"""Oracle for C08: likelihood evaluation is a pure, reproducible, copyable function of its inputs.

One scenario = one random configuration (lens list of mixed types with nested arrays, global model switches, bounds and
fixed dictionaries, optional custom SNe sample / SNe file sample / KDE chain / custom prior / fixed cosmology / tabulated
distances) and a random call history on ONE CosmoLikelihood object: sharp points, scatter points, out-of-bounds points,
points failing the curvature guard, calls with user-tabulated distances, argument vectors given as list / array / view of
a walker array.  copy.deepcopy and pickle clones are taken before the history and in the middle of it.

Sub-checks / keys:
  C08:mutated:<input>          deep snapshot (recursive hash of every array/list/dict) of a caller-supplied input changed
                               during a call: args | walkers | lenses | kwargs_model | kwargs_bounds | sne | chain |
                               kwargs_kde | tabulated | kwargs_lens/kin/source/los (direct lens call)
  C08:history:<same|deepcopy|pickle|midcopy|midpickle>   value at a sharp point differs from the value a fresh object gave
                               (after any history, under any np.random state)
  C08:seed:<same|deepcopy|pickle|...>   with scatter: same np.random.seed => same value, before and after history, on clones
  C08:self_state_written       pickled state of the object changed after the first (cache-warming) call
  C08:lens_direct:<what>       LensLikelihood.lens_log_likelihood / sigma_v_measured_vs_predict called directly with
                               kwargs_kin containing sigma_v_sys_error: repeatable (value), key not popped (-> mutated key)
  C08:sne_repeat:<what>        SneLikelihood (custom, file) evaluated repeatedly with sigma_sne: value repeatable, sharp value
                               unchanged afterwards, stored covariance untouched
  C08:kde_rescale              KDE-chain term: chain samples, rescale dictionary and the argument vector untouched, value repeatable
  C08:raises:<where>           hierArc raised where a value is promised
"""
import os
for _v in ("OMP_NUM_THREADS", "OPENBLAS_NUM_THREADS", "MKL_NUM_THREADS"):
    os.environ.setdefault(_v, "1")   # tiny matrices: threaded BLAS only adds latency and nondeterminism
import sys, json, time, traceback, copy, pickle, hashlib, math
sys.path.insert(0, os.path.dirname(os.path.abspath(__file__)))
from common import Recorder, parse_args, jsonable, unjson, fscalar, pd, TYPES, KIN_TYPES, MAG_TYPES, lens_kwargs, cosmo_interp
import numpy as np

from hierarc.Likelihood.cosmo_likelihood import CosmoLikelihood
from hierarc.Likelihood.hierarchy_likelihood import LensLikelihood
from hierarc.Likelihood.SneLikelihood.sne_likelihood import SneLikelihood
from hierarc.Likelihood.KDELikelihood.chain import Chain

PROP = "C08"
AX_G = np.linspace(1.5, 2.5, 6)
AX_A = np.linspace(0.5, 2.0, 5)


# ------------------------------------------------------------------ deep snapshots
def snap(o, depth=0):
    """recursive, order-sensitive fingerprint of every array / list / dict / scalar reachable from o"""
    if depth > 12:
        return ("deep",)
    if isinstance(o, np.ndarray):
        if o.dtype == object:
            return ("objarr", tuple(snap(v, depth + 1) for v in o.ravel().tolist()))
        return ("arr", str(o.dtype), o.shape, hashlib.sha1(np.ascontiguousarray(o).tobytes()).hexdigest())
    if isinstance(o, dict):
        return ("dict", tuple((repr(k), snap(v, depth + 1)) for k, v in o.items()))
    if isinstance(o, (list, tuple)):
        return (type(o).__name__, tuple(snap(v, depth + 1) for v in o))
    if isinstance(o, (bool, int, float, str, type(None), np.floating, np.integer, np.bool_)):
        return (type(o).__name__, repr(o))
    if callable(o) and hasattr(o, "__name__"):
        return ("fn", o.__name__)
    if hasattr(o, "__dict__") and type(o).__module__.startswith("hierarc"):
        return ("obj", type(o).__name__, snap(vars(o), depth + 1))
    return ("opaque", type(o).__name__, repr(o)[:200])


def state_hash(obj):
    """fingerprint of everything reachable from the object's attributes (values, not identities): numpy arrays, containers,
    scalars, and the __dict__ of any object (hierarc, scipy interpolants / KDEs, sklearn estimators, astropy models)"""
    h = hashlib.sha1()
    seen = set()

    def walk(o, depth):
        if depth > 25:
            h.update(b"<deep>"); return
        if isinstance(o, np.ndarray):
            if o.dtype == object:
                for v in o.ravel().tolist(): walk(v, depth + 1)
            else:
                h.update(str(o.dtype).encode()); h.update(repr(o.shape).encode()); h.update(np.ascontiguousarray(o).tobytes())
            return
        if isinstance(o, (bool, int, float, complex, str, bytes, type(None), np.generic)):
            h.update(repr(o).encode()); return
        if id(o) in seen:
            h.update(b"<seen>"); return
        if isinstance(o, dict):
            seen.add(id(o))
            for k, v in o.items():
                h.update(repr(k).encode()); walk(v, depth + 1)
            return
        if isinstance(o, (list, tuple, set, frozenset)):
            seen.add(id(o))
            for v in (sorted(o, key=repr) if isinstance(o, (set, frozenset)) else o): walk(v, depth + 1)
            return
        if hasattr(o, "__self__") and hasattr(o, "__func__"):          # bound method (e.g. kde.score)
            h.update(o.__func__.__name__.encode()); walk(o.__self__, depth + 1); return
        if callable(o) and hasattr(o, "__name__") and not hasattr(o, "__dict__"):
            h.update(o.__name__.encode()); return
        mod = type(o).__module__ or ""
        if hasattr(o, "__dict__") and mod.split(".")[0] in ("hierarc", "lenstronomy", "scipy", "sklearn"):
            seen.add(id(o))
            h.update(type(o).__name__.encode())
            for k, v in vars(o).items():
                if k == "_cosmo_fixed_interp" and depth == 0:
                    continue        # the one predicted self-write (lazy cache of the fixed cosmology), tracked separately
                h.update(k.encode()); walk(v, depth + 1)
            return
        h.update(("<%s>" % type(o).__name__).encode())                  # astropy models, units, functions: immutable for our purposes
    walk(obj, 0)
    return h.hexdigest()


def custom_prior(kwargs_cosmo, kwargs_lens, kwargs_kin, kwargs_source, kwargs_los):
    return -(kwargs_cosmo["h0"] - 70.0) ** 2 / 200.0


def rng_case(case):
    return np.random.default_rng([int(c) for c in case])


# ------------------------------------------------------------------ configuration
def gen_config(rng, index):
    cosmology = ["FLCDM", "oLCDM", "w0waCDM", "FwCDM"][index % 4]
    km = dict()
    lo_c, hi_c = dict(h0=20.0, om=0.05), dict(h0=150.0, om=0.9)
    if cosmology == "oLCDM": lo_c["ok"], hi_c["ok"] = -0.5, 0.5
    if cosmology == "FwCDM": lo_c["w"], hi_c["w"] = -2.0, -0.3
    if cosmology == "w0waCDM": lo_c.update(w0=-2.0, wa=-1.0); hi_c.update(w0=-0.3, wa=1.0)
    lo_l, hi_l, lo_k, hi_k, lo_s, hi_s = {}, {}, {}, {}, {}, {}
    fixed_l, fixed_c = {}, {}
    if rng.random() < 0.6:
        km["ppn_sampling"] = True; lo_c["gamma_ppn"], hi_c["gamma_ppn"] = 0.5, 1.5
    km["lambda_mst_sampling"] = True
    km["lambda_mst_distribution"] = str(rng.choice(["GAUSSIAN", "GAUSSIAN", "NONE"]))
    lo_l["lambda_mst"], hi_l["lambda_mst"] = 0.8, 1.2
    if km["lambda_mst_distribution"] == "GAUSSIAN": lo_l["lambda_mst_sigma"], hi_l["lambda_mst_sigma"] = 0.0, 0.2
    ifu = bool(rng.random() < 0.6)
    if ifu:
        km.update(lambda_ifu_sampling=True, lambda_ifu_distribution="GAUSSIAN")
        lo_l.update(lambda_ifu=0.8, lambda_ifu_sigma=0.0); hi_l.update(lambda_ifu=1.2, lambda_ifu_sigma=0.2)
    if rng.random() < 0.5:
        km["alpha_lambda_sampling"] = True
        if rng.random() < 0.4:
            fixed_l["alpha_lambda"] = 0.05
        else:
            lo_l["alpha_lambda"], hi_l["alpha_lambda"] = -0.2, 0.2
    ani = bool(rng.random() < 0.6)
    if ani:
        km.update(anisotropy_sampling=True, anisotropy_model="const", anisotropy_distribution=str(rng.choice(["GAUSSIAN", "NONE"])))
        lo_k["a_ani"], hi_k["a_ani"] = 0.7, 1.8
        if km["anisotropy_distribution"] == "GAUSSIAN": lo_k["a_ani_sigma"], hi_k["a_ani_sigma"] = 0.0, 0.15
    else:
        km["anisotropy_model"] = "NONE"
    sysm = bool(rng.random() < 0.6)
    if sysm:
        km["sigma_v_systematics"] = True; lo_k["sigma_v_sys_error"], hi_k["sigma_v_sys_error"] = 0.0, 0.2
    km.update(sne_apparent_m_sampling=True, sne_distribution="GAUSSIAN", z_apparent_m_anchor=float(rng.choice([0.1, 0.2])))
    lo_s.update(mu_sne=18.0, sigma_sne=0.0); hi_s.update(mu_sne=21.0, sigma_sne=0.3)
    km.update(los_sampling=True, los_distributions=["GAUSSIAN", "GAUSSIAN"])
    lo_los = [dict(mean=-0.1, sigma=0.0), dict(mean=-0.1, sigma=0.0)]; hi_los = [dict(mean=0.1, sigma=0.1), dict(mean=0.1, sigma=0.1)]
    if cosmology == "FLCDM" and rng.random() < 0.3:
        fixed_c["om"] = 0.31; lo_c.pop("om"); hi_c.pop("om")
    # lenses: every type once (shuffled), extra random ones
    order = [str(t) for t in rng.permutation(TYPES)]
    nl = int(rng.integers(6, 15))
    types = order[:nl]
    lenses = []
    for i, t in enumerate(types):
        nk = int(rng.integers(1, 4))
        kw = dict(z_lens=0.25 + 0.04 * i, z_source=1.2 + 0.1 * i, likelihood_type=t, name="L%d" % i, **lens_kwargs(t, rng, nkin=nk))
        if t == "DdtDdKDE":
            kw["ddt_samples"] = kw["ddt_samples"][:120]; kw["dd_samples"] = kw["dd_samples"][:120]
        if t in ("DdtHist", "DdtHistKDE", "DdtHistKin"):
            kw["ddt_samples"] = kw["ddt_samples"][:200]
            if kw.get("ddt_weights", None) is not None: kw["ddt_weights"] = kw["ddt_weights"][:200]
        kw["num_distribution_draws"] = int(rng.integers(3, 7))
        if t in KIN_TYPES:
            n = len(kw["j_model"])
            kw["sigma_sys_error_include"] = bool(rng.random() < 0.7)
            choice = rng.random()
            if choice < 0.35:
                kw.update(kin_scaling_param_list=["gamma_pl"], j_kin_scaling_param_axes=[AX_G.copy()],
                          j_kin_scaling_grid_list=[rng.uniform(.8, 1.2, 6) for _ in range(n)])
            elif choice < 0.6 and ani:
                kw.update(kin_scaling_param_list=["a_ani"], j_kin_scaling_param_axes=[AX_A.copy()],
                          j_kin_scaling_grid_list=[rng.uniform(.8, 1.2, 5) for _ in range(n)])
            elif choice < 0.8 and ani:
                kw.update(kin_scaling_param_list=["a_ani", "gamma_pl"], j_kin_scaling_param_axes=[AX_A.copy(), AX_G.copy()],
                          j_kin_scaling_grid_list=[rng.uniform(.8, 1.2, (5, 6)) for _ in range(n)])
        if t == "DSPL" and rng.random() < 0.5: kw["kin_scaling_param_list"] = ["gamma_pl"]
        if ifu and rng.random() < 0.4: kw["mst_ifu"] = True
        if rng.random() < 0.6: kw["global_los_distribution"] = int(rng.integers(0, 2))
        if rng.random() < 0.3: kw["lambda_scaling_property"] = float(rng.uniform(-1, 1))
        if rng.random() < 0.2: kw["prior_list"] = [["lambda_mst", 1.0, 0.1]]
        if rng.random() < 0.2: kw["kwargs_lens_properties"] = dict(note="x", arr=rng.normal(size=3))
        lenses.append(kw)
    npl = sum(1 for l in lenses if "gamma_pl" in (l.get("kin_scaling_param_list") or []))
    if npl:
        lo_l["gamma_pl_list"], hi_l["gamma_pl_list"] = [1.6] * npl, [2.4] * npl
    kb = dict(kwargs_lower_cosmo=lo_c, kwargs_upper_cosmo=hi_c, kwargs_lower_lens=lo_l, kwargs_upper_lens=hi_l,
              kwargs_lower_kin=lo_k, kwargs_upper_kin=hi_k, kwargs_lower_source=lo_s, kwargs_upper_source=hi_s,
              kwargs_lower_los=lo_los, kwargs_upper_los=hi_los)
    if fixed_l: kb["kwargs_fixed_lens"] = fixed_l
    if fixed_c: kb["kwargs_fixed_cosmo"] = fixed_c
    # optional terms
    extra = dict(sne_likelihood=None, kwargs_sne_likelihood=None, KDE_likelihood_chain=None, kwargs_kde_likelihood=None,
                 custom_prior=None, cosmo_fixed=None)
    r = rng.random()
    if r < 0.5:
        nsn = int(rng.integers(4, 9)); zc = np.sort(rng.uniform(0.03, 1.2, nsn))
        extra["sne_likelihood"] = "CUSTOM"
        extra["kwargs_sne_likelihood"] = dict(mag_mean=19 + 5 * np.log10(zc * (1 + zc)) + rng.normal(0, .1, nsn), cov_mag=pd(rng, nsn, 0.12),
                                              zhel=zc + rng.normal(0, 1e-3, nsn), zcmb=zc)
    elif r < 0.65:
        extra["sne_likelihood"] = str(rng.choice(["Pantheon_binned", "Roman_forecast"]))
    chain_cols = None
    if rng.random() < 0.5:
        nch = int(rng.integers(60, 150))
        chain_cols = {"h0": rng.normal(70, 5, nch)}
        if "om" not in fixed_c: chain_cols["om"] = rng.normal(0.3, 0.05, nch)
        extra["KDE_likelihood_chain"] = Chain("kw", "probe", chain_cols, rng.uniform(0.5, 2, nch), cosmology, rescale=True)
        extra["kwargs_kde_likelihood"] = dict(likelihood_type=str(rng.choice(["kde_full", "kde_hist_nd"])), bandwidth=float(rng.uniform(0.05, 0.3)), nbins_hist=8)
    if rng.random() < 0.5: extra["custom_prior"] = custom_prior
    interp = bool(rng.random() < 0.7)
    if rng.random() < 0.35:
        from astropy.cosmology import FlatLambdaCDM
        extra["cosmo_fixed"] = FlatLambdaCDM(H0=float(rng.uniform(60, 80)), Om0=0.3)
    tab = None
    if rng.random() < 0.4:
        from astropy.cosmology import FlatLambdaCDM
        zt = np.linspace(0, 3.2, 120)
        tab = dict(ang_diameter_distances=FlatLambdaCDM(H0=72.0, Om0=0.28).angular_diameter_distance(zt).value, redshifts=zt)
        if cosmology == "oLCDM": tab["K"] = 0.0; tab["ok"] = 0.0
    return dict(cosmology=cosmology, lenses=lenses, kwargs_model=km, kwargs_bounds=kb, extra=extra, interp=interp,
                num_interp=int(rng.choice([40, 80])), tab=tab, normalized=bool(rng.random() < 0.3))


def build(cfg):
    e = cfg["extra"]
    return CosmoLikelihood(cfg["lenses"], cfg["cosmology"], cfg["kwargs_model"], cfg["kwargs_bounds"], sne_likelihood=e["sne_likelihood"],
                           kwargs_sne_likelihood=e["kwargs_sne_likelihood"], KDE_likelihood_chain=e["KDE_likelihood_chain"],
                           kwargs_kde_likelihood=e["kwargs_kde_likelihood"], normalized=cfg["normalized"], custom_prior=e["custom_prior"],
                           interpolate_cosmo=cfg["interp"], num_redshift_interp=cfg["num_interp"], cosmo_fixed=e["cosmo_fixed"])


def describe(cfg):
    e = cfg["extra"]
    return dict(cosmology=cfg["cosmology"], types=[l["likelihood_type"] for l in cfg["lenses"]], model=cfg["kwargs_model"],
                sne=e["sne_likelihood"], kde=None if e["kwargs_kde_likelihood"] is None else e["kwargs_kde_likelihood"]["likelihood_type"],
                prior=e["custom_prior"] is not None, cosmo_fixed=e["cosmo_fixed"] is not None, interp=cfg["interp"], tabulated=cfg["tab"] is not None,
                fixed={k: v for k, v in cfg["kwargs_bounds"].items() if "fixed" in k})


INPUT_KEYS = ["lenses", "kwargs_model", "kwargs_bounds", "sne", "chain", "kwargs_kde", "tabulated", "walkers"]


def inputs_of(cfg, walkers):
    e = cfg["extra"]
    return dict(lenses=cfg["lenses"], kwargs_model=cfg["kwargs_model"], kwargs_bounds=cfg["kwargs_bounds"], sne=e["kwargs_sne_likelihood"],
                chain=e["KDE_likelihood_chain"], kwargs_kde=e["kwargs_kde_likelihood"], tabulated=cfg["tab"], walkers=walkers)


def run_scenario(rec, case, nsteps):
    rng = rng_case(case)
    cfg = gen_config(rng, int(case[2]))
    d = dict(case=list(case), nsteps=nsteps, config=describe(cfg))
    rec.case(d["config"], kind="scenario:%s" % cfg["cosmology"])
    try:
        cl = build(cfg)
        fresh = build(copy.deepcopy(cfg))        # reference object, evaluated once per sharp point, never shared
    except Exception as e:
        rec.violation("C08:raises:CosmoLikelihood", "constructor raised %r" % (e,), d, traceback.format_exc(limit=4))
        return
    names = cl.param.param_list()
    lo, hi = (np.array(x, dtype=float) for x in cl.param.param_bounds)
    sig_idx = [i for i, n in enumerate(names) if n.endswith("_sigma") or n == "sigma_sne" or n.startswith("sigma_los")]
    ok_idx = names.index("ok") if "ok" in names else None

    def point(sharp):
        x = lo + rng.uniform(0.2, 0.8, len(lo)) * (hi - lo)
        if ok_idx is not None:
            x[ok_idx] = rng.uniform(-0.15, 0.15)
        if sharp:
            x[sig_idx] = 0.0
        return x
    nwalk = 8
    walkers = np.array([point(bool(k % 2)) for k in range(nwalk)])
    inputs = inputs_of(cfg, walkers)
    s0 = {k: snap(inputs[k]) for k in INPUT_KEYS}

    def check_inputs(step, what):
        for k in INPUT_KEYS:
            if snap(inputs[k]) != s0[k]:
                rec.violation("C08:mutated:" + k, "caller-supplied input changed during %s" % what, dict(d, step=step), "snapshot differs", "unchanged")
                s0[k] = snap(inputs[k])

    def evaluate(obj, p, tab=None):
        return fscalar(obj.likelihood(p) if tab is None else obj.likelihood(p, kwargs_cosmo_interp=tab))

    # reference values on the fresh object
    use_tab = cfg["tab"] is not None
    sharp_pts = [point(True) for _ in range(5)]
    sharp_tab = [bool(use_tab and rng.random() < 0.4) for _ in sharp_pts]
    scat_pts = [point(False) for _ in range(2)]
    scat_seed = [int(rng.integers(1 << 30)) for _ in scat_pts]
    try:
        ref = [evaluate(fresh, p.copy(), copy.deepcopy(cfg["tab"]) if t else None) for p, t in zip(sharp_pts, sharp_tab)]
        ref_sc = []
        for p, s in zip(scat_pts, scat_seed):
            np.random.seed(s); ref_sc.append(evaluate(fresh, p.copy()))
    except Exception as e:
        rec.violation("C08:raises:likelihood", "likelihood raised at an in-bounds point: %r" % (e,), dict(d, names=names), traceback.format_exc(limit=4))
        return
    if not all(np.isfinite(ref)):
        rec.tally("nonfinite_reference_point")
    objs = {"same": cl}
    try:
        objs["deepcopy"] = copy.deepcopy(cl)
        objs["pickle"] = pickle.loads(pickle.dumps(cl))
    except Exception as e:
        rec.violation("C08:raises:clone", "deepcopy/pickle of the likelihood object raised %r" % (e,), d, traceback.format_exc(limit=3))
    check_inputs(-1, "construction / cloning")
    hashes = {}
    history = []
    for step in range(nsteps):
        kind = str(rng.choice(["scatter", "sharp", "oob", "stored", "walker_view", "list_args", "guard", "tab"]))
        if kind == "guard" and ok_idx is None: kind = "sharp"
        if kind == "tab" and not use_tab: kind = "scatter"
        tab = None
        if kind == "scatter": p = point(False)
        elif kind == "sharp": p = point(True)
        elif kind == "oob":
            p = point(bool(rng.random() < 0.5)); j = int(rng.integers(len(p))); p[j] = hi[j] + 1.0 if rng.random() < 0.5 else lo[j] - 1.0
        elif kind == "stored": p = sharp_pts[int(rng.integers(len(sharp_pts)))]
        elif kind == "walker_view": p = walkers[int(rng.integers(nwalk))]          # a view, as emcee passes
        elif kind == "list_args": p = [float(x) for x in point(bool(rng.random() < 0.5))]
        elif kind == "guard":
            p = point(True); p[ok_idx] = -0.5; p[names.index("om")] = 0.06      # E^2 < 0 at the source redshifts
        else:
            p = point(bool(rng.random() < 0.5)); tab = cfg["tab"]
        history.append(kind)
        p_before = snap(p)
        np.random.seed(int(rng.integers(1 << 30)))
        try:
            v = evaluate(cl, p, tab)
        except Exception as e:
            rec.violation("C08:raises:likelihood", "likelihood raised on a %s point: %r" % (kind, e), dict(d, step=step, history=history),
                          traceback.format_exc(limit=4))
            continue
        rec.tally("step:" + kind)
        rec.check(snap(p) == p_before, "C08:mutated:args", "the sampling vector was modified by likelihood()", dict(d, step=step, history=history, kind=kind),
                  jsonable(p), "unchanged")
        if kind == "oob":
            rec.check(v == -np.inf, "C08:history:same", "out-of-bounds point does not give -inf", dict(d, step=step, history=history), v, "-inf")
        check_inputs(step, "likelihood() on a %s point" % kind)
        # clones taken in the middle of the history
        if step == nsteps // 2:
            try:
                objs["midcopy"] = copy.deepcopy(cl); objs["midpickle"] = pickle.loads(pickle.dumps(cl))
            except Exception as e:
                rec.violation("C08:raises:clone", "mid-history deepcopy/pickle raised %r" % (e,), dict(d, step=step))
        # value at a sharp point: independent of history and of the np.random state, identical on clones
        j = int(rng.integers(len(sharp_pts)))
        others = [k for k in objs if k != "same"]
        # the shared object after every call, one of the clones in turn (an astropy model costs ~40 ms per evaluation)
        todo = ["same"] + ([others[step % len(others)]] if others else [])
        for nm in todo:
            obj = objs[nm]
            np.random.seed(int(rng.integers(1 << 30)))
            try:
                w = evaluate(obj, sharp_pts[j].copy(), cfg["tab"] if sharp_tab[j] else None)
            except Exception as e:
                rec.violation("C08:raises:likelihood", "raised on %s object: %r" % (nm, e), dict(d, step=step, history=history))
                continue
            rec.check(w == ref[j], "C08:history:" + nm, "value at a sharp point depends on the call history / random state / copy",
                      dict(d, step=step, history=history, point=sharp_pts[j], names=names), w, ref[j])
        # with scatter: reproducible from np.random.seed, also after history and on clones
        if step % 4 == 3:
            j = int(rng.integers(len(scat_pts)))
            for nm, obj in objs.items():
                np.random.seed(scat_seed[j])
                w = evaluate(obj, scat_pts[j].copy())
                rec.check(w == ref_sc[j], "C08:seed:" + nm, "scatter value not reproducible from np.random.seed after history / on a copy",
                          dict(d, step=step, history=history, point=scat_pts[j], np_seed=scat_seed[j], names=names), w, ref_sc[j])
        # the object's own state: nothing may be written after the cache-warming first calls
        try:
            for nm in todo:
                obj = objs[nm]
                cache = getattr(obj, "_cosmo_fixed_interp", None)
                # main state constant; the cache may appear once (None -> value) and must then stay
                h = (state_hash(obj), None if cache is None else state_hash(cache))
                if nm in hashes and hashes[nm][0] == h[0] and hashes[nm][1] is None:
                    hashes[nm] = h
                if nm in hashes and hashes[nm] != h:
                    rec.violation("C08:self_state_written", "state of the likelihood object changed during evaluation (%s)" % nm,
                                  dict(d, step=step, history=history), "pickle hash differs", "unchanged after first call")
                hashes[nm] = h
        except Exception as e:
            rec.error("state_hash: %r" % (e,))
    check_inputs(nsteps, "final re-check")


# ------------------------------------------------------------------ direct lens call with sigma_v_sys_error in kwargs_kin
def run_lens_direct(rec, case):
    rng = rng_case(case)
    t = KIN_TYPES[int(case[2]) % 3] if rng.random() < 0.7 else str(rng.choice(TYPES))
    n = int(rng.integers(1, 5))
    kw = dict(z_lens=0.4, z_source=1.8, likelihood_type=t, num_distribution_draws=5, **lens_kwargs(t, rng, nkin=n))
    scal = False
    if t in KIN_TYPES:
        kw["sigma_sys_error_include"] = bool(rng.random() < 0.7)
        if rng.random() < 0.6:
            scal = True
            kw.update(kin_scaling_param_list=["a_ani", "gamma_pl"], j_kin_scaling_param_axes=[AX_A.copy(), AX_G.copy()],
                      j_kin_scaling_grid_list=[rng.uniform(.8, 1.2, (5, 6)) for _ in range(n)])
    kw.update(anisotropy_model="const", anisotropy_sampling=True, anisotropy_distribution="GAUSSIAN", lambda_mst_distribution="GAUSSIAN",
              los_distributions=["GAUSSIAN"], global_los_distribution=0)
    d = dict(case=list(case), type=t, scaling=scal)
    rec.case(d, kind="lens_direct:" + t)
    C = cosmo_interp(zmax=4.0, n=100)
    kl = dict(lambda_mst=1.03, lambda_mst_sigma=0.0, gamma_ppn=1.0, gamma_pl_list=[2.07])
    kk = dict(a_ani=1.3, a_ani_sigma=0.0, sigma_v_sys_error=float(rng.uniform(0.01, 0.1)))
    ks = dict(mu_sne=19.2, sigma_sne=0.0, z_apparent_m_anchor=0.1)
    klos = [dict(mean=0.01, sigma=0.0)]
    try:
        L = LensLikelihood(gamma_pl_index=0 if scal else None, **kw)
    except Exception as e:
        rec.violation("C08:raises:LensLikelihood", "constructor raised %r" % (e,), d, traceback.format_exc(limit=3))
        return
    for mode in ("sharp", "scatter"):
        if mode == "scatter":
            kl["lambda_mst_sigma"] = 0.05; kk["a_ani_sigma"] = 0.1; klos[0]["sigma"] = 0.02
        kws = dict(kwargs_lens=kl, kwargs_kin=kk, kwargs_source=ks, kwargs_los=klos)
        s_before = {k: snap(v) for k, v in kws.items()}
        s_kw = snap(kw)
        vals = []
        try:
            for rep in range(3):
                np.random.seed(11)
                vals.append(fscalar(L.lens_log_likelihood(C, **kws)))
            np.random.seed(11)
            L.sigma_v_measured_vs_predict(C, kwargs_lens=kl, kwargs_kin=kk, kwargs_los=klos)
            np.random.seed(11)
            vals.append(fscalar(L.lens_log_likelihood(C, **kws)))
        except Exception as e:
            rec.violation("C08:raises:lens_log_likelihood", "raised %r" % (e,), dict(d, mode=mode), traceback.format_exc(limit=3))
            continue
        for k in kws:
            rec.check(snap(kws[k]) == s_before[k], "C08:mutated:" + k, "caller's %s modified by the direct lens call (%s)" % (k, mode),
                      dict(d, mode=mode), jsonable(kws[k]), "unchanged (sigma_v_sys_error must not be popped)")
        rec.check(snap(kw) == s_kw, "C08:mutated:lenses", "lens configuration modified by evaluation", dict(d, mode=mode))
        rec.check(all(v == vals[0] for v in vals), "C08:lens_direct:repeat_" + mode, "repeated direct lens calls (same seed) give different values",
                  dict(d, mode=mode), vals, "all equal")


# ------------------------------------------------------------------ SNe likelihood evaluated repeatedly with scatter
def run_sne(rec, case):
    rng = rng_case(case)
    C = cosmo_interp(zmax=3.0, n=150)
    custom = bool(int(case[2]) % 3 != 2)
    d = dict(case=list(case), custom=custom)
    if custom:
        nsn = int(rng.integers(3, 12)); zc = np.sort(rng.uniform(0.02, 1.5, nsn))
        sne = dict(mag_mean=19 + 5 * np.log10(zc * (1 + zc)) + rng.normal(0, .1, nsn), cov_mag=pd(rng, nsn, 0.1), zhel=zc + 1e-3, zcmb=zc,
                   no_intrinsic_scatter=bool(rng.random() < 0.2))
        name = "CUSTOM"
    else:
        sne = {}; name = str(rng.choice(["Pantheon_binned", "Roman_forecast"]))
    d["sample"] = name
    rec.case(d, kind="sne:" + name)
    try:
        S = SneLikelihood(sample_name=name, **sne)
    except Exception as e:
        rec.violation("C08:raises:SneLikelihood", "constructor raised %r" % (e,), d, traceback.format_exc(limit=3))
        return
    s_in = snap(sne)
    stored = snap(vars(S._likelihood))
    m = float(rng.uniform(18.5, 19.5))
    try:
        v0 = fscalar(S.log_likelihood(C, apparent_m_z=m, sigma_m_z=None))
        v00 = fscalar(S.log_likelihood(C, apparent_m_z=m, sigma_m_z=0.0))
        sig = float(rng.uniform(0.05, 0.3))
        vs = [fscalar(S.log_likelihood(C, apparent_m_z=m, sigma_m_z=sig)) for _ in range(4)]
        vs2 = fscalar(S.log_likelihood(C, apparent_m_z=m, sigma_m_z=2 * sig))
        vs.append(fscalar(S.log_likelihood(C, apparent_m_z=m, sigma_m_z=sig)))
        v1 = fscalar(S.log_likelihood(C, apparent_m_z=m, sigma_m_z=None))
        v11 = fscalar(S.log_likelihood(C, apparent_m_z=m, sigma_m_z=0.0))
        vn = [fscalar(S.log_likelihood(C, apparent_m_z=None, sigma_m_z=sig)) for _ in range(2)]
    except Exception as e:
        rec.violation("C08:raises:SneLikelihood", "log_likelihood raised %r" % (e,), d, traceback.format_exc(limit=3))
        return
    rec.check(all(v == vs[0] for v in vs) and vn[0] == vn[1], "C08:sne_repeat:value", "repeated evaluation with the same sigma_sne gives different values",
              dict(d, sigma=sig), vs, "all equal")
    rec.check(v0 == v1 and v00 == v11, "C08:sne_repeat:sharp_after_scatter", "value without scatter changed after evaluations with scatter",
              dict(d, sigma=sig), [v1, v11], [v0, v00])
    rec.check(snap(vars(S._likelihood)) == stored, "C08:sne_repeat:stored_covariance", "stored covariance / inverse of the SNe likelihood was modified",
              dict(d, sigma=sig))
    rec.check(snap(sne) == s_in, "C08:mutated:sne", "caller's SNe arrays modified", dict(d, sigma=sig))


# ------------------------------------------------------------------ KDE-chain branch
def run_kde(rec, case):
    rng = rng_case(case)
    cosmology = str(rng.choice(["FLCDM", "FwCDM"]))
    nch = int(rng.integers(60, 200))
    cols = {"om": rng.normal(0.3, 0.04, nch), "h0": rng.normal(70, 4, nch)}
    if cosmology == "FwCDM": cols["w"] = rng.normal(-1, 0.1, nch)
    ch = Chain("kw", "probe", cols, rng.uniform(0.5, 2, nch), cosmology, rescale=True)
    kkde = dict(likelihood_type=str(rng.choice(["kde_full", "kde_hist_nd"])), bandwidth=float(rng.uniform(0.05, 0.3)), nbins_hist=8)
    lenses = [dict(z_lens=0.5, z_source=1.5, likelihood_type="DdtGaussian", ddt_mean=3300., ddt_sigma=300.)]
    kb = dict(kwargs_lower_cosmo=dict(h0=0, om=0, w=-3), kwargs_upper_cosmo=dict(h0=200, om=1, w=0))
    d = dict(case=list(case), cosmology=cosmology, kde=kkde, n_chain=nch)
    rec.case(d, kind="kde:" + kkde["likelihood_type"])
    try:
        cl = CosmoLikelihood(lenses, cosmology, {}, kb, KDE_likelihood_chain=ch, kwargs_kde_likelihood=kkde, interpolate_cosmo=True, num_redshift_interp=50)
    except Exception as e:
        rec.violation("C08:raises:CosmoLikelihood", "constructor raised %r" % (e,), d, traceback.format_exc(limit=3))
        return
    s_chain = snap(ch)
    pts = np.array([[rng.uniform(60, 80), rng.uniform(0.2, 0.4)] + ([rng.uniform(-1.2, -0.8)] if cosmology == "FwCDM" else []) for _ in range(6)])
    s_pts = snap(pts)
    try:
        first = [fscalar(cl.likelihood(pts[i])) for i in range(len(pts))]          # rows are views into pts
        second = [fscalar(cl.likelihood(pts[i])) for i in reversed(range(len(pts)))][::-1]
        cl2 = pickle.loads(pickle.dumps(cl))
        third = [fscalar(cl2.likelihood(pts[i])) for i in range(len(pts))]
    except Exception as e:
        rec.violation("C08:raises:likelihood", "raised %r" % (e,), d, traceback.format_exc(limit=3))
        return
    rec.check(first == second == third, "C08:kde_rescale", "KDE-chain term not repeatable (same object / pickle clone)", d, [second, third], first)
    rec.check(snap(ch) == s_chain, "C08:mutated:chain", "Chain (samples / weights / rescale dictionary) modified by likelihood()", d)
    rec.check(snap(pts) == s_pts, "C08:mutated:args", "argument vectors (views of a walker array) modified by the KDE rescaling", d, jsonable(pts), "unchanged")


STREAMS = {1: None, 2: run_lens_direct, 3: run_sne, 4: run_kde}
COUNTS = {"quick": {1: 12, 2: 24, 3: 18, 4: 12}, "thorough": {1: 64, 2: 240, 3: 180, 4: 120}}
NSTEPS = {"quick": 20, "thorough": 48}


def main():
    a = parse_args(PROP)
    rec = Recorder(PROP, a.tier, a.seed, "no caller input mutated; sharp value == fresh-object value after any history, on deepcopy/pickle clones; scatter seed-reproducible")
    if a.replay:
        rp = unjson(json.load(open(a.replay)))
        inp = rp["input"]
        case = [int(c) for c in inp["case"]]
        try:
            if case[1] == 1:
                run_scenario(rec, case, int(inp.get("nsteps", NSTEPS[a.tier])))
            else:
                STREAMS[case[1]](rec, case)
        except Exception:
            rec.error(traceback.format_exc(limit=6))
        rec.write(a.out)
        return
    budget = 34 if a.tier == "quick" else 330
    for stream in (2, 3, 4, 1):
        for i in range(COUNTS[a.tier][stream]):
            if time.process_time() - rec.cpu0 > 2 * budget:
                rec.tally("stopped_on_time_budget")
                break
            try:
                if stream == 1:
                    run_scenario(rec, [a.seed, 1, i], NSTEPS[a.tier])
                else:
                    STREAMS[stream](rec, [a.seed, stream, i])
            except Exception:
                rec.error("case %s: %s" % ([a.seed, stream, i], traceback.format_exc(limit=6)))
    out = rec.write(a.out)
    print(json.dumps(dict(property=PROP, evaluations=out["evaluations"], violations=out["violation_counts"],
                          errors=len(out["errors"]), wall_s=out["wall_s"])))


if __name__ == "__main__":
    main()
