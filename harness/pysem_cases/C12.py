"""PySem/CPython cases for C12: sample-based Ddt likelihoods.  numpy.histogram and the KDE objects (scipy gaussian_kde, sklearn score)
are replayed (what they are built from / evaluated at is compared); moments, flag constant and bin centres are computed by PySem."""
import numpy as np
from .common import dec, decs, choice
from corr_pysem import Proxy


def cases(rng, tier):
    from hierarc.Likelihood.LensLikelihood.ddt_hist_likelihood import DdtHistLikelihood, DdtHistKDELikelihood
    from hierarc.Likelihood.LensLikelihood.ddt_hist_kin_likelihood import DdtHistKinLikelihood
    import hierarc.Likelihood.LensLikelihood.ddt_hist_likelihood as DH
    n = 4 if tier == "quick" else 20
    ret_self = lambda obj, out: obj
    for i in range(n):
        m = 5 + i % 3
        samples = np.round(rng.normal(4000, 250, m), 1)
        weights = np.round(rng.uniform(0.5, 2.0, m), 2) if i % 2 else None
        bw = [None, "scott", 0.4, None][i % 4]
        kw = dict(z_lens=dec(rng, 0.3, 0.7), z_source=dec(rng, 1.2, 2.5), ddt_samples=samples, ddt_weights=weights, nbins_hist=3 + i % 2,
                  normalized=bool(i % 3 == 0), binning_method=bw)
        yield dict(name="hist_ctor/%s/%d" % (bw, i), target=("DdtHistLikelihood", "__init__"), obj=DdtHistLikelihood.__new__(DdtHistLikelihood), kwargs=kw,
                   patch=[("np.histogram", np, "histogram"), ("gaussian_kde", DH, "gaussian_kde")], post=ret_self, tol=1e-8, fuel=400)
        h = DdtHistLikelihood(**kw)
        log = []
        h._kde = Proxy(h._kde, "kde", log)
        yield dict(name="hist_value/%d" % i, target=("DdtHistLikelihood", "log_likelihood"), obj=h, args=[dec(rng, 3500, 4500, 1)], calls_log=log, tol=1e-8)
        yield dict(name="hist_meas/%d" % i, target=("DdtHistLikelihood", "ddt_measurement"), obj=h)
        k = DdtHistKDELikelihood(z_lens=0.5, z_source=1.5, ddt_samples=samples, ddt_weights=weights, bandwidth=60, nbins_hist=4, normalized=bool(i % 2))
        log2 = []
        k._score = Proxy(k._score, "score", log2)
        yield dict(name="kde_value/%d" % i, target=("DdtHistKDELikelihood", "log_likelihood"), obj=k, args=[dec(rng, 3500, 4500, 1)], calls_log=log2, tol=1e-8)
        yield dict(name="kde_meas/%d" % i, target=("DdtHistKDELikelihood", "ddt_measurement"), obj=k)
