"""PySem/CPython cases for C13: the external chain (constructor with rescaling, rescale to / from unity as receiver-mutating methods,
refusals, parameter listing) and the vector helpers used for the KDE evaluation point"""
import numpy as np
from .common import dec, decs, choice


def mk_params(rng, i):
    keys = ["h0", "om", "ok", "w"][: 2 + i % 3]
    if i % 2: keys = keys[::-1]
    m = 3 + i % 3
    p = {k: np.round(rng.uniform(0.1, 90.0, m), 2) for k in keys}
    if i % 4 == 3: p["mnu"] = np.array([])
    return p


def cases(rng, tier):
    from hierarc.Likelihood.KDELikelihood.chain import Chain, rescale_vector_to_unity, rescale_vector_from_unity
    n = 5 if tier == "quick" else 30
    ret_self = lambda obj, out: obj
    for i in range(n):
        params = mk_params(rng, i)
        if i % 4 == 3: params.pop("mnu")
        kw = dict(kw="base", probe="plik", params=params, default_weights=np.round(rng.uniform(0.5, 2.0, len(next(iter(params.values())))), 2),
                  cosmology="FLCDM", loglsamples=None, rescale=bool(i % 3 != 2))
        yield dict(name="ctor/%d" % i, target=("Chain", "__init__"), obj=Chain.__new__(Chain), kwargs={k: (v.copy() if hasattr(v, "copy") else v) for k, v in kw.items()},
                   post=ret_self, tol=1e-9, fuel=400)
        c = Chain(**{k: ({a: b.copy() for a, b in v.items()} if k == "params" else v) for k, v in kw.items()})
        yield dict(name="list_params/%d" % i, target=("Chain", "list_params"), obj=c)
        if not kw["rescale"]:
            c.rescale_dic = {"rescaled": False}
        # to unity on an un-rescaled chain / refused on a rescaled one; from unity likewise
        yield dict(name="to_unity/%d" % i, target=("Chain", "rescale_to_unity"), obj=c, observe_self=True, bind=dict(verbose=False), post=ret_self, tol=1e-9, fuel=400)
        c2 = Chain(**{k: ({a: b.copy() for a, b in v.items()} if k == "params" else v) for k, v in kw.items()})
        if not kw["rescale"]:
            c2.rescale_dic = {"rescaled": False}
        yield dict(name="from_unity/%d" % i, target=("Chain", "rescale_from_unity"), obj=c2, observe_self=True, bind=dict(verbose=False), post=ret_self, tol=1e-9, fuel=400)
        keys = list(params.keys())
        dic = {k: [np.float64(round(float(np.max(v)) + 1, 2)), np.float64(round(float(np.min(v)) - 1, 2))] for k, v in params.items()}
        dic["rescaled"] = True
        vec = np.array([[dec(rng, 0.2, 80.0) for _ in keys]])
        order = keys if i % 2 else keys[::-1]
        yield dict(name="vec_to/%d" % i, target=(None, "rescale_vector_to_unity"), callable=rescale_vector_to_unity, args=[vec.copy(), dic, order], tol=1e-9)
        yield dict(name="vec_from/%d" % i, target=(None, "rescale_vector_from_unity"), callable=rescale_vector_from_unity, args=[np.round(vec / 100, 3), dic, order], tol=1e-9)
