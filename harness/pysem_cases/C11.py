"""PySem/CPython cases for C11: custom SNe likelihood (constructor, covariance with intrinsic scatter, value with free / given
normalisation), the sample-level wrapper with a cosmology proxy, lens-side modulus and source draw, the cosmology supply modes."""
import numpy as np
from .common import dec, decs, choice
from corr_pysem import Proxy


def spd(rng, n, scale):
    a = np.array([[round(rng.uniform(-1, 1), 2) for _ in range(n)] for _ in range(n)])
    return np.round((a.dot(a.T) + n * np.eye(n)) * scale, 4)


def cases(rng, tier):
    from hierarc.Likelihood.SneLikelihood.sne_likelihood_custom import CustomSneLikelihood
    from hierarc.Likelihood.SneLikelihood.sne_likelihood import SneLikelihood
    from hierarc.Likelihood.hierarchy_likelihood import LensLikelihood
    from hierarc.Sampling.ParamManager.source_param import SourceParam
    from hierarc.Sampling.ParamManager.cosmo_param import CosmoParam
    import hierarc.Sampling.ParamManager.cosmo_param as CP
    from astropy.cosmology import FlatLambdaCDM
    n = 4 if tier == "quick" else 20
    lin = [("np.linalg.inv", np.linalg, "inv"), ("np.linalg.slogdet", np.linalg, "slogdet")]
    ret_self = lambda obj, out: obj
    for i in range(n):
        m = 2 + i % 2
        kw = dict(mag_mean=np.array(decs(rng, m, 18, 24, 2)), cov_mag=spd(rng, m, 0.01), zhel=np.array(decs(rng, m, 0.05, 1.2, 3)), zcmb=np.array(decs(rng, m, 0.05, 1.2, 3)),
                  no_intrinsic_scatter=bool(i % 4 == 3))
        yield dict(name="custom_ctor/%d" % i, target=("CustomSneLikelihood", "__init__"), obj=CustomSneLikelihood.__new__(CustomSneLikelihood), kwargs=kw, patch=lin, post=ret_self, tol=1e-8)
        c = CustomSneLikelihood(**kw)
        sig = None if i % 3 == 0 else dec(rng, 0.05, 0.3)
        yield dict(name="custom_cov/%d" % i, target=("CustomSneLikelihood", "_inverse_covariance_matrix"), obj=c, args=[sig], patch=lin, tol=1e-8)
        yield dict(name="custom_value/%d" % i, target=("CustomSneLikelihood", "log_likelihood_lum_dist"), obj=c,
                   args=[np.array(decs(rng, m, 36, 44, 2))], kwargs=dict(estimated_scriptm=(None if i % 2 else dec(rng, -19.5, -19.0)), sigma_m_z=sig), patch=lin, tol=1e-7)
        s = SneLikelihood(sample_name="CUSTOM", **kw)
        log = []
        cp = Proxy(FlatLambdaCDM(H0=float(dec(rng, 60, 80, 1)), Om0=float(dec(rng, 0.2, 0.4))), "cosmo", log)
        yield dict(name="sample_value/%d" % i, target=("SneLikelihood", "log_likelihood"), obj=s, args=[cp],
                   kwargs=dict(apparent_m_z=(None if i % 2 else dec(rng, 18, 20)), sigma_m_z=sig, z_anchor=dec(rng, 0.05, 0.3)), calls_log=log, patch=lin, tol=1e-7)
        lens = LensLikelihood(z_lens=dec(rng, 0.2, 0.8), z_source=dec(rng, 1.0, 3.0), likelihood_type="Mag", amp_measured=np.array([10.0, 8.0]),
                              cov_amp_measured=np.array([[1.0, 0.1], [0.1, 1.2]]), magnification_model=np.array([5.0, 4.0]), cov_magnification_model=np.array([[0.3, 0.02], [0.02, 0.25]]))
        log2 = []
        cp2 = Proxy(FlatLambdaCDM(H0=70.0, Om0=0.3), "cosmo", log2)
        yield dict(name="lens_modulus/%d" % i, target=("LensLikelihood", "luminosity_distance_modulus"), obj=lens, args=[cp2, dec(rng, 0.05, 0.5)], calls_log=log2, tol=1e-8)
        yield dict(name="draw_source/%d" % i, target=("LensLikelihood", "draw_source"), obj=lens,
                   kwargs=dict(mu_sne=dec(rng, 18, 20), sigma_sne=choice(rng, [0.0, 0.1]), lum_dist=dec(rng, -1, 1), z_apparent_m_anchor=dec(rng, 0.05, 0.3)), draws=decs(rng, 2))
        sp = SourceParam(sne_apparent_m_sampling=True, sne_distribution=choice(rng, ["GAUSSIAN", "NONE"]), z_apparent_m_anchor=float(dec(rng, 0.05, 0.3)),
                         kwargs_fixed=(dict(sigma_sne=0.1) if i % 2 else None))
        yield dict(name="source_a2k/%d" % i, target=("SourceParam", "args2kwargs"), obj=sp, args=[decs(rng, 4, 0.1, 20), i % 2])
        cosmology = ["FLCDM", "FwCDM", "w0waCDM", "oLCDM"][i % 4]
        cpar = CosmoParam(cosmology=cosmology)
        yield dict(name="cosmo/%s/%d" % (cosmology, i), target=("CosmoParam", "cosmo"), obj=cpar,
                   args=[dict(h0=dec(rng, 60, 80, 1), om=dec(rng, 0.2, 0.4), w=dec(rng, -1.2, -0.8), w0=dec(rng, -1.2, -0.8), wa=dec(rng, -0.3, 0.3), ok=dec(rng, -0.1, 0.1))],
                   patch=[(k, CP, k) for k in ("FlatLambdaCDM", "FlatwCDM", "w0waCDM", "LambdaCDM") if hasattr(CP, k)])
