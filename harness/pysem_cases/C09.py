"""PySem/CPython cases for C09: the draw functions with re-draws (recursion), range hand-over, mean checks, the tabulated CDF."""
import numpy as np
from .common import dec, decs, choice
from corr_pysem import Proxy


def cases(rng, tier):
    from hierarc.Sampling.Distributions.anisotropy_distributions import AnisotropyDistribution
    from hierarc.Sampling.Distributions.lens_distribution import LensDistribution
    from hierarc.Sampling.Distributions.los_distributions import LOSDistribution, GEV
    from hierarc.Util.distribution_util import PDFSampling, approx_cdf_1d
    from hierarc.Likelihood.kin_scaling import KinScaling
    import hierarc.Util.distribution_util as DU
    import hierarc.Sampling.Distributions.los_distributions as LD
    n = 5 if tier == "quick" else 30
    ret_self = lambda obj, out: obj
    for i in range(n):
        model = ["OM", "GOM", "const", "GOM"][i % 4]
        dist = ["GAUSSIAN", "GAUSSIAN_SCALED", "GAUSSIAN"][i % 3] if model != "const" else "GAUSSIAN"
        kmin, kmax = dict(a_ani=0.5, beta_inf=0.0), dict(a_ani=3.0, beta_inf=1.0)
        if i % 4 == 3: kmin, kmax = None, None
        akw = dict(anisotropy_model=model, anisotropy_sampling=bool(i % 6 != 5), distribution_function=dist, kwargs_anisotropy_min=kmin, kwargs_anisotropy_max=kmax)
        yield dict(name="aniso_ctor/%d" % i, target=("AnisotropyDistribution", "__init__"), obj=AnisotropyDistribution.__new__(AnisotropyDistribution), kwargs=akw, post=ret_self)
        ad = AnisotropyDistribution(**akw)
        bad_mean = i % 5 == 4
        dk = dict(a_ani=(dec(rng, 3.2, 4.0) if bad_mean else dec(rng, 0.7, 2.8)), a_ani_sigma=choice(rng, [0.0, 0.6, 1.5]),
                  beta_inf=dec(rng, 0.1, 0.9), beta_inf_sigma=choice(rng, [0.0, 0.4]))
        yield dict(name="draw_aniso/%s/%s/%d" % (model, dist, i), target=("AnisotropyDistribution", "draw_anisotropy"), obj=ad, kwargs=dk,
                   draws=decs(rng, 40, -1.5, 1.5), fuel=600)
    for i in range(n):
        kmin, kmax = dict(gamma_in=0.5, log_m2l=0.0), dict(gamma_in=2.5, log_m2l=1.0)
        lkw = dict(lambda_mst_distribution=choice(rng, ["GAUSSIAN", "NONE"]), gamma_in_sampling=bool(i % 2 == 0), gamma_in_distribution=choice(rng, ["GAUSSIAN", "NONE"]),
                   log_m2l_sampling=bool(i % 3 != 1), log_m2l_distribution="GAUSSIAN", alpha_gamma_in_sampling=True, alpha_log_m2l_sampling=True,
                   lambda_scaling_property=dec(rng, -0.5, 0.5), kwargs_min=(kmin if i % 4 else None), kwargs_max=(kmax if i % 4 else None), mst_ifu=bool(i % 3 == 0))
        yield dict(name="lens_ctor/%d" % i, target=("LensDistribution", "__init__"), obj=LensDistribution.__new__(LensDistribution), kwargs=lkw, post=ret_self)
        ld = LensDistribution(**lkw)
        out = i % 5 == 3
        dk = dict(lambda_mst=dec(rng, 0.8, 1.2), lambda_mst_sigma=choice(rng, [0.0, 0.1]), lambda_ifu=dec(rng, 0.8, 1.2), lambda_ifu_sigma=choice(rng, [0.0, 0.1]),
                  gamma_in=(dec(rng, 2.6, 3.0) if out else dec(rng, 0.7, 2.3)), gamma_in_sigma=choice(rng, [0.0, 0.5, 1.2]), alpha_gamma_in=dec(rng, -0.2, 0.2),
                  log_m2l=dec(rng, 0.1, 0.9), log_m2l_sigma=choice(rng, [0.0, 0.3, 0.6]), alpha_log_m2l=dec(rng, -0.1, 0.1))
        yield dict(name="draw_lens/%d" % i, target=("LensDistribution", "draw_lens"), obj=ld, kwargs=dk, draws=decs(rng, 60, -1.5, 1.5), fuel=900)
    for i in range(n):
        g = GEV(xi=dec(rng, -0.2, 0.2), mean=dec(rng, -0.05, 0.05), sigma=dec(rng, 0.01, 0.05))
        from scipy.stats import genextreme
        yield dict(name="gev/%d" % i, target=("GEV", "draw"), obj=g, kwargs=dict(n=1), patch=[("genextreme.rvs", LD.genextreme, "rvs")])
        nb = 3 + i % 3
        edges = np.sort(np.round(rng.uniform(-0.1, 0.3, nb + 1), 3))
        pdf = np.round(rng.uniform(0.1, 2.0, nb), 2)
        if i % 4 == 2: pdf[1] = 0.0
        yield dict(name="cdf/%d" % i, target=(None, "approx_cdf_1d"), callable=approx_cdf_1d, args=[edges, pdf], patch=[("interp1d", DU, "interp1d")])
        yield dict(name="pdf_ctor/%d" % i, target=("PDFSampling", "__init__"), obj=PDFSampling.__new__(PDFSampling), args=[edges, pdf], patch=[("interp1d", DU, "interp1d")], post=ret_self)
        axes = [np.array([0.5, 1.0, 3.0]), np.array([2.4, 2.1, 1.8])]
        ks = KinScaling(j_kin_scaling_param_axes=axes[: 1 + i % 2], j_kin_scaling_grid_list=[np.ones((3,) * (1 + i % 2))], j_kin_scaling_param_name_list=["a_ani", "gamma_pl"][: 1 + i % 2])
        yield dict(name="bounds/%d" % i, target=("KinScaling", "param_bounds_interpol"), obj=ks)
