"""PySem/CPython cases for C16: lens-model draws (ranges), measurement covariance, one kinematic draw (what reaches the engine),
marginalisation over draws, scaling grids, the emitted configuration, parameter-axis configuration.  The kinematics engine is a stub
subclass method (as in the C16 oracle) and is replayed: its keyword arguments are compared call by call."""
import numpy as np
from .common import dec, decs, choice

AP = {"aperture_type": "slit", "length": 1, "width": 1, "center_ra": 0, "center_dec": 0, "angle": 0}
SEE = {"psf_type": "GAUSSIAN", "fwhm": 1.4}
NUM = {"interpol_grid_num": 100, "log_integration": True, "max_integrate": 100, "min_integrate": 0.001}


def cases(rng, tier):
    from hierarc.LensPosterior.kin_constraints import KinConstraints
    from hierarc.LensPosterior.imaging_constraints import ImageModelPosterior
    from hierarc.LensPosterior.kin_scaling_config import KinScalingConfig

    class Stub(object):
        def kinematics_modeling_settings(self, *a, **k):
            pass

        def velocity_dispersion_map_dimension_less(self, **kw):
            s = 0.3 + 0.01 * float(kw["r_eff"]) + 0.02 * float(kw["theta_E"]) + 0.005 * float(kw["gamma"]) + 0.001 * sum(float(v) for v in kw["kwargs_anisotropy"].values())
            s += 0.002 * sum(float(v) for d in kw["kwargs_lens_light"] for v in d.values())
            return np.array([round(s * (1 + 0.1 * b), 6) for b in range(len(self._sigma_v_measured))])

    class KC(Stub, KinConstraints):
        pass

    n = 4 if tier == "quick" else 16
    engine = [("KinConstraints", Stub, "velocity_dispersion_map_dimension_less")]
    for i in range(n):
        im = ImageModelPosterior(theta_E=dec(rng, 0.8, 1.8), theta_E_error=dec(rng, 0.01, 1.0), gamma=dec(rng, 1.8, 2.3), gamma_error=dec(rng, 0.05, 1.0),
                                 r_eff=dec(rng, 0.5, 2.0), r_eff_error=dec(rng, 0.02, 1.0))
        yield dict(name="draw_lens/%d" % i, target=("ImageModelPosterior", "draw_lens"), obj=im,
                   kwargs=dict(gamma_pl=(None if i % 2 else dec(rng, 1.8, 2.2)), no_error=bool(i % 4 == 3)), draws=decs(rng, 3, -2.5, 2.5))
    for i in range(n):
        model = ["OM", "GOM", "const"][i % 3]
        nbin = 1 + i % 2
        gpl = np.array([1.8, 2.0, 2.2]) if (i % 2 and model != "GOM") else None        # (three axes: rank-3 grids are outside PySem's numpy fragment)
        light, light_list = None, ["HERNQUIST"]
        if i % 3 == 1:
            light, light_list = [{"R_sersic": 0.8, "n_sersic": 3.0, "amp": 10.0, "center_x": 0.0, "center_y": 0.0}, {"Rs": 0.5, "amp": 5.0, "center_x": 0.0, "center_y": 0.0}], ["SERSIC", "HERNQUIST"]
        emode = i % 3
        kw = dict(sigma_v_error_independent=(None if emode == 2 else np.array(decs(rng, nbin, 5, 15, 1))), sigma_v_error_covariant=(None if emode == 2 else dec(rng, 1, 5, 1)),
                  sigma_v_error_cov_matrix=(np.round(np.eye(nbin) * 100.0 + 4.0, 1) if emode == 2 else None), kwargs_lens_light=light, lens_light_model_list=light_list,
                  gamma_pl_scaling=gpl)
        obj = KC(float(dec(rng, 0.3, 0.7)), float(dec(rng, 1.2, 2.5)), float(dec(rng, 0.8, 1.8)), float(dec(rng, 0.02, 0.1)), float(dec(rng, 1.8, 2.3)), float(dec(rng, 0.03, 0.1)),
                 float(dec(rng, 0.5, 2.0)), float(dec(rng, 0.02, 0.1)), np.array(decs(rng, nbin, 200, 320, 1)), AP, SEE, NUM, model, **kw)
        yield dict(name="cov_meas/%d" % i, target=("KinConstraints", "error_cov_measurement"), obj=obj, tol=1e-9)
        yield dict(name="names/%s/%d" % (model, i), target=("KinScalingConfig", "param_name_list"), obj=obj)
        yield dict(name="axes/%s/%d" % (model, i), target=("KinScalingConfig", "kin_scaling_param_array"), obj=obj)
        yield dict(name="ani_base/%s/%d" % (model, i), target=("KinScalingConfig", "kwargs_anisotropy_base"), obj=obj, tol=1e-9)
        yield dict(name="lens_base/%s/%d" % (model, i), target=("KinScalingConfig", "kwargs_lens_base"), obj=obj, tol=1e-9)
        ka = obj.kwargs_anisotropy_base
        yield dict(name="j_draw/%s/%d" % (model, i), target=("KinConstraints", "j_kin_draw"), obj=obj, args=[ka], kwargs=dict(gamma_pl=(None if gpl is None else dec(rng, 1.8, 2.2)), no_error=bool(i % 2)),
                   draws=decs(rng, 3, -1.5, 1.5), patch_methods=engine, tol=1e-8, fuel=500)
        yield dict(name="marginal/%s/%d" % (model, i), target=("KinConstraints", "model_marginalization"), obj=obj, kwargs=dict(num_sample_model=2 + i % 2),
                   draws=decs(rng, 12, -1.5, 1.5), patch_methods=engine, patch=[("np.cov", np, "cov")], tol=1e-8, fuel=600)
        yield dict(name="grids/%s/%d" % (model, i), target=("KinConstraints", "anisotropy_scaling"), obj=obj, patch_methods=engine, tol=1e-8, fuel=900)
        if i % 2 == 0:
            yield dict(name="config/%s/%d" % (model, i), target=("KinConstraints", "hierarchy_configuration"), obj=obj, kwargs=dict(num_sample_model=2),
                       draws=decs(rng, 8, -1.5, 1.5), patch_methods=engine, patch=[("np.cov", np, "cov")], tol=1e-8, fuel=900)
