"""PySem/CPython cases for C19: the corollaries of C19 are stated over C19's own copies of the C03 / C05 / C06 sources; the same
generators are run against those copies."""
from . import C03, C05, C06


def cases(rng, tier):
    for mod, keep in ((C03, ("displace", "draw_lens", "dspl", "theta_ratio")), (C06, ("value", "pred", "ctor")), (C05, ("distances", "beta", "beta_fn", "param_map"))):
        for c in mod.cases(rng, tier):
            if c["name"].split("/")[0] in keep:
                yield c
