"""PySem/CPython cases for C03: displacement algebra, lens draw, per-lens prior, DSPL likelihood"""
from .common import dec, decs, choice


def cases(rng, tier):
    from hierarc.Likelihood.transformed_cosmography import TransformedCosmography
    from hierarc.Sampling.Distributions.lens_distribution import LensDistribution
    from hierarc.Likelihood.prior_likelihood import PriorLikelihood
    from hierarc.Likelihood.LensLikelihood.double_source_plane import DSPLikelihood, beta2theta_e_ratio
    n = 6 if tier == "quick" else 40
    for i in range(n):
        tc = TransformedCosmography(z_lens=dec(rng, 0.1, 0.9), z_source=dec(rng, 1.0, 3.0))
        lam = dec(rng, 0.5, 1.5) if i % 4 else choice(rng, [0.00005, 0.0, -0.3])     # below the floor / zero / negative too
        kw = dict(gamma_ppn=dec(rng, 0.5, 1.5), lambda_mst=lam, kappa_ext=dec(rng, -0.2, 0.3))
        if i % 2: kw["mag_source"] = dec(rng, 15, 25)
        yield dict(name="displace/%d" % i, target=("TransformedCosmography", "displace_prediction"), obj=tc,
                   args=[dec(rng, 500, 9000, 1), dec(rng, 300, 2500, 1)], kwargs=kw)
    for i in range(n):
        ifu = bool(i % 2)
        dist = choice(rng, ["GAUSSIAN", "NONE"])
        ld = LensDistribution(lambda_mst_distribution=dist, mst_ifu=ifu, lambda_scaling_property=dec(rng, -1, 1), lambda_scaling_property_beta=dec(rng, -1, 1),
                              alpha_lambda_sampling=bool(i % 3), beta_lambda_sampling=bool((i + 1) % 3), log_scatter=False,
                              gamma_pl_index=(i % 3 if i % 4 == 0 else None),
                              gamma_pl_global_sampling=(i % 5 == 1), gamma_pl_global_dist=("GAUSSIAN" if i % 5 == 1 else "NONE"))
        kw = dict(lambda_mst=dec(rng, 0.7, 1.3), lambda_mst_sigma=choice(rng, [0.0, 0.05, 0.2]), gamma_ppn=dec(rng, 0.8, 1.2), lambda_ifu=dec(rng, 0.7, 1.3),
                  lambda_ifu_sigma=choice(rng, [0.0, 0.1]), alpha_lambda=dec(rng, -0.3, 0.3), beta_lambda=dec(rng, -0.3, 0.3))
        if i % 4 == 0: kw["gamma_pl_list"] = decs(rng, 3, 1.8, 2.3)
        if i % 5 == 1: kw.update(gamma_pl_mean=dec(rng, 1.9, 2.1), gamma_pl_sigma=choice(rng, [0.0, 0.1]))
        yield dict(name="draw_lens/%d" % i, target=("LensDistribution", "draw_lens"), obj=ld, kwargs=kw, draws=decs(rng, 6))
    for i in range(n):
        names = ["lambda_mst", "gamma_ppn", "a_ani", "gamma_pl"]
        pl = [[nm, dec(rng, 0.5, 2.0), dec(rng, 0.05, 0.5)] for nm in names if rng.uniform() < 0.6]
        p = PriorLikelihood(prior_list=pl if i % 5 else None)
        kw = {nm: dec(rng, 0.5, 2.0) for nm in names if rng.uniform() < 0.7}
        yield dict(name="prior/%d" % i, target=("PriorLikelihood", "log_likelihood"), obj=p, args=[kw])
    for i in range(n):
        norm = bool(i % 2)
        d = DSPLikelihood(beta_dspl=dec(rng, 1.1, 1.6), sigma_beta_dspl=dec(rng, 0.01, 0.2), normalized=norm)
        yield dict(name="dspl/%d" % i, target=("DSPLikelihood", "log_likelihood"), obj=d,
                   kwargs=dict(beta_dsp=dec(rng, 0.5, 0.95), gamma_pl=dec(rng, 1.7, 2.4), lambda_mst=dec(rng, 0.8, 1.2)))
        yield dict(name="theta_ratio/%d" % i, target=(None, "beta2theta_e_ratio"), callable=beta2theta_e_ratio,
                   kwargs=dict(beta_dsp=dec(rng, 0.5, 0.95), gamma_pl=(2 if i % 3 == 0 else dec(rng, 1.7, 2.4)), lambda_mst=dec(rng, 0.8, 1.2)))
