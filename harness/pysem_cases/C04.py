"""PySem/CPython cases for C04: check_dist, the N-draw marginalisation, the single-draw pipeline and the draw functions on REAL
LensLikelihood objects.  The per-type data likelihood, the kinematic scaling and scipy's logsumexp are not serialised for this
property: they are replayed (results from CPython, arguments compared call by call)."""
import numpy as np
from .common import dec, decs, choice


def hyper(rng, i, scatter):
    kl = dict(lambda_mst=dec(rng, 0.8, 1.2), lambda_mst_sigma=(choice(rng, [0.05, 0.1]) if scatter == "mst" else np.float64(0.0)), gamma_ppn=dec(rng, 0.9, 1.1),
              lambda_ifu=dec(rng, 0.8, 1.2), lambda_ifu_sigma=(choice(rng, [0.05, 0.1]) if scatter == "ifu" else np.float64(0.0)),
              alpha_lambda=dec(rng, -0.2, 0.2), beta_lambda=dec(rng, -0.2, 0.2))
    kk = dict(a_ani=dec(rng, 0.8, 2.5), a_ani_sigma=(dec(rng, 0.1, 0.3) if scatter == "ani" else np.float64(0.0)))
    if i % 2: kk["sigma_v_sys_error"] = dec(rng, 0.01, 0.1)
    ks = dict(mu_sne=dec(rng, 18, 20), sigma_sne=(dec(rng, 0.05, 0.2) if scatter == "sne" else np.float64(0.0)))
    return kl, kk, ks


def cases(rng, tier):
    from hierarc.Likelihood.hierarchy_likelihood import LensLikelihood
    from hierarc.Likelihood.LensLikelihood.base_lens_likelihood import LensLikelihoodBase
    from hierarc.Likelihood.kin_scaling import KinScaling
    from hierarc.Sampling.Distributions.anisotropy_distributions import AnisotropyDistribution
    from hierarc.Sampling.Distributions.los_distributions import LOSDistribution
    import hierarc.Likelihood.hierarchy_likelihood as HL
    n = 4 if tier == "quick" else 24
    pm = [("LensLikelihood", LensLikelihoodBase, "log_likelihood"), ("LensLikelihood", KinScaling, "kin_scaling")]
    pf = [("logsumexp", HL, "logsumexp")]
    ani_ax = np.array([0.5, 1.0, 2.0, 3.0])
    grid = [np.array([0.9, 1.0, 1.1, 1.15])]
    for i in range(n):
        scatter = ["none", "mst", "ifu", "ani", "sne", "none"][i % 6]
        ifu = scatter == "ifu" or i % 5 == 4
        kin = i % 2 == 0
        kw = dict(z_lens=dec(rng, 0.3, 0.7), z_source=dec(rng, 1.2, 2.5), likelihood_type="DdtGaussian", ddt_mean=dec(rng, 3000, 5000, 1), ddt_sigma=dec(rng, 150, 400, 1),
                  mst_ifu=ifu, lambda_mst_distribution="GAUSSIAN", lambda_scaling_property=dec(rng, -0.5, 0.5), lambda_scaling_property_beta=dec(rng, -0.5, 0.5),
                  alpha_lambda_sampling=True, beta_lambda_sampling=bool(i % 3), num_distribution_draws=3 + i % 3,
                  prior_list=([["lambda_mst", 1.0, 0.1], ["a_ani", 1.5, 0.5]] if i % 3 == 1 else None))
        if kin:
            kw.update(likelihood_type="IFUKinCov", sigma_v_measurement=[250.0], j_model=[0.02], error_cov_measurement=[[100.0]], error_cov_j_sqrt=[[1e-5]],
                      anisotropy_model="OM", anisotropy_sampling=True, anisotropy_distribution=choice(rng, ["GAUSSIAN", "GAUSSIAN_SCALED"]),
                      kin_scaling_param_list=["a_ani"], j_kin_scaling_param_axes=[ani_ax], j_kin_scaling_grid_list=grid)
            for k in ("ddt_mean", "ddt_sigma"): kw.pop(k)
        lens = LensLikelihood(**kw)
        kl, kk, ks = hyper(rng, i, scatter)
        if not kin: kk = dict()
        klos = None
        yield dict(name="check_dist/%s/%d" % (scatter, i), target=("LensLikelihood", "check_dist"), obj=lens, args=[kl, kk, ks, klos])
        yield dict(name="hyper/%s/%d" % (scatter, i), target=("LensLikelihood", "hyper_param_likelihood"), obj=lens,
                   args=[dec(rng, 3000, 5000, 1), dec(rng, 900, 1500, 1), dec(rng, -0.5, 0.5)],
                   kwargs=dict(beta_dsp=None, kwargs_lens=kl, kwargs_kin=kk, kwargs_source=ks, kwargs_los=klos),
                   draws=decs(rng, 40, -1.5, 1.5), patch_methods=pm, patch=pf, fuel=400)
        yield dict(name="single/%s/%d" % (scatter, i), target=("LensLikelihood", "log_likelihood_single"), obj=lens,
                   args=[dec(rng, 3000, 5000, 1), dec(rng, 900, 1500, 1), dec(rng, -0.5, 0.5), None, kl, {k: v for k, v in kk.items() if k != "sigma_v_sys_error"}, ks],
                   kwargs=dict(kwargs_los=klos, sigma_v_sys_error=kk.get("sigma_v_sys_error")), draws=decs(rng, 12, -1.5, 1.5), patch_methods=pm, fuel=400)
        yield dict(name="draw_source/%d" % i, target=("LensLikelihood", "draw_source"), obj=lens, kwargs=dict(lum_dist=dec(rng, -1, 1), **ks), draws=decs(rng, 2))
    for i in range(n):
        model = ["OM", "GOM", "const"][i % 3]
        dist = ["GAUSSIAN", "GAUSSIAN_SCALED", "NONE"][i % 3 if i % 4 else 2]
        kmin, kmax = dict(a_ani=0.5, beta_inf=0.0), dict(a_ani=3.0, beta_inf=1.0)
        akw = dict(anisotropy_model=model, anisotropy_sampling=True, distribution_function=dist, kwargs_anisotropy_min=kmin, kwargs_anisotropy_max=kmax)
        yield dict(name="aniso_ctor/%d" % i, target=("AnisotropyDistribution", "__init__"), obj=AnisotropyDistribution.__new__(AnisotropyDistribution), kwargs=akw,
                   post=lambda obj, out: obj)
        ad = AnisotropyDistribution(**akw)
        mean_out = i % 5 == 4
        dk = dict(a_ani=(dec(rng, 3.5, 4.0) if mean_out else dec(rng, 0.7, 2.8)), a_ani_sigma=choice(rng, [0.0, 0.5, 1.5]),
                  beta_inf=dec(rng, 0.1, 0.9), beta_inf_sigma=choice(rng, [0.0, 0.3]))
        yield dict(name="draw_aniso/%s/%d" % (model, i), target=("AnisotropyDistribution", "draw_anisotropy"), obj=ad, kwargs=dk, draws=decs(rng, 30, -1.2, 1.2), fuel=400)
    for i in range(n):
        dists = [["GAUSSIAN"], ["GEV"], ["GAUSSIAN", "GAUSSIAN"], None][i % 4]
        glob = (i % 2 if len(dists) > 1 else 0) if dists else False
        los = LOSDistribution(global_los_distribution=glob, los_distributions=dists)
        klos = [dict(mean=dec(rng, -0.05, 0.05), sigma=choice(rng, [0.0, 0.02]), xi=dec(rng, -0.2, 0.2)) for _ in (dists or [])]
        yield dict(name="draw_bool/%d" % i, target=("LOSDistribution", "draw_bool"), obj=los, args=[klos])
        if not (dists and dists[int(glob)] == "GEV" and glob is not False):
            yield dict(name="draw_los/%d" % i, target=("LOSDistribution", "draw_los"), obj=los, args=[klos], draws=decs(rng, 3))
