"""PySem/CPython cases for C17: blind_posterior on random posteriors / name orders (numpy.median replayed, its argument compared)"""
import numpy as np
from .common import dec, decs, choice


def cases(rng, tier):
    from hierarc.Diagnostics.blinding import blind_posterior
    n = 8 if tier == "quick" else 40
    pool = ["h0", "om", "lambda_mst", "a_ani", "gamma_ppn"]
    for i in range(n):
        k = 1 + i % 4
        names = list(rng.permutation(pool))[:k]
        if i % 5 == 4: names = ["om", "w"]
        rows = 2 + i % 4
        post = np.round(rng.uniform(0.5, 90.0, (rows, len(names))), 2)
        yield dict(name="blind/%d" % i, target=(None, "blind_posterior"), callable=blind_posterior, args=[post, [str(x) for x in names]],
                   patch=[("np.median", np, "median")], tol=1e-9)
