"""helpers for the PySem/CPython case generators: short-decimal random numbers (so that the Coq rational IS the Python float up to
1 ulp), as numpy float64 scalars: PySem gives float arithmetic numpy's semantics (x / 0.0 is inf/nan, not ZeroDivisionError), which is
what the samplers feed the likelihood (rows of numpy arrays)."""
import numpy as np


def dec(rng, lo, hi, nd=2):
    return np.float64(round(rng.uniform(lo, hi), nd))


def decs(rng, n, lo=-2.0, hi=2.0, nd=3):
    return [np.float64(round(rng.uniform(lo, hi), nd)) for _ in range(n)]


def choice(rng, xs):
    x = xs[int(rng.randint(0, len(xs)))]
    return np.float64(x) if isinstance(x, float) else x
