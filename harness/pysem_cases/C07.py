"""PySem/CPython cases for C07: the lens sample (constructor with slope indices and global/local merging, the sum over lenses,
num_data) on real objects; per-lens constructors and the per-lens marginalisation are replayed with their arguments compared."""
import numpy as np
from .common import dec, decs, choice
from corr_pysem import Proxy


def lens_cfg(rng, i, j):
    t = ["DdtGaussian", "IFUKinCov", "DSPL", "DdtGaussian", "IFUKinCov"][(i + j) % 5]
    kw = dict(z_lens=float(dec(rng, 0.2, 0.8)), z_source=float(dec(rng, 1.0, 3.0)), likelihood_type=t)
    if t == "DdtGaussian": kw.update(ddt_mean=4000.0, ddt_sigma=300.0)
    if t == "DSPL": kw.update(z_source2=3.5, beta_dspl=0.8, sigma_beta_dspl=0.05)
    if t == "IFUKinCov":
        kw.update(sigma_v_measurement=[250.0, 260.0], j_model=[0.02, 0.021], error_cov_measurement=[[100.0, 5.0], [5.0, 120.0]], error_cov_j_sqrt=[[1e-5, 0.0], [0.0, 1e-5]])
        if (i + j) % 2 == 0:
            kw.update(kin_scaling_param_list=["gamma_pl"], j_kin_scaling_param_axes=[np.array([1.8, 2.0, 2.2])],
                      j_kin_scaling_grid_list=[np.array([0.9, 1.0, 1.1]), np.array([0.95, 1.0, 1.05])])
    if j % 3 == 2: kw["lambda_mst_distribution"] = "NONE"          # a local setting that overrides the global one
    if j % 4 == 1: kw["mst_ifu"] = True
    return kw


def cases(rng, tier):
    from hierarc.Likelihood.lens_sample_likelihood import LensSampleLikelihood
    from hierarc.Likelihood.hierarchy_likelihood import LensLikelihood
    from hierarc.Likelihood.LensLikelihood.base_lens_likelihood import LensLikelihoodBase
    import hierarc.Likelihood.lens_sample_likelihood as LSL
    n = 4 if tier == "quick" else 20
    pm = [("LensLikelihood", LensLikelihood, "angular_diameter_distances"), ("LensLikelihood", LensLikelihoodBase, "beta_dsp"),
          ("LensLikelihood", LensLikelihood, "luminosity_distance_modulus"), ("LensLikelihood", LensLikelihood, "hyper_param_likelihood")]
    for i in range(n):
        nl = 1 + (i % 2 if tier == "quick" else i % 4)
        lst = [lens_cfg(rng, i, j) for j in range(nl)]
        glob = dict(lambda_mst_distribution="GAUSSIAN", anisotropy_model="OM", log_scatter=bool(i % 2), not_a_lens_setting=3,
                    gamma_pl_global_sampling=(i % 3 == 2), gamma_pl_global_dist=("GAUSSIAN" if i % 3 == 2 else "NONE"))
        yield dict(name="ctor/%d" % i, target=("LensSampleLikelihood", "__init__"), obj=LensSampleLikelihood.__new__(LensSampleLikelihood),
                   args=[lst], kwargs=dict(normalized=bool(i % 2), kwargs_global_model=(glob if i % 4 else None)),
                   patch=[("LensLikelihood", LSL, "LensLikelihood")], post=lambda obj, out: obj, fuel=400)
        yield dict(name="merge/%d" % i, target=("LensSampleLikelihood", "_merge_global2local_settings"), obj=LensSampleLikelihood([]),
                   kwargs=dict(kwargs_global_model=glob, kwargs_lens=lst[0]))
        s = LensSampleLikelihood(lst, normalized=bool(i % 2), kwargs_global_model=glob)
        from astropy.cosmology import FlatLambdaCDM
        log = []
        c = Proxy(FlatLambdaCDM(H0=70.0, Om0=0.3), "cosmo", log)
        yield dict(name="sum/%d" % i, target=("LensSampleLikelihood", "log_likelihood"), obj=s, args=[c],
                   kwargs=dict(kwargs_lens=dict(lambda_mst=dec(rng, 0.8, 1.2), gamma_pl_list=decs(rng, 3, 1.9, 2.1)), kwargs_kin=dict(), kwargs_source=None, kwargs_los=None),
                   calls_log=log, patch_methods=pm, fuel=400, tol=1e-8)
        yield dict(name="num_data/%d" % i, target=("LensSampleLikelihood", "num_data"), obj=s)
