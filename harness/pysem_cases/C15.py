"""PySem/CPython cases for C15: the MCMC driver on a real sampler object; emcee (sampler object, backend) and lenstronomy's start
ball are replayed external calls: which requests the driver makes, in which order, with which arguments, is compared."""
import numpy as np
from .common import dec, decs, choice
from corr_pysem import Proxy


def cases(rng, tier):
    import emcee
    from hierarc.Sampling.mcmc_sampling import MCMCSampler
    from hierarc.Sampling.ParamManager.param_manager import ParamManager
    import hierarc.Sampling.mcmc_sampling as MS
    n = 4 if tier == "quick" else 16
    lens = [dict(z_lens=0.5, z_source=1.5, likelihood_type="DdtGaussian", ddt_mean=4000.0, ddt_sigma=300.0)]
    kb = dict(kwargs_lower_cosmo=dict(h0=20.0, om=0.05), kwargs_upper_cosmo=dict(h0=140.0, om=0.9))
    pm = [("ParamManager", ParamManager, "num_param"), ("ParamManager", ParamManager, "kwargs2args"), ("ParamManager", ParamManager, "param_list")]
    pf = [("sampling_util.sample_ball", MS.sampling_util, "sample_ball"), ("emcee.EnsembleSampler", MS.emcee, "EnsembleSampler", "sampler")]
    for i in range(n):
        from astropy.cosmology import FlatLambdaCDM
        S = MCMCSampler(lens, "FLCDM", {}, kb, cosmo_fixed=FlatLambdaCDM(H0=70.0, Om0=0.3), interpolate_cosmo=True, num_redshift_interp=20)
        nw, nb, nr = 4 + 2 * (i % 2), i % 3, 1 + i % 2
        mean = dict(kwargs_cosmo=dict(h0=dec(rng, 60, 80, 1), om=dec(rng, 0.2, 0.4)))
        sig = dict(kwargs_cosmo=dict(h0=dec(rng, 1, 3, 1), om=dec(rng, 0.01, 0.05)))
        log = []
        kw = dict(continue_from_backend=bool(i % 4 == 3))
        if i % 2:
            be = emcee.backends.Backend()
            if kw["continue_from_backend"]:
                s0 = emcee.EnsembleSampler(nw, 2, S.chain.likelihood, backend=be)
                s0.run_mcmc(np.array([[70.0 + 0.1 * k, 0.3 + 0.002 * ((k * k) % 7)] for k in range(nw)]), 1, progress=False)
            kw["backend"] = Proxy(be, "backend", log)
        target = "get_emcee_sampler" if i % 3 == 0 else "mcmc_emcee"
        yield dict(name="%s/%d" % (target, i), target=("MCMCSampler", target), obj=S, args=[nw, nb, nr, mean, sig], kwargs=kw, calls_log=log,
                   patch=pf, patch_methods=pm, declare_methods=[("CosmoLikelihood", "likelihood")], fuel=400, tol=1e-9)
        yield dict(name="names/%d" % i, target=("MCMCSampler", "param_names"), obj=S, kwargs=dict(latex_style=bool(i % 2)), patch_methods=pm)
