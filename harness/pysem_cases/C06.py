"""PySem/CPython cases for C06: every data-likelihood class through its real constructor and its log_likelihood;
numpy.linalg.inv / slogdet are replayed (their results are numpy's, their ARGUMENTS are compared)"""
import numpy as np
from .common import dec, decs, choice


def spd(rng, n, scale):
    a = np.array([[round(rng.uniform(-1, 1), 2) for _ in range(n)] for _ in range(n)])
    m = a.dot(a.T) + n * np.eye(n)
    return np.round(m * scale, 3)


def new(cls):
    return cls.__new__(cls)


def cases(rng, tier):
    from hierarc.Likelihood.LensLikelihood.ddt_gauss_likelihood import DdtGaussianLikelihood
    from hierarc.Likelihood.LensLikelihood.ddt_lognorm_likelihood import DdtLogNormLikelihood
    from hierarc.Likelihood.LensLikelihood.ddt_dd_gauss_likelihood import DdtDdGaussian
    from hierarc.Likelihood.LensLikelihood.ds_dds_gauss_likelihood import DsDdsGaussianLikelihood
    from hierarc.Likelihood.LensLikelihood.kin_likelihood import KinLikelihood
    from hierarc.Likelihood.LensLikelihood.ddt_gauss_kin_likelihood import DdtGaussKinLikelihood
    n = 3 if tier == "quick" else 25
    ret_self = lambda obj, out: obj
    for i in range(n):
        zl, zs = dec(rng, 0.2, 0.8), dec(rng, 1.0, 3.0)
        kw = dict(z_lens=zl, z_source=zs, ddt_mean=dec(rng, 2000, 6000, 1), ddt_sigma=dec(rng, 100, 500, 1))
        yield dict(name="ctor/DdtGaussian/%d" % i, target=("DdtGaussianLikelihood", "__init__"), obj=new(DdtGaussianLikelihood), kwargs=kw, post=ret_self)
        o = DdtGaussianLikelihood(**kw)
        yield dict(name="value/DdtGaussian/%d" % i, target=("DdtGaussianLikelihood", "log_likelihood"), obj=o, args=[dec(rng, 1500, 7000, 1)], kwargs=dict(dd=dec(rng, 500, 2000, 1)))
        yield dict(name="meas/DdtGaussian/%d" % i, target=("DdtGaussianLikelihood", "ddt_measurement"), obj=o)
        kw = dict(z_lens=zl, z_source=zs, ddt_mu=dec(rng, 7.5, 8.7, 3), ddt_sigma=dec(rng, 0.05, 0.4, 3))
        yield dict(name="ctor/DdtLogNorm/%d" % i, target=("DdtLogNormLikelihood", "__init__"), obj=new(DdtLogNormLikelihood), kwargs=kw, post=ret_self)
        yield dict(name="value/DdtLogNorm/%d" % i, target=("DdtLogNormLikelihood", "log_likelihood"), obj=DdtLogNormLikelihood(**kw), args=[dec(rng, 1500, 7000, 1)])
        kw = dict(z_lens=zl, z_source=zs, ddt_mean=dec(rng, 2000, 6000, 1), ddt_sigma=dec(rng, 100, 500, 1), dd_mean=dec(rng, 600, 1800, 1), dd_sigma=dec(rng, 50, 300, 1))
        yield dict(name="ctor/DdtDdGaussian/%d" % i, target=("DdtDdGaussian", "__init__"), obj=new(DdtDdGaussian), kwargs=kw, post=ret_self)
        yield dict(name="value/DdtDdGaussian/%d" % i, target=("DdtDdGaussian", "log_likelihood"), obj=DdtDdGaussian(**kw),
                   args=[dec(rng, 1500, 7000, 1), dec(rng, 500, 2000, 1)], kwargs=dict(kin_scaling=(None if i % 2 else np.array([dec(rng, 0.7, 1.3)]))))
        kw = dict(z_lens=zl, z_source=zs, ds_dds_mean=dec(rng, 1.2, 2.5), ds_dds_sigma=dec(rng, 0.05, 0.4))
        yield dict(name="ctor/DsDds/%d" % i, target=("DsDdsGaussianLikelihood", "__init__"), obj=new(DsDdsGaussianLikelihood), kwargs=kw, post=ret_self)
        yield dict(name="value/DsDds/%d" % i, target=("DsDdsGaussianLikelihood", "log_likelihood"), obj=DsDdsGaussianLikelihood(**kw),
                   args=[dec(rng, 1500, 7000, 1), dec(rng, 500, 2000, 1)], kwargs=dict(kin_scaling=(None if i % 2 else np.array([dec(rng, 0.7, 1.3)]))))
    patches = [("np.linalg.inv", np.linalg, "inv"), ("np.linalg.slogdet", np.linalg, "slogdet")]
    for i in range(2 * n):
        nb = 1 + i % 3
        zl = dec(rng, 0.2, 0.8)
        kw = dict(z_lens=zl, z_source=dec(rng, 1.0, 3.0), sigma_v_measurement=[float(x) for x in decs(rng, nb, 200, 320, 1)],
                  j_model=[float(x) for x in decs(rng, nb, 0.01, 0.05, 4)], error_cov_measurement=spd(rng, nb, 30.0),
                  error_cov_j_sqrt=spd(rng, nb, 1e-5).round(7), normalized=bool(i % 2), sigma_sys_error_include=bool(i % 3 == 0))
        if i < n:
            yield dict(name="ctor/Kin/%d" % i, target=("KinLikelihood", "__init__"), obj=new(KinLikelihood), kwargs=kw, post=ret_self)
        k = KinLikelihood(**kw)
        ks = np.array(decs(rng, nb, 0.7, 1.4)) if i % 2 == 0 else None
        akw = dict(kin_scaling=ks)
        if i % 3 == 0: akw["sigma_v_sys_error"] = dec(rng, 0.01, 0.1)
        if i % 4 == 1: akw["sigma_v_sys_offset"] = dec(rng, -0.05, 0.05)
        yield dict(name="value/Kin%d/%d" % (nb, i), target=("KinLikelihood", "log_likelihood"), obj=k, args=[dec(rng, 2500, 6000, 1), dec(rng, 700, 1600, 1)],
                   kwargs=akw, patch=patches, tol=1e-8)
        if ks is not None:
            yield dict(name="pred/Kin%d/%d" % (nb, i), target=("KinLikelihood", "sigma_v_prediction"), obj=k, args=[dec(rng, 2500, 6000, 1), dec(rng, 700, 1600, 1)],
                       kwargs=dict(kin_scaling=ks), tol=1e-8)
    for i in range(n):
        nb = 2
        kw = dict(z_lens=dec(rng, 0.2, 0.8), z_source=dec(rng, 1.0, 3.0), ddt_mean=dec(rng, 2000, 6000, 1), ddt_sigma=dec(rng, 100, 500, 1),
                  sigma_v_measurement=[float(x) for x in decs(rng, nb, 200, 320, 1)], j_model=[float(x) for x in decs(rng, nb, 0.01, 0.05, 4)],
                  error_cov_measurement=spd(rng, nb, 30.0), error_cov_j_sqrt=spd(rng, nb, 1e-5).round(7), sigma_sys_error_include=False, normalized=bool(i % 2))
        g = DdtGaussKinLikelihood(**kw)
        yield dict(name="value/DdtGaussKin/%d" % i, target=("DdtGaussKinLikelihood", "log_likelihood"), obj=g, args=[dec(rng, 2500, 6000, 1), dec(rng, 700, 1600, 1)],
                   kwargs=dict(kin_scaling=np.array(decs(rng, nb, 0.7, 1.4))), patch=patches, tol=1e-8)
