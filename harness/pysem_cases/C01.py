"""PySem/CPython cases for C01: the five parameter blocks and the manager on random configurations over ALL switches (the generator of
the C01 oracle): vector -> dictionaries, dictionaries -> vector, names (plain / LaTeX), bounds, num_param, constructor wiring."""
import numpy as np
from .common import dec, decs, choice


def rnd(x):
    if isinstance(x, dict): return {k: rnd(v) for k, v in x.items()}
    if isinstance(x, list): return [rnd(v) for v in x]
    return np.float64(round(float(x), 3))


def cases(rng, tier):
    import oracle_C01 as O
    from hierarc.Sampling.ParamManager.param_manager import ParamManager
    import hierarc.Sampling.ParamManager.param_manager as PM
    n = 10 if tier == "quick" else 80
    g = np.random.default_rng(int(rng.randint(0, 2 ** 31)))
    blocks = [("_cosmo_param", "CosmoParam"), ("_lens_param", "LensParam"), ("_kin_param", "KinParam"), ("_source_param", "SourceParam"), ("_los_param", "LOSParam")]
    ctor_patch = [(c, PM, c) for _, c in blocks]
    for i in range(n):
        cfg = O.rand_cfg(g, ["mixed", "dense", "sparse", "degenerate", "dense"][i % 5])
        for b in ["cosmo", "lens", "kin", "source"]:
            if cfg.get("kwargs_fixed_" + b): cfg["kwargs_fixed_" + b] = {k: float(round(v, 2)) for k, v in cfg["kwargs_fixed_" + b].items()}
        if cfg.get("kwargs_fixed_los"): cfg["kwargs_fixed_los"] = [{k: float(round(v, 2)) for k, v in d.items()} for d in cfg["kwargs_fixed_los"]]
        lo = O.values_for(cfg, g, -3, -1); hi = O.values_for(cfg, g, 1, 3)
        lo, hi = rnd(lo), rnd(hi)
        try:
            pm = O.build_pm(cfg, (lo, hi))
            npar = pm.num_param
        except Exception:
            continue
        kw = dict(cfg)
        for b in O.BLOCKS:
            kw["kwargs_lower_" + b] = lo[b]; kw["kwargs_upper_" + b] = hi[b]
        if i % 3 == 0:
            yield dict(name="ctor/%d" % i, target=("ParamManager", "__init__"), obj=ParamManager.__new__(ParamManager), kwargs=kw, patch=ctor_patch,
                       post=lambda obj, out: obj, fuel=400)
        x = [np.float64(round(float(v), 3)) for v in g.uniform(-2, 2, npar)]
        if i % 4 == 3 and npar > 0: x = x[:-1]       # a vector that is too short: IndexError on both sides
        yield dict(name="a2k/%d" % i, target=("ParamManager", "args2kwargs"), obj=pm, args=[x if i % 2 else np.array(x, dtype=float)], fuel=500, tol=1e-9)
        vals = rnd(O.values_for(cfg, g, 0.1, 3))
        yield dict(name="k2a/%d" % i, target=("ParamManager", "kwargs2args"), obj=pm,
                   kwargs=dict(kwargs_cosmo=vals["cosmo"], kwargs_lens=vals["lens"], kwargs_kin=vals["kin"], kwargs_source=vals["source"], kwargs_los=vals["los"]), fuel=500, tol=1e-9)
        yield dict(name="names/%d" % i, target=("ParamManager", "param_list"), obj=pm, kwargs=dict(latex_style=bool(i % 2)), fuel=500)
        if i % 2 == 0:
            yield dict(name="bounds/%d" % i, target=("ParamManager", "param_bounds"), obj=pm, fuel=500, tol=1e-9)
            yield dict(name="num_param/%d" % i, target=("ParamManager", "num_param"), obj=pm, fuel=500)
        attr, cname = blocks[i % 5]
        blk = getattr(pm, attr)
        nb = len(blk.param_list())
        xb = [np.float64(round(float(v), 3)) for v in g.uniform(-2, 2, nb + 1)]
        yield dict(name="block_a2k/%s/%d" % (cname, i), target=(cname, "args2kwargs"), obj=blk, args=[xb, 1 if nb else 0], fuel=400, tol=1e-9)
