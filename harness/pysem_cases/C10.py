"""PySem/CPython cases for C10: name routing, constructors (scipy interpolators are replayed: which axes / grid they are built on is
compared), bounds and the per-bin scaling (the interpolant objects are proxies: the points they are evaluated at are compared)."""
import numpy as np
from .common import dec, decs, choice
from corr_pysem import Proxy

NAMES = ["a_ani", "beta_inf", "gamma_in", "gamma_pl", "log_m2l"]


def axes_grids(rng, d, nbin):
    axes = [np.sort(np.round(rng.uniform(0.2, 3.0, 3 + k), 2)) for k in range(d)]
    grids = [np.round(rng.uniform(0.8, 1.3, [len(a) for a in axes]), 3) for _ in range(nbin)]
    return axes, grids


def proxify(ks, log):
    for k, sc in enumerate(getattr(ks, "_j_scaling_ifu", [])):
        if hasattr(sc, "_f_ani"):
            sc._f_ani = Proxy(sc._f_ani, "f_ani%d" % k, log)


def cases(rng, tier):
    from hierarc.Likelihood.kin_scaling import KinScalingParamManager, ParameterScalingSingleMeasurement, KinScaling
    import hierarc.Likelihood.kin_scaling as KS
    n = 4 if tier == "quick" else 20
    pf = [("interp1d", KS, "interp1d"), ("RegularGridInterpolator", KS, "RegularGridInterpolator")]
    ret_self = lambda obj, out: obj
    for i in range(n):
        d = 1 + i % 3
        names = [NAMES[(i + k) % 5] for k in range(d)]
        yield dict(name="pm_ctor/%d" % i, target=("KinScalingParamManager", "__init__"), obj=KinScalingParamManager.__new__(KinScalingParamManager),
                   args=[names if i % 4 else None], post=ret_self)
        pm = KinScalingParamManager(names)
        kw = {nm: dec(rng, 0.3, 2.5) for nm in reversed(names)}
        kw["extra"] = dec(rng, 0, 1)
        if i % 4 == 3: kw.pop(names[-1])
        yield dict(name="routing/%d" % i, target=("KinScalingParamManager", "kwargs2param_array"), obj=pm, args=[kw])
        yield dict(name="routing_back/%d" % i, target=("KinScalingParamManager", "param_array2kwargs"), obj=pm, args=[decs(rng, d, 0.3, 2.5)])
        axes, grids = axes_grids(rng, d, 2)
        yield dict(name="single_ctor/%dd/%d" % (d, i), target=("ParameterScalingSingleMeasurement", "__init__"),
                   obj=ParameterScalingSingleMeasurement.__new__(ParameterScalingSingleMeasurement),
                   args=[(axes if (d > 1 or i % 2) else axes[0]) if i % 5 != 4 else None, grids[0]], patch=pf, post=ret_self)
        ks_kw = dict(j_kin_scaling_param_axes=(axes if (d > 1 or i % 2) else axes[0]), j_kin_scaling_grid_list=grids, j_kin_scaling_param_name_list=names)
        if i % 5 == 4: ks_kw = dict()
        yield dict(name="ks_ctor/%dd/%d" % (d, i), target=("KinScaling", "__init__"), obj=KinScaling.__new__(KinScaling), kwargs=ks_kw, patch=pf, post=ret_self)
        ks = KinScaling(**ks_kw)
        yield dict(name="bounds/%dd/%d" % (d, i), target=("KinScaling", "param_bounds_interpol"), obj=ks)
        log = []
        proxify(ks, log)
        p = {nm: np.float64(round(float(rng.uniform(a[0], a[-1])), 2)) for nm, a in zip(names, axes)}
        yield dict(name="kin_scaling/%dd/%d" % (d, i), target=("KinScaling", "kin_scaling"), obj=ks, args=[p if i % 6 != 5 else None], calls_log=log, tol=1e-8)
        if getattr(ks, "_j_scaling_ifu", None):
            log2 = []
            ks2 = KinScaling(**ks_kw); proxify(ks2, log2)
            yield dict(name="j_scaling/%dd/%d" % (d, i), target=("ParameterScalingSingleMeasurement", "j_scaling"), obj=ks2._j_scaling_ifu[1],
                       args=[[p[nm] for nm in names] if i % 3 else []], calls_log=log2, tol=1e-8)
