"""PySem/CPython cases for C02: CosmoLikelihood.likelihood (box test, curved-LCDM guard, composition), the lens-level pipeline and
distance floors.  The parameter manager, the cosmology objects (astropy / lenstronomy interpolation), the lens-sample likelihood and
the per-lens marginalisation are replayed external calls whose arguments are compared."""
import numpy as np
from .common import dec, decs, choice
from corr_pysem import Proxy


def cosmo_proxy(log, h0=70.0, om=0.3):
    from astropy.cosmology import FlatLambdaCDM
    return Proxy(FlatLambdaCDM(H0=h0, Om0=om), "cosmo", log)


def cases(rng, tier):
    from hierarc.Likelihood.cosmo_likelihood import CosmoLikelihood
    from hierarc.Likelihood.hierarchy_likelihood import LensLikelihood
    from hierarc.Likelihood.lens_sample_likelihood import LensSampleLikelihood
    from hierarc.Likelihood.LensLikelihood.base_lens_likelihood import LensLikelihoodBase
    from hierarc.Likelihood.LensLikelihood.mag_likelihood import MagnificationLikelihood
    from hierarc.Sampling.ParamManager.param_manager import ParamManager
    import hierarc.Likelihood.LensLikelihood.mag_likelihood as ML
    n = 5 if tier == "quick" else 30
    pm_like = [("ParamManager", ParamManager, "args2kwargs"), ("CosmoLikelihood", CosmoLikelihood, "cosmo_instance"),
               ("LensSampleLikelihood", LensSampleLikelihood, "log_likelihood")]
    for i in range(2 * n):
        cosmology = ["FLCDM", "oLCDM", "oLCDM", "FwCDM"][i % 4]
        names = dict(FLCDM=["h0", "om"], oLCDM=["h0", "om", "ok"], FwCDM=["h0", "om", "w"])[cosmology]
        lo = dict(h0=10.0, om=0.05, ok=-0.9, w=-2.0); hi = dict(h0=150.0, om=0.9, ok=0.6, w=-0.3)      # (h0 = 0 exactly makes astropy raise: a degenerate edge, not hierArc)
        lenses = [dict(z_lens=float(dec(rng, 0.3, 0.7)), z_source=float(dec(rng, 1.0, 4.0)), likelihood_type="DdtGaussian", ddt_mean=4000.0, ddt_sigma=300.0)
                  for _ in range(1 + i % 2)]
        if i % 5 == 3:
            lenses.append(dict(z_lens=0.4, z_source=1.1, z_source2=float(dec(rng, 2.0, 5.0)), likelihood_type="DSPL", beta_dspl=0.8, sigma_beta_dspl=0.05))
        cl = CosmoLikelihood(lenses, cosmology, dict(lambda_mst_sampling=bool(i % 2)),
                             dict(kwargs_lower_cosmo={k: lo[k] for k in names}, kwargs_upper_cosmo={k: hi[k] for k in names},
                                  kwargs_lower_lens=dict(lambda_mst=0.5), kwargs_upper_lens=dict(lambda_mst=1.5)), interpolate_cosmo=True, num_redshift_interp=20)
        kind = ["inside", "below", "above", "edge", "guard"][i % 5]
        vals = dict(h0=dec(rng, 55, 90, 1), om=dec(rng, 0.15, 0.5), ok=dec(rng, -0.2, 0.2), w=dec(rng, -1.5, -0.6), lambda_mst=dec(rng, 0.8, 1.2))
        if kind == "guard" and cosmology == "oLCDM":
            vals.update(om=dec(rng, 0.06, 0.2), ok=dec(rng, -0.85, -0.5))
        order = names + (["lambda_mst"] if i % 2 else [])
        j = int(rng.randint(0, len(order)))
        bl = dict(lo, lambda_mst=0.5); bh = dict(hi, lambda_mst=1.5)
        if kind == "below": vals[order[j]] = np.float64(bl[order[j]] - 0.01)
        if kind == "above": vals[order[j]] = np.float64(bh[order[j]] + 0.01)
        if kind == "edge": vals[order[j]] = np.float64(bl[order[j]] if i % 2 else bh[order[j]])
        args = [vals[k] for k in order]
        yield dict(name="likelihood/%s/%s/%d" % (cosmology, kind, i), target=("CosmoLikelihood", "likelihood"), obj=cl, args=[args if i % 3 else np.array(args)],
                   patch_methods=pm_like, fuel=400, tol=1e-8)
    pm_lens = [("LensLikelihood", LensLikelihoodBase, "beta_dsp"), ("LensLikelihood", LensLikelihood, "hyper_param_likelihood")]
    for i in range(n):
        t = ["DdtGaussian", "Mag", "DSPL", "DdtGaussian"][i % 4]
        kw = dict(z_lens=dec(rng, 0.2, 0.8), z_source=dec(rng, 1.0, 3.0), likelihood_type=t)
        if t == "DdtGaussian": kw.update(ddt_mean=4000.0, ddt_sigma=300.0)
        if t == "Mag": kw.update(amp_measured=np.array([10.0, 8.0]), cov_amp_measured=np.array([[1.0, 0.1], [0.1, 1.2]]), magnification_model=np.array([5.0, 4.0]),
                                 cov_magnification_model=np.array([[0.3, 0.02], [0.02, 0.25]]))
        if t == "DSPL": kw.update(z_source2=dec(rng, 3.2, 4.0), beta_dspl=0.8, sigma_beta_dspl=0.05)
        lens = LensLikelihood(**kw)
        log = []
        c = cosmo_proxy(log, float(dec(rng, 60, 80, 1)), float(dec(rng, 0.2, 0.4)))
        yield dict(name="distances/%s/%d" % (t, i), target=("LensLikelihood", "angular_diameter_distances"), obj=lens, args=[c], calls_log=log, tol=1e-8)
        log = []
        c = cosmo_proxy(log, float(dec(rng, 60, 80, 1)), float(dec(rng, 0.2, 0.4)))
        yield dict(name="modulus/%s/%d" % (t, i), target=("LensLikelihood", "luminosity_distance_modulus"), obj=lens, args=[c, dec(rng, 0.05, 0.5)], calls_log=log, tol=1e-8)
        log = []
        c = cosmo_proxy(log, float(dec(rng, 60, 80, 1)), float(dec(rng, 0.2, 0.4)))
        yield dict(name="lens_loglike/%s/%d" % (t, i), target=("LensLikelihood", "lens_log_likelihood"), obj=lens, args=[c],
                   kwargs=dict(kwargs_lens=dict(lambda_mst=dec(rng, 0.8, 1.2)), kwargs_source=(dict(mu_sne=dec(rng, 18, 20), z_apparent_m_anchor=dec(rng, 0.05, 0.3)) if i % 2 else None)),
                   calls_log=log, patch_methods=pm_lens, tol=1e-8)
    for i in range(n):
        m = MagnificationLikelihood(amp_measured=np.array(decs(rng, 2, 5, 12, 1)), cov_amp_measured=np.array([[1.0, 0.1], [0.1, 1.2]]),
                                    magnification_model=np.array(decs(rng, 2, 3, 6, 1)), cov_magnification_model=np.array([[0.3, 0.02], [0.02, 0.25]]) if i % 3 else np.zeros((2, 2)))
        yield dict(name="mag/%d" % i, target=("MagnificationLikelihood", "log_likelihood"), obj=m, kwargs=dict(mu_intrinsic=dec(rng, 0.2, 1.5)),
                   patch=[("np.linalg.inv", np.linalg, "inv"), ("np.linalg.slogdet", np.linalg, "slogdet"), ("magnitude2cps", ML, "magnitude2cps")], tol=1e-8)
