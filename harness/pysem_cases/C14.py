"""PySem/CPython cases for C14: reported measurement / prediction of the kinematic types (through the real class dispatch of
LensLikelihoodBase), the lens-level report over draws (numpy.cov replayed), model Ddt/Dd over draws, measurement table, reduced chi2."""
import numpy as np
from .common import dec, decs, choice
from corr_pysem import Proxy


def kin_kw(rng, nb):
    a = np.array([[round(rng.uniform(-1, 1), 2) for _ in range(nb)] for _ in range(nb)])
    m = np.round((a.dot(a.T) + nb * np.eye(nb)) * 30.0, 2)
    q = np.round((a.T.dot(a) + nb * np.eye(nb)) * 2e-6, 8)
    return dict(sigma_v_measurement=[float(x) for x in decs(rng, nb, 200, 320, 1)], j_model=[float(x) for x in decs(rng, nb, 0.01, 0.05, 4)],
                error_cov_measurement=m, error_cov_j_sqrt=q)


def cases(rng, tier):
    from hierarc.Likelihood.hierarchy_likelihood import LensLikelihood
    from hierarc.Likelihood.LensLikelihood.base_lens_likelihood import LensLikelihoodBase
    from hierarc.Likelihood.kin_scaling import KinScaling
    from hierarc.Likelihood.transformed_cosmography import TransformedCosmography
    from hierarc.Sampling.Distributions.lens_distribution import LensDistribution
    from hierarc.Sampling.Distributions.los_distributions import LOSDistribution
    from hierarc.Sampling.Distributions.anisotropy_distributions import AnisotropyDistribution
    from hierarc.Diagnostics.goodness_of_fit import GoodnessOfFit
    from hierarc.Likelihood.lens_sample_likelihood import LensSampleLikelihood
    from astropy.cosmology import FlatLambdaCDM
    n = 4 if tier == "quick" else 20
    pm = [("LensLikelihood", LensLikelihood, "angular_diameter_distances"), ("LensLikelihood", TransformedCosmography, "displace_prediction"),
          ("LensLikelihood", KinScaling, "kin_scaling"), ("LensDistribution", LensDistribution, "draw_lens"), ("LOSDistribution", LOSDistribution, "draw_los"),
          ("AnisotropyDistribution", AnisotropyDistribution, "draw_anisotropy")]
    for i in range(n):
        t = ["IFUKinCov", "DdtGaussKin", "IFUKinCov", "DdtGaussian"][i % 4]
        nb = 1 + i % 2
        kw = dict(z_lens=dec(rng, 0.3, 0.7), z_source=dec(rng, 1.2, 2.5), likelihood_type=t, num_distribution_draws=2 + i % 2, normalized=bool(i % 2))
        if t != "DdtGaussian": kw.update(kin_kw(rng, nb), sigma_sys_error_include=bool(i % 3 == 0))
        if t != "IFUKinCov": kw.update(ddt_mean=dec(rng, 3000, 5000, 1), ddt_sigma=dec(rng, 150, 400, 1))
        lens = LensLikelihood(**kw)
        if t != "DdtGaussian":
            yield dict(name="meas/%s/%d" % (t, i), target=("LensLikelihood", "sigma_v_measurement"), obj=lens, kwargs=dict(sigma_v_sys_error=(dec(rng, 0.01, 0.1) if i % 3 == 0 else None)), tol=1e-8)
            yield dict(name="pred/%s/%d" % (t, i), target=("LensLikelihood", "sigma_v_prediction"), obj=lens, args=[dec(rng, 3000, 5000, 1), dec(rng, 900, 1500, 1)],
                       kwargs=dict(kin_scaling=np.array(decs(rng, nb, 0.8, 1.3))), tol=1e-8)
        yield dict(name="ddt_meas/%s/%d" % (t, i), target=("LensLikelihood", "ddt_measurement"), obj=lens)
        yield dict(name="num_data/%s/%d" % (t, i), target=("LensLikelihood", "num_data"), obj=lens)
        c = FlatLambdaCDM(H0=70.0, Om0=0.3)
        kl = dict(lambda_mst=dec(rng, 0.8, 1.2), gamma_ppn=dec(rng, 0.9, 1.1))
        yield dict(name="report/%s/%d" % (t, i), target=("LensLikelihood", "sigma_v_measured_vs_predict"), obj=lens, args=[c],
                   kwargs=dict(kwargs_lens=kl, kwargs_kin=dict(sigma_v_sys_error=dec(rng, 0.01, 0.1)) if i % 2 else None, kwargs_los=None),
                   patch_methods=pm, patch=[("np.cov", np, "cov")], tol=1e-8, fuel=500)
        yield dict(name="model_ddt/%s/%d" % (t, i), target=("LensLikelihood", "ddt_dd_model_prediction"), obj=lens, args=[c], kwargs=dict(kwargs_lens=kl, kwargs_los=None),
                   patch_methods=pm, tol=1e-8, fuel=500)
    for i in range(n):
        lst = [dict(z_lens=0.5, z_source=1.5, likelihood_type="DdtGaussian", ddt_mean=4000.0, ddt_sigma=300.0)]
        if i % 2: lst.append(dict(z_lens=0.4, z_source=2.0, likelihood_type="IFUKinCov", **kin_kw(rng, 2)))
        gof = GoodnessOfFit(lst, dict(lambda_mst_distribution="NONE"))
        c = FlatLambdaCDM(H0=70.0, Om0=0.3)
        yield dict(name="chi2/%d" % i, target=("GoodnessOfFit", "reduced_chi2"), obj=gof, args=[c, dict(lambda_mst=dec(rng, 0.9, 1.1)), dict()],
                   patch_methods=[("LensSampleLikelihood", LensSampleLikelihood, "log_likelihood"), ("LensSampleLikelihood", LensSampleLikelihood, "num_data")], tol=1e-8)
