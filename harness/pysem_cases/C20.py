"""PySem/CPython cases for C20: per-lens Gaussian priors (constructor, value) and the single-draw pipeline that evaluates them on the REALISED parameters"""
import numpy as np
from .common import dec, decs, choice


def cases(rng, tier):
    from hierarc.Likelihood.prior_likelihood import PriorLikelihood
    from hierarc.Likelihood.hierarchy_likelihood import LensLikelihood
    from hierarc.Likelihood.LensLikelihood.base_lens_likelihood import LensLikelihoodBase
    from hierarc.Likelihood.kin_scaling import KinScaling
    n = 5 if tier == "quick" else 30
    names = ["lambda_mst", "gamma_ppn", "a_ani", "gamma_pl", "beta_inf"]
    pm = [("LensLikelihood", LensLikelihoodBase, "log_likelihood"), ("LensLikelihood", KinScaling, "kin_scaling")]
    for i in range(n):
        pl = [[nm, float(dec(rng, 0.5, 2.0)), float(dec(rng, 0.05, 0.5))] for nm in names if rng.uniform() < 0.6]
        if i % 6 == 5: pl = None
        yield dict(name="ctor/%d" % i, target=("PriorLikelihood", "__init__"), obj=PriorLikelihood.__new__(PriorLikelihood), kwargs=dict(prior_list=pl), post=lambda obj, out: obj)
        p = PriorLikelihood(prior_list=pl)
        kw = {nm: dec(rng, 0.5, 2.0) for nm in names if rng.uniform() < 0.7}
        yield dict(name="value/%d" % i, target=("PriorLikelihood", "log_likelihood"), obj=p, args=[kw])
        ifu = bool(i % 2)
        lens = LensLikelihood(z_lens=0.5, z_source=1.5, likelihood_type="IFUKinCov", sigma_v_measurement=[250.0], j_model=[0.02], error_cov_measurement=[[100.0]],
                              error_cov_j_sqrt=[[1e-5]], anisotropy_model="OM", anisotropy_sampling=True, anisotropy_distribution="GAUSSIAN",
                              kin_scaling_param_list=["a_ani"], j_kin_scaling_param_axes=[np.array([0.5, 1.0, 2.0, 3.0])], j_kin_scaling_grid_list=[np.array([0.9, 1.0, 1.1, 1.15])],
                              mst_ifu=ifu, lambda_mst_distribution="GAUSSIAN", lambda_scaling_property=dec(rng, -0.5, 0.5), alpha_lambda_sampling=True,
                              prior_list=[["lambda_mst", 1.0, 0.1], ["a_ani", 1.5, 0.5], ["gamma_ppn", 1.0, 0.2]][: 1 + i % 3])
        kl = dict(lambda_mst=dec(rng, 0.8, 1.2), lambda_mst_sigma=choice(rng, [0.0, 0.1]), lambda_ifu=dec(rng, 0.8, 1.2), lambda_ifu_sigma=choice(rng, [0.0, 0.1]),
                  gamma_ppn=dec(rng, 0.9, 1.1), alpha_lambda=dec(rng, -0.2, 0.2))
        kk = dict(a_ani=dec(rng, 0.8, 2.5), a_ani_sigma=choice(rng, [0.0, 0.3]))
        yield dict(name="single/%d" % i, target=("LensLikelihood", "log_likelihood_single"), obj=lens,
                   args=[dec(rng, 3000, 5000, 1), dec(rng, 900, 1500, 1), np.float64(0.0), None, kl, kk, dict()], kwargs=dict(kwargs_los=None),
                   draws=decs(rng, 20, -1.2, 1.2), patch_methods=pm, fuel=500)
