"""PySem/CPython cases for C18: IFU radial binning on small random maps with non-finite fibres"""
import numpy as np
from .common import dec, decs, choice


def maps(rng, nx, ny, k):
    v = np.round(rng.uniform(150, 300, (nx, ny)), 1)
    w = np.round(rng.uniform(0.5, 2.0, (nx, ny)), 2)
    f = np.round(rng.uniform(1.0, 10.0, (nx, ny)), 1)
    f[nx // 2, ny // 2] = 20.0 + k
    if k % 2: v[0, 0] = np.nan
    if k % 3 == 0: w[nx - 1, ny - 1] = np.inf
    return v, w, f


def cases(rng, tier):
    from hierarc.Util.ifu_util import _2d_t0_1d, binned_dispersion, binned_velocity, binned_total
    n = 2 if tier == "quick" else 12
    for i in range(n):
        nx, ny = (3, 3) if i % 2 == 0 else ((2, 4) if tier == "quick" else (3, 4))     # the answer search is quadratic in the number of comparisons
        v, w, f = maps(rng, nx, ny, i)
        fs = dec(rng, 0.3, 0.8)
        rb = [np.float64(0.0), np.float64(round(1.1 * float(fs), 3)), np.float64(round(2.6 * float(fs), 3))]
        yield dict(name="flatten/%d" % i, target=(None, "_2d_t0_1d"), callable=_2d_t0_1d, args=[v, w, f, fs], fuel=600, tol=1e-8)
        yield dict(name="dispersion/%d" % i, target=(None, "binned_dispersion"), callable=binned_dispersion, args=[v, w, f, fs, rb], fuel=600, tol=1e-8)
        v2, w2, _ = maps(rng, nx, ny, i + 1)
        v2 = np.round(v2 - 220.0, 1)
        v2[v2 == 0] = 1.0
        yield dict(name="velocity/%d" % i, target=(None, "binned_velocity"), callable=binned_velocity, args=[v2, w2, f, fs, rb], fuel=600, tol=1e-8)
        if i % 2 == 0:
            yield dict(name="total/%d" % i, target=(None, "binned_total"), callable=binned_total, args=[v, w, v2, w2, f, fs, rb], fuel=700, tol=1e-8)
