"""PySem/CPython cases for C05: parameter map to the astropy constructors, the supply modes of cosmo_instance (constructors of the
cosmology objects are replayed: which keywords reach them is compared), distance formulas with a cosmology proxy (which redshifts the
provider is asked for is compared), DSPL beta."""
import numpy as np
from .common import dec, decs, choice
from corr_pysem import Proxy


def cases(rng, tier):
    from hierarc.Likelihood.cosmo_likelihood import CosmoLikelihood
    from hierarc.Likelihood.hierarchy_likelihood import LensLikelihood
    from hierarc.Sampling.ParamManager.cosmo_param import CosmoParam
    from hierarc.Likelihood.LensLikelihood.double_source_plane import beta_double_source_plane
    import hierarc.Sampling.ParamManager.cosmo_param as CP
    import hierarc.Likelihood.cosmo_likelihood as CL
    from astropy.cosmology import FlatLambdaCDM
    n = 4 if tier == "quick" else 20
    astro = [(k, CP, k) for k in ("FlatLambdaCDM", "FlatwCDM", "w0waCDM", "LambdaCDM")]
    for i in range(2 * n):
        cosmology = ["FLCDM", "FwCDM", "w0waCDM", "oLCDM", "NONE"][i % 5]
        cpar = CosmoParam(cosmology=cosmology)
        vals = dict(h0=dec(rng, 60, 80, 1), om=dec(rng, 0.2, 0.4), w=dec(rng, -1.2, -0.8), w0=dec(rng, -1.2, -0.8), wa=dec(rng, -0.3, 0.3), ok=dec(rng, -0.1, 0.1))
        yield dict(name="param_map/%s/%d" % (cosmology, i), target=("CosmoParam", "cosmo"), obj=cpar, args=[vals], patch=astro)
    # the constructor: the redshift range z_max over samples of 0..3 lenses (both / one source redshift), anchor above or below the sources;
    # the lens sample and the parameter manager are replayed (with the two properties the constructor reads)
    from hierarc.Likelihood.lens_sample_likelihood import LensSampleLikelihood
    from hierarc.Sampling.ParamManager.param_manager import ParamManager
    for i in range(n):
        lst = []
        for j in range(i % 4):
            kwl = dict(z_lens=0.3, z_source=float(dec(rng, 0.6, 3.0)), likelihood_type="DdtGaussian", ddt_mean=4000.0, ddt_sigma=300.0)
            if (i + j) % 3 == 1: kwl = dict(z_lens=0.3, z_source=float(dec(rng, 0.6, 2.0)), z_source2=float(dec(rng, 0.6, 4.0)), likelihood_type="DSPL", beta_dspl=0.8, sigma_beta_dspl=0.05)
            lst.append(kwl)
        kbz = dict(kwargs_lower_cosmo=dict(h0=0.0, om=0.05), kwargs_upper_cosmo=dict(h0=150.0, om=0.9))
        yield dict(name="ctor_zmax/%d" % i, target=("CosmoLikelihood", "__init__"), obj=CosmoLikelihood.__new__(CosmoLikelihood),
                   args=[lst, "FLCDM", dict(z_apparent_m_anchor=float(dec(rng, 0.05, 5.0))), kbz],
                   patch=[("LensSampleLikelihood", CL, "LensSampleLikelihood"), ("ParamManager", CL, "ParamManager")],
                   patch_methods=[("LensSampleLikelihood", LensSampleLikelihood, "gamma_pl_num"), ("ParamManager", ParamManager, "param_bounds")],
                   post=lambda obj, out: obj, fuel=400)
    lenses = [dict(z_lens=0.5, z_source=1.5, likelihood_type="DdtGaussian", ddt_mean=4000.0, ddt_sigma=300.0)]
    for i in range(n):
        mode = ["sampled_interp", "sampled_exact", "fixed_interp", "fixed_exact", "tabulated"][i % 5]
        names = ["h0", "om"]
        kb = dict(kwargs_lower_cosmo=dict(h0=0.0, om=0.05), kwargs_upper_cosmo=dict(h0=150.0, om=0.9))
        kw = dict(interpolate_cosmo=("interp" in mode or mode == "tabulated"), num_redshift_interp=20)
        if mode.startswith("fixed"): kw["cosmo_fixed"] = FlatLambdaCDM(H0=70.0, Om0=0.3)
        cl = CosmoLikelihood(lenses, "FLCDM", {}, kb, **kw)
        kc = dict(h0=dec(rng, 60, 80, 1), om=dec(rng, 0.2, 0.4))
        if mode == "tabulated":
            kc.update(ang_diameter_distances=np.array([100.0, 900.0, 1500.0, 1700.0]), redshifts=np.array([0.05, 0.5, 1.5, 2.5]))
        yield dict(name="mode/%s/%d" % (mode, i), target=("CosmoLikelihood", "cosmo_instance"), obj=cl, args=[kc],
                   patch=[("CosmoInterp", CL, "CosmoInterp")] + astro, fuel=400)
    for i in range(n):
        t = ["DdtGaussian", "Mag", "DSPL"][i % 3]
        kw = dict(z_lens=dec(rng, 0.2, 0.8), z_source=dec(rng, 1.0, 3.0), likelihood_type=t)
        if t == "DdtGaussian": kw.update(ddt_mean=4000.0, ddt_sigma=300.0)
        if t == "Mag": kw.update(amp_measured=np.array([10.0, 8.0]), cov_amp_measured=np.array([[1.0, 0.1], [0.1, 1.2]]), magnification_model=np.array([5.0, 4.0]),
                                 cov_magnification_model=np.array([[0.3, 0.02], [0.02, 0.25]]))
        if t == "DSPL": kw.update(z_source2=dec(rng, 3.2, 4.0), beta_dspl=0.8, sigma_beta_dspl=0.05)
        lens = LensLikelihood(**kw)
        log = []
        c = Proxy(FlatLambdaCDM(H0=float(dec(rng, 60, 80, 1)), Om0=float(dec(rng, 0.2, 0.4))), "cosmo", log)
        yield dict(name="distances/%s/%d" % (t, i), target=("LensLikelihood", "angular_diameter_distances"), obj=lens, args=[c], calls_log=log, tol=1e-8)
        log = []
        c = Proxy(FlatLambdaCDM(H0=70.0, Om0=0.3), "cosmo", log)
        yield dict(name="beta/%s/%d" % (t, i), target=("LensLikelihood", "beta_dsp"), obj=lens, args=[c], calls_log=log, tol=1e-8)
        log = []
        c = Proxy(FlatLambdaCDM(H0=70.0, Om0=0.3), "cosmo", log)
        yield dict(name="beta_fn/%d" % i, target=(None, "beta_double_source_plane"), callable=beta_double_source_plane,
                   kwargs=dict(z_lens=dec(rng, 0.2, 0.6), z_source_1=dec(rng, 0.8, 1.5), z_source_2=dec(rng, 2.0, 4.0), cosmo=c), calls_log=log, tol=1e-8)
