#!/usr/bin/env python
"""Implementation-level oracle for property C09.

C09: population draws (a_ani, beta_inf, gamma_in, log_m2l) stay inside the range of the kinematic
interpolation grid, a population mean outside that range raises ValueError, the draw is the FIRST in-range
proposal of the np.random stream (re-sampling, not clipping; scale sigma / sigma*mean), line-of-sight draws
follow the declared Gaussian / GEV / tabulated-PDF law and draw_bool is False exactly for degenerate draws.

Sub-checks (every input dict carries "check": name, which is what --replay dispatches on)
  draw      real LensLikelihood(IFUKinCov + random kin-scaling grid): bounds hand-over, range, mean check,
            first-accept replay of the np.random stream, stream position, full lens_log_likelihood path
  law       KS of many draws vs scipy.stats.truncnorm, clipped-law alternative must be rejected, no atoms
  los_gauss / los_gev / pdf / draw_bool    LOSDistribution, GEV, PDFSampling, approx_cdf_1d
"""
import sys, os
sys.path.insert(0, os.path.dirname(os.path.abspath(__file__)))
from common import *  # noqa
import math
import scipy.stats as st

sys.setrecursionlimit(6000)  # the library re-draws recursively; generated cases keep acceptance >= 4 %
INF = float("inf")
MAXIT = 3000
ANI_PARAMS = {"OM": ["a_ani"], "GOM": ["a_ani", "beta_inf"], "const": ["a_ani"], "NONE": []}
AX_RANGE = {"a_ani": (0.1, 5.0), "a_ani_const": (-0.49, 1.0), "beta_inf": (0.0, 1.0), "gamma_in": (0.1, 2.9),
            "log_m2l": (-1.0, 1.0)}
_COSMO = []


def cosmo():
    if not _COSMO:
        _COSMO.append(cosmo_interp(70., 0.3, zmax=3.0, n=100))
    return _COSMO[0]


class LowAcceptance(Exception):
    pass


def same_state(a, b):
    return a[0] == b[0] and np.array_equal(a[1], b[1]) and tuple(a[2:]) == tuple(b[2:])


def ulp_eq(a, b, scale=1.0):
    """equality up to 4 ulp of the operands of loc + scale*z (an FMA contraction inside numpy's C code is the
    only legitimate source of a difference; a clipped / mis-scaled value differs at the 1e-2 level)"""
    a, b = float(a), float(b)
    return a == b or abs(a - b) <= 4 * np.finfo(float).eps * max(abs(a), abs(b), abs(scale), 1e-300)


# ------------------------------------------------------------------------------------------------------
# reference samplers: sequential joint rejection sampling on the global np.random stream
# ------------------------------------------------------------------------------------------------------
def z():
    return np.random.standard_normal()


def sim_aniso(cfg, bounds, kw):
    model, dist, sampling = cfg["model"], cfg["dist"], cfg["ani_sampling"]
    a, sa = kw.get("a_ani"), kw.get("a_ani_sigma", 0)
    b, sb = kw.get("beta_inf"), kw.get("beta_inf_sigma", 0)
    if not sampling:
        return {k: v for k, v in (("a_ani", a), ("beta_inf", b)) if v is not None}
    for it in range(MAXIT):
        out = {}
        if model in ("OM", "GOM", "const"):
            lo, hi = bounds.get("a_ani", (-INF, INF))
            if a < lo or a > hi:
                raise ValueError("a_ani")
            if dist == "GAUSSIAN":
                x = a + sa * z()
            elif dist == "GAUSSIAN_SCALED":
                x = a + (sa * a) * z()
            elif dist == "GAUSSIAN_TAN_RAD":
                x = 1 - (a + sa * z()) ** 2
            else:
                x = a
            if x < lo or x > hi:
                continue
            out["a_ani"] = x
        if model == "GOM":
            lo, hi = bounds.get("beta_inf", (-INF, INF))
            if b < lo or b > hi:
                raise ValueError("beta_inf")
            y = b + sb * z() if dist in ("GAUSSIAN", "GAUSSIAN_SCALED") else b
            if y < lo or y > hi:
                continue
            out["beta_inf"] = y
        return out
    raise LowAcceptance()


def sim_lens(cfg, bounds, kw):
    prop, prop_b = cfg.get("lambda_scaling_property", 0), cfg.get("lambda_scaling_property_beta", 0)
    for it in range(MAXIT):
        out = {}
        if cfg.get("mst_ifu", False):
            lam, sl = kw.get("lambda_ifu", 1), kw.get("lambda_ifu_sigma", 0)
        else:
            lam, sl = kw.get("lambda_mst", 1), kw.get("lambda_mst_sigma", 0)
        lam = lam + kw.get("alpha_lambda", 0) * prop + kw.get("beta_lambda", 0) * prop_b
        if cfg["lambda_mst_dist"] == "GAUSSIAN":
            lam = lam + sl * z()
        out["lambda_mst"] = lam
        out["gamma_ppn"] = kw.get("gamma_ppn", 1)
        if cfg["gamma_in_sampling"]:
            g, sg = kw["gamma_in"], kw.get("gamma_in_sigma", 0)
            lo, hi = bounds.get("gamma_in", (-INF, INF))
            if g < lo or g > hi:
                raise ValueError("gamma_in")
            loc = g + kw.get("alpha_gamma_in", 0) * prop if cfg["gamma_in_dist"] == "GAUSSIAN" else g
            x = loc + sg * z()
            if x < lo or x > hi:
                continue
            out["gamma_in"] = x
        if cfg["log_m2l_sampling"]:
            m, sm = kw["log_m2l"], kw.get("log_m2l_sigma", 0)
            lo, hi = bounds.get("log_m2l", (-INF, INF))
            if m < lo or m > hi:
                raise ValueError("log_m2l")
            loc = m + kw.get("alpha_log_m2l", 0) * prop
            x = loc + sm * z()
            if x < lo or x > hi:
                continue
            out["log_m2l"] = x
        return out
    raise LowAcceptance()


# ------------------------------------------------------------------------------------------------------
def build_lens(cfg):
    """real LensLikelihood with a kinematic scaling grid on cfg['names'] / cfg['axes']"""
    from hierarc.Likelihood.hierarchy_likelihood import LensLikelihood
    g = np.random.default_rng([int(cfg["grid_seed"]), 909])
    nb = int(cfg["nbins"])
    kw = kin_kw(g, nb)
    names, axes = list(cfg["names"]), [np.array(a, dtype=float) for a in cfg["axes"]]
    if names:
        shape = [len(a) for a in axes]
        grids = [g.uniform(0.6, 1.4, shape) for _ in range(nb)]
        if len(names) == 1 and cfg.get("axes_as_array", False):
            kw.update(kin_scaling_param_list=names, j_kin_scaling_param_axes=axes[0], j_kin_scaling_grid_list=grids)
        else:
            kw.update(kin_scaling_param_list=names, j_kin_scaling_param_axes=axes, j_kin_scaling_grid_list=grids)
    return LensLikelihood(z_lens=0.5, z_source=1.5, likelihood_type="IFUKinCov", name="c09",
                          anisotropy_model=cfg["model"], anisotropy_sampling=cfg["ani_sampling"],
                          anisotropy_distribution=cfg["dist"], lambda_mst_distribution=cfg["lambda_mst_dist"],
                          gamma_in_sampling=cfg["gamma_in_sampling"], gamma_in_distribution=cfg["gamma_in_dist"],
                          log_m2l_sampling=cfg["log_m2l_sampling"], log_m2l_distribution=cfg["log_m2l_dist"],
                          alpha_gamma_in_sampling=bool(cfg.get("lambda_scaling_property", 0)),
                          alpha_log_m2l_sampling=bool(cfg.get("lambda_scaling_property", 0)),
                          lambda_scaling_property=cfg.get("lambda_scaling_property", 0),
                          mst_ifu=cfg.get("mst_ifu", False), num_distribution_draws=int(cfg.get("ndd", 4)), **kw)


def ref_bounds(cfg):
    return {n: (float(np.min(a)), float(np.max(a))) for n, a in zip(cfg["names"], cfg["axes"])}


def run_both(sim, lib, state0):
    """evaluate reference and library from the same stream position; returns (ref, ref_state, got, got_state)"""
    np.random.set_state(state0)
    try:
        ref = sim()
    except ValueError as e:
        ref = ("ValueError", str(e))
    ref_state = np.random.get_state()
    np.random.set_state(state0)
    try:
        got = lib()
    except Exception as e:  # classified by the caller
        got = (type(e).__name__, str(e)[:80])
    got_state = np.random.get_state()
    return ref, ref_state, got, got_state


def first_checked(cfg, which):
    """name of the parameter whose mean check precedes every draw of that distribution object"""
    if which == "ani":
        return "a_ani"
    if cfg["lambda_mst_dist"] == "GAUSSIAN":
        return None
    return "gamma_in" if cfg["gamma_in_sampling"] else "log_m2l"


def check_draw(rec, inp):
    cfg, kw_kin, kw_lens = inp["cfg"], inp["kw_kin"], inp["kw_lens"]
    tag = "%s/%s" % (cfg["model"], cfg["dist"])
    try:
        L = build_lens(cfg)
    except Exception as e:
        rec.check(False, "C09:construct:" + tag, "LensLikelihood with a valid scaling grid could not be built",
                  inp, "%s: %s" % (type(e).__name__, e), "constructed")
        return
    bounds = ref_bounds(cfg)
    # --- hand-over of the ranges --------------------------------------------------------------------
    kmin, kmax = L.param_bounds_interpol()
    okb = set(kmin) == set(bounds) == set(kmax) and all(
        float(kmin[n]) == bounds[n][0] and float(kmax[n]) == bounds[n][1] for n in bounds)
    rec.check(okb, "C09:bounds_handover", "param_bounds_interpol != per-axis min/max of the interpolation axes", inp,
              [kmin, kmax], bounds)
    ani, lens = L._aniso_distribution, L._lens_distribution
    np.random.seed(int(inp["np_seed"]))
    for k in range(int(inp["ndraw"])):
        for which, sim, lib in (("lens", lambda: sim_lens(cfg, bounds, kw_lens), lambda: lens.draw_lens(**kw_lens)),
                                ("ani", lambda: sim_aniso(cfg, bounds, kw_kin), lambda: ani.draw_anisotropy(**kw_kin))):
            s0 = np.random.get_state()
            try:
                ref, rs, got, gs = run_both(sim, lib, s0)
            except LowAcceptance:
                rec.tally("skipped:low_acceptance")
                return
            inp_k = dict(inp, draw_index=k, which=which)
            if isinstance(ref, tuple):  # reference says: mean outside the range -> ValueError
                p = ref[1]
                good = isinstance(got, tuple) and got[0] == "ValueError"
                rec.check(good, "C09:mean_outside_no_error:" + p,
                          "population mean outside the grid range did not raise ValueError", inp_k, got, "ValueError")
                if good and p == first_checked(cfg, which):
                    rec.check(same_state(gs, s0), "C09:mean_check_consumed_stream:" + p,
                              "ValueError for an out-of-range mean was raised after drawing from np.random", inp_k,
                              "np.random state advanced", "state unchanged")
                continue
            if isinstance(got, tuple):
                rec.check(False, "C09:raised:%s:%s" % (which, got[0]),
                          "draw with an in-range mean raised", inp_k, got, ref)
                continue
            names = ["a_ani", "beta_inf"] if which == "ani" else ["gamma_in", "log_m2l"]
            # range (independent of the replay)
            for n in names:
                if n in got and n in bounds and (which == "lens" or cfg["ani_sampling"]):
                    lo, hi = bounds[n]
                    rec.check(lo <= got[n] <= hi, "C09:range:" + n, "drawn value outside the interpolation range",
                              inp_k, got[n], [lo, hi])
            # first in-range proposal of the stream
            same_keys = set(got) == set(ref) or (which == "lens" and set(ref) <= set(got))
            rec.check(same_keys, "C09:keys:" + which, "returned parameter names differ", inp_k, sorted(got), sorted(ref))
            for n in ref:
                if n in got:
                    okv = ulp_eq(got[n], ref[n], scale=max(abs(v) for v in list(bounds.get(n, (1, 1))) if abs(v) < INF))
                    kind = "resample" if n in names else "passthrough"
                    rec.check(okv, "C09:%s:%s:%s" % (kind, tag if which == "ani" else cfg.get(n + "_dist", "-"), n),
                              "returned value is not the first in-range proposal mean + scale*z_k of the stream",
                              inp_k, got[n], ref[n])
            rec.check(same_state(gs, rs), "C09:stream_position:" + which,
                      "np.random stream position after the draw differs from sequential rejection sampling", inp_k,
                      "pos %s" % (gs[2],), "pos %s" % (rs[2],))
    # --- whole likelihood path: no draw may leave the grid (the >=2-d interpolant raises there) --------
    np.random.seed(int(inp["np_seed"]) + 1)
    s0 = np.random.get_state()
    expect_err = False
    for sim in (lambda: sim_lens(cfg, bounds, kw_lens), lambda: sim_aniso(cfg, bounds, kw_kin)):
        try:
            sim()
        except ValueError:
            expect_err = True
        except LowAcceptance:
            return
    np.random.set_state(s0)
    try:
        v = L.lens_log_likelihood(cosmo(), kwargs_lens=dict(kw_lens), kwargs_kin=dict(kw_kin))
        got = fscalar(v)
    except Exception as e:
        got = (type(e).__name__, str(e)[:80])
    if expect_err:
        rec.check(isinstance(got, tuple) and got[0] == "ValueError", "C09:fullpath:mean_outside_no_error",
                  "lens_log_likelihood with a population mean outside the grid did not raise ValueError", inp, got,
                  "ValueError")
    else:
        rec.check(not isinstance(got, tuple) and got == got, "C09:fullpath:raised",
                  "lens_log_likelihood raised / NaN although all means are inside the grid", inp, got, "a number")


# ------------------------------------------------------------------------------------------------------
def check_law(rec, inp):
    """support only: the first-accept identity already pins the law for an i.i.d. stream"""
    cfg, kw_kin, kw_lens = inp["cfg"], inp["kw_kin"], inp["kw_lens"]
    L = build_lens(cfg)
    bounds = ref_bounds(cfg)
    ani, lens = L._aniso_distribution, L._lens_distribution
    np.random.seed(int(inp["np_seed"]))
    n = int(inp["ndraw"])
    cols = {}
    try:
        for k in range(n):
            d = dict(lens.draw_lens(**kw_lens))
            d.update(ani.draw_anisotropy(**kw_kin))
            for p in inp["params"]:
                cols.setdefault(p, []).append(d[p])
    except Exception as e:
        rec.check(False, "C09:law:raised:" + type(e).__name__, "drawing with in-range means raised", inp,
                  "%s: %s" % (type(e).__name__, str(e)[:80]), "draws")
        return
    prop = cfg.get("lambda_scaling_property", 0)
    for p in inp["params"]:
        x = np.array(cols[p], dtype=float)
        lo, hi = bounds[p]
        if p == "a_ani":
            loc = kw_kin["a_ani"]
            sc = kw_kin["a_ani_sigma"] * (loc if cfg["dist"] == "GAUSSIAN_SCALED" else 1.)
        elif p == "beta_inf":
            loc, sc = kw_kin["beta_inf"], kw_kin["beta_inf_sigma"]
        elif p == "gamma_in":
            loc = kw_lens["gamma_in"] + (kw_lens.get("alpha_gamma_in", 0) * prop if cfg["gamma_in_dist"] == "GAUSSIAN" else 0)
            sc = kw_lens["gamma_in_sigma"]
        else:
            loc, sc = kw_lens["log_m2l"] + kw_lens.get("alpha_log_m2l", 0) * prop, kw_lens["log_m2l_sigma"]
        a, b = (lo - loc) / sc, (hi - loc) / sc
        tag = "%s/%s:%s" % (cfg["model"], cfg["dist"], p)
        ks = st.kstest(x, st.truncnorm(a, b, loc=loc, scale=sc).cdf)
        # threshold 1e-6: false-alarm probability per test on a correct tree; a clipped or mis-scaled law gives
        # D >= 0.05 at n >= 2000, i.e. p < 1e-8
        rec.check(ks.pvalue > 1e-6, "C09:law:ks:" + tag,
                  "draws are not distributed as the Gaussian truncated to the grid range", dict(inp, param=p),
                  dict(D=ks.statistic, p=ks.pvalue), "KS p > 1e-6 vs truncnorm")
        rec.check(not np.any((x == lo) | (x == hi)), "C09:law:atom:" + tag,
                  "draws sit exactly on a range bound (clipping)", dict(inp, param=p),
                  int(np.sum((x == lo) | (x == hi))), 0)
        outside = st.norm.cdf(a) + st.norm.sf(b)
        if outside > 0.2:
            clip_cdf = lambda t: np.where(t < lo, 0., np.where(t >= hi, 1., st.norm.cdf(t, loc, sc)))
            ks2 = st.kstest(x, clip_cdf)
            # D >= max(mass below lo, mass above hi) >= 0.1  ->  p <= 2 exp(-2 n D^2) < 1e-17 for n = 2000
            rec.check(ks2.pvalue < 1e-6, "C09:law:clip_alt:" + tag,
                      "draws are compatible with the clipped Gaussian", dict(inp, param=p),
                      dict(D=ks2.statistic, p=ks2.pvalue), "clipped law rejected")
        # unbounded-Gaussian alternative (dropped truncation) is covered by C09:range


# ------------------------------------------------------------------------------------------------------
def make_los(inp):
    from hierarc.Sampling.Distributions.los_distributions import LOSDistribution
    kwi = inp.get("kwargs_individual")
    if kwi is not None:
        kwi = {k: (np.array(v, dtype=float) if isinstance(v, list) else v) for k, v in kwi.items()}
    return LOSDistribution(global_los_distribution=inp["global"], los_distributions=inp.get("los_distributions"),
                           individual_distribution=inp.get("individual"), kwargs_individual=kwi)


def gev_ppf(u, xi, loc, scale):
    y = -np.log(u)
    if xi == 0:
        return loc - scale * np.log(y)
    return loc + scale * (1 - y ** xi) / xi


def gev_cdf(x, xi, loc, scale):
    t = (np.asarray(x, dtype=float) - loc) / scale
    if xi == 0:
        return np.exp(-np.exp(-t))
    w = 1 - xi * t
    with np.errstate(invalid="ignore", divide="ignore"):
        v = np.exp(-np.where(w > 0, w, 0.) ** (1. / xi))
    return np.where(w > 0, v, 1. if xi > 0 else 0.)


def check_los(rec, inp):
    """global GAUSSIAN / GEV and individual GEV draws against the np.random stream"""
    D = make_los(inp)
    kl, n, sd = inp["kwargs_los"], int(inp["size"]), int(inp["np_seed"])
    np.random.seed(sd)
    try:
        x = np.asarray(D.draw_los(kl, size=n), dtype=float)
    except Exception as e:
        rec.check(False, "C09:los:raised", "draw_los raised", inp, "%s: %s" % (type(e).__name__, e), "draws")
        return
    if inp.get("individual") == "GEV" and not (isinstance(inp["global"], int) and inp["global"] is not False):
        law, p = "GEV", inp["kwargs_individual"]
    else:
        g = inp["global"]
        law, p = inp["los_distributions"][g], kl[g]
    rec.check(x.shape == (n,), "C09:los:shape", "draw_los(size=n) does not return n draws", inp, x.shape, n)
    np.random.seed(sd)
    if law == "GAUSSIAN":
        ref = p["mean"] + p["sigma"] * np.random.standard_normal(n)
        rec.check(rec.close(x, ref, rtol=1e-13, atol=1e-15), "C09:los:gauss",
                  "Gaussian kappa draw != mean + sigma*z_k of the stream", inp, x[:4], ref[:4])
    else:
        u = np.random.uniform(size=n)
        ref = gev_ppf(u, p["xi"], p["mean"], p["sigma"])
        # scipy evaluates the same closed form through expm1/log1p: 1e-9 relative covers the cancellation in
        # (1 - y**xi)/xi for |xi| >= 1e-3
        rec.check(rec.close(x, ref, rtol=1e-9, atol=1e-12), "C09:los:gev",
                  "GEV kappa draw != mean + sigma*(1-(-ln u_k)^xi)/xi of the stream", inp, x[:4], ref[:4])
        if n >= 500 and p["sigma"] > 0:
            ks = st.kstest(x, lambda t: gev_cdf(t, p["xi"], p["mean"], p["sigma"]))
            rec.check(ks.pvalue > 1e-6, "C09:los:gev_law", "GEV draws fail KS against the closed-form GEV CDF", inp,
                      dict(D=ks.statistic, p=ks.pvalue), "p > 1e-6")


def ref_cdf(edges, pdf):
    c = np.concatenate([[0.], np.cumsum(np.asarray(pdf, dtype=float))])
    return c / c[-1]


def ref_inverse(p, cdf, edges):
    """piecewise-linear inverse CDF written out (uniform inside a bin)"""
    out = np.empty(len(p))
    for j, q in enumerate(p):
        i = int(np.searchsorted(cdf, q, side="right")) - 1
        i = min(max(i, 0), len(cdf) - 2)
        while cdf[i + 1] == cdf[i] and i < len(cdf) - 2:
            i += 1
        w = cdf[i + 1] - cdf[i]
        out[j] = edges[i] + (q - cdf[i]) / w * (edges[i + 1] - edges[i]) if w > 0 else edges[i]
    return out


def check_pdf(rec, inp):
    from hierarc.Util.distribution_util import PDFSampling, approx_cdf_1d
    edges = np.array(inp["bin_edges"], dtype=inp.get("edges_dtype", "float"))
    pdf = np.array(inp["pdf_array"], dtype=float)
    n, sd = int(inp["size"]), int(inp["np_seed"])
    try:
        cdf, f, finv = approx_cdf_1d(edges, pdf)
        P = PDFSampling(edges, pdf)
        np.random.seed(sd)
        x = np.asarray(P.draw(n), dtype=float)
        if inp.get("via_los", False):
            D = make_los(dict(inp, **{"global": False, "individual": "PDF",
                                      "kwargs_individual": dict(bin_edges=inp["bin_edges"], pdf_array=inp["pdf_array"])}))
            np.random.seed(sd)
            x2 = np.asarray(D.draw_los(None, size=n), dtype=float)
            rec.check(np.array_equal(x, x2), "C09:pdf:los_route", "LOSDistribution('PDF') draws differ from PDFSampling",
                      inp, x2[:4], x[:4])
    except Exception as e:
        rec.check(False, "C09:pdf:raised", "tabulated-PDF sampling raised", inp, "%s: %s" % (type(e).__name__, e), "draws")
        return
    cdf = np.asarray(cdf, dtype=float)
    c0 = ref_cdf(edges, pdf)
    okc = (len(cdf) == len(edges) and cdf[0] == 0 and abs(cdf[-1] - 1) < 1e-12 and np.all(np.diff(cdf) >= 0)
           and rec.close(cdf, c0, rtol=1e-12, atol=1e-14))
    rec.check(okc, "C09:pdf:cdf", "approx_cdf_1d is not the monotone cumulative normalised histogram from 0 to 1",
              inp, cdf, c0)
    rec.check(x.shape == (n,) and np.all(x >= edges[0]) and np.all(x <= edges[-1]), "C09:pdf:range",
              "tabulated-PDF draws leave [bin_edges[0], bin_edges[-1]]", inp, [np.min(x), np.max(x)],
              [edges[0], edges[-1]])
    np.random.seed(sd)
    p = np.random.uniform(0, 1, n)
    ref = ref_inverse(p, c0, edges.astype(float))
    rec.check(rec.close(x, ref, rtol=1e-10, atol=1e-12 * max(1., np.max(np.abs(edges)))), "C09:pdf:inverse",
              "draw != piecewise-linear inverse CDF at the uniform u_k of the stream", inp, x[:4], ref[:4])
    # function objects: cdf_func at the edges, inverse o cdf = id on bins with mass
    try:
        fe = np.asarray(f(edges), dtype=float)
        mids = np.array([(edges[i] + edges[i + 1]) / 2. for i in range(len(pdf)) if pdf[i] > 0])
        back = np.asarray(finv(f(mids)), dtype=float)
        okf = rec.close(fe, c0, rtol=1e-12, atol=1e-14) and rec.close(back, mids, rtol=1e-9, atol=1e-12)
        rec.check(okf, "C09:pdf:cdf_func", "cdf function / inverse function are not mutually inverse interpolants",
                  inp, [fe, back], [c0, mids])
    except Exception as e:
        rec.check(False, "C09:pdf:cdf_func", "cdf functions raised inside the bin range", inp, str(e), "values")
    if n >= 2000:
        # exact two-sided binomial tail per bin; threshold 1e-9: false alarm < 3e-8 per case (<= 30 bins)
        pr = np.diff(c0)
        h = np.histogram(x, bins=edges.astype(float))[0]
        tail = np.minimum(st.binom.cdf(h, n, pr), st.binom.sf(h - 1, n, pr))
        rec.check(np.all(tail[pr > 0] > 1e-9) and np.all(h[pr == 0] == 0), "C09:pdf:law",
                  "bin frequencies of the draws do not follow the tabulated PDF", inp, h / n, pr)


def check_draw_bool(rec, inp):
    D = make_los(inp)
    kl = inp["kwargs_los"]
    glob = isinstance(inp["global"], int) and inp["global"] is not False
    if glob:
        expect = kl[inp["global"]]["sigma"] != 0
    else:
        expect = inp.get("individual") is not None
    try:
        got = D.draw_bool(kl)
        np.random.seed(int(inp["np_seed"]))
        a = np.asarray(D.draw_los(kl, size=3), dtype=float).ravel()
        np.random.seed(int(inp["np_seed"]) + 7)
        b = np.asarray(D.draw_los(kl, size=3), dtype=float).ravel()
    except Exception as e:
        rec.check(False, "C09:draw_bool:raised", "draw_bool / draw_los raised", inp, "%s: %s" % (type(e).__name__, e))
        return
    rec.check(got is expect or got == expect, "C09:draw_bool:table",
              "draw_bool differs from (individual distribution) or (global distribution with sigma != 0)", inp, got, expect)
    varies = not (np.array_equal(a, b) and np.all(a == a.flat[0]))
    rec.check(bool(got) == varies, "C09:draw_bool:behaviour",
              "draw_bool is False although draws vary with the stream, or True although they are constant", inp,
              dict(draw_bool=got, draws=[a, b]), "False <=> degenerate")
    if not expect:
        const = kl[inp["global"]]["mean"] if glob else 0
        rec.check(np.all(a == const) and np.all(b == const), "C09:draw_bool:degenerate_value",
                  "degenerate line-of-sight draw is not the declared constant", inp, a, const)


CHECKS = dict(draw=check_draw, law=check_law, los=check_los, pdf=check_pdf, draw_bool=check_draw_bool)


# ------------------------------------------------------------------------------------------------------
# generators
# ------------------------------------------------------------------------------------------------------
def gen_axis(rng, name, model, nd):
    lo, hi = AX_RANGE["a_ani_const" if (name == "a_ani" and model == "const") else name]
    n = int(rng.integers(2, 6))
    a, b = np.sort(rng.uniform(lo, hi, 2))
    if b - a < 0.15 * (hi - lo):
        a, b = lo + 0.1 * (hi - lo), hi - 0.1 * (hi - lo)
    inner = np.sort(rng.uniform(a, b, n - 2)) if n > 2 else np.array([])
    ax = np.concatenate([[a], inner, [b]])
    ax = np.unique(np.round(ax, 6))
    if len(ax) < 2:
        ax = np.array([round(a, 6), round(b, 6)])
    mode = rng.integers(0, 3)
    if nd == 1 and mode == 0:
        ax = rng.permutation(ax)  # interp1d sorts itself: min/max != first/last
    elif mode == 1:
        ax = ax[::-1]  # regular-grid interpolant accepts strictly descending axes
    return [float(v) for v in ax]


def accept_prob(loc, sc, lo, hi):
    if sc <= 0:
        return 1.0 if lo <= loc <= hi else 0.0
    return float(st.norm.cdf((hi - loc) / sc) - st.norm.cdf((lo - loc) / sc))


def gen_case(rng, model, dist, regime, outside=None, law=False):
    """regime: 'narrow' (sigma << range), 'wide' (sigma >= range), 'zero', 'mixed'"""
    names = list(ANI_PARAMS[model])
    gi = bool(rng.integers(0, 2)) or law
    ml = bool(rng.integers(0, 2))
    if gi:
        names.append("gamma_in")
    if ml:
        names.append("log_m2l")
    in_grid = list(names)
    u = rng.uniform()
    if u < 0.12 and not law:
        in_grid = []  # no scaling grid at all: unbounded ranges
    elif u < 0.3 and len(names) > 1 and not law:
        in_grid = [n for n in names if rng.uniform() < 0.6] or [names[0]]
    if len(in_grid) > 3:
        in_grid = in_grid[:3] if rng.uniform() < .5 else in_grid
    in_grid = [str(n) for n in rng.permutation(in_grid)] if in_grid else []
    axes = [gen_axis(rng, n, model, len(in_grid)) for n in in_grid]
    cfg = dict(model=model, dist=dist, ani_sampling=bool(rng.uniform() < 0.9) or law, names=in_grid, axes=axes,
               nbins=int(rng.integers(1, 4)), grid_seed=int(rng.integers(0, 2 ** 31)),
               axes_as_array=bool(rng.integers(0, 2)),
               gamma_in_sampling=gi, gamma_in_dist=str(rng.choice(["GAUSSIAN", "GAUSSIAN", "NONE"])) if not law else "GAUSSIAN",
               log_m2l_sampling=ml, log_m2l_dist=str(rng.choice(["GAUSSIAN", "NONE"])),
               lambda_mst_dist=str(rng.choice(["NONE", "NONE", "GAUSSIAN"])), mst_ifu=bool(rng.uniform() < 0.2),
               lambda_scaling_property=float(rng.choice([0, 0, 0.3, -0.5])), ndd=int(rng.integers(2, 6)))
    bounds = {n: (min(a), max(a)) for n, a in zip(in_grid, axes)}

    def pick(name, scaled=False):
        lo, hi = bounds.get(name, AX_RANGE["a_ani_const" if (name == "a_ani" and model == "const") else name])
        w = hi - lo
        pos = rng.uniform()
        mean = lo + w * rng.uniform(0.05, 0.95)
        if pos < 0.12 and name in bounds and not law:
            mean = lo if rng.uniform() < .5 else hi  # exactly on the boundary: allowed
        r = regime if regime != "mixed" else str(rng.choice(["narrow", "wide", "zero"]))
        sc = dict(narrow=w * rng.uniform(0.01, 0.08), wide=w * rng.uniform(0.7, 3.0), zero=0.0)[r]
        if name in bounds:
            while accept_prob(mean, sc, lo, hi) < 0.22:
                sc *= 0.7
        sig = sc / mean if (scaled and mean != 0) else sc
        return float(mean), float(abs(sig))

    a, sa = pick("a_ani", scaled=(dist == "GAUSSIAN_SCALED"))
    if dist == "GAUSSIAN_TAN_RAD":
        # a_ani is sigma_t/sigma_r here, the draw 1-(.)^2 is compared with the a_ani range as coded
        lo, hi = bounds.get("a_ani", (-0.49, 1.0))
        a = float(min(max(math.sqrt(max(1 - (lo + hi) / 2., 0.)), lo), hi))
        sa = float(0.05 * rng.uniform(0.2, 1))
    b, sb = pick("beta_inf")
    g, sg = pick("gamma_in")
    m, sm = pick("log_m2l")
    kw_kin = dict(a_ani=a, a_ani_sigma=sa)
    if model == "GOM" or rng.uniform() < 0.2:
        kw_kin.update(beta_inf=b, beta_inf_sigma=sb)
    if model == "NONE" and rng.uniform() < 0.5:
        kw_kin = {}
    kw_lens = dict(lambda_mst=float(rng.uniform(0.9, 1.1)), lambda_mst_sigma=float(rng.choice([0, 0.05])),
                   lambda_ifu=float(rng.uniform(0.9, 1.1)), lambda_ifu_sigma=float(rng.choice([0, 0.03])),
                   gamma_ppn=1.0, gamma_in=g, gamma_in_sigma=sg, log_m2l=m, log_m2l_sigma=sm)
    if cfg["lambda_scaling_property"] != 0:
        kw_lens.update(alpha_gamma_in=float(rng.uniform(-0.05, 0.05)), alpha_log_m2l=float(rng.uniform(-0.05, 0.05)),
                       alpha_lambda=float(rng.uniform(-0.05, 0.05)))
        for n, al in (("gamma_in", "alpha_gamma_in"), ("log_m2l", "alpha_log_m2l")):
            if n in bounds:  # the lens-specific mean mean+alpha*property may leave the range: keep acceptance sane
                loc = kw_lens[n] + kw_lens[al] * cfg["lambda_scaling_property"]
                if accept_prob(loc, kw_lens[n + "_sigma"], bounds[n][0], bounds[n][1]) < 0.2:
                    kw_lens[al] = 0.0
    if outside is not None:
        cand = [n for n in bounds if (n in ANI_PARAMS[model] and cfg["ani_sampling"]) or (n == "gamma_in" and gi) or (n == "log_m2l" and ml)]
        if cand:
            n = str(rng.choice(cand))
            lo, hi = bounds[n]
            eps = dict(tiny=1e-9 * max(abs(lo), abs(hi), 1e-3), small=0.01 * (hi - lo), large=3 * (hi - lo) + 1.)[outside]
            val = float(hi + eps if rng.uniform() < .5 else lo - eps)
            (kw_kin if n in ("a_ani", "beta_inf") else kw_lens)[n] = val
            cfg["outside"] = n
    return cfg, kw_kin, kw_lens


def run(rec, args):
    quick = args.tier == "quick"
    rng = rng_of(args.seed, 9)
    models = ["OM", "GOM", "const", "NONE"]
    dists = ["GAUSSIAN", "GAUSSIAN_SCALED", "NONE", "GAUSSIAN_TAN_RAD"]
    reps = 6 if quick else 40
    ndraw = 60 if quick else 150
    # --- draw -----------------------------------------------------------------------------------------
    for model in models:
        for dist in dists:
            if dist == "GAUSSIAN_SCALED" and model not in ("OM", "GOM"):
                continue
            if dist == "GAUSSIAN_TAN_RAD" and model != "const":
                continue
            for regime in ["narrow", "wide", "zero", "mixed"]:
                for r in range(reps):
                    cfg, kk, kl = gen_case(rng, model, dist, regime)
                    inp = dict(check="draw", cfg=cfg, kw_kin=kk, kw_lens=kl, np_seed=int(rng.integers(0, 2 ** 31)),
                               ndraw=ndraw if regime != "zero" else 5)
                    rec.case(inp, nontrivial=(regime != "zero"), kind="draw:%s/%s/%s" % (model, dist, regime))
                    rec.guard(check_draw, rec, inp)
            for outside in ["tiny", "small", "large"]:
                for r in range(reps):
                    cfg, kk, kl = gen_case(rng, model, dist, "mixed", outside=outside)
                    inp = dict(check="draw", cfg=cfg, kw_kin=kk, kw_lens=kl, np_seed=int(rng.integers(0, 2 ** 31)), ndraw=3)
                    rec.case(inp, nontrivial=("outside" in cfg), kind="mean_outside:%s/%s" % (model, cfg.get("outside", "none")))
                    rec.guard(check_draw, rec, inp)
    # --- law (support) --------------------------------------------------------------------------------
    nlaw = 2000 if quick else 8000
    for model, dist in [("OM", "GAUSSIAN"), ("OM", "GAUSSIAN_SCALED"), ("GOM", "GAUSSIAN"), ("GOM", "GAUSSIAN_SCALED"),
                        ("const", "GAUSSIAN")] + ([] if quick else [("OM", "GAUSSIAN"), ("GOM", "GAUSSIAN")]):
        cfg, kk, kl = gen_case(rng, model, dist, "wide", law=True)
        params = [p for p in cfg["names"] if p != "log_m2l" or kl["log_m2l_sigma"] > 0]
        params = [p for p in params if (kk.get(p + "_sigma", 0) if p in ("a_ani", "beta_inf") else kl.get(p + "_sigma", 0)) > 0]
        inp = dict(check="law", cfg=cfg, kw_kin=kk, kw_lens=kl, np_seed=int(rng.integers(0, 2 ** 31)), ndraw=nlaw, params=params)
        rec.case(inp, kind="law:%s/%s" % (model, dist))
        rec.guard(check_law, rec, inp)
    # --- LOS ------------------------------------------------------------------------------------------
    nlos = 12 if quick else 60
    for r in range(nlos):
        nl = int(rng.integers(1, 4))
        dl = [str(rng.choice(["GAUSSIAN", "GEV"])) for _ in range(nl)]
        kls = []
        for d in dl:
            k = dict(mean=float(rng.normal(0, 0.05)), sigma=float(rng.uniform(0.005, 0.1)))
            if d == "GEV":
                k["xi"] = float(rng.choice([-0.3, -0.1, 0.05, 0.2, 0.5, rng.uniform(-0.4, 0.4)]))
            kls.append(k)
        g = int(rng.integers(0, nl))
        size = int(rng.choice([1, 7, 600]))
        inp = dict(check="los", los_distributions=dl, kwargs_los=kls, size=size, np_seed=int(rng.integers(0, 2 ** 31)))
        inp["global"] = g
        rec.case(inp, kind="los:global/%s" % dl[g])
        rec.guard(check_los, rec, inp)
    for r in range(max(3, nlos // 3)):
        inp = dict(check="los", los_distributions=None, kwargs_los=None, size=int(rng.choice([1, 5, 600])),
                   np_seed=int(rng.integers(0, 2 ** 31)), individual="GEV",
                   kwargs_individual=dict(xi=float(rng.uniform(-0.4, 0.4)), mean=float(rng.normal(0, .05)),
                                          sigma=float(rng.uniform(0.005, 0.1))))
        inp["global"] = False
        rec.case(inp, kind="los:individual/GEV")
        rec.guard(check_los, rec, inp)
    # --- PDF ------------------------------------------------------------------------------------------
    for r in range(10 if quick else 50):
        nb = int(rng.integers(1, 30))
        lo = float(rng.uniform(-0.3, 0.1))
        edges = lo + np.concatenate([[0.], np.cumsum(rng.uniform(0.002, 0.05, nb))])
        style = str(rng.choice(["dense", "sparse", "counts", "spike"]))
        if style == "dense":
            pdf = rng.uniform(0.01, 1, nb)
        elif style == "sparse":
            pdf = rng.uniform(0, 1, nb) * (rng.uniform(size=nb) < 0.6)
            pdf[int(rng.integers(0, nb))] = 0.5
        elif style == "counts":
            pdf = rng.integers(0, 50, nb).astype(float)
            pdf[int(rng.integers(0, nb))] += 3
        else:
            pdf = np.zeros(nb)
            pdf[int(rng.integers(0, nb))] = float(rng.uniform(0.1, 9))
        inp = dict(check="pdf", bin_edges=[float(v) for v in edges], pdf_array=[float(v) for v in pdf],
                   size=int(rng.choice([1, 50, 4000])), np_seed=int(rng.integers(0, 2 ** 31)), via_los=bool(rng.integers(0, 2)))
        rec.case(inp, kind="pdf:%s" % style)
        rec.guard(check_pdf, rec, inp)
    if args.focus == "int_edges":  # not part of the default run: see the report (integer-typed bin edges)
        inp = dict(check="pdf", bin_edges=[0, 1, 2, 3, 4], edges_dtype="int", pdf_array=[1., 2., 3., 4.], size=50, np_seed=1)
        rec.case(inp, kind="pdf:int_edges")
        rec.guard(check_pdf, rec, inp)
    # --- draw_bool truth table --------------------------------------------------------------------------
    edges = [-0.1, 0.0, 0.1, 0.25]
    pdfv = [1., 3., 2.]
    ind_opts = [None, ("PDF", dict(bin_edges=edges, pdf_array=pdfv)), ("GEV", dict(xi=0.1, mean=0.01, sigma=0.04))]
    for glob in [False, 0, 1]:
        for ind in ind_opts:
            for sig in [0, 0.0, 0.07, 1e-3]:
                for law in ["GAUSSIAN", "GEV"]:
                    other = "GEV" if law == "GAUSSIAN" else "GAUSSIAN"
                    dl = [other, law] if glob == 1 else [law, other]
                    kls = [dict(mean=0.02, sigma=0.5, xi=0.1), dict(mean=0.02, sigma=0.5, xi=0.1)]
                    if glob is not False:
                        kls[glob] = dict(mean=float(rng.normal(0, .05)), sigma=sig, xi=0.1)
                    inp = dict(check="draw_bool", los_distributions=dl, kwargs_los=kls if (glob is not False or rng.uniform() < .5) else None,
                               individual=None if ind is None else ind[0], kwargs_individual=None if ind is None else ind[1],
                               np_seed=int(rng.integers(0, 2 ** 31)))
                    inp["global"] = glob
                    rec.case(inp, nontrivial=True, kind="draw_bool:%s/%s/sigma%s0" % (
                        "global" if glob is not False else "noglobal", "none" if ind is None else ind[0], "=" if sig == 0 else "!="))
                    rec.guard(check_draw_bool, rec, inp)


def main():
    args = parse_args("C09")
    rec = Recorder("C09", args.tier, args.seed,
                   "draws in [min,max] of the interpolation axes; mean outside -> ValueError; value == first in-range "
                   "proposal of the np.random stream; LOS laws; draw_bool False <=> degenerate")
    if args.replay:
        with open(args.replay) as f:
            r = unjson(json.load(f))
        inp = r["input"]
        inp.pop("draw_index", None)
        inp.pop("which", None)
        inp.pop("param", None)
        rec.case(inp, kind="replay")
        rec.guard(CHECKS[inp["check"]], rec, inp)
    else:
        rec.guard(run, rec, args)
    out = rec.write(args.out)
    print("C09 %s seed=%d: %d cases, %d violations %s, %d errors, %.1fs" % (
        args.tier, args.seed, out["evaluations"], len(out["violations"]), sorted(out["violation_counts"]), len(out["errors"]), out["wall_s"]))


if __name__ == "__main__":
    main()
