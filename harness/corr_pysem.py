#!/venv/bin/python
"""PySem-versus-CPython correspondence (DESIGN Appendix J).

For a property Cxx, harness/pysem_cases/Cxx.py yields cases: a serialised function (class, method) of this property's Src.v, a REAL
receiver object, concrete positional/keyword arguments (short decimals) and a list of raw normal variates.  For every case this script
  1. prints receiver and arguments as PyVal terms (objects by their __dict__, numpy arrays as VArr, floats as exact decimals),
  2. runs the real method in CPython (np.random.normal replaced by loc + scale * z_k over the given variates) and prints the
     observed result (or exception kind) as a PyVal term,
  3. emits a Coq lemma  corr_ok (fun ds => call G fuel (CFun src_f) self args kws (World (stream zs) 0 [] ds [])) observed draws tol
     over a function environment G generated from the property's spec (method resolution by the real classes' MRO),
and coqc checks the lemmas (coq/Base/Corr.v: answers found by interrogating the interpreter, closeness certified by Interval).
A lemma that fails is reported as a mismatch {case, lemma, coq error}: PySem's reading of the source and CPython disagree.
"""
import os, sys, json, time, subprocess, argparse, importlib, inspect, re, math, traceback
from decimal import Decimal
sys.path.insert(0, os.path.dirname(os.path.abspath(__file__)))
import numpy as np

VERIF = os.path.dirname(os.path.dirname(os.path.abspath(__file__)))
BASE = os.path.join(VERIF, "coq", "Base")
REPO = os.environ.get("HIERARC_REPO", "/repo")


def q(s):
    return '"' + s.replace('"', '""') + '"'


def coq_real(x):
    d = Decimal(repr(float(x)))
    s, digits, e = d.as_tuple()
    m = int("".join(map(str, digits))) * (-1 if s else 1)
    if e < 0:
        return "(%d / %d)" % (m, 10 ** (-e)) if m >= 0 else "(- (%d / %d))" % (-m, 10 ** (-e))
    v = m * 10 ** e
    return "%d" % v if v >= 0 else "(- %d)" % (-v)


def coq_z(n):
    return "(%d)" % n


def src_name(cls, fn):
    return "src_%s_%s" % (cls or "fn", fn.strip("_") if fn != "__init__" else "init")


class Enc:
    """Python value -> PyVal term (text). Objects of hierarc classes are records of their __dict__; anything unknown is an opaque object."""
    def __init__(self):
        self.classes = {}
        self.opaque = []

    def num(self, x):
        x = float(x)
        if math.isnan(x): return "(VNum NaN)"
        if math.isinf(x): return "(VNum PosInf)" if x > 0 else "(VNum NegInf)"
        return "(VNum (Fin %s))" % coq_real(x)

    def val(self, x, depth=0):
        if depth > 12: raise ValueError("value too deep")
        if x is None: return "VNone"
        if isinstance(x, (bool, np.bool_)): return "(VBool %s)" % ("true" if x else "false")
        if isinstance(x, (int, np.integer)): return "(VInt %s)" % coq_z(int(x))
        if isinstance(x, (float, np.floating)): return self.num(x)
        if isinstance(x, str): return "(VStr %s)" % q(x)
        if type(x).__module__.startswith("astropy") and hasattr(x, "unit") and hasattr(x, "value"):     # a Quantity (an ndarray subclass)
            return "(VObj \"<Quantity>\" [(\"value\", %s)])" % self.val(np.asarray(x.value), depth + 1)
        if isinstance(x, np.ndarray):
            if x.ndim == 0: return self.val(x.item(), depth + 1)
            if x.ndim == 1: return "(VArr [%s])" % "; ".join(self.val(v, depth + 1) for v in x)
            def rows(a, dd):
                if a.ndim == 1: return "VList [%s]" % "; ".join(self.val(v, dd) for v in a)
                return "VList [%s]" % "; ".join(rows(r, dd) for r in a)
            return "(VArr [%s])" % "; ".join(rows(r, depth + 2) for r in x)
        if isinstance(x, list): return "(VList [%s])" % "; ".join(self.val(v, depth + 1) for v in x)
        if isinstance(x, tuple): return "(VTuple [%s])" % "; ".join(self.val(v, depth + 1) for v in x)
        if isinstance(x, dict): return "(VDict [%s])" % "; ".join("(%s, %s)" % (self.val(k, depth + 1), self.val(v, depth + 1)) for k, v in x.items())
        if inspect.ismethod(x) and type(x.__self__).__module__.startswith("hierarc"):     # a bound method as a value (PySem's representation)
            return "(VObj \"<bound method>\" [(\"self\", %s); (\"cls\", (VStr %s)); (\"name\", (VStr %s))])" % (
                self.val(x.__self__, depth + 1), q(type(x.__self__).__name__), q(x.__name__))
        if getattr(type(x), "_is_proxy", False):
            return "(VObj %s [])" % q("<proxy:%s>" % x._px_name)
        t = type(x)
        hk = next((K for K in t.__mro__ if K.__module__.startswith("hierarc")), None)
        if hk is not None and hasattr(x, "__dict__"):
            # (a harness subclass that only stubs external machinery counts as the hierarc class it extends)
            self.classes[hk.__name__] = t
            return "(VObj %s [%s])" % (q(hk.__name__), "; ".join("(%s, %s)" % (q(k), self.val(v, depth + 1)) for k, v in vars(x).items() if not k.startswith("_px_skip")))
        self.opaque.append(t.__name__)
        return "(VObj %s [])" % q("<opaque:%s>" % t.__name__)


CONSTS = {"const.c": 299792458.0}


def snap(x):
    """copy of the containers (arrays, lists, tuples, dicts) of a value at call time: the caller may mutate them in place afterwards"""
    if isinstance(x, np.ndarray) and not type(x).__module__.startswith("astropy"): return x.copy()
    if isinstance(x, list): return [snap(v) for v in x]
    if isinstance(x, tuple) and type(x) is tuple: return tuple(snap(v) for v in x)
    if isinstance(x, dict): return {k: snap(v) for k, v in x.items()}
    return x


class Proxy(object):
    """stands for an external object (astropy cosmology, scipy interpolator, KDE, ...): every method call is forwarded and recorded;
    on the Coq side the object is opaque and each recorded method is a replay oracle"""
    _is_proxy = True
    def __init__(self, obj, name, log):
        object.__setattr__(self, "_px_obj", obj); object.__setattr__(self, "_px_name", name); object.__setattr__(self, "_px_log", log)
    def __getattr__(self, a):
        target = getattr(self._px_obj, a)
        if not callable(target):
            return target
        def call(*args, **kw):
            EXTERNAL[0] += 1
            try:
                r = target(*args, **kw)
            finally:
                EXTERNAL[0] -= 1
            if EXTERNAL[0] > 0: return r
            self._px_log.append(rec_entry("%s.%s" % (self._px_name, a), list(args) + list(kw.values()), r, "<proxy:%s>" % self._px_name, a))
            return r
        return call
    def __call__(self, *args, **kw):
        r = self._px_obj(*args, **kw)
        self._px_log.append(rec_entry("%s.__call__" % self._px_name, list(args) + list(kw.values()), r, "<proxy:%s>" % self._px_name, "__call__"))
        return r


class FunPatch:
    """replace module-level callables (np.linalg.inv, ...) by recording wrappers for the duration of the real run; only calls made
    from hierarc source files are recorded (libraries calling each other are invisible to PySem)"""
    def __init__(self, specs, log, mspecs=()):
        self.specs, self.log, self.saved, self.mspecs = specs, log, [], mspecs
    def __enter__(self):
        for cname, owner, attr in self.mspecs:     # methods of hierarc classes that are NOT serialised for this property: replayed too
            orig = owner.__dict__[attr]
            self.saved.append((owner, attr, orig))
            if isinstance(orig, property):
                def pget(self_, __orig=orig.fget, __tag="%s.%s" % (cname, attr), __c=cname, __a="@" + attr):
                    EXTERNAL[0] += 1
                    try:
                        r = __orig(self_)
                    finally:
                        EXTERNAL[0] -= 1
                    if EXTERNAL[0] > 0: return r
                    self.log.append(rec_entry(__tag, [], r, __c, __a))
                    return r
                setattr(owner, attr, property(pget))
                continue
            f0 = orig.__func__ if isinstance(orig, staticmethod) else orig
            def mwrap(self_, *args, __orig=f0, __tag="%s.%s" % (cname, attr), __c=cname, __a=attr, __static=isinstance(orig, staticmethod), **kw):
                EXTERNAL[0] += 1
                try:
                    r = __orig(*args, **kw) if __static else __orig(self_, *args, **kw)
                finally:
                    EXTERNAL[0] -= 1
                if EXTERNAL[0] > 0: return r      # nested inside another replayed call: invisible to PySem
                self.log.append(rec_entry(__tag, list(args) + list(kw.values()), r, __c, __a))
                return r
            setattr(owner, attr, mwrap)
        for spec in self.specs:
            tag, owner, attr = spec[:3]
            pxname = spec[3] if len(spec) > 3 else None      # the result is itself an external object whose method calls are replayed
            orig = getattr(owner, attr)
            self.saved.append((owner, attr, orig))
            def wrap(*args, __orig=orig, __tag=tag, __px=pxname, **kw):
                EXTERNAL[0] += 1
                try:
                    r = __orig(*args, **kw)
                finally:
                    EXTERNAL[0] -= 1
                if __px is not None:
                    r = Proxy(r, __px, self.log)
                fr = sys._getframe(1)
                if EXTERNAL[0] == 0 and "hierarc" in fr.f_code.co_filename:
                    self.log.append(rec_entry(__tag, list(args) + list(kw.values()), r, None, None))
                return r
            setattr(owner, attr, wrap)
        return self
    def __exit__(self, *a):
        for owner, attr, orig in self.saved:
            setattr(owner, attr, orig)


def load_spec(builddir):
    spec = json.load(open(os.path.join(builddir, "spec.json")))
    items = []      # (module, cls or None, fn)
    for e in spec:
        if e["items"] == "*": continue
        rel = os.path.relpath(e["file"], REPO)
        mod = rel[:-3].replace("/", ".")
        for cls, fn in e["items"]:
            if cls is None and fn.startswith("="): continue
            items.append((mod, cls, fn))
    return items


def build_fenv(items, enc_classes, extra_globals=()):
    """method table keyed by RUNTIME class: for every class of the spec and every class met while encoding, each serialised method
    name resolves to the definition Python's MRO would pick, provided that definition is serialised (otherwise it is left out and
    a call to it gets stuck, i.e. the case fails closed)."""
    ser = {}
    classes = dict(enc_classes)
    for mod, cls, fn in items:
        ser.setdefault((cls, fn), mod)
        if cls is not None:
            try:
                classes.setdefault(cls, getattr(importlib.import_module(mod), cls))
            except Exception:
                pass
    names = sorted({fn for (_, fn) in ser})
    mt = []
    for cname, C in sorted(classes.items()):
        rows = []
        for fn in names:
            for K in C.__mro__:
                if fn in K.__dict__:
                    if (K.__name__, fn) in ser:
                        key = ("@" + fn) if isinstance(K.__dict__[fn], property) else fn
                        rows.append("(%s, CFun %s)" % (q(key), src_name(K.__name__, fn)))
                    break
        mt.append("(%s, [%s])" % (q(cname), "; ".join(rows)))
    gt = []
    for (cls, fn), mod in sorted(ser.items(), key=lambda kv: (str(kv[0][0]), kv[0][1])):
        if cls is None:
            gt.append("(%s, CFun %s)" % (q(fn), src_name(None, fn)))
        elif fn == "__init__":
            gt.append("(%s, CClass %s %s)" % (q(cls), q(cls), src_name(cls, fn)))
            gt.append("(%s, CFun %s)" % (q(cls + ".__init__"), src_name(cls, fn)))        # Base.__init__(self, ...)
    # module-level constants of the spec's modules (lists of names, numbers): looked up as zero-argument oracles
    seen = set()
    enc = Enc()
    for mod in sorted({m for m, _, _ in items}):
        try:
            M = importlib.import_module(mod)
        except Exception:
            continue
        for k, v in vars(M).items():
            if k in seen or k.startswith("__") or not isinstance(v, (list, tuple, int, float, str)) or isinstance(v, bool): continue
            if isinstance(v, (list, tuple)) and not all(isinstance(x, (str, int, float)) for x in v): continue
            seen.add(k)
            gt.append("(%s, COracle (fun _ _ w => Ok (%s, w)))" % (q(k), enc.val(v)))
    for k, v in CONSTS.items():
        gt.append("(%s, COracle (fun _ _ w => Ok (VNum (Fin %s), w)))" % (q(k), coq_real(v)))
    gt += list(extra_globals)
    return "[%s]" % ";\n   ".join(mt), "[%s]" % ";\n   ".join(gt)


CUR_ENC = [None]    # the encoder of the lemma being generated: calls are encoded WHEN THEY HAPPEN (objects may be mutated later)


def rec_entry(tag, args, r, pname, meth):
    e = CUR_ENC[0]
    return (tag, [e.val(x) for x in args], e.val(r), pname, meth)


class HarnessError(Exception):
    """a problem of the generator itself (never a CPython observation)"""


EXTERNAL = [0]      # > 0 while a replayed (external) call is executing: its random draws are not PySem's


class NormalPatch:
    def __init__(self, zs):
        self.zs = list(zs); self.k = 0
    def __enter__(self):
        self.orig = np.random.normal
        def normal(loc=0.0, scale=1.0, size=None):
            if EXTERNAL[0] > 0:
                return self.orig(loc, scale, size)
            if size is not None and size != 1: raise HarnessError("corr_pysem: sized normal draw not modelled")
            if self.k >= len(self.zs): raise HarnessError("corr_pysem: variate stream exhausted")
            z = self.zs[self.k]; self.k += 1
            return loc + scale * z if size is None else np.array([loc + scale * z])
        np.random.normal = normal
        return self
    def __exit__(self, *a):
        np.random.normal = self.orig


def make_lemma(idx, case, items):
    enc = Enc()
    cls, fn = case["target"]
    obj = case.get("obj")
    if obj is not None:           # the definition Python's MRO picks for this receiver
        for K in type(obj).__mro__:
            if fn in K.__dict__ and K.__module__.startswith("hierarc"):
                cls = K.__name__
                break
    enc_self_plain = "VNone" if obj is None else enc.val(obj)
    selfv = "None" if obj is None else "(Some %s)" % enc_self_plain
    args = "[%s]" % "; ".join(enc.val(a) for a in case.get("args", []))
    kws = "[%s]" % "; ".join("(%s, %s)" % (q(k), enc.val(v)) for k, v in case.get("kwargs", {}).items())
    zs = case.get("draws", [])
    calls = case.get("calls_log")
    if calls is None: calls = []
    CUR_ENC[0] = enc
    with NormalPatch(zs) as npatch, FunPatch(case.get("patch", []), calls, case.get("patch_methods", [])):
        try:
            if obj is not None and isinstance(getattr(type(obj), fn, None), property):
                out = getattr(obj, fn)                   # a @property: evaluated by attribute access
            else:
                f = getattr(obj, fn) if obj is not None else case["callable"]
                out = f(*case.get("args", []), **case.get("kwargs", {}))
            exc = None
        except HarnessError:
            raise
        except Exception as e:
            out, exc = None, type(e).__name__
    post = case.get("post")
    if post and exc is None:
        out = post(obj, out)
    tol = case.get("tol", 1e-9)
    # replay tables: per tag the results in call order; function tags go to the globals, proxy methods to the proxy's class
    by_tag, order = {}, []
    for tag, cargs, r, pname, meth in calls:
        by_tag.setdefault(tag, dict(res=[], pname=pname, meth=meth))["res"].append(r)
        order.append("(%s, [%s])" % (q(tag), "; ".join(cargs)))
    gt_case, mt_case = [], {}
    for tag, d in by_tag.items():
        if d["pname"] is None:
            gt_case.append("(%s, replay %s [%s])" % (q(tag), q(tag), "; ".join(d["res"])))
        else:
            mt_case.setdefault(d["pname"], []).append("(%s, replay_m %s [%s])" % (q(d["meth"]), q(tag), "; ".join(d["res"])))
    for dc, dm in case.get("declare_methods", []):
        mt_case.setdefault(dc, []).append("(%s, replay_m %s [])" % (q(dm), q("%s.%s" % (dc, dm))))
    genv = "(mk_fenv ([%s] ++ MT) ([%s] ++ GT))" % ("; ".join("(%s, [%s])" % (q(c), "; ".join(r)) for c, r in mt_case.items()), "; ".join(gt_case))
    if case.get("observe_self"):
        # a method that mutates its receiver: the body is run with the parameters bound as given and the receiver AS IT IS WHEN THE BODY
        # ENDS is the observed value (Tactics.run_method); CPython's counterpart is the object after the call
        binds = "[%s]" % "; ".join("(%s, %s)" % (q(k), enc.val(v)) for k, v in case.get("bind", {}).items())
        mk = "(fun ds => run_method %s %d %s %s %s (World (stream [%s]) 0 [] ds []))" % (
            genv, case.get("fuel", 300), src_name(cls, fn), enc_self_plain, binds, "; ".join(coq_real(z) for z in zs))
    else:
        mk = "(fun ds => call %s %d (CFun %s) %s %s %s (World (stream [%s]) 0 [] ds []))" % (
            genv, case.get("fuel", 300), src_name(cls, fn), selfv, args, kws, "; ".join(coq_real(z) for z in zs))
    if exc is not None:
        stmt = "corr_exc %s %s" % (mk, q(exc))
        obs = "raises " + exc
    elif calls:
        stmt = "corr_ok_log %s %s %d %s [%s]" % (mk, enc.val(out), npatch.k, coq_real(tol), "; ".join(order))
        obs = repr(out)[:200]
    else:
        stmt = "corr_ok %s %s %d %s" % (mk, enc.val(out), npatch.k, coq_real(tol))
        obs = repr(out)[:200]
    return dict(name="case_%04d" % idx, label=case["name"], stmt=stmt, classes=enc.classes, opaque=enc.opaque, observed=obs,
                extra_globals=case.get("extra_globals", []), ncalls=len(calls))


def write_file(path, pid, lemmas, mt, gt):
    with open(path, "w") as f:
        f.write("From Coq Require Import Reals ZArith String List Bool Lra.\nFrom Interval Require Import Tactic.\n"
                "Require Import Py.PyAst Py.PyVal Py.PySem Py.XLemmas Py.Tactics Py.Corr.\nRequire Import %s.Src.\n"
                "Import ListNotations.\nOpen Scope string_scope.\nOpen Scope R_scope.\n" % pid)
        f.write("Definition MT : list (string * list (string * callee)) :=\n  %s.\nDefinition GT : list (string * callee) :=\n  %s.\n" % (mt, gt))
        for l in lemmas:
            f.write("(* %s : observed %s *)\nLemma %s : %s.\nProof. corr_case. Qed.\n" % (l["label"], l["observed"].replace("*)", "* )").replace("(*", "( *"), l["name"], l["stmt"]))


def run_shard(builddir, pid, shard, lemmas, mt, gt, timeout):
    """returns list of mismatches; a failing lemma is removed and the shard re-run so that every failure is reported (max 6)"""
    mism = []
    lem = list(lemmas)
    for _ in range(6):
        if not lem: break
        name = "PyCorr_%d" % shard
        path = os.path.join(builddir, name + ".v")
        write_file(path, pid, lem, mt, gt)
        try:
            p = subprocess.run("timeout %d coqc -q -Q %s Py -Q . %s %s.v" % (timeout, BASE, pid, name), shell=True, cwd=builddir,
                               stdout=subprocess.PIPE, stderr=subprocess.PIPE, text=True, timeout=timeout + 30)
            rc, err = p.returncode, p.stderr
        except subprocess.TimeoutExpired:
            rc, err = 124, "TIMEOUT"
        if rc == 0:
            break
        m = re.search(r"line (\d+), characters", err)
        bad = None
        if m:
            ln = int(m.group(1)); cur = None
            for i, line in enumerate(open(path).read().splitlines(), 1):
                t = re.match(r"Lemma (case_\d+)", line)
                if t and i <= ln + 1: cur = t.group(1)
            bad = next((l for l in lem if l["name"] == cur), None)
        if bad is None:
            mism.append(dict(case="shard %d" % shard, detail=err.strip()[-600:])); break
        mism.append(dict(case=bad["label"], lemma=bad["name"], observed=bad["observed"], detail=err.strip()[-600:]))
        write_file(os.path.join(builddir, "PyCorrFail_%s.v" % bad["name"]), pid, [bad], mt, gt)       # kept for replay / debugging
        lem = [l for l in lem if l["name"] != bad["name"]]
    return mism


def main():
    ap = argparse.ArgumentParser()
    ap.add_argument("--prop", required=True); ap.add_argument("--tier", default="quick"); ap.add_argument("--seed", type=int, default=0)
    ap.add_argument("--out", required=True); ap.add_argument("--builddir", required=True)
    a = ap.parse_args()
    t0 = time.time()
    items = load_spec(a.builddir)
    sys.modules.setdefault("corr_pysem", sys.modules["__main__"])     # case modules import Proxy from here: one module identity
    mod = importlib.import_module("pysem_cases." + a.prop)
    rng = np.random.RandomState(1000 + a.seed)
    cases = list(mod.cases(rng, a.tier))
    lemmas, dist, skipped = [], {}, []
    for i, c in enumerate(cases):
        try:
            l = make_lemma(i, c, items)
        except Exception as e:
            skipped.append("%s: %s" % (c.get("name"), "".join(traceback.format_exception_only(type(e), e)).strip()[:200]))
            continue
        lemmas.append(l)
        k = c["name"].split("/")[0]
        dist[k] = dist.get(k, 0) + 1
    classes = {}
    for l in lemmas: classes.update(l["classes"])
    extra = []
    for l in lemmas:
        for g in l["extra_globals"]:
            if g not in extra: extra.append(g)
    mt, gt = build_fenv(items, classes, extra)
    nshard = max(1, min(14, (len(lemmas) + 2) // 3))
    shards = [lemmas[i::nshard] for i in range(nshard)]
    from concurrent.futures import ThreadPoolExecutor
    timeout = 900 if a.tier == "quick" else 2400
    with ThreadPoolExecutor(max_workers=14) as ex:
        res = list(ex.map(lambda s: run_shard(a.builddir, a.prop, s[0], s[1], mt, gt, timeout), enumerate(shards)))
    mism = [m for r in res for m in r]
    if skipped:
        mism += [dict(case="generator", detail=s) for s in skipped]
    json.dump(dict(kind="PySem vs CPython on concrete inputs (kernel-checked lemmas, Interval-certified closeness)",
                   cases=len(lemmas), distribution=dist, exceptions_expected=sum(1 for l in lemmas if "corr_exc" in l["stmt"]),
                   opaque_objects=sorted({o for l in lemmas for o in l["opaque"]}), shards=nshard, wall_s=round(time.time() - t0, 1),
                   mismatches=mism), open(a.out, "w"), indent=1)
    print("corr_pysem %s: %d cases, %d mismatches, %.0fs" % (a.prop, len(lemmas), len(mism), time.time() - t0))


if __name__ == "__main__":
    main()
