"""Oracle for C05: the distances fed to the likelihoods are the FLRW distances of the sampled cosmology.

Reference (independent of astropy/lenstronomy): D_C = c/H0 * quad(1/E), transverse distance with sinh/sin by the
sign of Omega_k, D_A = D_M/(1+z), D_A(z1,z2) from D_C(z2)-D_C(z1).

Observed through the hierArc path only:
  CosmoLikelihood(...).param.args2kwargs(args) -> CosmoLikelihood.cosmo_instance(kwargs_cosmo)
  -> LensLikelihood.angular_diameter_distances / luminosity_distance_modulus / beta_dsp, and CosmoLikelihood.likelihood.
Five supply modes of cosmo_instance: "interp" (sampled, CosmoInterp), "exact" (sampled, plain astropy),
"fixed_interp" / "fixed_exact" (cosmo_fixed with / without the cached interpolation), "tabulated" (user distances).

Sub-checks / keys (m = model, s = supply mode):
  C05:param_map:<m>            CosmoParam.cosmo builds the astropy model with H0,Om0,Ode0(,w0,wa) of the sampled values
  C05:ddt|dd|modulus|beta:<m>:<s>   value equals the quad reference (1e-6 exact modes, derived bound in interpolated modes)
  C05:finite_positive:<s>      outputs finite and > 0
  C05:raises:<s>               hierArc raised in a supply mode on a valid input
  C05:modes_identical:<pair>   sampled vs fixed (same parameters, same grid) agree to rounding
  C05:fixed_ignores_sample     a fixed cosmology does not depend on the sampled kwargs, the cache is not rebuilt differently
  C05:likelihood:<m>:<s>       CosmoLikelihood.likelihood of a (DdtGaussian, DdtDdGaussian, Mag, DSPL) sample equals the
                               closed-form log-likelihood at the reference distances
  C05:fixed_param:<m>          kwargs_fixed_cosmo value is the one used
  C05:degenerate:finite_positive   inverted / equal redshifts, extreme parameters: Ddt, Dd >= 1e-5 finite, modulus finite
  C05:anchor_above_zmax        z_apparent_m_anchor above every source redshift: interpolated modes still deliver the modulus
  C05:tabulated_flat_without_K user-tabulated distances for a flat model without the optional 'K' key
"""
import os
for _v in ("OMP_NUM_THREADS", "OPENBLAS_NUM_THREADS", "MKL_NUM_THREADS"):
    os.environ.setdefault(_v, "1")   # tiny matrices: threaded BLAS only adds latency (4x slower here) and nondeterminism
import sys, os, json, time, traceback
sys.path.insert(0, os.path.dirname(os.path.abspath(__file__)))
from common import Recorder, parse_args, rng_of, jsonable, unjson, fscalar, pd
import numpy as np
from scipy.integrate import quad
from scipy.stats import multivariate_normal as mvn

from hierarc.Likelihood.cosmo_likelihood import CosmoLikelihood
from hierarc.Sampling.ParamManager.cosmo_param import CosmoParam

PROP = "C05"
C_KMS = 299792.458
MODELS = ["FLCDM", "FwCDM", "w0waCDM", "oLCDM"]
MODES = ["interp", "exact", "fixed_interp", "fixed_exact", "tabulated"]
LN10_5 = 5.0 / np.log(10.0)


# ------------------------------------------------------------------ independent FLRW reference
def E2(z, om, ok, w0, wa):
    return om * (1 + z) ** 3 + ok * (1 + z) ** 2 + (1 - om - ok) * (1 + z) ** (3 * (1 + w0 + wa)) * np.exp(-3 * wa * z / (1 + z))


def invE(z, p):
    return 1.0 / np.sqrt(E2(z, p["om"], p["ok"], p["w0"], p["wa"]))


def DC(z1, z2, p):
    return C_KMS / p["h0"] * quad(invE, z1, z2, args=(p,), epsabs=0, epsrel=1e-11, limit=200)[0]


def DM_of_dc(dc, p):
    ok = p["ok"]
    dh = C_KMS / p["h0"]
    if ok == 0:
        return dc
    s = np.sqrt(abs(ok))
    return dh / s * np.sinh(s * dc / dh) if ok > 0 else dh / s * np.sin(s * dc / dh)


def DA(z1, z2, p):
    return DM_of_dc(DC(z1, z2, p), p) / (1 + z2)


def ref_quantities(p, zl, zs, zs2, za):
    dd, ds, dds = DA(0, zl, p), DA(0, zs, p), DA(zl, zs, p)
    out = dict(dd=dd, ddt=(1 + zl) * dd * ds / dds,
               modulus=5 * np.log10((1 + zs) ** 2 * ds) - 5 * np.log10((1 + za) ** 2 * DA(0, za, p)))
    ds2, dds2 = DA(0, zs2, p), DA(zl, zs2, p)
    out["beta"] = dds / ds * ds2 / dds2
    return out


def interp_bounds(p, grid, zl, zs, zs2, za):
    """First-order bound of the error made by LINEAR interpolation of the comoving distance D_C on `grid`
    (what lenstronomy's CosmoInterp does): |err D_C(z)| <= h^2/8 * max_cell |D_C''|, D_C'' = (c/H0) d(1/E)/dz.
    Propagated to relative errors of Ddt, Dd, beta and an absolute error of the modulus difference.
    The transverse distance D_M = sinh/sin(D_C): d ln D_M/d ln D_C = x*coth(x) or x*cot(x) with x=sqrt|ok| D_C/D_H,
    bounded here by the factor `amp`."""
    dh = C_KMS / p["h0"]
    grid = np.asarray(grid, dtype=float)

    def err(z):
        i = int(np.clip(np.searchsorted(grid, z) - 1, 0, len(grid) - 2))
        a, b = grid[i], grid[i + 1]
        if z == a or z == b:
            return 0.0
        zz = np.linspace(a, b, 41)
        f = np.array([invE(t, p) for t in zz])
        d1 = np.max(np.abs(np.gradient(f, zz)))
        return dh * (b - a) ** 2 / 8.0 * d1 * 1.25  # 1.25: finite-difference estimate of the maximum

    dc = {z: DC(0, z, p) for z in (zl, zs, zs2, za)}
    e = {z: err(z) for z in (zl, zs, zs2, za)}
    x = np.sqrt(abs(p["ok"])) * dc[zs2] / dh
    amp = 1.0
    if p["ok"] > 0:
        amp = max(1.0, x / np.tanh(x)) if x > 0 else 1.0
    elif p["ok"] < 0:
        amp = max(1.0, abs(x / np.tan(x))) if x > 0 else 1.0
    r = lambda z: e[z] / dc[z]
    r12 = lambda z1, z2: (e[z1] + e[z2]) / (dc[z2] - dc[z1])
    safety = 2.0
    return dict(dd=safety * amp * r(zl) + 1e-7,
                ddt=safety * amp * (r(zl) + r(zs) + r12(zl, zs)) + 1e-7,
                beta=safety * amp * (r12(zl, zs) + r(zs) + r(zs2) + r12(zl, zs2)) + 1e-7,
                modulus=LN10_5 * (safety * amp * (r(zs) + r(za)) + 1e-7))


EXACT_TOL = dict(dd=1e-6, ddt=1e-6, beta=1e-6, modulus=LN10_5 * 2e-6)


# ------------------------------------------------------------------ case generation
def model_params(model, rng, wide):
    h0 = rng.uniform(10, 150) if wide else rng.uniform(50, 90)
    om = rng.uniform(0.03, 0.7) if wide else rng.uniform(0.1, 0.5)
    p = dict(h0=float(h0), om=float(om), ok=0.0, w0=-1.0, wa=0.0)
    if model == "FwCDM":
        p["w0"] = float(rng.uniform(-2.0, -0.3) if wide else rng.uniform(-1.5, -0.5))
    if model == "w0waCDM":
        p["w0"] = float(rng.uniform(-2.0, -0.3) if wide else rng.uniform(-1.5, -0.5))
        p["wa"] = float(rng.uniform(-1.0, 1.0) if wide else rng.uniform(-0.5, 0.5))
    if model == "oLCDM":
        okmax = min(0.3, 0.9 - om)
        p["ok"] = float(rng.uniform(-0.3 if wide else -0.2, okmax if wide else min(0.2, okmax)))
        r = rng.random()
        if r < 0.06:
            p["ok"] = 0.0           # flat limit inside the curved model
        elif r < 0.12:
            p["ok"] = float(rng.choice([1e-7, -1e-7, 2e-6, -2e-6]))  # around CosmoInterp's |Ok0|<1e-6 switch
    return p


def args_of(model, p):
    if model == "FLCDM": return [p["h0"], p["om"]]
    if model == "FwCDM": return [p["h0"], p["om"], p["w0"]]
    if model == "w0waCDM": return [p["h0"], p["om"], p["w0"], p["wa"]]
    if model == "oLCDM": return [p["h0"], p["om"], p["ok"]]
    raise ValueError(model)


def gen_case(case):
    """case = [seed, stream, i] -> fully concrete json-able input"""
    rng = np.random.default_rng([int(c) for c in case])
    i = int(case[2])
    model = MODELS[i % 4]
    wide = bool(rng.random() < 0.3)
    p = model_params(model, rng, wide)
    u = rng.random()
    if u < 0.15:      # nearby lens, close source
        zl = rng.uniform(0.01, 0.1); zs = zl + rng.uniform(0.02, 0.2)
    elif u < 0.3:     # far source
        zl = rng.uniform(0.3, 1.5); zs = zl + rng.uniform(1.0, 4.0)
    else:
        zl = rng.uniform(0.1, 1.0); zs = zl + rng.uniform(0.2, 2.0)
    zs2 = zs + rng.uniform(0.05, 1.5)
    if rng.random() < 0.3:       # the second source IN FRONT of the first (legal: beta only needs both behind the lens)
        zs2 = zl + rng.uniform(0.3, 0.9) * (zs - zl)
    za = float(rng.choice([0.1, 0.1, 0.05, 0.3, float(rng.uniform(0.02, min(zs, 1.0)))]))
    za = float(min(za, 0.9 * zs))   # anchor inside the tabulated range; the other situation is run_anchor_above_zmax
    fixed_key = None
    if rng.random() < 0.25:
        fixed_key = str(rng.choice({"FLCDM": ["h0", "om"], "FwCDM": ["h0", "om", "w"], "w0waCDM": ["om", "w0", "wa"],
                                    "oLCDM": ["h0", "om", "ok"]}[model]))
    return dict(case=[int(c) for c in case], model=model, params=p, z_lens=float(zl), z_source=float(zs),
                z_source2=float(zs2), z_anchor=za, num_interp=int(rng.choice([50, 100, 100, 200, 300])),
                n_tab=int(rng.choice([80, 150, 300])), tab_from_zero=bool(rng.random() < 0.5),
                fixed_key=fixed_key, wrong_h0=float(rng.uniform(20, 140)),
                data=dict(ddt_off=float(rng.normal(0, 1)), dd_off=float(rng.normal(0, 1)), beta_off=float(rng.normal(0, 1)),
                          mu_sne=float(rng.uniform(18, 21)), cov_seed=int(rng.integers(1 << 30))))


def astropy_of(model, p):
    """the caller's fixed cosmology object (an INPUT of the fixed modes, not the reference)"""
    from astropy.cosmology import FlatLambdaCDM, FlatwCDM, LambdaCDM, w0waCDM
    if model == "FLCDM": return FlatLambdaCDM(H0=p["h0"], Om0=p["om"])
    if model == "FwCDM": return FlatwCDM(H0=p["h0"], Om0=p["om"], w0=p["w0"])
    if model == "w0waCDM": return w0waCDM(H0=p["h0"], Om0=p["om"], Ode0=1 - p["om"], w0=p["w0"], wa=p["wa"])
    return LambdaCDM(H0=p["h0"], Om0=p["om"], Ode0=1 - p["om"] - p["ok"])


BOUNDS = dict(kwargs_lower_cosmo=dict(h0=0, om=0.0, w=-3, w0=-3, wa=-2, ok=-1),
              kwargs_upper_cosmo=dict(h0=200, om=1, w=0, w0=0, wa=2, ok=1),
              kwargs_lower_source=dict(mu_sne=0), kwargs_upper_source=dict(mu_sne=40))


def lens_list(inp, ref):
    zl, zs, zs2 = inp["z_lens"], inp["z_source"], inp["z_source2"]
    d = inp["data"]
    r = np.random.default_rng(d["cov_seed"])
    amp_model = np.array([5.0, 4.0])
    lenses = [
        dict(z_lens=zl, z_source=zs, likelihood_type="DdtGaussian", ddt_mean=ref["ddt"] * (1 + 0.1 * d["ddt_off"]),
             ddt_sigma=0.1 * ref["ddt"]),
        dict(z_lens=zl, z_source=zs, likelihood_type="DdtDdGaussian", ddt_mean=ref["ddt"] * (1 - 0.1 * d["ddt_off"]),
             ddt_sigma=0.12 * ref["ddt"], dd_mean=ref["dd"] * (1 + 0.1 * d["dd_off"]), dd_sigma=0.1 * ref["dd"]),
        dict(z_lens=zl, z_source=zs, likelihood_type="Mag", amp_measured=np.array([3.0, 2.0]),
             cov_amp_measured=pd(r, 2, 1.0), magnification_model=amp_model, cov_magnification_model=pd(r, 2, 0.5)),
        dict(z_lens=zl, z_source=zs, z_source2=zs2, likelihood_type="DSPL",
             beta_dspl=ref["beta"] * (1 + 0.05 * d["beta_off"]), sigma_beta_dspl=0.05 * ref["beta"]),
    ]
    return lenses


def ref_loglike(lenses, q, mu_sne):
    """closed-form log-likelihood of the 4-lens sample at distances q (sharp hyper-parameters, lambda=1, gamma_ppn=1)"""
    a, b, m, s = lenses
    l = -(q["ddt"] - a["ddt_mean"]) ** 2 / (2 * a["ddt_sigma"] ** 2)
    l += -(q["ddt"] - b["ddt_mean"]) ** 2 / (2 * b["ddt_sigma"] ** 2) - (q["dd"] - b["dd_mean"]) ** 2 / (2 * b["dd_sigma"] ** 2)
    amp = 10 ** (-(mu_sne + q["modulus"] - 20.0) / 2.5)
    l += mvn.logpdf(m["amp_measured"], amp * m["magnification_model"], m["cov_amp_measured"] + amp ** 2 * m["cov_magnification_model"])
    l += -0.5 * ((q["beta"] - s["beta_dspl"]) / s["sigma_beta_dspl"]) ** 2   # DSPL un-normalised (normalized=False)
    return float(l)


def like_tol(lenses, q, tol, mu_sne):
    l0 = ref_loglike(lenses, q, mu_sne)
    t = 0.0
    for k in ("ddt", "dd", "beta", "modulus"):
        dv = []
        for sgn in (1, -1):
            q2 = dict(q)
            q2[k] = q[k] + sgn * tol[k] if k == "modulus" else q[k] * (1 + sgn * tol[k])
            dv.append(abs(ref_loglike(lenses, q2, mu_sne) - l0))
        t += max(dv)
    return l0, 1.5 * t + 1e-9 * (1 + abs(l0))


def build(inp, lenses, mode, model, fixed_obj=None, kwargs_fixed_cosmo=None):
    kb = dict(BOUNDS)
    if kwargs_fixed_cosmo:
        kb["kwargs_fixed_cosmo"] = kwargs_fixed_cosmo
    km = dict(sne_apparent_m_sampling=True, sne_distribution="NONE", z_apparent_m_anchor=inp["z_anchor"])
    return CosmoLikelihood(lenses, model, km, kb, interpolate_cosmo=mode in ("interp", "fixed_interp", "tabulated"),
                           num_redshift_interp=inp["num_interp"], cosmo_fixed=fixed_obj)


def observe(cl, cosmo, za):
    L = cl._likelihoodLensSample._lens_list
    ddt, dd = L[0].angular_diameter_distances(cosmo)
    return dict(ddt=fscalar(ddt), dd=fscalar(dd), modulus=fscalar(L[2].luminosity_distance_modulus(cosmo, za)),
                beta=fscalar(L[3].beta_dsp(cosmo)))


def run_case(rec, inp):
    model, p = inp["model"], inp["params"]
    zl, zs, zs2, za = inp["z_lens"], inp["z_source"], inp["z_source2"], inp["z_anchor"]
    mu_sne = inp["data"]["mu_sne"]
    if p["ok"] < 0:
        # closed model: beyond x = sqrt|ok| D_C/D_H = pi/2 the transverse distance is no longer monotonic (a D_A table
        # cannot be inverted to D_C) and towards pi the source approaches the antipode -- not a meaningful lens geometry
        x = np.sqrt(-p["ok"]) * DC(0, zs2, p) / (C_KMS / p["h0"])
        if x > 1.4:
            rec.tally("skipped_closed_beyond_pi/2")
            return
    ref = ref_quantities(p, zl, zs, zs2, za)
    lenses = lens_list(inp, ref)
    args = args_of(model, p) + [mu_sne]
    rec.case(dict(model=model, params=p, z=[zl, zs, zs2, za], n=inp["num_interp"]), kind="%s" % model)
    short = dict(case=inp["case"], model=model, params=p, z_lens=zl, z_source=zs, z_source2=zs2, z_anchor=za,
                 num_interp=inp["num_interp"])

    # ---- CosmoParam.cosmo parameter mapping (astropy object is the thing under test here)
    cp = CosmoParam(model)
    kw_model = dict(h0=p["h0"], om=p["om"], gamma_ppn=1.3)
    if model == "FwCDM": kw_model["w"] = p["w0"]
    if model == "w0waCDM": kw_model.update(w0=p["w0"], wa=p["wa"])
    if model == "oLCDM": kw_model["ok"] = p["ok"]
    try:
        ac = cp.cosmo(kw_model)
        got = dict(cls=type(ac).__name__, H0=float(ac.H0.value), Om0=float(ac.Om0), Ode0=float(ac.Ode0),
                   w0=float(getattr(ac, "w0", -1.0)), wa=float(getattr(ac, "wa", 0.0)), Ok0=float(ac.Ok0))
        want = dict(cls={"FLCDM": "FlatLambdaCDM", "FwCDM": "FlatwCDM", "w0waCDM": "w0waCDM", "oLCDM": "LambdaCDM"}[model],
                    H0=p["h0"], Om0=p["om"], Ode0=1 - p["om"] - p["ok"], w0=p["w0"], wa=p["wa"], Ok0=p["ok"])
        ok_ = got["cls"] == want["cls"] and all(abs(got[k] - want[k]) <= 1e-12 * (1 + abs(want[k])) for k in want if k != "cls")
        # the expansion history of the built object is the Friedmann E(z) of exactly these parameters
        zt = np.array([0.3, 1.0, zs2])
        e_ok = np.allclose(np.asarray(ac.efunc(zt)) ** 2, E2(zt, p["om"], p["ok"], p["w0"], p["wa"]), rtol=1e-10, atol=0)
        rec.check(ok_ and e_ok, "C05:param_map:%s" % model, "CosmoParam.cosmo does not build the model of the sampled parameters",
                  short, got, want)
    except Exception as e:
        rec.violation("C05:param_map:%s" % model, "CosmoParam.cosmo raised %r" % (e,), short)

    # ---- the five supply modes
    fixed_obj = astropy_of(model, p)
    z_hi = max(zs, zs2) * 1.02
    if inp["tab_from_zero"]:
        ztab = np.linspace(0.0, z_hi, inp["n_tab"])
    else:
        ztab = np.linspace(z_hi / inp["n_tab"], z_hi, inp["n_tab"])
    dc_cum = np.cumsum([DC(a, b, p) for a, b in zip(np.append(0.0, ztab[:-1]), ztab)])
    da_tab = np.array([DM_of_dc(d, p) for d in dc_cum]) / (1 + ztab)
    tab = dict(ang_diameter_distances=da_tab, redshifts=ztab)
    dh = C_KMS / p["h0"]
    tab_extra = dict(K=-p["ok"] / dh ** 2)   # lenstronomy convention: k = -Ok0/D_H^2 [Mpc^-2]
    grid_interp = np.linspace(0, max(zs, zs2), inp["num_interp"] + 1)   # z_max of the sample is the largest source redshift
    grid_tab = ztab if ztab[0] == 0 else np.append(0.0, ztab)
    tol_interp = interp_bounds(p, grid_interp, zl, zs, zs2, za)
    tol_tab = interp_bounds(p, grid_tab, zl, zs, zs2, za)
    if abs(p["ok"]) < 1e-6 and p["ok"] != 0:
        # CosmoInterp treats |Ok0|<1e-6 as flat: relative effect ok*x^2/6 with x = D_C/D_H < 4
        for t in (tol_interp, tol_tab):
            for k in t: t[k] += 5e-6
    obs = {}
    for mode in MODES:
        tol = {"interp": tol_interp, "fixed_interp": tol_interp, "tabulated": tol_tab}.get(mode, EXACT_TOL)
        if max(tol["ddt"], tol["beta"]) > 0.05:
            rec.tally("skipped_ill_conditioned_interp")
            continue
        try:
            fx = fixed_obj if mode.startswith("fixed") else None
            cl = build(inp, lenses, mode, model, fixed_obj=fx)
            kc = cl.param.args2kwargs(args)[0]
            if mode == "tabulated":
                kc = {**kc, **tab, **tab_extra}
            if mode.startswith("fixed"):
                kc = dict(kc, h0=inp["wrong_h0"])   # must be ignored
            cosmo = cl.cosmo_instance(kc)
            o = observe(cl, cosmo, za)
            kw_like = dict(kwargs_cosmo_interp={**tab, **tab_extra}) if mode == "tabulated" else {}
            a_like = list(args)
            if mode.startswith("fixed") or mode == "tabulated":
                a_like[0] = inp["wrong_h0"]   # the fixed object / the user's table decide, not the sampled h0
            lnl = fscalar(cl.likelihood(a_like, **kw_like))
            if mode.startswith("fixed"):
                # second request with other sampled values: same object / same values (cache built once)
                o2 = observe(cl, cl.cosmo_instance(dict(kc, h0=p["h0"] * 0.5, om=0.9)), za)
                rec.check(all(o[k] == o2[k] for k in o), "C05:fixed_ignores_sample",
                          "fixed cosmology depends on the sampled parameters / history", dict(short, mode=mode), o2, o)
        except Exception as e:
            rec.violation("C05:raises:%s" % mode, "hierArc raised in supply mode %s: %r" % (mode, e), dict(short, mode=mode),
                          traceback.format_exc(limit=3), "distances of the cosmology")
            continue
        obs[mode] = o
        rec.tally("mode:" + mode)
        vals = np.array([o[k] for k in ("ddt", "dd", "modulus", "beta")])
        rec.check(bool(np.all(np.isfinite(vals)) and o["ddt"] > 0 and o["dd"] > 0 and o["beta"] > 0),
                  "C05:finite_positive:%s" % mode, "distances not finite/positive", dict(short, mode=mode), o, "finite, > 0")
        for k in ("ddt", "dd", "beta", "modulus"):
            err = abs(o[k] - ref[k]) if k == "modulus" else abs(o[k] - ref[k]) / abs(ref[k])
            rec.check(err <= tol[k], "C05:%s:%s:%s" % (k, model, mode),
                      "%s differs from the Friedmann-integral reference" % k, dict(short, mode=mode, tol=tol[k]),
                      o[k], ref[k])
        l0, lt = like_tol(lenses, ref, tol, mu_sne)
        rec.check(abs(lnl - l0) <= lt, "C05:likelihood:%s:%s" % (model, mode),
                  "CosmoLikelihood.likelihood differs from the closed form at the reference distances",
                  dict(short, mode=mode, tol=lt), lnl, l0)
    # sampled and fixed modes use the same numerical scheme -> identical up to rounding
    for a, b in (("interp", "fixed_interp"), ("exact", "fixed_exact")):
        if a in obs and b in obs:
            same = all(abs(obs[a][k] - obs[b][k]) <= 1e-10 * (1 + abs(obs[a][k])) for k in obs[a])
            rec.check(same, "C05:modes_identical:%s/%s" % (a, b), "sampled and fixed supply of the same cosmology differ",
                      short, obs[b], obs[a])

    # ---- flat model, tabulated distances without the optional 'K'
    if model != "oLCDM" and "tabulated" in obs:
        try:
            cl = build(inp, lenses, "tabulated", model)
            v = fscalar(cl.likelihood(args, kwargs_cosmo_interp=dict(tab)))
            v0 = fscalar(cl.likelihood(args, kwargs_cosmo_interp={**tab, **tab_extra}))
            rec.check(v == v0, "C05:tabulated_flat_without_K", "tabulated flat distances: value depends on the optional K key",
                      dict(short, mode="tabulated", keys=["ang_diameter_distances", "redshifts"]), v, v0)
        except Exception as e:
            rec.violation("C05:tabulated_flat_without_K",
                          "flat model, kwargs_cosmo_interp with only ang_diameter_distances+redshifts raises %r" % (e,),
                          dict(short, mode="tabulated", keys=["ang_diameter_distances", "redshifts"]),
                          repr(e), "same value as with K=0 (docstring: 'ok' and 'K' optional, non-flat only)")

    # ---- the user's table is the whole cosmology: a CURVED table gives the same distances whatever model string the likelihood was declared with
    if model == "oLCDM" and p["ok"] != 0 and "tabulated" in obs:
        for decl in ("FLCDM", "FwCDM", "w0waCDM", "NONE"):
            try:
                cl = build(inp, lenses, "tabulated", decl)
                a_decl = {"FLCDM": [p["h0"], p["om"]], "FwCDM": [p["h0"], p["om"], -1.0], "w0waCDM": [p["h0"], p["om"], -1.0, 0.0], "NONE": []}[decl] + [mu_sne]
                kc = {**cl.param.args2kwargs(a_decl)[0], **tab, **tab_extra, "ok": p["ok"]}
                o = observe(cl, cl.cosmo_instance(kc), za)
                same = all(abs(o[k] - obs["tabulated"][k]) <= 1e-10 * (1 + abs(o[k])) for k in o)
                rec.check(same, "C05:tabulated_curved_any_model:%s" % decl,
                          "a curved distance table (with its ok and K) gives other distances under model string %s than under oLCDM" % decl,
                          dict(short, mode="tabulated", declared_model=decl), o, obs["tabulated"])
            except Exception as e:
                rec.violation("C05:raises:tabulated_curved:%s" % decl, "curved table under model string %s raises %r" % (decl, e),
                              dict(short, mode="tabulated", declared_model=decl), traceback.format_exc(limit=3), "distances of the table")

    # ---- kwargs_fixed_cosmo: the fixed value is the one used
    fk = inp["fixed_key"]
    if fk is not None:
        val = {"h0": p["h0"], "om": p["om"], "w": p["w0"], "w0": p["w0"], "wa": p["wa"], "ok": p["ok"]}[fk]
        names = {"FLCDM": ["h0", "om"], "FwCDM": ["h0", "om", "w"], "w0waCDM": ["h0", "om", "w0", "wa"], "oLCDM": ["h0", "om", "ok"]}[model]
        red = [a for n, a in zip(names, args_of(model, p)) if n != fk] + [mu_sne]
        try:
            cl = build(inp, lenses, "exact", model, kwargs_fixed_cosmo={fk: val})
            o = observe(cl, cl.cosmo_instance(cl.param.args2kwargs(red)[0]), za)
            good = all((abs(o[k] - ref[k]) if k == "modulus" else abs(o[k] - ref[k]) / abs(ref[k])) <= EXACT_TOL[k] for k in o)
            rec.check(good, "C05:fixed_param:%s" % model, "kwargs_fixed_cosmo value not used for the distances",
                      dict(short, fixed={fk: val}), o, ref)
        except Exception as e:
            rec.violation("C05:raises:exact", "hierArc raised with kwargs_fixed_cosmo: %r" % (e,), dict(short, fixed={fk: val}))

    # ---- a fixed dictionary carrying a key the model does NOT use (a dictionary shared between runs of different models): it must not enter
    stray = {"FLCDM": {"ok": 0.12, "w": -0.7}, "FwCDM": {"ok": 0.12, "wa": 0.4}, "w0waCDM": {"ok": 0.12, "w": -0.7}, "oLCDM": {"w0": -0.7, "wa": 0.4, "w": -0.6}}[model]
    for interp_mode in ("exact", "interp"):
        try:
            cl = build(inp, lenses, interp_mode, model, kwargs_fixed_cosmo=dict(stray))
            o = observe(cl, cl.cosmo_instance(cl.param.args2kwargs(list(args_of(model, p)) + [mu_sne])[0]), za)
            tolr = EXACT_TOL if interp_mode == "exact" else tol_interp
            if max(tolr["ddt"], tolr["beta"]) > 0.05: continue
            good = all((abs(o[k] - ref[k]) if k == "modulus" else abs(o[k] - ref[k]) / abs(ref[k])) <= tolr[k] for k in o)
            rec.check(good, "C05:stray_fixed_key:%s" % model, "a key of kwargs_fixed_cosmo that the declared model does not use changes the distances",
                      dict(short, mode=interp_mode, fixed=stray), o, ref)
        except Exception as e:
            rec.violation("C05:raises:stray_fixed_key", "hierArc raised with an unused key in kwargs_fixed_cosmo: %r" % (e,), dict(short, mode=interp_mode, fixed=stray))


# ------------------------------------------------------------------ anchor redshift above every source redshift
def gen_anchor(case):
    rng = np.random.default_rng([int(c) for c in case])
    model = MODELS[int(case[2]) % 4]
    p = model_params(model, rng, False)
    zl = float(rng.uniform(0.01, 0.04)); zs = float(zl + rng.uniform(0.01, 0.04))
    return dict(case=[int(c) for c in case], model=model, params=p, z_lens=zl, z_source=zs,
                z_anchor=float(rng.choice([0.1, 0.3])), num_interp=int(rng.choice([50, 100])),
                fixed=bool(rng.random() < 0.5))


def run_anchor(rec, inp):
    """Sample whose sources all lie below z_apparent_m_anchor: the interpolated modes must still deliver the modulus
    difference (negative here) that the exact mode delivers."""
    model, p = inp["model"], inp["params"]
    zl, zs, za = inp["z_lens"], inp["z_source"], inp["z_anchor"]
    rec.case(dict(anchor_above=True, model=model, params=p, z=[zl, zs, za]), kind="anchor_above_zmax")
    lens = dict(z_lens=zl, z_source=zs, likelihood_type="Mag", amp_measured=np.array([3.0, 2.0]),
                cov_amp_measured=np.eye(2), magnification_model=np.array([5., 4.]), cov_magnification_model=np.eye(2) * .1)
    ref = 5 * np.log10((1 + zs) ** 2 * DA(0, zs, p)) - 5 * np.log10((1 + za) ** 2 * DA(0, za, p))
    km = dict(sne_apparent_m_sampling=True, sne_distribution="NONE", z_apparent_m_anchor=za)
    try:
        cl = CosmoLikelihood([lens], model, km, BOUNDS, interpolate_cosmo=True, num_redshift_interp=inp["num_interp"],
                             cosmo_fixed=astropy_of(model, p) if inp["fixed"] else None)
        args = args_of(model, p) + [19.0]
        cosmo = cl.cosmo_instance(cl.param.args2kwargs(args)[0])
        mod = fscalar(cl._likelihoodLensSample._lens_list[0].luminosity_distance_modulus(cosmo, za))
        v = fscalar(cl.likelihood(args))
        # the table must reach the anchor: grid 0..max(z_source, z_anchor); same linear-interpolation bound as above
        tol = interp_bounds(p, np.linspace(0, max(zs, za), inp["num_interp"] + 1), zl, zs, zs, za)["modulus"]
        rec.check(abs(mod - ref) <= tol and np.isfinite(v), "C05:anchor_above_zmax",
                  "modulus difference wrong when the anchor redshift exceeds all source redshifts", inp, mod, ref)
    except Exception as e:
        rec.violation("C05:anchor_above_zmax", "interpolated supply mode raises when z_apparent_m_anchor > every source "
                      "redshift: %r" % (e,), inp, repr(e), ref)


# ------------------------------------------------------------------ degenerate stream
def gen_degenerate(case):
    rng = np.random.default_rng([int(c) for c in case])
    i = int(case[2])
    model = MODELS[i % 4]
    p = model_params(model, rng, True)
    kind = ["inverted", "equal", "closed_extreme", "tiny_z", "low_h0"][i % 5]
    zl, zs = float(rng.uniform(0.2, 1.0)), float(rng.uniform(1.2, 3.0))
    if kind == "inverted": zl, zs = zs, zl
    if kind == "equal": zs = zl
    if kind == "closed_extreme" and model == "oLCDM": p["ok"], p["om"] = -0.9, float(rng.uniform(0.5, 1.5))
    if kind == "tiny_z": zl, zs = 1e-6, 2e-6
    if kind == "low_h0": p["h0"] = 10.0
    return dict(case=[int(c) for c in case], model=model, params=p, kind=kind, z_lens=zl, z_source=zs,
                z_anchor=0.1, interp=bool(rng.random() < 0.5))


def run_degenerate(rec, inp):
    model, p = inp["model"], inp["params"]
    rec.case(dict(deg=inp["kind"], model=model, params=p, z=[inp["z_lens"], inp["z_source"]]), kind="degenerate:" + inp["kind"])
    lens = dict(z_lens=inp["z_lens"], z_source=inp["z_source"], likelihood_type="Mag", amp_measured=np.array([3.0, 2.0]),
                cov_amp_measured=np.eye(2), magnification_model=np.array([5., 4.]), cov_magnification_model=np.eye(2) * .1)
    try:
        cl = CosmoLikelihood([lens], model, {}, BOUNDS, interpolate_cosmo=inp["interp"], num_redshift_interp=60)
        kc = cl.param.args2kwargs(args_of(model, p))[0]
        cosmo = cl.cosmo_instance(kc)
        L = cl._likelihoodLensSample._lens_list[0]
        ddt, dd = L.angular_diameter_distances(cosmo)
        mod = L.luminosity_distance_modulus(cosmo, inp["z_anchor"] if inp["interp"] is False else min(inp["z_anchor"], max(inp["z_source"], 1e-6)))
        ddt, dd, mod = fscalar(ddt), fscalar(dd), fscalar(mod)
        good = np.isfinite(ddt) and np.isfinite(dd) and np.isfinite(mod) and ddt >= 1e-5 and dd >= 1e-5
        rec.check(bool(good), "C05:degenerate:finite_positive", "Ddt/Dd below the floor or not finite on a degenerate input",
                  inp, dict(ddt=ddt, dd=dd, modulus=mod), "finite, >= 1e-5")
    except Exception as e:
        if inp["kind"] == "inverted" and inp["interp"] and isinstance(e, ValueError) and "interpolation range" in str(e):
            # z_lens > z_source is not a lens; the interpolated table ends at z_source and scipy refuses to
            # extrapolate with a clear ValueError -- not a silent wrong distance, so not a violation of C05.
            rec.tally("inverted_interp_out_of_table_ValueError")
            return
        rec.violation("C05:degenerate:finite_positive", "hierArc raised on a degenerate input: %r" % (e,), inp,
                      traceback.format_exc(limit=3), "finite positive distances")


def run_highest_is_first_source(rec, case):
    """the highest redshift of the whole sample is the FIRST source of a double-source-plane lens whose second source lies in front of it
    (legal: both sources only have to be behind the lens): every interpolated supply mode must still cover it"""
    from hierarc.Likelihood.cosmo_likelihood import CosmoLikelihood
    rng = rng_of(case[0], 100 * int(case[1]) + int(case[2]))
    model = MODELS[int(case[2]) % len(MODELS)]
    p = model_params(model, rng, False)
    zl = float(rng.uniform(0.2, 0.6)); zs1 = float(zl + rng.uniform(1.0, 2.5)); zs2 = float(zl + rng.uniform(0.3, 0.8) * (zs1 - zl))
    ztd_l = float(rng.uniform(0.1, 0.4)); ztd_s = float(ztd_l + rng.uniform(0.2, 0.6))          # a time-delay lens that does NOT reach zs1
    za = 0.1
    inp = dict(case=[int(c) for c in case], model=model, params=p, td=[ztd_l, ztd_s], dspl=[zl, zs1, zs2], z_anchor=za, num_interp=100)
    rec.case(dict(model=model, z=[zl, zs1, zs2]), kind="highest_is_first_source/" + model)
    beta_ref = DA(zl, zs1, p) / DA(0, zs1, p) * DA(0, zs2, p) / DA(zl, zs2, p)
    ddt_ref = (1 + ztd_l) * DA(0, ztd_l, p) * DA(0, ztd_s, p) / DA(ztd_l, ztd_s, p)
    lenses = [dict(z_lens=ztd_l, z_source=ztd_s, likelihood_type="DdtGaussian", ddt_mean=ddt_ref, ddt_sigma=0.1 * ddt_ref),
              dict(z_lens=zl, z_source=zs1, z_source2=zs2, likelihood_type="DSPL", beta_dspl=beta_ref, sigma_beta_dspl=0.05 * beta_ref)]
    names = {"FLCDM": ["h0", "om"], "FwCDM": ["h0", "om", "w"], "w0waCDM": ["h0", "om", "w0", "wa"], "oLCDM": ["h0", "om", "ok"]}[model]
    args = [p["w0"] if n == "w" else p[n] for n in names]
    for mode in ("interp", "fixed_interp", "exact"):
        try:
            fx = astropy_of(model, p) if mode.startswith("fixed") else None
            cl = CosmoLikelihood(lenses, model, {}, dict(BOUNDS), interpolate_cosmo=(mode != "exact"), num_redshift_interp=100, cosmo_fixed=fx)
            cosmo = cl.cosmo_instance(cl.param.args2kwargs(args)[0])
            beta = fscalar(cl._likelihoodLensSample._lens_list[1].beta_dsp(cosmo))
            lnl = fscalar(cl.likelihood(args))
        except Exception as e:
            rec.violation("C05:raises:%s" % mode, "hierArc raised in supply mode %s (second source in front of the first, which is the highest redshift): %r" % (mode, e),
                          dict(inp, mode=mode), traceback.format_exc(limit=3), "distances of the cosmology")
            continue
        tol = 1e-6 if mode == "exact" else 2e-3
        rec.check(abs(beta - beta_ref) <= tol * abs(beta_ref), "C05:beta:%s:%s" % (model, mode), "beta differs from the Friedmann-integral reference",
                  dict(inp, mode=mode, tol=tol), beta, beta_ref)
        rec.check(np.isfinite(lnl), "C05:finite_positive:%s" % mode, "likelihood not finite", dict(inp, mode=mode), lnl, "finite")


def run_history(rec, case):
    """the distances of a SAMPLED cosmology depend on the current parameter vector only: one object evaluated at p1 and then at p2 (p2 differs
    from p1 in ONE parameter) must give at p2 what a fresh object gives at p2 (sampled modes, with and without interpolation)"""
    from hierarc.Likelihood.cosmo_likelihood import CosmoLikelihood
    rng = rng_of(case[0], 100 * int(case[1]) + int(case[2]))
    model = MODELS[int(case[2]) % len(MODELS)]
    p1 = model_params(model, rng, False)
    names = {"FLCDM": ["h0", "om"], "FwCDM": ["h0", "om", "w"], "w0waCDM": ["h0", "om", "w0", "wa"], "oLCDM": ["h0", "om", "ok"]}[model]
    key = {"h0": "h0", "om": "om", "w": "w0", "w0": "w0", "wa": "wa", "ok": "ok"}
    j = int(rng.integers(len(names)))
    p2 = dict(p1); k = key[names[j]]
    p2[k] = p1[k] + {"h0": 7.0, "om": 0.08, "w0": 0.15, "wa": 0.4, "ok": 0.06}[k] * (1 if rng.random() < 0.5 else -1)
    if k == "om": p2[k] = min(max(p2[k], 0.06), 0.9)
    zl, zs = float(rng.uniform(0.2, 0.8)), float(rng.uniform(1.2, 2.5))
    lenses = [dict(z_lens=zl, z_source=zs, likelihood_type="DdtGaussian", ddt_mean=4000.0, ddt_sigma=300.0)]
    vec = lambda p: [p[key[n]] for n in names]
    inp = dict(case=[int(c) for c in case], model=model, p1=p1, p2=p2, changed=names[j], z=[zl, zs])
    rec.case(dict(model=model, changed=names[j]), kind="history/" + model)
    for interp in (True, False):
        try:
            mk = lambda: CosmoLikelihood(lenses, model, {}, dict(BOUNDS), interpolate_cosmo=interp, num_redshift_interp=60)
            a = mk()
            dist = lambda cl, p: fscalar(cl._likelihoodLensSample._lens_list[0].angular_diameter_distances(cl.cosmo_instance(cl.param.args2kwargs(vec(p))[0]))[0])
            dist(a, p1); second = dist(a, p2); l2 = fscalar(a.likelihood(vec(p2)))
            b = mk(); fresh = dist(b, p2); lf = fscalar(b.likelihood(vec(p2)))
        except Exception as e:
            rec.violation("C05:raises:history", "raised %r" % (e,), dict(inp, interpolate=interp), traceback.format_exc(limit=3), "distances"); continue
        # the same scan with ONE numpy vector updated in place between the calls (an optimiser / a manual scan re-using its buffer)
        try:
            c = mk(); buf = np.array(vec(p1), dtype=float); c.likelihood(buf); buf[j] = vec(p2)[j]; l2b = fscalar(c.likelihood(buf))
            rec.check(l2b == lf, "C05:history_dependent:inplace_vector",
                      "after an in-place update of the caller's numpy vector the likelihood is not the one of the current vector",
                      dict(inp, interpolate=interp, inplace=True), l2b, lf)
        except Exception as e:
            rec.violation("C05:raises:history", "raised %r" % (e,), dict(inp, interpolate=interp, inplace=True), traceback.format_exc(limit=3), "likelihood")
        rec.check(second == fresh and l2 == lf, "C05:history_dependent",
                  "the distances / likelihood at p2 depend on the point evaluated before (a sampled cosmology must be rebuilt from the current vector)",
                  dict(inp, interpolate=interp), [second, l2], [fresh, lf])


def main():
    a = parse_args(PROP)
    rec = Recorder(PROP, a.tier, a.seed, "hierArc distances (5 supply modes, 4 models) == quad-integrated Friedmann reference")
    if a.replay:
        rp = unjson(json.load(open(a.replay)))
        inp = rp["input"]
        case = inp["case"]
        try:
            if int(case[1]) == 2:
                run_degenerate(rec, gen_degenerate(case))
            elif int(case[1]) == 3:
                run_anchor(rec, gen_anchor(case))
            elif int(case[1]) == 4:
                run_highest_is_first_source(rec, case)
            elif int(case[1]) == 5:
                run_history(rec, case)
            else:
                run_case(rec, gen_case(case))
        except Exception:
            rec.error(traceback.format_exc(limit=6))
        rec.write(a.out)
        return
    n_main = 160 if a.tier == "quick" else 1700
    n_deg = 40 if a.tier == "quick" else 400
    budget = 30 if a.tier == "quick" else 300
    for i in range(n_main):
        if time.process_time() - rec.cpu0 > 2 * budget:
            rec.tally("stopped_on_time_budget")
            break
        try:
            run_case(rec, gen_case([a.seed, 1, i]))
        except Exception:
            rec.error("case %s: %s" % ([a.seed, 1, i], traceback.format_exc(limit=6)))
    for i in range(n_deg):
        try:
            run_degenerate(rec, gen_degenerate([a.seed, 2, i]))
        except Exception:
            rec.error("degenerate %s: %s" % ([a.seed, 2, i], traceback.format_exc(limit=6)))
    for i in range(4 if a.tier == "quick" else 24):
        try:
            run_anchor(rec, gen_anchor([a.seed, 3, i]))
        except Exception:
            rec.error("anchor %s: %s" % ([a.seed, 3, i], traceback.format_exc(limit=6)))
    for i in range(8 if a.tier == "quick" else 48):
        try:
            run_highest_is_first_source(rec, [a.seed, 4, i])
        except Exception:
            rec.error("highest_is_first_source %s: %s" % ([a.seed, 4, i], traceback.format_exc(limit=6)))
    for i in range(12 if a.tier == "quick" else 80):
        try:
            run_history(rec, [a.seed, 5, i])
        except Exception:
            rec.error("history %s: %s" % ([a.seed, 5, i], traceback.format_exc(limit=6)))
    out = rec.write(a.out)
    print(json.dumps(dict(property=PROP, evaluations=out["evaluations"], violations=out["violation_counts"],
                          errors=len(out["errors"]), wall_s=out["wall_s"])))


if __name__ == "__main__":
    main()
