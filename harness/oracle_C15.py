"""Oracle C15 -- MCMC driver: samples in the prior box, log-probs match, interrupted runs resume.

Sub-checks (each case replayable from its `case_seed`):
  fresh      MCMCSampler.mcmc_emcee on a small sharp model (11 model configurations: FLCDM / FwCDM / w0waCDM / oLCDM, fixed
             parameters, ppn, lambda_mst, anisotropy) with no backend / in-memory / HDF5 backend: returned shape
             n_walkers*n_run x num_param, every sample inside the prior box (bounds looked up BY NAME in the
             dictionaries handed to the sampler, in param_names() order), stored log-prob == likelihood re-evaluated
             and == closed-form Gaussian likelihood on astropy distances built from {name: value} (exact-cosmology
             configs), returned chain == backend chain after the burn-in
  history    sequences of fresh / continued runs on ONE backend (HDF5, re-opened or not; in-memory), some of them
             stopped inside the likelihood after an arbitrary number of calls (exception in-process): a fresh run
             starts from an emptied store and stores exactly n_burn+n_run iterations; a continued run keeps every
             stored iteration bit-identical (positions and log-probs) and appends exactly n_burn+n_run; every stored
             log-prob belongs to its stored position
  kill       the same with a CHILD PROCESS that SIGKILLs itself inside the k-th likelihood call (fresh or continued
             run), then the parent continues from the HDF5 file
  wide_ball  (boundary) start ball wider than the prior box -> known finding "C15:start_ball_outside_box"
  empty      (boundary) run stopped before the first iteration is stored, then continue_from_backend=True -> known
             finding "C15:continue_from_empty_backend"

Run: cd /verif && PYTHONPATH=/repo PYTHONHASHSEED=0 /venv/bin/python harness/oracle_C15.py --tier quick --seed 0 --out F
(the same file is its own child: `oracle_C15.py --child JSON`)
"""
import os, sys, json, shutil, signal, subprocess, traceback, contextlib, io, logging, copy

sys.path.insert(0, os.path.dirname(os.path.abspath(__file__)))
from common import *  # noqa: E402,F401

logging.getLogger("emcee").setLevel(logging.ERROR)
import emcee  # noqa: E402
from hierarc.Sampling.mcmc_sampling import MCMCSampler  # noqa: E402

PROP = "C15"
SCRATCH = "/verif/build/oracle_scratch_C15"
RULE = ("fresh run: n_walkers*n_run x num_param samples inside the prior box, stored log-prob == likelihood at the sample, "
        "names in vector order; continue_from_backend keeps the stored prefix bit-identical and appends exactly "
        "n_burn+n_run iterations for every stop point (exception or SIGKILL); a fresh run empties the store")


# emcee's in-memory Backend pre-allocates the requested iterations; after a run stopped by an exception the left-over
# allocation stays, and a continued run asking for FEWER iterations than that left-over raises
# "ValueError: negative dimensions are not allowed" (Backend.grow).  HDF5 stores are not affected.  Seen on the unchanged
# tree, not in known_findings.json -> tallied as an observation unless this switch is on.
REPORT_INMEMORY_GROW = False


class Stop(Exception):
    pass


# ------------------------------------------------------------------------------------------------
# model configurations (rebuilt identically in the child from (cfg, mseed))
# ------------------------------------------------------------------------------------------------
BOX = dict(h0=(20., 140.), om=(0.06, 0.85), w=(-1.9, -0.35), w0=(-1.9, -0.35), wa=(-1.4, 0.3), ok=(-0.28, 0.31), gamma_ppn=(0.4, 1.7), lambda_mst=(0.55, 1.6),
           a_ani=(0.12, 4.8))
TRUTH = dict(h0=70., om=0.3, w=-1.0, w0=-1.0, wa=0.0, ok=0.0, gamma_ppn=1.0, lambda_mst=1.0, a_ani=1.5)
CONFIGS = {
    "A": dict(cosmology="FLCDM", names=["h0", "om"], lenses=["DdtGaussian", "DdtGaussian"], model={}),
    "B": dict(cosmology="FwCDM", names=["h0", "om", "w"], lenses=["DdtGaussian", "DdtDdGaussian"], model={}),
    "C": dict(cosmology="FLCDM", names=["h0", "om", "lambda_mst"], lenses=["DdtGaussian", "IFUKinCov"],
              model=dict(lambda_mst_sampling=True)),
    "D": dict(cosmology="FLCDM", names=["h0"], fixed=dict(om=0.3), lenses=["DdtGaussian", "DdtGaussian"], model={}),
    "E": dict(cosmology="oLCDM", names=["h0", "om", "ok"], lenses=["DdtGaussian", "DdtDdGaussian"], model={}),
    "F": dict(cosmology="FLCDM", names=["h0", "om", "gamma_ppn"], lenses=["DdtDdGaussian", "DdtDdGaussian"],
              model=dict(ppn_sampling=True)),
    # only part of the cosmological parameters sampled, the rest fixed (a cache keyed on a subset of the parameters shows here)
    "H": dict(cosmology="w0waCDM", names=["w0", "wa"], fixed=dict(h0=70., om=0.3), lenses=["DdtGaussian", "DdtDdGaussian"], model={}),
    "I": dict(cosmology="w0waCDM", names=["h0", "om", "w0", "wa"], lenses=["DdtGaussian", "DdtGaussian"], model={}),
    "J": dict(cosmology="oLCDM", names=["ok"], fixed=dict(h0=70., om=0.3), lenses=["DdtGaussian", "DdtDdGaussian"], model={}),
    "K": dict(cosmology="FwCDM", names=["w"], fixed=dict(h0=70., om=0.3), lenses=["DdtGaussian", "DdtGaussian"], model={}),
    "G": dict(cosmology="FLCDM", names=["h0", "om", "lambda_mst", "a_ani"], lenses=["DdtGaussian", "IFUKinCov"],
              model=dict(lambda_mst_sampling=True, anisotropy_sampling=True, anisotropy_model="OM")),
}
GROUP = dict(h0="cosmo", om="cosmo", w="cosmo", w0="cosmo", wa="cosmo", ok="cosmo", gamma_ppn="cosmo", lambda_mst="lens", a_ani="kin")
C_KMS = 299792.458


def astro(cosmology, p):
    from astropy.cosmology import FlatLambdaCDM, FlatwCDM, LambdaCDM, Flatw0waCDM
    if cosmology == "w0waCDM":
        return Flatw0waCDM(H0=p["h0"], Om0=p["om"], w0=p["w0"], wa=p["wa"])
    if cosmology == "FLCDM":
        return FlatLambdaCDM(H0=p["h0"], Om0=p["om"])
    if cosmology == "FwCDM":
        return FlatwCDM(H0=p["h0"], Om0=p["om"], w0=p["w"])
    return LambdaCDM(H0=p["h0"], Om0=p["om"], Ode0=1 - p["om"] - p["ok"])


def distances(c, zl, zs):
    dd = c.angular_diameter_distance(zl).value
    ds = c.angular_diameter_distance(zs).value
    dds = c.angular_diameter_distance_z1z2(zl, zs).value
    return float((1 + zl) * dd * ds / dds), float(dd)


def build(cfg, mseed, mode):
    """sampler + the information the checks need; deterministic in (cfg, mseed, mode).
    mode: "fixed"  cosmology held fixed (cosmo_fixed, cached interpolation) -> ~0.5 ms per likelihood call; the cosmological
                   parameters are then flat directions inside their bounds (every proposal that leaves the box must
                   still be rejected), lambda_mst / a_ani carry the likelihood
          "exact"  sampled astropy cosmology without interpolation (closed-form reference available, ~10 ms per call)
          "interp" sampled cosmology through CosmoInterp (~10 ms per call)"""
    from astropy.cosmology import FlatLambdaCDM
    C = CONFIGS[cfg]
    g = np.random.default_rng([int(mseed), 77])
    truth = dict(TRUTH)
    truth.update(C.get("fixed", {}))
    ctrue = astro(C["cosmology"], truth)
    lenses = []
    for t in C["lenses"]:
        zl = float(g.uniform(0.3, 0.8))
        zs = float(g.uniform(zl + 0.5, 2.5))
        ddt, dd = distances(ctrue, zl, zs)
        l = dict(z_lens=zl, z_source=zs, likelihood_type=t)
        if t == "DdtGaussian":
            l.update(ddt_mean=ddt * float(1 + g.normal(0, 0.02)), ddt_sigma=0.05 * ddt)
        elif t == "DdtDdGaussian":
            l.update(ddt_mean=ddt * float(1 + g.normal(0, 0.02)), ddt_sigma=0.05 * ddt, dd_mean=dd * float(1 + g.normal(0, 0.02)),
                     dd_sigma=0.07 * dd)
        else:  # IFUKinCov, 2 bins
            sv = g.uniform(200, 300, 2)
            j = (sv / C_KMS) ** 2 / (ddt / dd / (1 + zl))
            l.update(sigma_v_measurement=sv * (1 + g.normal(0, 0.02, 2)), j_model=j, error_cov_measurement=np.diag([100., 144.]),
                     error_cov_j_sqrt=np.outer(np.sqrt(j), np.sqrt(j)) * 0.03 ** 2 * np.array([[1, .3], [.3, 1]]))
            if C["model"].get("anisotropy_sampling"):
                ax = np.linspace(0.1, 5.0, 6)
                l.update(kin_scaling_param_list=["a_ani"], j_kin_scaling_param_axes=[ax],
                         j_kin_scaling_grid_list=[g.uniform(0.85, 1.2, 6), g.uniform(0.85, 1.2, 6)])
        lenses.append(l)
    lower = {"cosmo": {}, "lens": {}, "kin": {}}
    upper = {"cosmo": {}, "lens": {}, "kin": {}}
    allnames = list(C["names"]) + list(C.get("fixed", {}))
    for nm in allnames:
        lower[GROUP[nm]][nm], upper[GROUP[nm]][nm] = BOX[nm]
    kb = dict(kwargs_lower_cosmo=lower["cosmo"], kwargs_upper_cosmo=upper["cosmo"], kwargs_lower_lens=lower["lens"],
              kwargs_upper_lens=upper["lens"], kwargs_lower_kin=lower["kin"], kwargs_upper_kin=upper["kin"])
    if "fixed" in C:
        kb["kwargs_fixed_cosmo"] = dict(C["fixed"])
    kw = dict(interpolate_cosmo=(mode != "exact"), num_redshift_interp=25)
    if mode == "fixed":
        kw["cosmo_fixed"] = FlatLambdaCDM(H0=70., Om0=0.3)
    S = MCMCSampler(lenses, C["cosmology"], dict(C["model"]), kb, **kw)
    return S, lenses, C


def gen_mode_cfg(rng, cfg=None):
    mode = str(rng.choice(["fixed", "exact", "interp"], p=[0.84, 0.08, 0.08]))
    if cfg is None:
        cfg = str(rng.choice(["C", "G", "C", "G", "A", "F", "D", "B", "E"])) if mode == "fixed" else str(rng.choice(list(CONFIGS)))
    return mode, cfg


def start_kwargs(C, mean, sigma):
    km, ks = {"cosmo": {}, "lens": {}, "kin": {}}, {"cosmo": {}, "lens": {}, "kin": {}}
    for nm in C["names"]:
        km[GROUP[nm]][nm], ks[GROUP[nm]][nm] = mean[nm], sigma[nm]
    for nm, v in C.get("fixed", {}).items():
        km[GROUP[nm]][nm], ks[GROUP[nm]][nm] = v, 0.0
    return (dict(kwargs_cosmo=km["cosmo"], kwargs_lens=km["lens"], kwargs_kin=km["kin"]),
            dict(kwargs_cosmo=ks["cosmo"], kwargs_lens=ks["lens"], kwargs_kin=ks["kin"]))


def gen_start(rng, C, wide=False):
    mean, sigma = {}, {}
    for nm in C["names"]:
        lo, hi = BOX[nm]
        if wide:
            mean[nm] = float(rng.uniform(lo + 0.3 * (hi - lo), hi - 0.3 * (hi - lo)))
            sigma[nm] = float((hi - lo) * rng.uniform(0.8, 1.5))
        else:
            c = TRUTH[nm] + 0.1 * (hi - lo) * float(rng.uniform(-1, 1))
            s = float(rng.uniform(0.01, 0.12)) * (hi - lo)
            s = min(s, 0.95 * (c - lo), 0.95 * (hi - c))  # the (uniform) ball mean +- sigma stays inside the box
            mean[nm], sigma[nm] = float(c), float(s)
    return mean, sigma


def quiet(fn, *a, **k):
    """run fn with emcee's progress output silenced"""
    buf = io.StringIO()
    with contextlib.redirect_stderr(buf), contextlib.redirect_stdout(buf):
        return fn(*a, **k)


_DIST_CACHE = {}


def dist_provider(C, lenses, mode, p):
    """the cosmology the likelihood is documented to use for parameter values p"""
    if mode == "exact":
        return astro(C["cosmology"], p)
    from astropy.cosmology import FlatLambdaCDM
    from lenstronomy.Cosmo.cosmo_interp import CosmoInterp
    zmax = max(l["z_source"] for l in lenses)
    key = round(zmax, 12)
    if key not in _DIST_CACHE:
        _DIST_CACHE.clear()
        _DIST_CACHE[key] = CosmoInterp(cosmo=FlatLambdaCDM(H0=70., Om0=0.3), z_stop=zmax, num_interp=25)
    return _DIST_CACHE[key]


def ref_loglike(cfg, lenses, C, pvec, mode):
    """closed-form (un-normalised) log-likelihood from {name: value}: Gaussian distance terms and the kinematic
    chi^2 on distances of the cosmology named by the parameters (exact) or of the fixed cosmology"""
    p = dict(TRUTH)
    p.update(C.get("fixed", {}))
    p.update(pvec)
    for nm in C["names"]:
        if not (BOX[nm][0] <= p[nm] <= BOX[nm][1]):
            return -np.inf
    if C["cosmology"] == "oLCDM":
        for l in lenses:
            z = l["z_source"]
            if p["ok"] * (1 + z) ** 2 + p["om"] * (1 + z) ** 3 + (1 - p["om"] - p["ok"]) <= 0:
                return -np.inf
        if 1 - p["om"] - p["ok"] <= 0:
            return -np.inf
    c = dist_provider(C, lenses, mode, p)
    lam = p["lambda_mst"] if "lambda_mst" in C["names"] else 1.0
    tot = 0.0
    for l in lenses:
        ddt, dd = distances(c, l["z_lens"], l["z_source"])
        ddt = ddt * lam
        t = l["likelihood_type"]
        if t in ("DdtGaussian", "DdtDdGaussian"):
            tot += -(ddt - l["ddt_mean"]) ** 2 / 2 / l["ddt_sigma"] ** 2
        if t == "DdtDdGaussian":
            tot += -(dd - l["dd_mean"]) ** 2 / 2 / l["dd_sigma"] ** 2
        if t == "IFUKinCov":
            j = np.asarray(l["j_model"], float)
            sc = np.ones(len(j))
            if "j_kin_scaling_grid_list" in l:
                sc = np.array([np.interp(p["a_ani"], l["j_kin_scaling_param_axes"][0], gr) for gr in l["j_kin_scaling_grid_list"]])
            dsdds = ddt / dd / (1 + l["z_lens"])
            pred = np.sqrt(j * dsdds * sc) * C_KMS
            cov = np.asarray(l["error_cov_measurement"]) + np.asarray(l["error_cov_j_sqrt"]) * np.outer(np.sqrt(sc), np.sqrt(sc)) * dsdds * C_KMS ** 2
            dlt = np.asarray(l["sigma_v_measurement"]) - pred
            tot += -0.5 * dlt @ np.linalg.solve(cov, dlt)
    return float(tot)


def has_closed_form(C, mode):
    # a sampled gamma_ppn never reaches the lens likelihood on this tree (it stays in kwargs_cosmo), so the
    # ppn configuration has no closed form that is also the documented model; "interp" carries interpolation error
    return mode in ("exact", "fixed") and "gamma_ppn" not in C["names"]


def check_store(rec, S, C, lenses, cfg, chain, logp, inp, ball_inside, mode, tag):
    """every stored (position, log-prob) pair: inside the box, log-prob == likelihood(position)"""
    names = C["names"]
    lo = np.array([BOX[nm][0] for nm in names])
    hi = np.array([BOX[nm][1] for nm in names])
    flat = chain.reshape(-1, chain.shape[-1])
    lp = logp.reshape(-1)
    if flat.shape[1] != len(names):
        return
    outside = np.any((flat < lo) | (flat > hi), axis=1)
    if outside.any():
        i = int(np.argmax(outside))
        key = "C15:sample_outside_box" if ball_inside else "C15:start_ball_outside_box"
        rec.check(False, key, "stored sample outside the prior box (%s)" % tag, dict(inp, sample=flat[i], names=names),
                  dict(n_outside=int(outside.sum()), log_prob=lp[i]), "all samples inside [lower, upper]")
    bad = None
    for i in range(len(flat)):
        v = fscalar(S.chain.likelihood(list(flat[i])))
        # identical arithmetic on identical input -> identical value; 1e-10 only guards the interpolation spline
        if not ((v == lp[i]) or (np.isfinite(v) and np.isfinite(lp[i]) and abs(v - lp[i]) <= 1e-10 * max(1.0, abs(v)))):   # (-inf only equals -inf)
            bad = (i, v, lp[i])
            break
        if has_closed_form(C, mode):
            r = ref_loglike(cfg, lenses, C, dict(zip(names, flat[i])), mode)
            if not ((r == lp[i]) or (np.isfinite(r) and np.isfinite(lp[i]) and abs(r - lp[i]) <= 1e-8 * max(1.0, abs(r)))):
                rec.check(False, "C15:log_prob_vs_closed_form",
                          "stored log-prob != closed-form likelihood evaluated at {param_names()[i]: sample[i]} (%s)" % tag,
                          dict(inp, sample=flat[i], names=names), lp[i], r)
                break
    if bad is None and inp.get("mseed") is not None and len(flat):
        # the stored value must also be what a FRESH likelihood object returns, whatever was evaluated before (reversed order,
        # a handful of samples): a value that depends on the evaluation history of the sampler's own object is not "the likelihood
        # re-evaluated at that sample"
        S2 = build(cfg, inp["mseed"], mode)[0]
        idx = list(range(len(flat)))[::-1][:: max(1, len(flat) // 8)][:8]
        for i in idx:
            v = fscalar(S2.chain.likelihood(list(flat[i])))
            if not ((v == lp[i]) or (np.isfinite(v) and np.isfinite(lp[i]) and abs(v - lp[i]) <= 1e-9 * max(1.0, abs(v)))):
                rec.check(False, "C15:log_prob_history_dependent",
                          "stored log-prob != likelihood of a fresh, identically configured object at the stored sample (%s)" % tag,
                          dict(inp, sample=flat[i], names=names), lp[i], v)
                break
    if bad is not None:
        rec.check(False, "C15:log_prob_mismatch", "stored log-prob != likelihood re-evaluated at the stored sample (%s)" % tag,
                  dict(inp, sample=flat[bad[0]], names=names), bad[2], bad[1])


def check_names(rec, S, C, inp):
    names = S.param_names()
    ok = rec.check(list(names) == list(C["names"]) and S.param.num_param == len(C["names"]), "C15:param_names",
                   "param_names() is not the list of free parameters in vector order", inp, names, C["names"])
    lo, hi = S.param.param_bounds
    exp_lo, exp_hi = [BOX[nm][0] for nm in C["names"]], [BOX[nm][1] for nm in C["names"]]
    ok &= rec.check(list(lo) == exp_lo and list(hi) == exp_hi, "C15:bounds_by_name",
                    "bounds vector is not the per-name bounds in param_names() order", inp, [list(lo), list(hi)], [exp_lo, exp_hi])
    return ok


def check_names_all_groups(rec, inp):
    """parameter names in VECTOR order for a model that samples every group at once (cosmology, lens, kinematics, source, line of sight):
    the i-th name must be the documented name of the dictionary entry that x[i] drives (found by perturbing one component at a time)"""
    lenses = [dict(z_lens=0.5, z_source=1.5, likelihood_type="DdtGaussian", ddt_mean=4000.0, ddt_sigma=300.0)]
    km = dict(lambda_mst_sampling=True, anisotropy_sampling=True, anisotropy_model="OM", sne_apparent_m_sampling=True, los_sampling=True,
              los_distributions=["GAUSSIAN", "GEV"])
    kb = dict(kwargs_lower_cosmo=dict(h0=20.0, om=0.05), kwargs_upper_cosmo=dict(h0=140.0, om=0.9),
              kwargs_lower_lens=dict(lambda_mst=0.5), kwargs_upper_lens=dict(lambda_mst=1.5), kwargs_lower_kin=dict(a_ani=0.1), kwargs_upper_kin=dict(a_ani=5.0),
              kwargs_lower_source=dict(mu_sne=10.0, sigma_sne=0.0), kwargs_upper_source=dict(mu_sne=30.0, sigma_sne=1.0),
              kwargs_lower_los=[dict(mean=-0.1, sigma=0.0), dict(mean=-0.1, sigma=0.0, xi=-0.5)], kwargs_upper_los=[dict(mean=0.1, sigma=0.1), dict(mean=0.1, sigma=0.1, xi=0.5)])
    rec.case(dict(inp, model=km), kind="names_all_groups")
    try:
        S = MCMCSampler(lenses, "FLCDM", km, kb)
        names = list(S.param_names()); n = S.param.num_param
        x0 = np.linspace(0.31, 0.77, n)
        base = S.param.args2kwargs(list(x0))
        drive = []
        for i in range(n):
            x = x0.copy(); x[i] += 0.05
            kw = S.param.args2kwargs(list(x))
            ch = []
            for blk, b0, b1 in zip(["cosmo", "lens", "kin", "source"], base[:4], kw[:4]):
                ch += [key for key in b1 if key in b0 and b0[key] != b1[key]]
            for j, (d0, d1) in enumerate(zip(base[4], kw[4])):
                ch += ["%s_los_%d" % (key, j) for key in d1 if d0.get(key) != d1[key]]
            drive.append(ch[0] if len(ch) == 1 else ch)
    except Exception as e:
        rec.violation("C15:param_names:raises", "sampler with every parameter group raised %r" % (e,), inp, traceback.format_exc(limit=3), "names"); return
    rec.check(names == drive and len(names) == n, "C15:param_names", "param_names() is not in vector order for a model sampling all parameter groups",
              dict(inp, model=km), names, drive)


def new_backend(kind, path):
    if kind == "mem":
        return emcee.backends.Backend()
    if kind == "hdf":
        return emcee.backends.HDFBackend(path)
    return None


# ------------------------------------------------------------------------------------------------
# sub-check: fresh
# ------------------------------------------------------------------------------------------------
FORCED_FRESH = [("H", "exact"), ("H", "interp"), ("I", "exact"), ("J", "exact"), ("K", "exact"), ("E", "exact"), ("B", "interp"), ("J", "interp")]


def check_fresh(rec, rng, inp, wide=False):
    mode, cfg = gen_mode_cfg(rng)
    k = inp["case_seed"][2]
    if not wide and k < len(FORCED_FRESH):     # the first cases of every run: SAMPLED cosmologies, part of the parameters fixed
        cfg, mode = FORCED_FRESH[k]
    mseed = int(rng.integers(1000))
    S, lenses, C = build(cfg, mseed, mode)
    nd = len(C["names"])
    nw = int(2 * nd + 2 * rng.integers(0, 4)) if nd > 1 else int(rng.choice([2, 4, 6]))
    nb, nr = int(rng.integers(0, 4)), int(rng.integers(1, 6))
    if mode != "fixed":  # ~12 ms per likelihood call: keep these chains minimal
        nw, nb, nr = max(2 * nd, 2), int(rng.integers(0, 2)), int(rng.integers(1, 3))
    bk = str(rng.choice(["none", "mem", "hdf"]))
    mean, sigma = gen_start(rng, C, wide=wide)
    npseed = int(rng.integers(2 ** 31))
    path = os.path.join(SCRATCH, "fresh_%s.h5" % "_".join(str(c) for c in inp["case_seed"]))
    inp = dict(inp, cfg=cfg, mode=mode, mseed=mseed, n_walkers=nw, n_burn=nb, n_run=nr, backend=bk, start_mean=mean,
               start_sigma=sigma, np_seed=npseed)
    rec.case(dict(check=inp["check"], cfg=cfg, mode=mode, nw=nw, nb=nb, nr=nr, backend=bk),
             kind="%s:%s:%s:%s" % (inp["check"], cfg, mode, bk))
    if not check_names(rec, S, C, inp):
        return
    km, ks = start_kwargs(C, mean, sigma)
    be = new_backend(bk, path)
    kw = {} if be is None else dict(backend=be)
    try:
        np.random.seed(npseed)
        fs, lp = quiet(S.mcmc_emcee, nw, nb, nr, km, ks, **kw)
    except Exception as e:
        if wide:
            rec.tally("wide_ball:raised:%s" % type(e).__name__)
            return
        rec.check(False, "C15:fresh:raises", "mcmc_emcee raised on a valid configuration", inp, repr(e))
        return
    finally:
        pass
    fs, lp = np.asarray(fs), np.asarray(lp)
    ok = rec.check(fs.shape == (nw * nr, nd) and lp.shape == (nw * nr,), "C15:fresh:shape",
                   "returned samples are not n_walkers*n_run x num_param", inp, [fs.shape, lp.shape], [(nw * nr, nd), (nw * nr,)])
    if be is not None:
        ch, lg = be.get_chain(), be.get_log_prob()
        rec.check(be.iteration == nb + nr and ch.shape == (nb + nr, nw, nd), "C15:fresh:stored_iterations",
                  "a fresh run does not store exactly n_burn+n_run iterations", inp, [be.iteration, ch.shape], nb + nr)
        if ok and ch.shape == (nb + nr, nw, nd):
            rec.check(np.array_equal(ch[nb:].reshape(-1, nd), fs) and np.array_equal(lg[nb:].reshape(-1), lp),
                      "C15:fresh:returned_vs_store", "returned flat chain / log-prob != stored iterations after the burn-in", inp)
    if ok:
        check_store(rec, S, C, lenses, cfg, fs, lp, inp, ball_inside=not wide, mode=mode, tag="fresh")
    if os.path.exists(path):
        os.remove(path)


def check_wide(rec, rng, inp):
    check_fresh(rec, rng, inp, wide=True)


# ------------------------------------------------------------------------------------------------
# sub-check: history (in-process) and kill (child process)
# ------------------------------------------------------------------------------------------------
def run_op(S, C, op, be, mean, sigma, npseed):
    """one mcmc_emcee call, optionally stopped by an exception in the op['stop_at']-th likelihood call"""
    km, ks = start_kwargs(C, mean, sigma)
    calls = {"n": 0}
    orig = S.chain.likelihood
    if op.get("stop_at"):
        def lk(x, *a, **k):
            calls["n"] += 1
            if calls["n"] == op["stop_at"]:
                raise Stop()
            return orig(x, *a, **k)
        S.chain.likelihood = lk
    try:
        np.random.seed(npseed)
        out = quiet(S.mcmc_emcee, op["nw"], op["nb"], op["nr"], km, ks, continue_from_backend=(op["kind"] == "cont"), backend=be)
        return "done", out
    except Stop:
        return "stopped", None
    finally:
        if "likelihood" in S.chain.__dict__:
            del S.chain.__dict__["likelihood"]


def child_main(js):
    """child process: run one op on the HDF5 file and SIGKILL itself inside the kill_at-th likelihood call"""
    d = json.loads(js)
    S, lenses, C = build(d["cfg"], d["mseed"], d["mode"])
    be = emcee.backends.HDFBackend(d["path"])
    km, ks = start_kwargs(C, d["mean"], d["sigma"])
    calls = {"n": 0}
    orig = S.chain.likelihood

    def lk(x, *a, **k):
        calls["n"] += 1
        if calls["n"] == d["kill_at"]:
            os.kill(os.getpid(), signal.SIGKILL)
        return orig(x, *a, **k)
    S.chain.likelihood = lk
    np.random.seed(d["np_seed"])
    op = d["op"]
    quiet(S.mcmc_emcee, op["nw"], op["nb"], op["nr"], km, ks, continue_from_backend=(op["kind"] == "cont"), backend=be)
    sys.exit(3)  # not reached when kill_at is within the run


def run_child(d):
    env = dict(os.environ, PYTHONPATH=REPO, PYTHONHASHSEED="0", HIERARC_REPO=REPO)
    r = subprocess.run([sys.executable, os.path.abspath(__file__), "--child", json.dumps(jsonable(d))], env=env,
                       capture_output=True, timeout=120)
    return r.returncode, r.stderr.decode(errors="replace")[-500:]


def snapshot(be):
    k = be.iteration
    if k == 0:
        return 0, None, None
    return k, np.array(be.get_chain(), copy=True), np.array(be.get_log_prob(), copy=True)


def gen_ops(rng, nd, n_ops, stop_prob, small=False):
    nw = int(2 * nd + 2 * rng.integers(0, 3)) if nd > 1 else int(rng.choice([2, 4]))
    if small:
        nw, n_ops = max(2 * nd, 2), min(n_ops, 3)
    ops = []
    for i in range(n_ops):
        kind = "fresh" if i == 0 else str(rng.choice(["cont", "cont", "cont", "fresh"]))
        nb, nr = int(rng.integers(0, 3)), int(rng.integers(1, 5))
        if small:
            nb, nr = int(rng.integers(0, 2)), int(rng.integers(1, 3))
        op = dict(kind=kind, nw=nw, nb=nb, nr=nr, reopen=bool(rng.random() < 0.5))
        if kind == "fresh" and i > 0 and rng.random() < 0.4:
            op["nw"] = nw = nw + 2  # a fresh run may change the ensemble size
        else:
            op["nw"] = nw
        if rng.random() < stop_prob:
            # calls: nw for the start ensemble (fresh only), then nw per iteration; stop mostly after >= 1 iteration
            total = (nw if kind == "fresh" else 0) + nw * (nb + nr)
            first = (2 * nw + 1) if kind == "fresh" else 1
            if total > first:
                op["stop_at"] = int(rng.integers(first, total + 1))
        ops.append(op)
    return ops


def check_history(rec, rng, inp, forced_ops=None, use_child=False, bk=None, cfg=None):
    mode, cfg = gen_mode_cfg(rng, cfg)
    if use_child:
        mode = "fixed"
    mseed = int(rng.integers(1000))
    S, lenses, C = build(cfg, mseed, mode)
    nd = len(C["names"])
    bk = (str(rng.choice(["hdf", "hdf", "mem"])) if bk is None else bk)
    ops = gen_ops(rng, nd, int(rng.integers(2, 6)), 0.3, small=(mode != "fixed")) if forced_ops is None else forced_ops(rng, nd)
    mean, sigma = gen_start(rng, C)
    seeds = [int(rng.integers(2 ** 31)) for _ in ops]
    path = os.path.join(SCRATCH, "hist_%s.h5" % "_".join(str(c) for c in inp["case_seed"]))
    if os.path.exists(path):
        os.remove(path)
    inp = dict(inp, cfg=cfg, mode=mode, mseed=mseed, backend=bk, ops=ops, start_mean=mean, start_sigma=sigma, np_seeds=seeds)
    rec.case(dict(check=inp["check"], cfg=cfg, mode=mode, backend=bk, ops=[(o["kind"], o["nb"], o["nr"], o.get("stop_at"), o.get("kill_at")) for o in ops]),
             kind="%s:%s:%s" % (inp["check"], bk, "+".join(o["kind"][0] + ("x" if (o.get("stop_at") or o.get("kill_at")) else "") for o in ops)))
    be = new_backend(bk, path)
    try:
        for i, op in enumerate(ops):
            tag = "op %d (%s)" % (i, op["kind"])
            inp_i = dict(inp, step=i)
            if bk == "hdf" and op.get("reopen") and i > 0:
                be = new_backend(bk, path)  # what a new process would do
            try:
                k0, c0, l0 = snapshot(be) if be.initialized else (0, None, None)
            except Exception as e:
                rec.check(False, "C15:history:store_unreadable", "backend not readable before %s" % tag, inp_i, repr(e))
                return
            if op["kind"] == "cont" and k0 == 0:
                # continuing an initialised-but-empty store: known finding (emcee has no previous state)
                try:
                    status, out = run_op(S, C, dict(op, stop_at=None), be, mean, sigma, seeds[i])
                    rec.tally("continue_from_empty_backend:works")
                    k1 = be.iteration
                    rec.check(k1 == op["nb"] + op["nr"], "C15:history:appended_count",
                              "continued run on an empty store did not store exactly n_burn+n_run iterations", inp_i, k1, op["nb"] + op["nr"])
                    continue
                except Exception as e:
                    rec.check(False, "C15:continue_from_empty_backend",
                              "continue_from_backend=True on an initialised-but-empty backend raises", inp_i, repr(e),
                              "continue (start from the start ball) or a clear refusal")
                    return
            if op.get("kill_at"):
                d = dict(cfg=cfg, mseed=mseed, mode=mode, path=path, mean=mean, sigma=sigma, kill_at=op["kill_at"],
                         np_seed=seeds[i], op={k: op[k] for k in ("kind", "nw", "nb", "nr")})
                rc, err = run_child(d)
                if rc == 1:
                    rec.check(False, "C15:history:raises", "mcmc_emcee raised in the child process before the kill point (%s)" % tag,
                              inp_i, err[-300:])
                    return
                if rc != -signal.SIGKILL:
                    rec.error("child did not die by SIGKILL (rc=%s): %s" % (rc, err))
                    return
                status, out = "stopped", None
                try:
                    be = new_backend("hdf", path)
                    _ = be.iteration
                    if be.iteration > 0:
                        _ = be.get_chain()
                except Exception as e:
                    rec.check(False, "C15:kill:store_unreadable", "HDF5 store unreadable after the process was killed inside the likelihood",
                              inp_i, repr(e))
                    return
            else:
                # independent reference for a completed continued run: emcee's own contract on a COPY of the store --
                # the continuation is a deterministic function of the stored state (last positions + stored RNG state)
                ref_new = None
                if op["kind"] == "cont" and not op.get("stop_at") and (mode == "fixed" or rng.random() < 0.3):
                    try:
                        if bk == "hdf":
                            cpath = path + ".copy"
                            shutil.copyfile(path, cpath)
                            bcopy = emcee.backends.HDFBackend(cpath)
                        else:
                            bcopy = copy.deepcopy(be)
                        smp = emcee.EnsembleSampler(op["nw"], nd, S.chain.likelihood, backend=bcopy)
                        quiet(smp.run_mcmc, None, op["nb"] + op["nr"], progress=False)
                        ref_new = (np.array(bcopy.get_chain()[k0:], copy=True), np.array(bcopy.get_log_prob()[k0:], copy=True))
                        if bk == "hdf":
                            os.remove(cpath)
                    except ValueError as e:
                        ref_new = None  # emcee's in-memory left-over allocation problem (see REPORT_INMEMORY_GROW); handled below
                        if "negative dimensions" not in str(e):
                            rec.error("reference continuation failed: " + traceback.format_exc(limit=3))
                    except Exception:
                        rec.error("reference continuation failed: " + traceback.format_exc(limit=3))
                try:
                    status, out = run_op(S, C, op, be, mean, sigma, seeds[i])
                except Exception as e:
                    leftover = (len(be.chain) - be.iteration) if (bk == "mem" and getattr(be, "chain", None) is not None) else 0
                    if bk == "mem" and isinstance(e, ValueError) and "negative dimensions" in str(e) and leftover > op["nb"] + op["nr"]:
                        rec.tally("observed:inmemory_continue_shorter_than_leftover_allocation_raises")
                        if REPORT_INMEMORY_GROW:
                            rec.violation("C15:history:inmemory_continue_after_stop", "in-memory backend: continue after a stopped run "
                                          "with fewer iterations than the left-over allocation raises", inp_i, repr(e))
                        return
                    rec.check(False, "C15:history:raises", "mcmc_emcee raised in %s" % tag, inp_i, repr(e))
                    return
            k1 = be.iteration
            n_req = op["nb"] + op["nr"]
            rec.tally("stop_point:k=%s" % (min(k1 - (k0 if op["kind"] == "cont" else 0), 9)) if status == "stopped" else "completed:%s" % op["kind"])
            if k1 > 0:
                c1, l1 = be.get_chain(), be.get_log_prob()
            else:
                c1, l1 = np.zeros((0, op["nw"], nd)), np.zeros((0, op["nw"]))
            if op["kind"] == "cont":
                if status == "done":
                    rec.check(k1 == k0 + n_req, "C15:history:appended_count",
                              "continued run did not append exactly n_burn+n_run iterations", inp_i, k1 - k0, n_req)
                else:
                    rec.check(k0 <= k1 < k0 + n_req, "C15:history:appended_count",
                              "stopped continued run: stored iterations outside [k, k+n)", inp_i, k1 - k0, "0..%d" % (n_req - 1))
                same = k1 >= k0 and np.array_equal(c1[:k0], c0) and np.array_equal(l1[:k0], l0)
                rec.check(same, "C15:history:prefix_changed",
                          "continued run changed stored iterations (positions or log-probs) of the prefix", inp_i,
                          dict(k_before=k0, k_after=k1))
                if not same:
                    return
                if status == "done":
                    fs, lp = np.asarray(out[0]), np.asarray(out[1])
                    tail_ok = (fs.shape[0] >= op["nr"] * op["nw"] and np.array_equal(fs[-op["nr"] * op["nw"]:], c1[-op["nr"]:].reshape(-1, nd))
                               and np.array_equal(lp[-op["nr"] * op["nw"]:], l1[-op["nr"]:].reshape(-1)))
                    rec.check(tail_ok, "C15:history:returned_tail",
                              "the last n_run*n_walkers returned rows are not the last n_run stored iterations", inp_i, fs.shape)
                new_c, new_l = c1[k0:], l1[k0:]
                if status == "done" and ref_new is not None:
                    rec.check(new_c.shape == ref_new[0].shape and np.array_equal(new_c, ref_new[0]) and np.array_equal(new_l, ref_new[1]),
                              "C15:history:not_continued_from_store",
                              "appended iterations differ from emcee continuing the same store (p0=None, stored RNG state): "
                              "the run did not start from the last stored state", inp_i)
            else:
                if status == "done":
                    rec.check(k1 == n_req and c1.shape == (n_req, op["nw"], nd), "C15:history:fresh_not_reset",
                              "a run without continue_from_backend did not start from an emptied store", inp_i,
                              [k1, c1.shape], [n_req, (n_req, op["nw"], nd)])
                    fs, lp = np.asarray(out[0]), np.asarray(out[1])
                    rec.check(fs.shape == (op["nr"] * op["nw"], nd) and np.array_equal(fs, c1[op["nb"]:].reshape(-1, nd))
                              and np.array_equal(lp, l1[op["nb"]:].reshape(-1)), "C15:fresh:shape",
                              "fresh run on a used backend: returned samples != n_walkers*n_run stored rows after burn-in",
                              inp_i, fs.shape, (op["nr"] * op["nw"], nd))
                else:
                    rec.check(k1 < n_req and (k1 == 0 or c1.shape[1] == op["nw"]), "C15:history:fresh_not_reset",
                              "stopped fresh run: store not emptied first", inp_i, [k1, c1.shape], "< %d iterations" % n_req)
                new_c, new_l = c1, l1
            if len(new_c):
                check_store(rec, S, C, lenses, cfg, new_c, new_l, inp_i, ball_inside=True, mode=mode, tag=tag)
    finally:
        if os.path.exists(path):
            os.remove(path)


def forced_empty(rng, nd):
    nw = max(2 * nd, 2) + 2
    return [dict(kind="fresh", nw=nw, nb=0, nr=3, stop_at=int(rng.integers(1, nw + 1))),
            dict(kind="cont", nw=nw, nb=0, nr=2, reopen=True)]


def check_empty(rec, rng, inp):
    check_history(rec, rng, inp, forced_ops=forced_empty, bk=str(rng.choice(["hdf", "mem"])))


def forced_kill(rng, nd):
    nw = max(2 * nd, 2) + 2
    mode = int(rng.integers(0, 3))
    if mode == 0:    # kill a fresh run after >= 1 stored iteration, then continue (twice)
        return [dict(kind="fresh", nw=nw, nb=0, nr=6, kill_at=int(rng.integers(2 * nw + 1, 7 * nw + 1))),
                dict(kind="cont", nw=nw, nb=int(rng.integers(0, 2)), nr=int(rng.integers(1, 4)), reopen=True),
                dict(kind="cont", nw=nw, nb=0, nr=2, reopen=False)]
    if mode == 1:    # complete run, kill a continued run anywhere, continue again
        return [dict(kind="fresh", nw=nw, nb=1, nr=2),
                dict(kind="cont", nw=nw, nb=0, nr=5, kill_at=int(rng.integers(1, 5 * nw + 1))),
                dict(kind="cont", nw=nw, nb=0, nr=3, reopen=True)]
    # kill a fresh run on a used store (reset happened, maybe nothing stored), then a fresh run again, then continue
    return [dict(kind="fresh", nw=nw, nb=0, nr=2),
            dict(kind="fresh", nw=nw, nb=0, nr=4, kill_at=int(rng.integers(2 * nw + 1, 5 * nw + 1))),
            dict(kind="cont", nw=nw, nb=1, nr=2, reopen=True)]


def check_kill(rec, rng, inp):
    check_history(rec, rng, inp, forced_ops=forced_kill, bk="hdf", cfg=str(rng.choice(["A", "C", "G", "D"])), use_child=True)


def forced_kill_empty(rng, nd):
    nw = max(2 * nd, 2) + 2
    return [dict(kind="fresh", nw=nw, nb=0, nr=3, kill_at=int(rng.integers(1, 2 * nw))),
            dict(kind="cont", nw=nw, nb=0, nr=2, reopen=True)]


def check_kill_empty(rec, rng, inp):
    check_history(rec, rng, inp, forced_ops=forced_kill_empty, bk="hdf", cfg="C", use_child=True)


CHECKS = dict(fresh=check_fresh, history=check_history, kill=check_kill, wide_ball=check_wide, empty=check_empty,
              kill_empty=check_kill_empty)
SALT = dict(fresh=1, history=2, kill=3, wide_ball=4, empty=5, kill_empty=6)
PLAN = dict(quick=dict(fresh=40, history=30, kill=2, wide_ball=3, empty=2, kill_empty=0),
            thorough=dict(fresh=450, history=350, kill=18, wide_ball=20, empty=10, kill_empty=3))


def run_case(rec, name, cs):
    rng = np.random.default_rng([int(c) for c in cs])
    try:
        CHECKS[name](rec, rng, dict(check=name, case_seed=[int(c) for c in cs]))
    except Exception:
        rec.error("%s %s: %s" % (name, cs, traceback.format_exc(limit=8)))


def main():
    if len(sys.argv) >= 3 and sys.argv[1] == "--child":
        child_main(sys.argv[2])
        return
    args = parse_args(PROP)
    rec = Recorder(PROP, args.tier, args.seed, RULE)
    np.random.seed(args.seed % (2 ** 31))
    os.makedirs(SCRATCH, exist_ok=True)
    try:
        if args.replay:
            with open(args.replay) as f:
                rp = json.load(f)
            i = unjson(rp["input"])
            if i["check"] == "names_all_groups": check_names_all_groups(rec, dict(check="names_all_groups", case_seed=i["case_seed"]))
            else: run_case(rec, i["check"], i["case_seed"])
        else:
            check_names_all_groups(rec, dict(check="names_all_groups", case_seed=[args.seed, 0, 0]))
            for name, cnt in PLAN[args.tier].items():
                for i in range(cnt):
                    run_case(rec, name, [args.seed, SALT[name], i])
    finally:
        shutil.rmtree(SCRATCH, ignore_errors=True)
    out = rec.write(args.out)
    print("C15 %s seed=%d: %d cases, %d violations %s, %d errors, %.1fs" % (
        args.tier, args.seed, out["evaluations"], len(out["violations"]), sorted(out["violation_counts"]),
        len(out["errors"]), out["wall_s"]))


if __name__ == "__main__":
    main()
