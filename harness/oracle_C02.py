"""Implementation-level oracle for C02:
   "Log-probability is -inf exactly outside the prior box and never NaN inside it".

Real CosmoLikelihood objects are built for every cosmology x every lens likelihood type (plus random extra lens
types, random sampled blocks, interpolated / plain astropy distances, optional SNe likelihood and custom prior).
Every data-likelihood entry point is wrapped ON THE INSTANCE to count evaluations:
  LensSampleLikelihood.log_likelihood, each lens' _lens_type.log_likelihood, SneLikelihood.log_likelihood, the custom
  prior, and (separately keyed, this is the stricter design theorem) ParamManager.args2kwargs.

Sub-checks / violation keys
  C02:outside:not_neg_inf:<mode>     a vector with ONE component outside [lower,upper] (just outside by 1 ulp / 1e-9
                                     relative, far outside, +-inf; each component in turn) does not give exactly -inf
  C02:outside:data_evaluated:<mode>  ... or a data likelihood was evaluated for it
  C02:outside:args2kwargs_called     ... or the vector was already unpacked (design theorem C02_outside_box)
  C02:outside:raises                 ... or the call raised
  C02:edge_rejected                  a vector ON the box edge (component == lower or == upper) was treated as outside
                                     (returned -inf without evaluating anything although the guard passes)
  C02:inside:raises:<ExcType>        a vector inside / on the edge of the box raised
  C02:inside:nan / :plus_inf / :not_real   result is NaN / +inf / complex / not a scalar
  C02:inside:lens_calls              guard passing but the lens-sample likelihood was not called exactly once with the
                                     args2kwargs dictionaries
  C02:olcdm_guard:not_neg_inf        oLCDM, Omega_Lambda<=0 or E^2(z*)<=0 at a lens' highest redshift: result != -inf
  C02:olcdm_guard:data_evaluated     ... or data evaluated
  C02:olcdm_interior_E2              (KNOWN FINDING) E^2(z)<=0 for some 0<z<z_max although endpoint and Omega_Lambda
                                     are positive: the guard passes and a likelihood is returned
  C02:nondeterministic_outside       same outside vector gives different answers on a second call
  C02:raises:gamma_pl_global_draw_outside_grid     (KNOWN FINDING) Gaussian global slope, >=2-d kin-scaling grid with a
                                     gamma_pl axis: a draw outside the axis -> RegularGridInterpolator ValueError
  C02:raises:scaled_mean_outside_grid_recursion    (KNOWN FINDING) gamma_in + alpha_gamma_in*x outside the grid with zero
                                     scatter: endless re-draw -> RecursionError
  C02:raises:DdtDdKDE_los_draw       regression witness (repaired by 377b90b): DdtDdKDE lens + line-of-sight draw raised
  C02:raises:descending_axis         a kinematic scaling grid whose axis/axes are tabulated high-to-low (legal: interp1d sorts,
                                     RegularGridInterpolator takes strictly descending axes), that parameter sampled at population
                                     level (a_ani / beta_inf / gamma_in / log_m2l; per-lens gamma_pl as a by-stander), prior bounds
                                     strictly inside the interpolation range: an in-box vector raised  (run_descending; the random
                                     configurations of run_case also reverse axes now and then, keyed C02:inside:raises:<ExcType>)
"""
import copy, json, sys, os, time
for _v in ("OMP_NUM_THREADS", "OPENBLAS_NUM_THREADS", "MKL_NUM_THREADS"):   # tiny matrices: threads only cost time
    os.environ.setdefault(_v, "1")
sys.path.insert(0, os.path.dirname(os.path.abspath(__file__)))
from common import *  # noqa
import numpy as np

PROP = "C02"
COSMOLOGIES = ["FLCDM", "FwCDM", "w0waCDM", "oLCDM"]
A_ANI_AX = [0.5, 5.0]
GAMMA_IN_AX = [0.2, 2.2]
LOG_M2L_AX = [0.0, 1.0]
GAMMA_PL_AX = [1.5, 2.5]
BETA_INF_AX = [0.0, 1.0]


# ---------------------------------------------------------------------------------------------------------
def gen_case(rng, cosmology, t0, tier):
    """json-able description of one CosmoLikelihood configuration"""
    B = lambda p=0.5: bool(rng.random() < p)
    ch = lambda xs: xs[int(rng.integers(len(xs)))]
    extra = [ch(TYPES) for _ in range(int(rng.integers(0, 3)))]
    if t0 == "DSPL" and rng.random() < 0.5: extra = []   # so that z_source2 is the highest redshift of the sample
    types = [t0] + extra
    aniso_model = ch(["OM", "GOM", "const"])
    m = dict(
        cosmology=cosmology, types=types, lens_seed=int(rng.integers(2 ** 31)),
        ppn_sampling=B(), lambda_mst_sampling=B(0.8), lambda_mst_distribution=ch(["GAUSSIAN", "GAUSSIAN", "NONE"]),
        lambda_ifu_sampling=B(0.4), lambda_ifu_distribution=ch(["GAUSSIAN", "NONE"]),
        alpha_lambda_sampling=B(0.4), beta_lambda_sampling=B(0.3),
        anisotropy_sampling=B(0.6), anisotropy_model=aniso_model,
        anisotropy_distribution=ch(["NONE", "GAUSSIAN", "GAUSSIAN_SCALED"] if aniso_model in ["OM", "GOM"] else ["NONE", "GAUSSIAN"]),
        gamma_in_sampling=B(0.3), gamma_in_distribution=ch(["GAUSSIAN", "NONE"]),
        log_m2l_sampling=B(0.3), log_m2l_distribution=ch(["GAUSSIAN", "NONE"]),
        alpha_gamma_in_sampling=B(0.3), alpha_log_m2l_sampling=B(0.3),
        gamma_pl=ch(["none", "none", "per_lens", "global_NONE", "global_GAUSSIAN"]),
        sigma_v_systematics=B(0.3), sne_apparent_m_sampling=B(0.6), sne_distribution=ch(["GAUSSIAN", "NONE"]),
        log_scatter=B(0.35), los=[ch(["GAUSSIAN", "GEV"]) for _ in range(int(rng.integers(0, 3)))],
        interpolate_cosmo=B(0.8), num_redshift_interp=int(ch([25, 40, 60])), normalized=B(),
        sne=B(0.12) and cosmology != "oLCDM", custom_prior=B(0.3), fix=ch(["none", "none", "h0", "om", "lambda_mst_sigma"]),
        z_source_hi=B(0.3), cosmo_fixed=B(0.4), singular=B(0.12), pseed=int(rng.integers(2 ** 31)))
    # building an astropy cosmology costs ~40 ms (astropy 8 unit composition): with a sampled cosmology the quick tier
    # affords few interior evaluations; with cosmo_fixed (cosmology built once) the other blocks are explored densely
    if tier == "quick": m["n_inside"], m["n_edge"] = (20, 99) if m["cosmo_fixed"] else (5, 2)
    else: m["n_inside"], m["n_edge"] = (40, 99) if m["cosmo_fixed"] else (20, 99)
    if any(t in MAG_TYPES for t in types): m["sne_apparent_m_sampling"] = True   # a magnitude needs mu_sne
    # NaN path: a double-source-plane lens whose first source is just behind the deflector has a small beta; with a
    # sampled (non-integer) slope (beta-(1-lambda)(1-beta))**(1/(gamma-1)) is NaN for small lambda -> nan_to_num
    m["dspl_low_beta"] = B(0.5)
    if t0 == "DSPL" and m["dspl_low_beta"] and rng.random() < 0.8: m["gamma_pl"] = ch(["global_NONE", "global_GAUSSIAN"])
    # the proviso allows the prior box of an interpolated parameter to be the WHOLE interpolation range (the usual choice): then the
    # edge vectors sit exactly on the first / last grid node
    m["tight_bounds"] = B(0.35)
    return m


def kin_scaling_for(m, rng, nkin, j=0):
    """kinematic scaling grid of lens j (a kinematic lens), consistent with the globally sampled parameters"""
    names, axes = [], []
    if m["anisotropy_sampling"]:
        names.append("a_ani"); axes.append(np.linspace(A_ANI_AX[0], A_ANI_AX[1], 4))
        if m["anisotropy_model"] == "GOM": names.append("beta_inf"); axes.append(np.linspace(BETA_INF_AX[0], BETA_INF_AX[1], 3))
    if m["gamma_in_sampling"]: names.append("gamma_in"); axes.append(np.linspace(GAMMA_IN_AX[0], GAMMA_IN_AX[1], 4))
    if m["log_m2l_sampling"]: names.append("log_m2l"); axes.append(np.linspace(LOG_M2L_AX[0], LOG_M2L_AX[1], 3))
    # a Gaussian global slope is not re-drawn into the grid range: only a 1-d grid (which extrapolates) is inside the
    # proviso "interpolated parameters stay inside their interpolation range" (see run_candidates)
    if m["gamma_pl"] in ("per_lens", "global_NONE") or (m["gamma_pl"] == "global_GAUSSIAN" and len(names) == 0):
        names.append("gamma_pl"); axes.append(np.linspace(GAMMA_PL_AX[0], GAMMA_PL_AX[1], 4))
    if not names: return {}
    shape = tuple(len(a) for a in axes)
    grids = [rng.uniform(0.8, 1.25, size=shape) for _ in range(nkin)]
    # orientation: about a third of the grids have some axes tabulated high-to-low (own random stream, the draws above stay as
    # they were; the grid values are random, so they need no flipping)
    rd = rng_of(m["lens_seed"], 13 + j)
    if rd.random() < 0.35:
        flip = [bool(rd.random() < 0.6) for _ in axes]
        if not any(flip): flip[int(rd.integers(len(axes)))] = True
        axes = [np.ascontiguousarray(a[::-1]) if f else a for a, f in zip(axes, flip)]
    return dict(kin_scaling_param_list=names, j_kin_scaling_param_axes=axes if len(axes) > 1 or rng.random() < 0.5 else axes[0],
                j_kin_scaling_grid_list=grids)


def build(m):
    from hierarc.Likelihood.cosmo_likelihood import CosmoLikelihood
    rng = rng_of(m["lens_seed"], 7)
    lenses = []
    nlos = len(m["los"])
    for j, t in enumerate(m["types"]):
        nkin = int(rng.integers(1, 4))
        zl = float(np.round(rng.uniform(0.2, 0.8), 3))
        zs = float(np.round(rng.uniform(zl + 0.4, 2.5), 3)) if not m["z_source_hi"] else float(np.round(rng.uniform(3.0, 5.0), 3))
        kw = dict(z_lens=zl, z_source=zs, likelihood_type=t, num_distribution_draws=int(rng.integers(3, 9)), **lens_kwargs(t, rng, nkin))
        if t == "DSPL":
            if m.get("dspl_low_beta"): zs = kw["z_source"] = float(np.round(zl + rng.uniform(0.03, 0.15), 3))
            kw["z_source2"] = float(np.round(zs + rng.uniform(0.3, 1.5), 3))
        if m.get("singular"):   # malformed data: exactly singular (all-zero) covariances must give -inf, not an exception
            for key in list(kw):
                if key.startswith("cov_") or key.startswith("error_cov_"): kw[key] = np.zeros_like(kw[key])
        if t in KIN_TYPES:
            kw.update(kin_scaling_for(m, rng, nkin, j))
            # (with all-zero covariances a rank-1 systematic term gives a numerically singular, non-PD matrix for which
            #  the normalised KinLikelihood deliberately raises "needs to be positive definite": outside this property)
            if m["sigma_v_systematics"] and not m.get("singular"): kw["sigma_sys_error_include"] = bool(rng.random() < 0.7)
        kw["lambda_scaling_property"] = float(np.round(rng.uniform(-1, 1), 3)); kw["lambda_scaling_property_beta"] = float(np.round(rng.uniform(-1, 1), 3))
        kw["mst_ifu"] = bool(rng.random() < 0.3)
        r = rng.random()
        if nlos and r < 0.6: kw["global_los_distribution"] = int(rng.integers(nlos))
        elif r < 0.8:
            kw["los_distribution_individual"] = "PDF"
            kw["kwargs_los_individual"] = dict(bin_edges=np.linspace(-0.1, 0.2, 11), pdf_array=rng.uniform(0.1, 1, 10))
        elif r < 0.9:
            kw["los_distribution_individual"] = "GEV"; kw["kwargs_los_individual"] = dict(xi=0.1, mean=0.0, sigma=0.03)
        if rng.random() < 0.25: kw["prior_list"] = [["a_ani", 1.5, 0.5], ["lambda_mst", 1.0, 0.2]]
        lenses.append(kw)
    model = {k: m[k] for k in ["ppn_sampling", "lambda_mst_sampling", "lambda_mst_distribution", "lambda_ifu_sampling", "lambda_ifu_distribution",
                               "alpha_lambda_sampling", "beta_lambda_sampling", "anisotropy_sampling", "anisotropy_model", "anisotropy_distribution",
                               "gamma_in_sampling", "gamma_in_distribution", "log_m2l_sampling", "log_m2l_distribution", "alpha_gamma_in_sampling",
                               "alpha_log_m2l_sampling", "sigma_v_systematics", "sne_apparent_m_sampling", "sne_distribution", "log_scatter"]}
    model["gamma_pl_global_sampling"] = m["gamma_pl"].startswith("global"); model["gamma_pl_global_dist"] = "GAUSSIAN" if m["gamma_pl"] == "global_GAUSSIAN" else "NONE"
    model["los_sampling"] = nlos > 0; model["los_distributions"] = list(m["los"])
    s0 = 1e-3 if m["log_scatter"] else 0.0   # log10(0) is not a usable bound
    n_slopes = sum(1 for kw in lenses if "gamma_pl" in kw.get("kin_scaling_param_list", [])) if m["gamma_pl"] == "per_lens" else 0
    lo = dict(cosmo=dict(h0=10., om=0.05, w=-2., w0=-2., wa=-1., ok=-1., gamma_ppn=0.),
              lens=dict(lambda_mst=0.5, lambda_mst_sigma=s0, lambda_ifu=0.5, lambda_ifu_sigma=s0, alpha_lambda=-0.3, beta_lambda=-0.3,
                        gamma_in=GAMMA_IN_AX[0] + 0.15, gamma_in_sigma=s0, log_m2l=LOG_M2L_AX[0] + 0.15, log_m2l_sigma=s0,
                        alpha_gamma_in=-0.1, alpha_log_m2l=-0.1, gamma_pl_mean=1.8, gamma_pl_sigma=0.0, gamma_pl_list=[1.6] * n_slopes),
              kin=dict(a_ani=A_ANI_AX[0] + 0.1, a_ani_sigma=s0, beta_inf=BETA_INF_AX[0] + 0.05, beta_inf_sigma=s0, sigma_v_sys_error=s0),
              source=dict(mu_sne=10., sigma_sne=0.), los=[dict(mean=-0.2, sigma=0.0, xi=-0.5) for _ in m["los"]])
    hi = dict(cosmo=dict(h0=150., om=1., w=0., w0=0., wa=1., ok=1., gamma_ppn=5.),
              lens=dict(lambda_mst=1.5, lambda_mst_sigma=0.5, lambda_ifu=1.5, lambda_ifu_sigma=0.5, alpha_lambda=0.3, beta_lambda=0.3,
                        gamma_in=GAMMA_IN_AX[1] - 0.15, gamma_in_sigma=0.3, log_m2l=LOG_M2L_AX[1] - 0.15, log_m2l_sigma=0.2,
                        alpha_gamma_in=0.1, alpha_log_m2l=0.1, gamma_pl_mean=2.2, gamma_pl_sigma=0.1, gamma_pl_list=[2.4] * n_slopes),
              kin=dict(a_ani=A_ANI_AX[1] - 0.1, a_ani_sigma=0.5, beta_inf=BETA_INF_AX[1] - 0.05, beta_inf_sigma=0.3, sigma_v_sys_error=0.2),
              source=dict(mu_sne=30., sigma_sne=1.), los=[dict(mean=0.3, sigma=0.15, xi=0.5) for _ in m["los"]])
    if m.get("tight_bounds"):
        lo["kin"]["a_ani"], hi["kin"]["a_ani"] = float(A_ANI_AX[0]), float(A_ANI_AX[1])
        lo["kin"]["beta_inf"], hi["kin"]["beta_inf"] = float(BETA_INF_AX[0]), float(BETA_INF_AX[1])
        if not m["alpha_gamma_in_sampling"]: lo["lens"]["gamma_in"], hi["lens"]["gamma_in"] = float(GAMMA_IN_AX[0]), float(GAMMA_IN_AX[1])
        if not m["alpha_log_m2l_sampling"]: lo["lens"]["log_m2l"], hi["lens"]["log_m2l"] = float(LOG_M2L_AX[0]), float(LOG_M2L_AX[1])
    fixed = dict(kwargs_fixed_cosmo={}, kwargs_fixed_lens={})
    if m["fix"] == "h0": fixed["kwargs_fixed_cosmo"]["h0"] = 72.5
    if m["fix"] == "om": fixed["kwargs_fixed_cosmo"]["om"] = 0.31
    if m["fix"] == "lambda_mst_sigma": fixed["kwargs_fixed_lens"]["lambda_mst_sigma"] = 0.04
    bounds = dict(fixed)
    for b in ["cosmo", "lens", "kin", "source", "los"]:
        bounds["kwargs_lower_" + b] = lo[b]; bounds["kwargs_upper_" + b] = hi[b]
    counters = dict(prior=0)
    prior = None
    if m["custom_prior"]:
        def prior(kc, kl, kk, ks, klos):
            counters["prior"] += 1
            return -0.5 * ((kc.get("h0", 70.) - 70.) / 30.) ** 2
    extra = {}
    if m["sne"]: extra = dict(sne_likelihood="Pantheon_binned")
    if m.get("cosmo_fixed"):
        from astropy.cosmology import FlatLambdaCDM
        extra["cosmo_fixed"] = FlatLambdaCDM(H0=68.0, Om0=0.32)
    cl = CosmoLikelihood(lenses, m["cosmology"], model, bounds, normalized=m["normalized"], custom_prior=prior,
                         interpolate_cosmo=m["interpolate_cosmo"], num_redshift_interp=m["num_redshift_interp"], **extra)
    return cl, lenses, counters


class Counts(object):
    """wraps every data-likelihood entry point of a CosmoLikelihood instance"""

    def __init__(self, cl, counters):
        self.c = dict(sample=0, lens=0, sne=0, a2k=0)
        self.counters = counters
        self.sample_kwargs = []
        ls = cl._likelihoodLensSample
        orig = ls.log_likelihood

        def sample(*a, **k):
            self.c["sample"] += 1
            self.sample_kwargs.append(copy.deepcopy({kk: k.get(kk) for kk in ["kwargs_lens", "kwargs_kin", "kwargs_source", "kwargs_los"]}))
            return orig(*a, **k)
        ls.log_likelihood = sample
        for lens in ls._lens_list:
            self._wrap(lens._lens_type, "log_likelihood", "lens")
        if getattr(cl, "_sne_evaluate", False): self._wrap(cl._sne_likelihood, "log_likelihood", "sne")
        self._wrap(cl.param, "args2kwargs", "a2k")

    def _wrap(self, obj, name, tag):
        orig = getattr(obj, name)

        def f(*a, **k):
            self.c[tag] += 1
            return orig(*a, **k)
        setattr(obj, name, f)

    def reset(self):
        for k in self.c: self.c[k] = 0
        self.counters["prior"] = 0
        self.sample_kwargs = []

    def data(self):
        return self.c["sample"] + self.c["lens"] + self.c["sne"] + self.counters["prior"]

    def snapshot(self):
        return dict(self.c, prior=self.counters["prior"])


def z_star(lens):
    return lens["z_source2"] if "z_source2" in lens else (lens["z_source"] if "z_source" in lens else 1100)


def e2(om, ok, z):
    return ok * (1.0 + z) ** 2 + om * (1.0 + z) ** 3 + (1.0 - om - ok)


def e2_min_interior(om, ok, zmax):
    """minimum of E^2 on [0, zmax]: endpoints + stationary point of the cubic in a=1+z: 2 ok a + 3 om a^2 = 0"""
    cands = [0.0, zmax]
    if om > 0:
        a = -2.0 * ok / (3.0 * om)
        if 1.0 < a < 1.0 + zmax: cands.append(a - 1.0)
    return min(e2(om, ok, z) for z in cands)


def classify(v):
    """returns (tag, scalar) for a returned log-probability"""
    a = np.asarray(v)
    if a.size != 1 or not np.isrealobj(a) or a.dtype == object: return "not_real", None
    x = float(a.reshape(-1)[0])
    if x != x: return "nan", x
    if x == np.inf: return "plus_inf", x
    return ("neg_inf" if x == -np.inf else "finite"), x


def jeq(a, b):
    return json.dumps(jsonable(a), sort_keys=True) == json.dumps(jsonable(b), sort_keys=True)


def outside_points(lower, upper, x_in, i, modes):
    lo, up = float(lower[i]), float(upper[i])
    out = []
    for mode in modes:
        x = np.array(x_in, dtype=float)
        if mode == "ulp_above": x[i] = np.nextafter(up, np.inf)
        elif mode == "ulp_below": x[i] = np.nextafter(lo, -np.inf)
        elif mode == "rel_above": x[i] = up + 1e-9 * max(1.0, abs(up))
        elif mode == "rel_below": x[i] = lo - 1e-9 * max(1.0, abs(lo))
        elif mode == "far_above": x[i] = up + 1e3 * max(1.0, abs(up))
        elif mode == "far_below": x[i] = lo - 1e3 * max(1.0, abs(lo))
        elif mode == "huge_above": x[i] = 1e300
        elif mode == "huge_below": x[i] = -1e300
        elif mode == "inf_above": x[i] = np.inf
        elif mode == "inf_below": x[i] = -np.inf
        out.append((mode, x))
    return out


def run_case(rec, m, only=None):
    """m: configuration (gen_case); only: optional {"x": [...], "expect": "outside"|"inside"} to replay one vector"""
    try:
        cl, lenses, counters = build(m)
        cnt = Counts(cl, counters)
        lower = np.array(cl.param.param_bounds[0], dtype=float); upper = np.array(cl.param.param_bounds[1], dtype=float)
        names = cl.param.param_list()
    except Exception:
        rec.error("build failed for %s: %s" % (json.dumps(jsonable(m))[:300], traceback.format_exc(limit=3))); return
    n = len(lower)
    if n == 0: return
    from hierarc.Sampling.ParamManager.param_manager import ParamManager
    rng = rng_of(m["pseed"], 11)
    is_ol = m["cosmology"] == "oLCDM"

    def physical(x):
        """independent reference of the oLCDM guard; returns (must_be_neg_inf, interior_negative)"""
        if not is_ol: return False, False
        kc = dict(zip(names, x))
        om = kc.get("om", 0.31 if m["fix"] == "om" else None); ok = kc["ok"]
        bad_end = (1.0 - om - ok <= 0) or any(e2(om, ok, z_star(l)) <= 0 for l in lenses)
        zmax = max(z_star(l) for l in lenses)
        return bad_end, (not bad_end) and e2_min_interior(om, ok, zmax) <= 0

    def call(x, container, table=False):
        xx = x if container == "array" else [float(v) for v in x]
        cnt.reset()
        np.random.seed(int(rng.integers(2 ** 31)))
        if table:
            # a caller-supplied distance table that carries its own (physical) curvature entries: the physicality of the SAMPLED
            # parameters must be judged all the same
            from astropy.cosmology import LambdaCDM
            zt = np.linspace(0.0, max(z_star(l) for l in lenses) + 0.5, 60)[1:]
            ct = LambdaCDM(H0=70.0, Om0=0.3, Ode0=0.65)
            return cl.likelihood(xx, kwargs_cosmo_interp=dict(ang_diameter_distances=ct.angular_diameter_distance(zt).value, redshifts=zt,
                                                                ok=0.05, K=float(ct.Ok0 * (ct.H0.value / 299792.458) ** 2 * -1)))
        return cl.likelihood(xx)

    desc_axes = {}
    for jl, l in enumerate(lenses):
        ax = l.get("j_kin_scaling_param_axes")
        if ax is None: continue
        ax = ax if isinstance(ax, list) else [ax]
        dn = [nm for nm, a in zip(l["kin_scaling_param_list"], ax) if a[0] > a[-1]]
        if dn: desc_axes["lens%d" % jl] = dn
    if desc_axes: rec.tally("configurations_with_descending_axis")

    def inp_of(x, **kw):
        return dict(model=m, x=[float(v) for v in x], **(dict(descending_axes=desc_axes) if desc_axes else {}), **kw)

    def check_outside(x, mode, i):
        inp = inp_of(x, expect="outside", component=int(i), name=names[i], mode=mode)
        rec.case(dict(cos=m["cosmology"], types=m["types"], mode=mode, i=int(i)), kind="outside/" + mode)
        try:
            v = call(x, "array" if i % 2 else "list")
        except Exception as e:
            rec.violation("C02:outside:raises", "likelihood raised for a vector outside the box", inp, repr(e)[:200], "-inf, no exception"); return
        tag, val = classify(v)
        rec.check(tag == "neg_inf", "C02:outside:not_neg_inf:" + mode, "one component outside [lower,upper] must give exactly -inf", inp, jsonable(v), "-inf")
        rec.check(cnt.data() == 0, "C02:outside:data_evaluated:" + mode, "no data likelihood may be evaluated outside the box", inp, cnt.snapshot(), "all zero")
        rec.check(cnt.c["a2k"] == 0, "C02:outside:args2kwargs_called", "the box test precedes the unpacking of the vector", inp, cnt.snapshot(), "a2k == 0")

    def check_inside(x, kind, container="array", table=False):
        inp = inp_of(x, expect="inside", kind=kind, **(dict(distance_table_with_own_curvature=True) if table else {}))
        must_inf, interior_bad = physical(x)
        if table and not must_inf: return None
        rec.case(dict(cos=m["cosmology"], types=m["types"], x=[float(v) for v in x]), kind="inside/" + kind + ("/unphysical" if must_inf else ""))
        try:
            v = call(x, container, table=table)
        except Exception as e:
            rec.violation("C02:inside:raises:" + type(e).__name__, "likelihood raised for a vector inside / on the edge of the box", inp,
                          repr(e)[:200] + " @ " + "".join(traceback.format_tb(e.__traceback__)[-1:]).strip()[-160:], "a real number or -inf")
            return None
        tag, val = classify(v)
        if tag in ("nan", "plus_inf", "not_real"):
            rec.violation("C02:inside:" + tag, "log-probability must be a real number or -inf", inp, jsonable(v), "finite real or -inf")
        if must_inf:
            rec.check(tag == "neg_inf", "C02:olcdm_guard:not_neg_inf", "unphysical curved cosmology (Omega_Lambda<=0 or E^2(z*)<=0) must give -inf", inp, jsonable(v), "-inf")
            rec.check(cnt.data() == 0, "C02:olcdm_guard:data_evaluated", "no data likelihood for an unphysical curved cosmology", inp, cnt.snapshot(), "all zero")
            return tag
        if interior_bad:
            # KNOWN FINDING: E^2 negative strictly inside (0, z_max) while the endpoint test passes
            rec.check(tag == "neg_inf" and cnt.data() == 0, "C02:olcdm_interior_E2",
                      "E(z)^2<=0 for some z below the highest source redshift must give -inf without evaluating data", inp,
                      dict(value=jsonable(v), counts=cnt.snapshot()), "-inf, no evaluation")
            return tag
        # guard passes: exactly one lens-sample evaluation, fed with the args2kwargs dictionaries
        ok_calls = cnt.c["sample"] == 1
        if ok_calls:
            ref = ParamManager.args2kwargs(cl.param, list(map(float, x)))   # unwrapped class method on the same instance
            got = cnt.sample_kwargs[0]
            ok_calls = jeq(got["kwargs_lens"], ref[1]) and jeq(got["kwargs_kin"], ref[2]) and jeq(got["kwargs_source"], ref[3]) and jeq(got["kwargs_los"], ref[4])
        rec.check(ok_calls, "C02:inside:lens_calls", "inside the box with the guard passing the lens-sample likelihood is evaluated exactly once with the args2kwargs dictionaries",
                  inp, cnt.snapshot(), "sample == 1 with matching dictionaries")
        if kind.startswith("edge") or kind == "corner":
            rec.check(cnt.c["sample"] >= 1, "C02:edge_rejected", "the edge of the box belongs to the box", inp, cnt.snapshot(), "evaluated")
        return tag

    def interior(k=1):
        return lower + rng.uniform(0.02, 0.98, size=n) * (upper - lower)

    if only is not None:
        x = np.array(only["x"], dtype=float)
        if only.get("expect") == "outside": check_outside(x, only.get("mode", "replay"), int(only.get("component", 0)))
        else: check_inside(x, only.get("kind", "replay"), table=bool(only.get("distance_table_with_own_curvature")))
        return
    # ---- A: outside, each component in turn
    modes_all = ["ulp_above", "ulp_below", "rel_above", "rel_below", "far_above", "far_below", "huge_above", "huge_below", "inf_above", "inf_below"]
    for i in range(n):
        x_in = interior()
        if rng.random() < 0.3:  # all other components on the edge
            x_in = np.where(rng.random(n) < 0.5, lower, upper)
        for mode, x in outside_points(lower, upper, x_in, i, modes_all):
            check_outside(x, mode, i)
    # two components outside + determinism on repetition
    if n >= 2:
        x = interior(); ij = rng.choice(n, 2, replace=False); x[ij[0]] = upper[ij[0]] + 1.0; x[ij[1]] = lower[ij[1]] - 1.0
        check_outside(x, "two_components", int(ij[0]))
        try:
            v1, v2 = call(x, "list"), call(x, "list")
            rec.check(classify(v1) == classify(v2), "C02:nondeterministic_outside", "repeated evaluation outside the box", inp_of(x), [jsonable(v1), jsonable(v2)], "equal")
        except Exception:
            pass
    # ---- B: inside / edges / corners
    for k in range(m["n_inside"]):
        r = k % 5
        if r == 0 or r == 1: x, kind = interior(), "interior"
        elif r == 2:
            x = interior(); j = int(rng.integers(n)); x[j] = lower[j] if rng.random() < 0.5 else upper[j]; kind = "edge_one"
        elif r == 3:
            x = np.where(rng.random(n) < 0.5, lower, upper); kind = "corner"
        else:
            x = interior(); msk = rng.random(n) < 0.5; x[msk] = np.where(rng.random(msk.sum()) < 0.5, lower[msk], upper[msk]); kind = "edge_many"
        check_inside(x, kind, container="array" if k % 2 else "list")
    # every component on its lower and on its upper edge once (others interior, physical if possible)
    comps = list(range(n)) if m["n_edge"] >= n else list(rng.choice(n, m["n_edge"], replace=False))
    for i in comps:
        for side, b in (("lo", lower), ("up", upper)):
            x = interior(); x[i] = b[i]
            check_inside(x, "edge_" + side)
    # ---- C: oLCDM guard region, biased to its boundary
    if is_ol and "ok" in names:
        io, ik = (names.index("om") if "om" in names else None), names.index("ok")
        zs = [z_star(l) for l in lenses]
        for k in range(20 if m["n_inside"] <= 5 else 48):
            x = interior()
            r = k % 5
            om = rng.uniform(0.05, 1.0)
            if r == 0:    # Omega_Lambda slightly negative / zero / slightly positive
                ok = 1.0 - om + rng.choice([-1e-12, 0.0, 1e-12, -1e-3, 1e-3])
            elif r in (1, 4):  # endpoint E^2 around zero for each lens in turn: ok = -(om a^3 + 1 - om)/(a^2-1) in [-1,0]
                a = 1.0 + zs[(k // 5) % len(zs)]
                om = rng.uniform(0.05, max(0.06, min(1.0, (a ** 2 - 2.0) / (a ** 3 - 1.0))))
                ok = -(om * a ** 3 + 1.0 - om) / (a ** 2 - 1.0) * (1.0 + rng.choice([-1e-9, 0.0, 1e-9, 1e-3, 1e-2, 5e-2]))
            elif r == 2:  # interior-negative candidates: strongly closed, low matter density
                om = rng.uniform(0.05, 0.2); ok = rng.uniform(-0.9, -0.3)
            else:
                ok = rng.uniform(-1, 1)
            if io is None:   # om fixed at 0.31: solve the same conditions for ok alone
                om = 0.31
                if r == 0: ok = 1.0 - om + rng.choice([-1e-12, 0.0, 1e-12, -1e-3, 1e-3])
                elif r in (1, 4): ok = -(om * a ** 3 + 1.0 - om) / (a ** 2 - 1.0) * (1.0 + rng.choice([-1e-9, 0.0, 1e-9, 1e-3, 1e-2, 5e-2]))
            if not (lower[ik] <= ok <= upper[ik]): continue
            if io is not None: x[io] = om
            x[ik] = ok
            check_inside(x, "olcdm")
            if k % 2 == 0: check_inside(x, "olcdm_table", table=True)
    # ---- D: NaN path of the double-source-plane likelihood (small beta, small lambda, non-integer slope)
    if "DSPL" in m["types"] and m.get("dspl_low_beta") and m["gamma_pl"].startswith("global"):
        for k in range(4):
            x = interior()
            for nm in ("lambda_mst", "lambda_ifu"):
                if nm in names: x[names.index(nm)] = lower[names.index(nm)]
            for nm in ("alpha_lambda", "beta_lambda"):
                if nm in names: x[names.index(nm)] = 0.0
            for j, nm in enumerate(names):   # sharp hyper-parameters: a NaN single-draw value is returned as is
                if "sigma" in nm: x[j] = lower[j]
            check_inside(x, "dspl_nan_path")


# the documented witness of the known finding C02:olcdm_interior_E2
WITNESS = dict(cosmology="oLCDM", types=["DdtGaussian"], witness=True)


def run_witness(rec):
    from hierarc.Likelihood.cosmo_likelihood import CosmoLikelihood
    lens = dict(z_lens=0.5, z_source=4.0, likelihood_type="DdtGaussian", ddt_mean=4000., ddt_sigma=200.)
    kb = dict(kwargs_lower_cosmo=dict(h0=10., om=0.05, ok=-1.), kwargs_upper_cosmo=dict(h0=150., om=1., ok=1.))
    cl = CosmoLikelihood([lens], "oLCDM", {}, kb, interpolate_cosmo=True, num_redshift_interp=50)
    cnt = Counts(cl, dict(prior=0))
    x = [70., 0.1, -0.55]
    inp = dict(model=WITNESS, x=x, expect="inside", kind="witness")
    rec.case(dict(witness=x), kind="inside/olcdm_witness")
    zz = np.linspace(0, 4, 401); neg = zz[e2(0.1, -0.55, zz) < 0]
    v = cl.likelihood(x)
    tag, val = classify(v)
    rec.check(tag == "neg_inf" and cnt.data() == 0, "C02:olcdm_interior_E2",
              "oLCDM om=0.1 ok=-0.55 z_source=4: E^2<0 on (%.2f,%.2f) must give -inf without evaluating data" % (neg.min(), neg.max()),
              inp, dict(value=jsonable(v), counts=cnt.snapshot(), E2_end=e2(0.1, -0.55, 4.0), E2_min=e2_min_interior(0.1, -0.55, 4.0)), "-inf, no evaluation")
    if tag in ("nan", "plus_inf", "not_real"):
        rec.violation("C02:inside:" + tag, "log-probability must be a real number or -inf", inp, jsonable(v), "finite real or -inf")


def run_kde_los_witness(rec):
    """Regression witness (repaired in /repo by 377b90b, must stay silent): a DdtDdKDE lens with any line-of-sight draw
    raised, because draw_los returns an array of shape (1,) and scipy's KDE got the ragged point [dd, ddt(1,)]."""
    from hierarc.Likelihood.cosmo_likelihood import CosmoLikelihood
    rng = rng_of(0, 5)
    lens = dict(z_lens=0.5, z_source=2.0, likelihood_type="DdtDdKDE", global_los_distribution=0, **lens_kwargs("DdtDdKDE", rng))
    kb = dict(kwargs_lower_cosmo=dict(h0=10., om=0.05), kwargs_upper_cosmo=dict(h0=150., om=1.),
              kwargs_lower_los=[dict(mean=-0.2, sigma=0.)], kwargs_upper_los=[dict(mean=0.3, sigma=0.2)])
    cl = CosmoLikelihood([lens], "FLCDM", dict(los_sampling=True, los_distributions=["GAUSSIAN"]), kb, num_redshift_interp=30)
    x = [70., 0.3, 0.02, 0.0]
    inp = dict(model=dict(kde_los_witness=True), x=x, expect="inside", kind="witness")
    rec.case(dict(kde_los_witness=x), kind="inside/kde_los_witness")
    try:
        np.random.seed(1); v = cl.likelihood(x)
        tag, val = classify(v)
        if tag in ("nan", "plus_inf", "not_real"): rec.violation("C02:inside:" + tag, "log-probability must be a real number or -inf", inp, jsonable(v), "finite real or -inf")
    except Exception as e:
        rec.violation("C02:raises:DdtDdKDE_los_draw", "DdtDdKDE lens with a line-of-sight distribution: likelihood raises inside the box", inp, repr(e)[:200], "a real number or -inf")


def run_nolens(rec, seed):
    """oLCDM sampled with NO strong lens (the data are a supernova sample): the per-lens E(z)^2 loop has nothing to look at, the
    dark-energy condition must still reject - and before the supernova likelihood is evaluated."""
    from hierarc.Likelihood.cosmo_likelihood import CosmoLikelihood
    from astropy.cosmology import LambdaCDM
    rng = rng_of(seed, 17)
    zcmb = np.sort(rng.uniform(0.02, 1.2, 8)); zhel = zcmb + 0.001 * rng.normal(size=8)
    c0 = LambdaCDM(H0=70, Om0=0.3, Ode0=0.7)
    mag = 5 * np.log10((1 + zhel) * (1 + zcmb) * c0.angular_diameter_distance(zcmb).value) + 5.7 + 0.05 * rng.normal(size=8)
    lower = dict(h0=20., om=0.0, ok=-0.5); upper = dict(h0=150., om=1.0, ok=0.8)
    cl = CosmoLikelihood([], "oLCDM", {}, dict(kwargs_lower_cosmo=lower, kwargs_upper_cosmo=upper), sne_likelihood="CUSTOM",
                         kwargs_sne_likelihood=dict(mag_mean=mag, cov_mag=0.05 ** 2 * np.eye(8), zhel=zhel, zcmb=zcmb), interpolate_cosmo=False)
    cnt = Counts(cl, dict(prior=0))
    pts = [(70., 0.9, 0.3), (70., 0.5, 0.5), (70., 1.0, 0.8), (70., 0.3, 0.0), (65., 0.25, 0.1)]
    pts += [(float(rng.uniform(20, 150)), float(rng.uniform(0, 1)), float(rng.uniform(-0.5, 0.8))) for _ in range(12)]
    for x in pts:
        x = list(x); ode = 1.0 - x[1] - x[2]
        inp = dict(model=dict(nolens=True, seed=int(seed)), x=x, expect="inside", kind="nolens")
        rec.case(dict(nolens=True, unphysical=bool(ode <= 0)), kind="inside/olcdm_no_lens/" + ("unphysical" if ode <= 0 else "physical"))
        cnt.reset()
        try: v = cl.likelihood(x)
        except Exception as e:
            rec.violation("C02:raises:no_lens", "oLCDM without lenses raises inside the box", inp, repr(e)[:200], "a real number or -inf"); continue
        tag, val = classify(v)
        if ode <= 0:
            rec.check(tag == "neg_inf" and cnt.data() == 0, "C02:olcdm_guard:no_lens",
                      "oLCDM without lenses: 1-om-ok = %.3f <= 0 must give -inf without evaluating the supernova likelihood" % ode,
                      inp, dict(value=jsonable(v), counts=cnt.snapshot()), "-inf, no evaluation")
        elif tag in ("nan", "plus_inf", "not_real"):
            rec.violation("C02:inside:" + tag, "log-probability must be a real number or -inf", inp, jsonable(v), "finite real or -inf")


def run_zero_edges(rec, seed):
    """Boxes whose lower edge makes a rescaled distance vanish (lambda_mst = 0, the customary lower bound; gamma_ppn = -1): on that edge the
    kinematic prediction is 0 or 0/0 - the value must still be a real number or -inf and nothing may raise (every lens type, one at a time
    next to a plain Ddt lens)."""
    from hierarc.Likelihood.cosmo_likelihood import CosmoLikelihood
    rng = rng_of(seed, 23)
    kb = dict(kwargs_lower_cosmo=dict(h0=0., om=0., gamma_ppn=-1.), kwargs_upper_cosmo=dict(h0=200., om=1., gamma_ppn=3.),
              kwargs_lower_lens=dict(lambda_mst=0.), kwargs_upper_lens=dict(lambda_mst=2.))
    for t in ["IFUKinCov", "DdtGaussKin", "DdtHistKin", "DsDdsGaussian", "DdtDdGaussian", "DdtLogNorm", "Mag", "TDMag", "TDMagMagnitude", "DdtHist", "DdtDdKDE", "DSPL"]:
        try:
            lens = dict(z_lens=0.5, z_source=2.0, likelihood_type=t, **lens_kwargs(t, rng))
            plain = dict(z_lens=0.3, z_source=1.2, likelihood_type="DdtGaussian", ddt_mean=2000., ddt_sigma=150.)
            km = dict(ppn_sampling=True, lambda_mst_sampling=True, lambda_mst_distribution="NONE")
            if t in ("Mag", "TDMagMagnitude"): km.update(sne_apparent_m_sampling=True, sne_distribution="NONE"); kb2 = dict(kb, kwargs_lower_source=dict(mu_sne=10.), kwargs_upper_source=dict(mu_sne=30.))
            else: kb2 = kb
            cl = CosmoLikelihood([lens, plain], "FLCDM", km, kb2, interpolate_cosmo=bool(rng.random() < 0.5), num_redshift_interp=40)
        except Exception as e:
            rec.error("zero_edges setup %s: %r" % (t, e)); continue
        n = cl.param.num_param
        tail = [20.] if n == 5 else []
        for x in ([70., 0.3, 1.0, 0.0], [70., 0.3, -1.0, 1.0], [70., 0.3, -1.0, 0.0], [70., 0.0, 1.0, 0.0], [70., 1.0, -1.0, 2.0], [200., 0.3, 3.0, 0.0]):
            x = list(x) + tail
            inp = dict(model=dict(zero_edges=True, seed=int(seed), lens_type=t), x=x, expect="inside", kind="zero_edge")
            rec.case(dict(zero_edge=t), kind="inside/zero_edge/" + t)
            try:
                np.random.seed(3); v = cl.likelihood(x)
            except Exception as e:
                key = ("C02:raises:lambda_mst_zero:" + t) if x[3] == 0.0 else ("C02:raises:gamma_ppn_minus_one:" + t) if x[2] == -1.0 else ("C02:inside:raises:" + type(e).__name__)
                rec.violation(key, "likelihood raised for a vector on the edge of the box (lambda_mst = 0 / gamma_ppn = -1)", inp, repr(e)[:200], "a real number or -inf"); continue
            tag, val = classify(v)
            if tag in ("nan", "plus_inf", "not_real"):
                rec.violation("C02:inside:" + tag, "log-probability must be a real number or -inf", inp, jsonable(v), "finite real or -inf")


def run_candidates(rec):
    """KNOWN FINDINGS (one deterministic witness each): two raise-inside-the-box situations at the edge of the
    property's proviso (interpolated parameters must stay inside their interpolation range); the random generator
    stays clear of both (1-d grids for a Gaussian global slope, scaled means kept inside the grid)."""
    from hierarc.Likelihood.cosmo_likelihood import CosmoLikelihood
    rng = rng_of(0, 99); kin = kin_kw(rng, 2)
    grid = [np.ones((4, 4)), np.ones((4, 4)) * 1.1]
    cos_lo, cos_hi = dict(h0=10., om=0.05), dict(h0=150., om=1.)
    # (a) Gaussian global slope on a 2-d grid: bounds of gamma_pl_mean well inside the gamma_pl axis [1.8, 2.2]
    lens = dict(z_lens=.5, z_source=2., likelihood_type="IFUKinCov", kin_scaling_param_list=["a_ani", "gamma_pl"],
                j_kin_scaling_param_axes=[np.linspace(0.5, 3, 4), np.linspace(1.8, 2.2, 4)], j_kin_scaling_grid_list=grid, num_distribution_draws=200, **kin)
    model = dict(anisotropy_model="OM", anisotropy_sampling=True, anisotropy_distribution="GAUSSIAN", gamma_pl_global_sampling=True, gamma_pl_global_dist="GAUSSIAN")
    kb = dict(kwargs_lower_cosmo=cos_lo, kwargs_upper_cosmo=cos_hi, kwargs_lower_lens=dict(gamma_pl_mean=1.9, gamma_pl_sigma=0.), kwargs_upper_lens=dict(gamma_pl_mean=2.1, gamma_pl_sigma=0.2),
              kwargs_lower_kin=dict(a_ani=0.6, a_ani_sigma=0.), kwargs_upper_kin=dict(a_ani=2.9, a_ani_sigma=0.5))
    cl = CosmoLikelihood([lens], "FLCDM", model, kb, num_redshift_interp=30)
    x = [70., 0.3, 2.0, 0.15, 1.0, 0.1]   # h0, om, gamma_pl_mean, gamma_pl_sigma, a_ani, a_ani_sigma
    rec.case(dict(candidate="a", x=x), kind="inside/known_witness")
    np.random.seed(0)
    try:
        v = cl.likelihood(x)
        tag, _ = classify(v)
        if tag in ("nan", "plus_inf", "not_real"): rec.violation("C02:inside:" + tag, "log-probability must be a real number or -inf", dict(candidate="a", x=x), jsonable(v), "real or -inf")
    except Exception as e:
        rec.violation("C02:raises:gamma_pl_global_draw_outside_grid", "Gaussian global slope draw leaves a >=2-d kinematic grid (1-d grids extrapolate; a_ani etc. are re-drawn, gamma_pl is not)",
                      dict(candidate="a", names=cl.param.param_list(), x=x, gamma_pl_axis=[1.8, 2.2], np_random_seed=0), repr(e)[:160], "a real number or -inf")
    # (b) scaling relation pushes the per-lens mean out of the grid, zero scatter
    lens = dict(z_lens=.5, z_source=2., likelihood_type="IFUKinCov", lambda_scaling_property=1.0, kin_scaling_param_list=["gamma_in", "log_m2l"],
                j_kin_scaling_param_axes=[np.linspace(0.5, 1.5, 4), np.linspace(0.0, 1.0, 4)], j_kin_scaling_grid_list=grid, num_distribution_draws=20, **kin)
    model = dict(gamma_in_sampling=True, gamma_in_distribution="GAUSSIAN", log_m2l_sampling=True, log_m2l_distribution="GAUSSIAN", alpha_gamma_in_sampling=True)
    kb = dict(kwargs_lower_cosmo=cos_lo, kwargs_upper_cosmo=cos_hi,
              kwargs_lower_lens=dict(gamma_in=0.6, gamma_in_sigma=0., log_m2l=0.1, log_m2l_sigma=0., alpha_gamma_in=-0.3),
              kwargs_upper_lens=dict(gamma_in=1.4, gamma_in_sigma=0.3, log_m2l=0.9, log_m2l_sigma=0.3, alpha_gamma_in=0.3))
    cl = CosmoLikelihood([lens], "FLCDM", model, kb, num_redshift_interp=30)
    x = [70., 0.3, 1.4, 0.0, 0.5, 0.0, 0.2]   # h0, om, gamma_in, gamma_in_sigma, log_m2l, log_m2l_sigma, alpha_gamma_in
    rec.case(dict(candidate="b", x=x), kind="inside/known_witness")
    old = sys.getrecursionlimit(); sys.setrecursionlimit(400)
    try:
        v = cl.likelihood(x)
        tag, _ = classify(v)
        if tag in ("nan", "plus_inf", "not_real"): rec.violation("C02:inside:" + tag, "log-probability must be a real number or -inf", dict(candidate="b", x=x), jsonable(v), "real or -inf")
    except BaseException as e:
        rec.violation("C02:raises:scaled_mean_outside_grid_recursion", "gamma_in + alpha_gamma_in*x_lens outside the grid with zero scatter: endless re-draw recursion",
                      dict(candidate="b", names=cl.param.param_list(), x=x, lambda_scaling_property=1.0, gamma_in_axis=[0.5, 1.5]), type(e).__name__, "a real number or -inf")
    finally:
        sys.setrecursionlimit(old)


# ---------------------------------------------------------------------------------------------------------
# kinematic scaling grids tabulated high-to-low
DESC_FAMILIES = [["a_ani"], ["a_ani"], ["a_ani", "beta_inf"], ["gamma_in"], ["log_m2l"], ["gamma_in", "log_m2l"], ["a_ani", "gamma_in"],
                 ["a_ani", "gamma_pl"], ["a_ani", "beta_inf", "log_m2l"]]
DESC_RANGE = dict(a_ani=A_ANI_AX, beta_inf=BETA_INF_AX, gamma_in=GAMMA_IN_AX, log_m2l=LOG_M2L_AX, gamma_pl=GAMMA_PL_AX)
DESC_SIGMA_MAX = dict(a_ani=0.5, beta_inf=0.3, gamma_in=0.3, log_m2l=0.2)


def desc_config(cfg):
    """cfg = [seed, index] -> (json-able description, CosmoLikelihood); everything is derived from cfg"""
    from hierarc.Likelihood.cosmo_likelihood import CosmoLikelihood
    rng = rng_of(cfg[0], 1000 + int(cfg[1]))
    ch = lambda xs: xs[int(rng.integers(len(xs)))]
    names = list(DESC_FAMILIES[int(cfg[1]) % len(DESC_FAMILIES)])
    nd = len(names)
    # which axes are descending: a 1-d grid always; >=2-d: one axis (each in turn), or all
    if nd == 1: desc = [True]
    else:
        k = (int(cfg[1]) // len(DESC_FAMILIES)) % (nd + 1)
        desc = [True] * nd if k == nd else [i == k for i in range(nd)]
    axes = []
    for nm, d in zip(names, desc):
        lo, hi = DESC_RANGE[nm]
        npt = int(rng.integers(3, 7))
        a = np.concatenate([[lo], np.sort(rng.uniform(lo + 0.05 * (hi - lo), hi - 0.05 * (hi - lo), npt - 2)), [hi]])   # uneven spacing
        axes.append(np.ascontiguousarray(a[::-1]) if d else a)
    ttype = ch(KIN_TYPES)
    nkin = int(rng.integers(1, 4))
    shape = tuple(len(a) for a in axes)
    bare = nd == 1 and bool(rng.random() < 0.5)          # a 1-d axis may be handed over as the bare array (interp1d) or as [array]
    lens = dict(z_lens=float(np.round(rng.uniform(0.2, 0.8), 3)), z_source=float(np.round(rng.uniform(1.2, 2.5), 3)), likelihood_type=ttype,
                num_distribution_draws=int(rng.integers(3, 9)), kin_scaling_param_list=names, j_kin_scaling_param_axes=axes[0] if bare else axes,
                j_kin_scaling_grid_list=[rng.uniform(0.8, 1.25, size=shape) for _ in range(nkin)], **lens_kwargs(ttype, rng, nkin))
    lenses = [lens]
    if rng.random() < 0.3:   # a by-stander without scaling grid
        t2 = ch(["DdtGaussian", "IFUKinCov", "DsDdsGaussian"])
        lenses.append(dict(z_lens=0.45, z_source=1.9, likelihood_type=t2, **lens_kwargs(t2, rng, 2)))
        if rng.random() < 0.5: lenses.reverse()
    model, lo_l, hi_l, lo_k, hi_k = {}, {}, {}, {}, {}
    inner = lambda nm: (DESC_RANGE[nm][0] + 0.1 * (DESC_RANGE[nm][1] - DESC_RANGE[nm][0]), DESC_RANGE[nm][1] - 0.1 * (DESC_RANGE[nm][1] - DESC_RANGE[nm][0]))
    if "a_ani" in names:
        amodel = "GOM" if "beta_inf" in names else ch(["OM", "const"])
        adist = ch(["NONE", "GAUSSIAN", "GAUSSIAN", "GAUSSIAN_SCALED"] if amodel in ("OM", "GOM") else ["NONE", "GAUSSIAN", "GAUSSIAN"])
        model.update(anisotropy_sampling=True, anisotropy_model=amodel, anisotropy_distribution=adist)
        smax = 0.2 if adist == "GAUSSIAN_SCALED" else DESC_SIGMA_MAX["a_ani"]     # scaled: sigma is relative to a_ani
        lo_k.update(a_ani=inner("a_ani")[0], a_ani_sigma=0.0); hi_k.update(a_ani=inner("a_ani")[1], a_ani_sigma=smax)
        if amodel == "GOM":
            lo_k.update(beta_inf=inner("beta_inf")[0], beta_inf_sigma=0.0); hi_k.update(beta_inf=inner("beta_inf")[1], beta_inf_sigma=DESC_SIGMA_MAX["beta_inf"])
    for nm in ("gamma_in", "log_m2l"):
        if nm in names:
            dist = ch(["NONE", "GAUSSIAN", "GAUSSIAN"])
            model.update({nm + "_sampling": True, nm + "_distribution": dist})
            lo_l.update({nm: inner(nm)[0], nm + "_sigma": 0.0}); hi_l.update({nm: inner(nm)[1], nm + "_sigma": DESC_SIGMA_MAX[nm]})
    if "gamma_pl" in names:
        lo_l.update(gamma_pl_list=[inner("gamma_pl")[0]]); hi_l.update(gamma_pl_list=[inner("gamma_pl")[1]])
    if rng.random() < 0.5:
        model.update(lambda_mst_sampling=True, lambda_mst_distribution=ch(["NONE", "GAUSSIAN"]))
        lo_l.update(lambda_mst=0.8, lambda_mst_sigma=0.0); hi_l.update(lambda_mst=1.2, lambda_mst_sigma=0.1)
    kb = dict(kwargs_lower_cosmo=dict(h0=50., om=0.05), kwargs_upper_cosmo=dict(h0=100., om=0.5), kwargs_lower_lens=lo_l, kwargs_upper_lens=hi_l,
              kwargs_lower_kin=lo_k, kwargs_upper_kin=hi_k)
    cosmo_fixed = bool(rng.random() < 0.7)          # a sampled cosmology costs ~40 ms per evaluation (astropy)
    extra = {}
    if cosmo_fixed:
        from astropy.cosmology import FlatLambdaCDM
        extra["cosmo_fixed"] = FlatLambdaCDM(H0=68.0, Om0=0.32)
    normalized = bool(rng.random() < 0.5)
    descr = dict(cfg=[int(c) for c in cfg], params=names, descending=desc, axes=[a.tolist() for a in axes], axes_as_bare_array=bare,
                 types=[l["likelihood_type"] for l in lenses], model=model, lower=dict(lens=lo_l, kin=lo_k), upper=dict(lens=hi_l, kin=hi_k),
                 cosmo_fixed=cosmo_fixed, normalized=normalized)
    cl = CosmoLikelihood(lenses, "FLCDM", model, kb, normalized=normalized, interpolate_cosmo=True, num_redshift_interp=25, **extra)
    return descr, cl


def run_descending(rec, cfg, npts, only=None):
    """in-box vectors of a configuration whose interpolated, population-sampled parameters have descending grid axes"""
    descr, cl = desc_config(cfg)
    lower = np.array(cl.param.param_bounds[0], dtype=float); upper = np.array(cl.param.param_bounds[1], dtype=float)
    names = cl.param.param_list()
    rng = rng_of(cfg[0], 5000 + int(cfg[1]))
    n = len(lower)
    pts = [("centre", 0.5 * (lower + upper)), ("corner_lower", lower.copy()), ("corner_upper", upper.copy())]
    for nm in descr["params"]:               # each interpolated parameter on its lower / upper prior bound, the others interior
        if nm in names:
            for side, b in (("lo", lower), ("up", upper)):
                x = lower + rng.uniform(0.02, 0.98, size=n) * (upper - lower); x[names.index(nm)] = b[names.index(nm)]
                pts.append(("edge_%s_%s" % (nm, side), x))
    while len(pts) < npts:
        pts.append(("interior", lower + rng.uniform(0.02, 0.98, size=n) * (upper - lower)))
    if only is not None: pts = [(only.get("kind", "replay"), np.array(only["x"], dtype=float))]
    old = sys.getrecursionlimit(); sys.setrecursionlimit(600)     # a re-draw loop must show as a failure, not hang
    try:
        for kind, x in pts:
            np_seed = int(only["np_seed"]) if only is not None else int(rng.integers(2 ** 31))
            inp = dict(descending=descr, names=names, x=[float(v) for v in x], kind=kind, np_seed=np_seed, expect="inside")
            rec.case(dict(descending=descr["cfg"], x=[float(v) for v in x]), kind="inside/descending_axis/%dd" % len(descr["params"]))
            np.random.seed(np_seed)
            try:
                v = cl.likelihood(x if kind != "centre" else [float(t) for t in x])
            except BaseException as e:
                if isinstance(e, (KeyboardInterrupt, SystemExit)): raise
                rec.violation("C02:raises:descending_axis", "kinematic scaling grid with descending axis, prior bounds strictly inside the interpolation "
                              "range: likelihood raised for a vector inside the box", inp,
                              repr(e)[:200] + " @ " + "".join(traceback.format_tb(e.__traceback__)[-1:]).strip()[-160:], "a real number or -inf")
                continue
            tag, _ = classify(v)
            if tag in ("nan", "plus_inf", "not_real"):
                rec.violation("C02:inside:" + tag, "log-probability must be a real number or -inf", inp, jsonable(v), "finite real or -inf")
    finally:
        sys.setrecursionlimit(old)


def main():
    args = parse_args(PROP)
    rec = Recorder(PROP, args.tier, args.seed, rule="4 cosmologies x 14 lens types (+random extra lenses, sampled blocks, interp/plain distances, SNe, prior): "
                   "each component outside (1ulp/1e-9/far/huge/inf) -> -inf & zero data evaluations; interior/edge/corner -> real or -inf, no NaN/+inf/raise; oLCDM guard")
    if args.replay:
        with open(args.replay) as f: rp = json.load(f)
        inp = unjson(rp["input"])
        if "candidate" in inp: rec.guard(run_candidates, rec); rec.write(args.out); return
        if "descending" in inp: rec.guard(run_descending, rec, inp["descending"]["cfg"], 0, only=inp); rec.write(args.out); return
        if inp.get("model", {}).get("witness"): rec.guard(run_witness, rec)
        elif inp.get("model", {}).get("kde_los_witness"): rec.guard(run_kde_los_witness, rec)
        elif inp.get("model", {}).get("nolens"): rec.guard(run_nolens, rec, inp["model"]["seed"])
        elif inp.get("model", {}).get("zero_edges"): rec.guard(run_zero_edges, rec, inp["model"]["seed"])
        elif "candidate" in inp: rec.guard(run_candidates, rec)
        else: rec.guard(run_case, rec, inp["model"], only=inp)
        rec.write(args.out); return
    rng = rng_of(args.seed, 2)
    rec.guard(run_witness, rec)
    rec.guard(run_kde_los_witness, rec)
    rec.guard(run_candidates, rec)
    rec.guard(run_nolens, rec, args.seed)
    rec.guard(run_zero_edges, rec, args.seed)
    t0 = time.process_time()                                  # the descending-axis block is inside the time budget of the tier
    ndesc = 27 if args.tier == "quick" else 216               # 9 families x orientations (each axis alone, all axes)
    for i in range(ndesc):
        rec.guard(run_descending, rec, [args.seed, i], 12 if args.tier == "quick" else 20)
    rec.tally("descending_axis_configurations", ndesc)
    budget = 2 * 25 if args.tier == "quick" else 320
    combos = [(c, t) for t in TYPES for c in COSMOLOGIES]
    rounds = 3 if args.tier == "quick" else 40   # the first round covers all 56 (cosmology, type) pairs; then until the budget
    done = 0
    for r in range(rounds):
        order = rng.permutation(len(combos))
        for idx in order:
            c, t = combos[idx]
            m = gen_case(rng, c, t, args.tier)
            rec.guard(run_case, rec, m)
            done += 1
            if time.process_time() - t0 > budget: break
        if time.process_time() - t0 > budget: break
    rec.tally("configurations", done)
    rec.write(args.out)


if __name__ == "__main__":
    main()
