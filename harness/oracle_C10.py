#!/usr/bin/env python
"""Implementation-level oracle for property C10.

C10: KinScaling.kin_scaling reproduces the supplied J-scaling grid at every node for every bin, routes parameters
by name (dict order / extra keys irrelevant), is the multilinear interpolant between nodes (bounded by the cell
corners), is exactly one without configuration, raises ValueError on a missing parameter, and
param_bounds_interpol is the per-axis min / max.

Sub-checks ("check" field of every input; --replay dispatches on it)
  grid     KinScaling on random NON-separable grids, 1-4 axes, 1-4 bins: nodes, interior points vs an independent
           multilinear interpolant, convexity, bounds, missing key, output shape
  noconf   un-/partially configured KinScaling (and LensLikelihood): exactly ones
  lens     real LensLikelihood(IFUKinCov): kin_scaling at nodes / interior, the velocity-dispersion prediction and
           the likelihood change by exactly the grid factor, missing parameter -> ValueError
  config   KinScalingConfig: param_name_list / kin_scaling_param_array order consistency with KinScaling
"""
import sys, os
sys.path.insert(0, os.path.dirname(os.path.abspath(__file__)))
from common import *  # noqa
import itertools

_COSMO = []


def cosmo():
    if not _COSMO:
        _COSMO.append(cosmo_interp(70., 0.3, zmax=3.0, n=100))
    return _COSMO[0]


# ------------------------------------------------------------------------------------------------------
# independent reference: multilinear interpolation by recursion over the axes
# ------------------------------------------------------------------------------------------------------
def interp_ref(axes, grid, p):
    """returns (value, min corner, max corner) of the cell containing p; axes may be in any order"""
    ax = np.asarray(axes[0], dtype=float)
    order = np.argsort(ax)
    xs = ax[order]
    g = np.take(np.asarray(grid, dtype=float), order, axis=0)
    x = float(p[0])
    i = int(np.searchsorted(xs, x, side="right")) - 1
    i = min(max(i, 0), len(xs) - 2)
    t = (x - xs[i]) / (xs[i + 1] - xs[i])
    if len(axes) == 1:
        lo, hi = (g[i], g[i], g[i]), (g[i + 1], g[i + 1], g[i + 1])
    else:
        lo, hi = interp_ref(axes[1:], g[i], p[1:]), interp_ref(axes[1:], g[i + 1], p[1:])
    return lo[0] * (1 - t) + hi[0] * t, min(lo[1], hi[1]), max(lo[2], hi[2])


def make_grids(inp):
    """random integer-valued (hence exactly representable), non-separable grids; one per bin"""
    g = np.random.default_rng([int(inp["grid_seed"]), 1010])
    shape = [len(a) for a in inp["axes"]]
    return [g.integers(1, 1000, shape).astype(float) for _ in range(int(inp["nbins"]))]


def axes_arg(inp):
    axes = [np.array(a, dtype=float) for a in inp["axes"]]
    if len(axes) == 1 and inp.get("axes_as_array", False):
        return axes[0]
    return axes


def scramble(kw, mode, rng):
    """same mapping, different dict order, plus keys that are not scaling parameters"""
    items = list(kw.items())
    if mode == "reversed":
        items = items[::-1]
    elif mode == "shuffled":
        items = [items[i] for i in rng.permutation(len(items))]
    extra = [("lambda_mst", 0.123), ("a_ani_sigma", 77.), ("zz_extra", -5.), ("gamma_ppn", 9.)]
    out = dict(extra[:2]) if mode != "plain" else {}
    out.update(items)
    if mode != "plain":
        out.update(extra[2:])
    return out


def points_of(inp, rng, n):
    """interior points; some coordinates exactly on a node, some on the outer boundary"""
    pts = []
    for _ in range(n):
        p = []
        for a in inp["axes"]:
            lo, hi = min(a), max(a)
            u = rng.uniform()
            if u < 0.15:
                p.append(float(rng.choice(a)))
            elif u < 0.2:
                p.append(float(lo if rng.uniform() < .5 else hi))
            else:
                p.append(float(rng.uniform(lo, hi)))
        pts.append(p)
    return pts


def check_grid(rec, inp):
    from hierarc.Likelihood.kin_scaling import KinScaling
    names, axes, nd, nb = inp["names"], inp["axes"], len(inp["axes"]), int(inp["nbins"])
    grids = make_grids(inp)
    tag = "%dd" % nd
    try:
        K = KinScaling(j_kin_scaling_param_axes=axes_arg(inp), j_kin_scaling_grid_list=grids,
                       j_kin_scaling_param_name_list=list(names))
    except Exception as e:
        rec.check(False, "C10:construct:" + tag, "KinScaling could not be built on a valid grid", inp,
                  "%s: %s" % (type(e).__name__, str(e)[:100]), "constructed")
        return
    rng = np.random.default_rng([int(inp["points_seed"]), 77])
    # --- nodes ----------------------------------------------------------------------------------------
    nodes = list(itertools.product(*[range(len(a)) for a in axes]))
    if len(nodes) > int(inp.get("max_nodes", 10 ** 9)):
        nodes = [nodes[i] for i in rng.choice(len(nodes), int(inp["max_nodes"]), replace=False)]
    for idx in nodes:
        kw = scramble({n: axes[i][idx[i]] for i, n in enumerate(names)}, inp["order"], rng)
        exp = np.array([g[idx] for g in grids])
        try:
            s = np.asarray(K.kin_scaling(kw), dtype=float)
        except Exception as e:
            rec.check(False, "C10:raised:%s:%s" % (tag, type(e).__name__), "kin_scaling raised on a grid node",
                      dict(inp, node=list(idx)), str(e)[:100], exp)
            break
        ok = s.shape == (nb,) and rec.close(s, exp, rtol=1e-12, atol=1e-9)
        if not rec.check(ok, "C10:node:" + tag, "scaling on a grid node != supplied grid value of each bin (bin order)",
                         dict(inp, node=list(idx)), s, exp):
            break
    # --- interior: multilinear interpolant, convexity ---------------------------------------------------
    for p in points_of(inp, rng, int(inp["npoints"])):
        kw = scramble(dict(zip(names, p)), inp["order"], rng)
        refs = [interp_ref(axes, g, p) for g in grids]
        exp = np.array([r[0] for r in refs])
        try:
            s = np.asarray(K.kin_scaling(kw), dtype=float)
        except Exception as e:
            rec.check(False, "C10:raised:%s:%s" % (tag, type(e).__name__), "kin_scaling raised inside the grid",
                      dict(inp, point=p), str(e)[:100], exp)
            break
        # grid values <= 1000 and at most 2^4 convex combinations: 1e-9 absolute is > 1e4 ulp
        ok = s.shape == (nb,) and rec.close(s, exp, rtol=1e-11, atol=1e-9)
        rec.check(ok, "C10:interior:" + tag, "scaling between nodes != multilinear interpolant of the grid",
                  dict(inp, point=p), s, exp)
        if s.shape == (nb,):
            inside = all(r[1] - 1e-9 <= v <= r[2] + 1e-9 for r, v in zip(refs, s))
            rec.check(inside, "C10:convex:" + tag, "scaling not bounded by the surrounding node values",
                      dict(inp, point=p), s, [[r[1], r[2]] for r in refs])
    # --- bounds ---------------------------------------------------------------------------------------------
    try:
        kmin, kmax = K.param_bounds_interpol()
        okb = (set(kmin) == set(names) == set(kmax) and
               all(float(kmin[n]) == min(axes[i]) and float(kmax[n]) == max(axes[i]) for i, n in enumerate(names)))
    except Exception as e:
        kmin, kmax, okb = str(e), None, False
    rec.check(okb, "C10:bounds", "param_bounds_interpol != per-axis min/max", inp, [kmin, kmax],
              [{n: min(a) for n, a in zip(names, axes)}, {n: max(a) for n, a in zip(names, axes)}])
    # the same question asked again (and after an evaluation in between) has the same answer
    try:
        K.kin_scaling(scramble({n: axes[i][0] for i, n in enumerate(names)}, inp["order"], rng))
        again = [K.param_bounds_interpol() for _ in range(2)]
        oka = all(dict(a[0]) == dict(kmin) and dict(a[1]) == dict(kmax) for a in again) if okb else True
    except Exception as e:
        again, oka = str(e), False
    rec.check(oka, "C10:bounds:repeated", "param_bounds_interpol asked a second / third time on the same object answers differently", inp, jsonable(again),
              [{n: min(a) for n, a in zip(names, axes)}, {n: max(a) for n, a in zip(names, axes)}])
    # --- missing key ------------------------------------------------------------------------------------------
    node = {n: axes[i][0] for i, n in enumerate(names)}
    for n in names:
        kw = scramble({k: v for k, v in node.items() if k != n}, inp["order"], rng)
        kw[n + "_"] = node[n]  # a near-miss name must not be accepted
        try:
            r = K.kin_scaling(kw)
            rec.check(False, "C10:missing_key", "missing scaling parameter did not raise ValueError",
                      dict(inp, missing=n), r, "ValueError")
        except ValueError:
            pass
        except Exception as e:
            rec.check(False, "C10:missing_key", "missing scaling parameter raised something else than ValueError",
                      dict(inp, missing=n), type(e).__name__, "ValueError")
    # --- manager: name list -> ordered array ----------------------------------------------------------------
    vals = {n: float(rng.normal()) for n in names}
    try:
        arr = K.kwargs2param_array(scramble(vals, "shuffled", rng))
        rec.check(list(arr) == [vals[n] for n in names] and K.num_scaling_dim == nd, "C10:routing",
                  "kwargs2param_array is not the list of values in declared name order", inp, arr, [vals[n] for n in names])
    except Exception as e:
        rec.check(False, "C10:routing", "kwargs2param_array raised", inp, str(e)[:100])


def check_noconf(rec, inp):
    from hierarc.Likelihood.kin_scaling import KinScaling
    from hierarc.Likelihood.hierarchy_likelihood import LensLikelihood
    axes = [np.array(a, dtype=float) for a in inp["axes"]]
    grids = make_grids(inp)
    variants = dict(nothing={}, no_names=dict(j_kin_scaling_param_axes=axes, j_kin_scaling_grid_list=grids),
                    no_grid=dict(j_kin_scaling_param_axes=axes, j_kin_scaling_param_name_list=list(inp["names"])),
                    no_axes=dict(j_kin_scaling_grid_list=grids, j_kin_scaling_param_name_list=list(inp["names"])))
    kwv = variants[inp["variant"]]
    kw = {n: a[0] for n, a in zip(inp["names"], inp["axes"])}
    kw["other"] = 3.
    for kwargs in (kw, None, {}):
        if kwargs == {} and "j_kin_scaling_param_name_list" in kwv:
            continue  # names declared: an empty dict is a missing key, not "no configuration"
        try:
            K = KinScaling(**kwv)
            s = np.asarray(K.kin_scaling(kwargs), dtype=float)
            rec.check(s.size >= 1 and np.all(s == 1.0), "C10:unconfigured:" + inp["variant"],
                      "scaling without a complete configuration is not exactly one", dict(inp, kwargs=kwargs), s, "ones")
            kmin, kmax = K.param_bounds_interpol()
            rec.check(kmin == {} and kmax == {}, "C10:unconfigured:bounds", "bounds reported without a configuration",
                      inp, [kmin, kmax], [{}, {}])
        except Exception as e:
            rec.check(False, "C10:unconfigured:" + inp["variant"], "un-configured scaling raised", dict(inp, kwargs=kwargs),
                      "%s: %s" % (type(e).__name__, str(e)[:100]), "ones")
    # the likelihood of a lens without scaling does not depend on the would-be scaling parameters
    g = np.random.default_rng([int(inp["grid_seed"]), 5])
    data = kin_kw(g, int(inp["nbins"]))
    try:
        L = LensLikelihood(z_lens=0.4, z_source=1.3, likelihood_type="IFUKinCov", anisotropy_model="OM",
                           anisotropy_sampling=True, anisotropy_distribution="NONE", **data)
        s = np.asarray(L.kin_scaling(dict(a_ani=2.3)), dtype=float)
        a = fscalar(L.lens_log_likelihood(cosmo(), kwargs_lens=dict(lambda_mst=1.), kwargs_kin=dict(a_ani=0.7)))
        b = fscalar(L.lens_log_likelihood(cosmo(), kwargs_lens=dict(lambda_mst=1.), kwargs_kin=dict(a_ani=3.1)))
        rec.check(np.all(s == 1.0) and a == b, "C10:unconfigured:lens",
                  "lens without scaling grid: scaling not one / likelihood depends on a_ani", inp, [s, a, b], "ones, equal")
    except Exception as e:
        rec.check(False, "C10:unconfigured:lens", "lens without scaling grid raised", inp, str(e)[:100])


# ------------------------------------------------------------------------------------------------------
LENS_NAMES = ["a_ani", "beta_inf", "gamma_in", "log_m2l", "gamma_pl"]


def build_lens(inp, with_grid=True, data=None, likelihood_type="IFUKinCov"):
    from hierarc.Likelihood.hierarchy_likelihood import LensLikelihood
    names = inp["names"]
    g = np.random.default_rng([int(inp["grid_seed"]), 5])
    if data is None:
        data = kin_kw(g, int(inp["nbins"]))
    kw = dict(data)
    if with_grid:
        # grid values around one (sqrt of the scaling enters the prediction), still non-separable
        kw.update(kin_scaling_param_list=list(names), j_kin_scaling_param_axes=axes_arg(inp),
                  j_kin_scaling_grid_list=[gr / 500. for gr in make_grids(inp)])
    model = "GOM" if "beta_inf" in names else inp.get("model", "OM")
    return LensLikelihood(z_lens=0.4, z_source=1.3, likelihood_type=likelihood_type, anisotropy_model=model,
                          anisotropy_sampling=inp.get("ani_sampling", True), anisotropy_distribution="NONE",
                          gamma_in_sampling=("gamma_in" in names) and not inp.get("drop_gamma_in_sampling", False),
                          gamma_in_distribution="NONE", log_m2l_sampling="log_m2l" in names,
                          gamma_pl_index=(1 if ("gamma_pl" in names and inp.get("gamma_pl_mode") == "index") else None),
                          gamma_pl_global_sampling=("gamma_pl" in names and inp.get("gamma_pl_mode") == "global"),
                          num_distribution_draws=2, normalized=bool(inp.get("normalized", True)), **kw), data


def lens_kwargs_of(inp, p):
    v = dict(zip(inp["names"], p))
    kk = {"a_ani": v.get("a_ani", 1.0), "a_ani_sigma": 0}
    if "beta_inf" in v:
        kk.update(beta_inf=v["beta_inf"], beta_inf_sigma=0)
    kl = dict(lambda_mst=1.0, gamma_ppn=1.0)
    if "gamma_in" in v:
        kl.update(gamma_in=v["gamma_in"], gamma_in_sigma=0)
    if "log_m2l" in v:
        kl.update(log_m2l=v["log_m2l"], log_m2l_sigma=0)
    if "gamma_pl" in v:
        if inp.get("gamma_pl_mode") == "index":
            kl.update(gamma_pl_list=[-99., v["gamma_pl"], 99.])
        else:
            kl.update(gamma_pl_mean=v["gamma_pl"], gamma_pl_sigma=0)
    return kl, kk


def check_lens(rec, inp):
    names, axes, nb = inp["names"], inp["axes"], int(inp["nbins"])
    tag = "%dd" % len(axes)
    grids = [gr / 500. for gr in make_grids(inp)]
    try:
        L, data = build_lens(inp, True)
        L0, _ = build_lens(inp, False, data)
    except Exception as e:
        rec.check(False, "C10:lens:construct", "LensLikelihood with a scaling grid could not be built", inp,
                  "%s: %s" % (type(e).__name__, str(e)[:100]))
        return
    rng = np.random.default_rng([int(inp["points_seed"]), 78])
    nodes = list(itertools.product(*[range(len(a)) for a in axes]))
    sel = [nodes[i] for i in rng.choice(len(nodes), min(len(nodes), int(inp["max_nodes"])), replace=False)]
    pts = [([axes[i][j] for i, j in enumerate(idx)], np.array([g[idx] for g in grids]), "node") for idx in sel]
    for p in points_of(inp, rng, int(inp["npoints"])):
        pts.append((p, np.array([interp_ref(axes, g, p)[0] for g in grids]), "interior"))
    c = cosmo()
    if inp.get("drop_gamma_in_sampling", False) or inp.get("break_model", False):
        # a scaling parameter that the lens never draws must surface as ValueError, not as a silent default
        p = pts[0][0]
        kl, kk = lens_kwargs_of(inp, p)
        if inp.get("break_model", False):
            kk = {}
        try:
            r = L.lens_log_likelihood(c, kwargs_lens=kl, kwargs_kin=kk)
            rec.check(False, "C10:lens:missing_key", "scaling parameter not provided by the draws: no ValueError", inp, r,
                      "ValueError")
        except ValueError:
            pass
        except Exception as e:
            rec.check(False, "C10:lens:missing_key", "scaling parameter not provided by the draws: wrong exception", inp,
                      type(e).__name__, "ValueError")
        return
    for p, exp, kind in pts:
        kl, kk = lens_kwargs_of(inp, p)
        ip = dict(inp, point=p, kind=kind)
        try:
            kwp = scramble(dict(zip(names, p)), inp["order"], rng)
            s = np.asarray(L.kin_scaling(kwp), dtype=float)
            rec.check(s.shape == (nb,) and rec.close(s, exp, rtol=1e-11, atol=1e-11), "C10:lens:%s:%s" % (kind, tag),
                      "LensLikelihood.kin_scaling != grid value / multilinear interpolant", ip, s, exp)
            # prediction: sigma_v^2 scales by exactly the factor, bin by bin
            np.random.seed(int(inp["points_seed"]) % (2 ** 31))
            _, _, sv, cv = L.sigma_v_measured_vs_predict(c, kwargs_lens=kl, kwargs_kin=kk)
            _, _, sv0, cv0 = L0.sigma_v_measured_vs_predict(c, kwargs_lens=kl, kwargs_kin=kk)
            ratio = (np.asarray(sv, dtype=float) / np.asarray(sv0, dtype=float)) ** 2
            rec.check(rec.close(ratio, exp, rtol=1e-10, atol=0), "C10:lens:prediction:" + tag,
                      "velocity-dispersion prediction^2 does not change by the grid factor of the bin", ip, ratio, exp)
            # likelihood == likelihood of an un-scaled lens whose J and cov(sqrt J) carry the factor
            d2 = dict(data)
            d2["j_model"] = list(np.array(data["j_model"]) * exp)
            d2["error_cov_j_sqrt"] = np.array(data["error_cov_j_sqrt"]) * np.outer(np.sqrt(exp), np.sqrt(exp))
            L2, _ = build_lens(inp, False, d2)
            a = fscalar(L.lens_log_likelihood(c, kwargs_lens=kl, kwargs_kin=kk))
            b = fscalar(L2.lens_log_likelihood(c, kwargs_lens=kl, kwargs_kin=kk))
            rec.check(rec.close(a, b, rtol=1e-9, atol=1e-9), "C10:lens:likelihood:" + tag,
                      "likelihood at the point != likelihood of the same lens with J scaled by the grid factor", ip, a, b)
            # the distance likelihoods that take the scaling of the FIRST bin: Ds/Dds is divided by it, Dd is multiplied by it - equivalently
            # an un-scaled lens with mean*s, sigma*s (resp. mean/s, sigma/s)
            s0 = float(exp[0])
            for t, kw_t, kw_ref in (
                    ("DsDdsGaussian", dict(ds_dds_mean=1.4, ds_dds_sigma=0.11), dict(ds_dds_mean=1.4 * s0, ds_dds_sigma=0.11 * s0)),
                    ("DdtDdGaussian", dict(ddt_mean=3100., ddt_sigma=240., dd_mean=1150., dd_sigma=95.),
                     dict(ddt_mean=3100., ddt_sigma=240., dd_mean=1150. / s0, dd_sigma=95. / s0))):
                Lt, _ = build_lens(inp, True, kw_t, likelihood_type=t)
                Lr, _ = build_lens(inp, False, kw_ref, likelihood_type=t)
                a = fscalar(Lt.lens_log_likelihood(c, kwargs_lens=kl, kwargs_kin=kk))
                b = fscalar(Lr.lens_log_likelihood(c, kwargs_lens=kl, kwargs_kin=kk))
                rec.check(rec.close(a, b, rtol=1e-9, atol=1e-9), "C10:lens:likelihood:%s:%s" % (t, tag),
                          "%s lens with a scaling grid: likelihood != that of the same lens with the data rescaled by the grid factor of the first bin" % t,
                          dict(ip, likelihood_type=t), a, b)
        except Exception as e:
            rec.check(False, "C10:lens:raised:%s" % type(e).__name__, "LensLikelihood path raised inside the grid", ip,
                      str(e)[:100], exp)
            break


def check_config(rec, inp):
    from hierarc.LensPosterior.kin_scaling_config import KinScalingConfig
    from hierarc.Likelihood.kin_scaling import KinScaling
    extra = {k: inp.get(k) for k in ("gamma_in_scaling", "log_m2l_scaling", "gamma_pl_scaling")}
    try:
        C = KinScalingConfig(inp["model"], 1.3, gamma_pl_mean=2.0, **extra)
        names, arrs = list(C.param_name_list), [np.asarray(a, dtype=float) for a in C.kin_scaling_param_array]
    except Exception as e:
        rec.check(False, "C10:config:raised", "KinScalingConfig raised", inp, "%s: %s" % (type(e).__name__, str(e)[:100]))
        return
    exp_names = {"OM": ["a_ani"], "GOM": ["a_ani", "beta_inf"], "const": ["a_ani"], "NONE": []}[inp["model"]]
    for k, n in (("gamma_in_scaling", "gamma_in"), ("log_m2l_scaling", "log_m2l"), ("gamma_pl_scaling", "gamma_pl")):
        if extra[k] is not None:
            exp_names.append(n)
    ok = names == exp_names and len(arrs) == len(names) and C.num_scaling_dim == len(names)
    for k, n in (("gamma_in_scaling", "gamma_in"), ("log_m2l_scaling", "log_m2l"), ("gamma_pl_scaling", "gamma_pl")):
        if extra[k] is not None and ok:
            ok = ok and np.array_equal(arrs[names.index(n)], np.asarray(extra[k], dtype=float))
    rec.check(ok, "C10:config:order", "param_name_list and kin_scaling_param_array are not aligned", inp,
              [names, [list(a) for a in arrs]], exp_names)
    if not ok:
        return
    # a grid that is a (non-separable) function of the NAMED values: position/name confusion changes the value
    coef = dict(a_ani=1.0, beta_inf=10.0, gamma_in=100.0, log_m2l=1000.0, gamma_pl=7.0)

    def h(v):
        return 5. + sum(coef[n] * v[n] for n in v) + v.get("a_ani", 1.) * v.get("gamma_in", 2.) * v.get("gamma_pl", 1.)
    mesh = np.meshgrid(*arrs, indexing="ij")
    grid = np.zeros(mesh[0].shape)
    for idx in np.ndindex(*grid.shape):
        grid[idx] = h({n: mesh[i][idx] for i, n in enumerate(names)})
    K = KinScaling(j_kin_scaling_param_axes=arrs, j_kin_scaling_grid_list=[grid, 2 * grid],
                   j_kin_scaling_param_name_list=names)
    rng = np.random.default_rng([int(inp["points_seed"]), 3])
    for _ in range(int(inp["npoints"])):
        idx = tuple(int(rng.integers(0, len(a))) for a in arrs)
        v = {n: float(arrs[i][idx[i]]) for i, n in enumerate(names)}
        try:
            s = np.asarray(K.kin_scaling(scramble(v, "reversed", rng)), dtype=float)
            ka, kl = K.param_array2kwargs(K.kwargs2param_array(v))
        except Exception as e:
            rec.check(False, "C10:config:raised", "scaling built from KinScalingConfig raised on a node", dict(inp, node=v),
                      "%s: %s" % (type(e).__name__, str(e)[:100]), h(v))
            break
        rec.check(rec.close(s, [h(v), 2 * h(v)], rtol=1e-12), "C10:config:node",
                  "grid built in KinScalingConfig order is not reproduced by name at a node", dict(inp, node=v), s, h(v))
        okr = {**ka, **kl} == v and set(kl) == set(v) & {"gamma_in", "gamma_pl", "log_m2l"}
        rec.check(okr, "C10:config:split", "param_array2kwargs does not invert kwargs2param_array / lens-vs-anisotropy split",
                  dict(inp, node=v), [ka, kl], v)


CHECKS = dict(grid=check_grid, noconf=check_noconf, lens=check_lens, config=check_config)


# ------------------------------------------------------------------------------------------------------
def gen_axes(rng, nd, maxlen):
    axes = []
    for i in range(nd):
        n = int(rng.integers(2, maxlen + 1))
        lo = float(rng.uniform(-2, 2))
        ax = lo + np.concatenate([[0.], np.cumsum(rng.uniform(0.05, 1.5, n - 1))])
        mode = int(rng.integers(0, 3))
        if nd == 1 and mode == 0 and n > 2:
            ax = rng.permutation(ax)  # the 1-d interpolant sorts itself
        elif mode == 1:
            ax = ax[::-1]  # strictly descending axes are legal for the regular-grid interpolant
        axes.append([float(round(v, 6)) for v in ax])
    return axes


def gen_lens_axes(rng, names, maxlen):
    rng_of_name = dict(a_ani=(0.2, 4.), beta_inf=(0., 1.), gamma_in=(0.2, 2.8), log_m2l=(-0.5, 0.8), gamma_pl=(1.6, 2.5))
    axes = []
    for n in names:
        lo, hi = rng_of_name[n]
        k = int(rng.integers(2, maxlen + 1))
        ax = np.sort(np.concatenate([[lo, hi], rng.uniform(lo, hi, k - 2)]))
        ax = np.unique(np.round(ax, 5))
        if rng.uniform() < 0.3 and len(names) > 1:
            ax = ax[::-1]
        axes.append([float(v) for v in ax])
    return axes


def run(rec, args):
    quick = args.tier == "quick"
    rng = rng_of(args.seed, 10)
    pool = ["a_ani", "beta_inf", "gamma_in", "log_m2l", "gamma_pl", "p0", "p1", "x", "sigma_v_sys_error"]
    # --- grid -----------------------------------------------------------------------------------------
    for nd in [1, 2, 3, 4]:
        for r in range(25 if quick else 150):
            maxlen = {1: 9, 2: 7, 3: 5, 4: 4}[nd]
            names = [str(n) for n in rng.choice(pool, nd, replace=False)]
            inp = dict(check="grid", names=names, axes=gen_axes(rng, nd, maxlen), nbins=int(rng.integers(1, 5)),
                       grid_seed=int(rng.integers(0, 2 ** 31)), points_seed=int(rng.integers(0, 2 ** 31)),
                       npoints=25 if quick else 60, order=str(rng.choice(["reversed", "shuffled", "plain"], p=[.5, .4, .1])),
                       axes_as_array=bool(rng.integers(0, 2)), max_nodes=400)
            rec.case(inp, kind="grid:%dd/%s" % (nd, inp["order"]))
            rec.guard(check_grid, rec, inp)
    # degenerate shapes: all axes of length 2, one long axis
    for nd in [1, 2, 3, 4]:
        axes = [[0.0, 1.0]] * nd
        inp = dict(check="grid", names=pool[:nd], axes=axes, nbins=2, grid_seed=int(rng.integers(0, 2 ** 31)),
                   points_seed=1, npoints=20, order="reversed", axes_as_array=False, max_nodes=400)
        rec.case(inp, kind="grid:%dd/minimal" % nd)
        rec.guard(check_grid, rec, inp)
    # --- no configuration -------------------------------------------------------------------------------
    for variant in ["nothing", "no_names", "no_grid", "no_axes"]:
        for nd in ([1, 3] if quick else [1, 2, 3, 4]):
            inp = dict(check="noconf", variant=variant, names=pool[:nd], axes=gen_axes(rng, nd, 4), nbins=int(rng.integers(1, 4)),
                       grid_seed=int(rng.integers(0, 2 ** 31)))
            rec.case(inp, nontrivial=True, kind="noconf:" + variant)
            rec.guard(check_noconf, rec, inp)
    # --- through LensLikelihood ---------------------------------------------------------------------------
    for r in range(60 if quick else 400):
        nd = int(rng.integers(1, 5))
        names = [str(n) for n in rng.choice(LENS_NAMES, nd, replace=False)]
        inp = dict(check="lens", names=names, axes=gen_lens_axes(rng, names, {1: 6, 2: 5, 3: 4, 4: 3}[nd]),
                   nbins=int(rng.integers(1, 5)), grid_seed=int(rng.integers(0, 2 ** 31)),
                   points_seed=int(rng.integers(0, 2 ** 31)), npoints=3 if quick else 5, max_nodes=4 if quick else 8,
                   order=str(rng.choice(["reversed", "shuffled"])), axes_as_array=bool(rng.integers(0, 2)),
                   model=str(rng.choice(["OM", "const"])), ani_sampling=bool(rng.uniform() < 0.7),
                   gamma_pl_mode=str(rng.choice(["index", "global"])), normalized=bool(rng.integers(0, 2)))
        u = rng.uniform()
        if u < 0.12 and "gamma_in" in names:
            inp["drop_gamma_in_sampling"] = True
        elif u < 0.2 and "a_ani" in names:
            inp["break_model"] = True  # kwargs_kin without a_ani and sampling off: a_ani never reaches the scaling
            inp["ani_sampling"] = False
        rec.case(inp, kind="lens:%dd/%s" % (nd, "missing" if (inp.get("drop_gamma_in_sampling") or inp.get("break_model")) else "ok"))
        rec.guard(check_lens, rec, inp)
    # --- KinScalingConfig -------------------------------------------------------------------------------------
    for model in ["OM", "GOM", "const"] + (["NONE"] if args.focus == "config_none" else []):
        for r in range(3 if quick else 10):
            def arr(lo, hi):
                return [float(v) for v in np.round(np.sort(rng.uniform(lo, hi, int(rng.integers(2, 5)))), 4)]
            inp = dict(check="config", model=model, points_seed=int(rng.integers(0, 2 ** 31)), npoints=12,
                       gamma_in_scaling=arr(0.2, 2.8) if rng.uniform() < .6 else None,
                       log_m2l_scaling=arr(-0.5, 0.8) if rng.uniform() < .5 else None,
                       gamma_pl_scaling=arr(1.6, 2.5) if rng.uniform() < .5 else None)
            rec.case(inp, kind="config:" + model)
            rec.guard(check_config, rec, inp)


def main():
    args = parse_args("C10")
    rec = Recorder("C10", args.tier, args.seed,
                   "kin_scaling(node) == grid value per bin, by name; multilinear in between; ones when unconfigured; "
                   "ValueError on a missing name; bounds = axis min/max")
    if args.replay:
        with open(args.replay) as f:
            r = unjson(json.load(f))
        inp = r["input"]
        for k in ("node", "point", "kind", "missing", "kwargs"):
            inp.pop(k, None)
        rec.case(inp, kind="replay")
        rec.guard(CHECKS[inp["check"]], rec, inp)
    else:
        rec.guard(run, rec, args)
    out = rec.write(args.out)
    print("C10 %s seed=%d: %d cases, %d violations %s, %d errors, %.1fs" % (
        args.tier, args.seed, out["evaluations"], len(out["violations"]), sorted(out["violation_counts"]), len(out["errors"]), out["wall_s"]))


if __name__ == "__main__":
    main()
