#!/usr/bin/env python
"""Implementation-level oracle for property C12.

C12: the sample-based Ddt likelihoods (DdtHistLikelihood, DdtHistKDELikelihood, DdtHistKinLikelihood) are unchanged
by a joint permutation of samples and weights and by a rescaling of all weights; in normalised form they are
unchanged when integer weights are replaced by repeated samples and integrate to one over Ddt; the un-normalised
form differs from the normalised one by a Ddt-independent constant; ddt_measurement is the weighted mean / weighted
standard deviation; the kinematics variant is the sum of the Ddt part and the kinematic part.

One sub-check function (check "hist"), all assertions on one generated sample set:
  perm, scale, ones, replicate (known finding for a bandwidth rule), integral, norm_const, measurement, reference
  (independent Gaussian-mixture formula), histkin composition, route through LensLikelihoodBase / LensLikelihood.
"""
import sys, os
sys.path.insert(0, os.path.dirname(os.path.abspath(__file__)))
from common import *  # noqa
import math

C_KM = 299792.458
Z_LENS, Z_SOURCE = 0.5, 1.7


# ------------------------------------------------------------------------------------------------------
def make_data(inp):
    g = np.random.default_rng([int(inp["data_seed"]), 1212])
    n, style = int(inp["n"]), inp["style"]
    mu, s = float(inp.get("center", 4000.)), float(inp.get("spread", 250.))
    if style == "gauss":
        x = g.normal(mu, s, n)
    elif style == "bimodal":
        x = np.where(g.uniform(size=n) < 0.35, g.normal(mu - 2.2 * s, 0.5 * s, n), g.normal(mu + s, 0.8 * s, n))
    elif style == "lognormal":
        x = mu * np.exp(g.normal(0, 0.12, n))
    elif style == "outlier":
        x = g.normal(mu, s, n)
        x[: max(1, n // 50)] += 12 * s
    elif style == "discrete":
        x = g.choice(mu + s * np.array([-2., -0.7, 0.1, 0.9, 2.5]), n)
        x[0], x[1] = mu - 2. * s, mu + 2.5 * s
    else:
        raise ValueError(style)
    ws = inp["weights"]
    if ws == "none":
        w = None
    elif ws == "uniform":
        w = g.uniform(0.2, 3., n)
    elif ws == "integer":
        w = g.integers(1, 5, n).astype(float)
    elif ws == "integer_zero":
        w = g.integers(0, 4, n).astype(float)
        w[np.argmin(x)] = max(w[np.argmin(x)], 1.)  # the extreme samples keep weight: they fix the histogram range
        w[np.argmax(x)] = max(w[np.argmax(x)], 1.)
        w[int(np.argsort(x)[n // 2])] = 2.
    elif ws == "zero_first":
        w = g.integers(1, 4, n).astype(float)
        w[0] = 0.
        i = int(np.argsort(x)[n // 2])
        x[0], x[i] = x[i], x[0]  # keep the histogram range: the zero-weight sample is an interior one
    elif ws == "dominant":
        w = g.uniform(0.01, 0.1, n)
        w[: max(2, n // 10)] = g.uniform(5, 10, max(2, n // 10))
    elif ws == "importance":
        w = np.exp(-0.5 * ((x - (mu + 0.8 * s)) / (0.7 * s)) ** 2) + 1e-3
    else:
        raise ValueError(ws)
    return x, w


def kin_data(inp, x):
    g = np.random.default_rng([int(inp["data_seed"]), 1213])
    nk = int(inp.get("nkin", 2))
    dd = float(np.mean(x)) / 3.2
    r0 = float(np.mean(x)) / dd / (1 + Z_LENS)
    sv = g.uniform(200, 300, nk)
    j = (sv / C_KM) ** 2 / r0 * g.uniform(0.9, 1.1, nk)
    return dict(sigma_v_measurement=sv, j_model=j, error_cov_measurement=pd(g, nk, 12.),
                error_cov_j_sqrt=pd(g, nk, 1e-5)), dd


class Obj(object):
    """uniform access to the three classes, built directly or through LensLikelihoodBase / LensLikelihood"""

    def __init__(self, inp, x, w, normalized, kin=None, dd=None):
        cls, route = inp["cls"], inp.get("route", "direct")
        self.cls, self.dd = cls, dd
        kw = dict(ddt_samples=x, ddt_weights=w, nbins_hist=int(inp["nbins"]))
        if cls == "DdtHist":
            kw["binning_method"] = inp.get("binning_method")
        else:
            kw.update(bandwidth=float(inp["bandwidth"]), kde_kernel=inp.get("kernel", "gaussian"))
        if cls == "DdtHistKin":
            kw.update(kin)
        if route == "direct":
            from hierarc.Likelihood.LensLikelihood.ddt_hist_likelihood import DdtHistLikelihood, DdtHistKDELikelihood
            from hierarc.Likelihood.LensLikelihood.ddt_hist_kin_likelihood import DdtHistKinLikelihood
            K = dict(DdtHist=DdtHistLikelihood, DdtHistKDE=DdtHistKDELikelihood, DdtHistKin=DdtHistKinLikelihood)[cls]
            self.o = K(Z_LENS, Z_SOURCE, normalized=normalized, **kw)
            self._ll = (lambda t: self.o.log_likelihood(t, self.dd)) if cls != "DdtHistKin" else \
                (lambda t: self.o.log_likelihood(t, self.dd, kin_scaling=None))
        elif route == "base":
            from hierarc.Likelihood.LensLikelihood.base_lens_likelihood import LensLikelihoodBase
            self.o = LensLikelihoodBase(Z_LENS, Z_SOURCE, cls, normalized=normalized, **kw)
            self._ll = lambda t: self.o.log_likelihood(t, self.dd)
        else:
            from hierarc.Likelihood.hierarchy_likelihood import LensLikelihood
            self.o = LensLikelihood(Z_LENS, Z_SOURCE, likelihood_type=cls, normalized=normalized, **kw)
            self._ll = lambda t: self.o.log_likelihood(t, self.dd)

    def ll(self, pts):
        if self.cls == "DdtHist" and len(pts) > 1:
            # scipy's gaussian_kde whitens the whole data set on every call: evaluate all points in one call, and the
            # first one also as a scalar (the way the sampler calls it)
            v = np.asarray(self._ll(np.asarray(pts, dtype=float)), dtype=float).ravel()
            v0 = fscalar(self._ll(float(pts[0])))
            if not (v0 == v[0] or abs(v0 - v[0]) <= 1e-12 * max(1., abs(v0)) or (v0 != v0 and v[0] != v[0])):
                raise AssertionError("scalar and array evaluation of DdtHistLikelihood.log_likelihood differ: %r %r" % (v0, v[0]))
            return v
        return np.array([fscalar(self._ll(float(t))) for t in pts])

    def ll_vec(self, pts):
        return self.ll(pts)

    def measurement(self):
        return [float(v) for v in self.o.ddt_measurement()]


def ref_mixture(inp, x, w):
    """independent Gaussian-mixture form of the KDEs: (centres, weights, kernel sigma)"""
    bw = inp.get("binning_method") if inp["cls"] == "DdtHist" else None
    if bw is not None:  # raw samples, bandwidth rule on Kish's effective sample size
        cen = np.asarray(x, dtype=float)
        p = np.ones(len(cen)) / len(cen) if w is None else np.asarray(w, dtype=float) / np.sum(w)
        keep = p > 0
        cen, p = cen[keep], p[keep]
    else:
        vals, edges = np.histogram(x, bins=int(inp["nbins"]), weights=w)
        cen = 0.5 * (edges[:-1] + edges[1:])
        keep = vals > 0
        cen, p = cen[keep], vals[keep] / np.sum(vals[keep])
    if inp["cls"] == "DdtHist":
        neff = 1. / np.sum(p ** 2)
        mean = np.sum(p * cen)
        var = np.sum(p * (cen - mean) ** 2) / (1. - np.sum(p ** 2))
        factor = neff ** (-0.2) if bw in (None, "scott") else ((neff * 0.75) ** (-0.2) if bw == "silverman" else float(bw))
        h = factor * math.sqrt(var)
    else:
        h = float(inp["bandwidth"])
    return cen, p, h


def ref_logpdf(cen, p, h, pts):
    pts = np.asarray(pts, dtype=float)
    e = -0.5 * ((pts[:, None] - cen[None, :]) / h) ** 2
    m = np.max(e, axis=1)
    return m + np.log(np.sum(p[None, :] * np.exp(e - m[:, None]), axis=1)) - math.log(h * math.sqrt(2 * math.pi))


def check_hist(rec, inp):
    cls = inp["cls"]
    bw = inp.get("binning_method") if cls == "DdtHist" else None
    rule = bw is not None
    tag = cls + (":bw" if rule else "")
    try:
        x, w = make_data(inp)
        kin, dd = kin_data(inp, x) if cls == "DdtHistKin" else (None, None)
        n = len(x)
        g = np.random.default_rng([int(inp["data_seed"]), 1214])
        sd = float(np.std(x))
        pts = np.concatenate([np.quantile(x, [0.02, 0.3, 0.5, 0.8, 0.99]), [np.min(x) - 0.5 * sd, np.max(x) + 0.7 * sd],
                              g.uniform(np.min(x), np.max(x), 2)])
    except Exception:
        rec.error(traceback.format_exc(limit=3))
        return
    tol = dict(rtol=1e-9, atol=1e-9)  # histogram sums / KDE sums in another order: a few ulp of O(10) numbers

    def build(xx, ww, normalized=True):
        return Obj(inp, xx, ww, normalized, kin, dd)
    try:
        A = build(x, w)
        a = A.ll(pts)
        ma = A.measurement()
        if cls != "DdtHist" and inp.get("kernel", "gaussian") != "gaussian":
            pts = pts[np.isfinite(a)]  # compact kernels: -inf outside the support is legitimate
            a = A.ll(pts)
            if len(pts) == 0:
                rec.tally("compact_kernel:no_point_in_support")
                return
        if rule and w is not None and np.any(w == 0) and np.any(np.isnan(a)):
            # new finding (reported): scipy's gaussian_kde.logpdf is NaN when the FIRST sample has weight zero; the default
            # histogram path drops empty bins and is not affected. One key, remaining assertions skipped for this input.
            moved = np.argsort(w == 0, kind="stable")  # zeros to the end
            fin = build(x[moved], w[moved]).ll(pts)
            rec.check(False, "C12:bw_rule:zero_weight_nan",
                      "DdtHistLikelihood with a bandwidth rule: NaN when the first sample has zero weight (finite after a joint "
                      "permutation)", inp, a, fin)
            return
        rec.check(len(pts) > 0 and np.all(np.isfinite(a)), "C12:finite:" + tag, "log-likelihood not finite near the samples", inp, a)
        # --- joint permutation ----------------------------------------------------------------------------
        perm = g.permutation(n)
        if rule and w is not None and np.any(w == 0) and w[perm][0] == 0:
            perm = perm[::-1] if w[perm][-1] != 0 else np.concatenate([perm[w[perm] != 0], perm[w[perm] == 0]])
            # (a zero weight in front is the separately keyed NaN finding; keep this check about permutations as such)
        B = build(x[perm], None if w is None else w[perm])
        rec.check(rec.close(B.ll(pts), a, **tol), "C12:perm:" + tag,
                  "log-likelihood changes under a joint permutation of samples and weights", inp, B.ll(pts), a)
        rec.check(rec.close(B.measurement(), ma, rtol=1e-12, atol=0), "C12:perm:measurement",
                  "ddt_measurement changes under a joint permutation", inp, B.measurement(), ma)
        # --- weight scale ----------------------------------------------------------------------------------
        if w is not None:
            for c in inp.get("scales", [1e-3, 7., 1e6, 1e-10]):
                Cc = build(x, w * c)
                rec.check(rec.close(Cc.ll(pts), a, **tol), "C12:scale:" + tag,
                          "log-likelihood changes when all weights are multiplied by a constant", dict(inp, scale=c), Cc.ll(pts), a)
                rec.check(rec.close(Cc.measurement(), ma, rtol=1e-11, atol=0), "C12:scale:measurement",
                          "ddt_measurement changes when all weights are multiplied by a constant", dict(inp, scale=c),
                          Cc.measurement(), ma)
        else:
            O = build(x, np.full(n, 2.5))
            rec.check(rec.close(O.ll(pts), a, **tol) and rec.close(O.measurement(), ma, rtol=1e-12, atol=0), "C12:ones:" + tag,
                      "no weights and constant weights give different results", inp, O.ll(pts), a)
        # --- integer weights vs repeated samples (normalised form) -------------------------------------------
        if inp["weights"] in ("integer", "integer_zero"):
            xr = np.repeat(x, w.astype(int))
            R = build(xr, None)
            r = R.ll(pts)
            same = rec.close(r, a, **tol)
            if rule:
                # documented finding: scipy's gaussian_kde uses Kish's effective sample size for the bandwidth rule
                rec.check(same, "C12:replicate:bw_rule",
                          "DdtHistLikelihood with a bandwidth rule: integer weights != repeated samples", inp, r, a)
            elif cls == "DdtHistKin" and not same:
                # new finding (reported): DdtHistKinLikelihood does not forward `normalized` to its Ddt part, which therefore
                # keeps -ln(1/(std sqrt(2pi))) with the UNWEIGHTED std: replication shifts every value by ln(std(x)/std(rep))
                shift = math.log(float(np.std(x)) / float(np.std(xr)))
                known = rec.close(r - a, np.full(len(pts), shift), rtol=0, atol=1e-7)
                rec.check(False, "C12:histkin:ddt_part_not_normalised" if known else "C12:replicate:" + tag,
                          "DdtHistKin(normalized=True): integer weights != repeated samples" +
                          (" by the constant ln(std(x)/std(repeated x)) of the un-normalised Ddt part" if known else ""),
                          inp, r - a, 0.0)
            else:
                rec.check(same, "C12:replicate:" + tag, "integer weights and repeated samples give different log-likelihoods",
                          inp, r, a)
            rec.check(rec.close(R.measurement(), ma, rtol=1e-11, atol=0), "C12:replicate:measurement",
                      "ddt_measurement differs between integer weights and repeated samples", inp, R.measurement(), ma)
        # --- ddt_measurement ---------------------------------------------------------------------------------------
        ww = np.ones(n) if w is None else w
        mean = float(np.sum(ww * x) / np.sum(ww))
        std = math.sqrt(float(np.sum(ww * (x - mean) ** 2) / np.sum(ww)))
        rec.check(rec.close(ma, [mean, std], rtol=1e-11, atol=0), "C12:measurement:" + cls,
                  "ddt_measurement != (weighted mean, weighted standard deviation)", inp, ma, [mean, std])
        # --- un-normalised minus normalised: a Ddt-independent constant --------------------------------------------
        U = build(x, w, normalized=False)
        u = U.ll(pts)
        if cls != "DdtHistKin":
            diff = u - a
            const = math.log(sd * math.sqrt(2 * math.pi))
            rec.check(rec.close(diff, np.full(len(pts), diff[0]), rtol=0, atol=1e-9), "C12:norm_const:varies:" + cls,
                      "un-normalised minus normalised log-likelihood depends on Ddt", inp, diff, "constant")
            rec.check(rec.close(diff, const, rtol=1e-10, atol=1e-9), "C12:norm_const:value:" + cls,
                      "un-normalised minus normalised != -ln(1/(sigma sqrt(2 pi))) with sigma the sample std", inp, diff[0], const)
        # --- independent mixture reference (binned paths) -----------------------------------------------------------
        gaussian = (cls == "DdtHist") or inp.get("kernel", "gaussian") == "gaussian"
        if gaussian and cls != "DdtHistKin":
            cen, p, h = ref_mixture(inp, x, w)
            ref = ref_logpdf(cen, p, h, pts)
            rec.check(rec.close(a, ref, rtol=1e-8, atol=1e-8), "C12:reference:" + cls,
                      "normalised log-likelihood != log of the Gaussian mixture on the weighted histogram centres (raw samples for a bandwidth rule)", inp, a, ref)
        # --- integrates to one ------------------------------------------------------------------------------------------
        if inp.get("integrate", True) and gaussian and cls != "DdtHistKin":
            step = h / 5.0
            lo, hi = float(np.min(x)) - 10 * h, float(np.max(x)) + 10 * h
            m = int(min(max((hi - lo) / step, 400), inp.get("max_quad", 6000)))
            if (hi - lo) / m > h:
                rec.tally("integral_skipped:kernel_too_narrow_for_quadrature_budget")
                ok, integral = True, None
            else:
                t = np.linspace(lo, hi, m + 1)
                dens = np.exp(A.ll_vec(t))
                integral = float(np.sum(0.5 * (dens[1:] + dens[:-1])) * (t[1] - t[0]))
                # trapezoid on a Gaussian mixture with step <= sigma has error < 2 exp(-2 pi^2) ~ 5e-9 (analytic, periodic-like
                # integrand), < 1e-30 at the usual step sigma/5; tails beyond 10 sigma < 1e-22; what remains is summation
                # rounding. 1e-6 is generous; a missing / extra normalisation offset changes the integral by sigma*sqrt(2 pi) ~ 600
                ok = abs(integral - 1.0) < 1e-6
            rec.check(ok, "C12:integral:" + tag, "normalised likelihood does not integrate to one over Ddt", inp, integral, 1.0)
        # --- kinematics variant = Ddt part + kinematic part --------------------------------------------------------------
        if cls == "DdtHistKin":
            from hierarc.Likelihood.LensLikelihood.ddt_hist_likelihood import DdtHistKDELikelihood
            from hierarc.Likelihood.LensLikelihood.kin_likelihood import KinLikelihood
            kwh = dict(ddt_samples=x, ddt_weights=w, nbins_hist=int(inp["nbins"]), bandwidth=float(inp["bandwidth"]),
                       kde_kernel=inp.get("kernel", "gaussian"))
            ks = g.uniform(0.8, 1.2, len(kin["j_model"]))
            for normalized, O in ((True, A), (False, U)):
                K = KinLikelihood(Z_LENS, Z_SOURCE, normalized=normalized, **kin)
                tot = np.array([fscalar(O.o.log_likelihood(float(t), dd, kin_scaling=ks)) for t in pts])
                kinpart = np.array([fscalar(K.log_likelihood(float(t), dd, kin_scaling=ks)) for t in pts])
                td = tot - kinpart
                hn = np.array([fscalar(DdtHistKDELikelihood(Z_LENS, Z_SOURCE, normalized=True, **kwh).log_likelihood(float(t))) for t in pts])
                off = td - hn
                # the Ddt part must be the DdtHistKDE likelihood of the same samples up to a Ddt-independent constant;
                # 1e-7: the kinematic part is O(1e1..1e3) and is subtracted
                rec.check(rec.close(off, np.full(len(pts), off[0]), rtol=0, atol=1e-7), "C12:histkin:sum",
                          "DdtHistKin - kinematic part is not the DdtHistKDE likelihood (+ constant)", dict(inp, normalized=normalized),
                          off, "constant")
                const = math.log(sd * math.sqrt(2 * math.pi))
                if normalized:
                    # new finding (reported): as coded the Ddt part of DdtHistKin ignores `normalized`
                    rec.check(abs(off[0]) < 1e-7 or abs(off[0] - const) > 1e-7, "C12:histkin:ddt_part_not_normalised",
                              "DdtHistKinLikelihood(normalized=True): the Ddt part keeps the -ln(1/(sigma sqrt(2pi))) offset, i.e. it "
                              "integrates to sigma sqrt(2pi) instead of one", inp, off[0], 0.0)
                    rec.check(abs(off[0]) < 1e-7 or abs(off[0] - const) < 1e-7, "C12:histkin:offset",
                              "Ddt part of DdtHistKin is offset by something else than 0 or ln(sigma sqrt(2pi))", inp, off[0], [0, const])
                else:
                    rec.check(abs(off[0] - const) < 1e-7, "C12:histkin:offset",
                              "un-normalised DdtHistKin: Ddt part not offset by ln(sigma sqrt(2pi))", inp, off[0], const)
            nd = A.o.num_data() if callable(A.o.num_data) else A.o.num_data
            rec.check(nd == 1 + len(kin["j_model"]), "C12:histkin:num_data", "num_data != 1 + number of kinematic bins", inp, nd,
                      1 + len(kin["j_model"]))
        # --- routes agree ----------------------------------------------------------------------------------------------------
        if inp.get("route", "direct") != "direct":
            D = Obj(dict(inp, route="direct"), x, w, True, kin, dd)
            Du = Obj(dict(inp, route="direct"), x, w, False, kin, dd)
            rec.check(rec.close(D.ll(pts), a, rtol=1e-12, atol=1e-12) and rec.close(Du.ll(pts), u, rtol=1e-12, atol=1e-12)
                      and D.measurement() == ma, "C12:route:" + cls,
                      "LensLikelihoodBase / LensLikelihood do not forward samples, weights, bins or `normalized` to the class", inp,
                      [a, u], [D.ll(pts), Du.ll(pts)])
    except Exception as e:
        rec.check(False, "C12:raised:%s:%s" % (tag, type(e).__name__), "sample-based Ddt likelihood raised on a valid sample set",
                  inp, traceback.format_exc(limit=2)[-300:])


CHECKS = dict(hist=check_hist)


def run(rec, args):
    quick = args.tier == "quick"
    rng = rng_of(args.seed, 12)
    styles = ["gauss", "bimodal", "lognormal", "outlier", "discrete"]
    wstyles = ["none", "uniform", "integer", "integer_zero", "dominant", "importance"]
    plan = [("DdtHist", None)] * 5 + [("DdtHist", "scott"), ("DdtHist", "silverman"), ("DdtHist", "scalar")] + \
           [("DdtHistKDE", None)] * 4 + [("DdtHistKin", None)] * 2
    reps = 8 if quick else 45
    for r in range(reps):
        for cls, bw in plan:
            n = int(rng.choice([12, 40, 150, 600, 2500]))
            inp = dict(check="hist", cls=cls, data_seed=int(rng.integers(0, 2 ** 31)), n=n, style=str(rng.choice(styles)),
                       weights=str(rng.choice(wstyles, p=[.15, .15, .3, .15, .1, .15])), nbins=int(rng.choice([5, 17, 40, 100, 200])),
                       center=float(rng.uniform(1500, 8000)), spread=float(rng.uniform(60, 500)),
                       route=str(rng.choice(["direct", "base", "lens"], p=[.6, .2, .2])), focus=args.focus)
            if cls == "DdtHist":
                inp["binning_method"] = bw if bw != "scalar" else float(rng.choice([0.08, 0.25, 0.6, 1.5]))
                if bw is not None:
                    inp["weights"] = str(rng.choice(["integer", "integer", "integer_zero", "uniform", "none"]))
                # (repeated sample values with DIFFERENT weights on the copies: a chain with importance weights; kept for half of the cases)
                if bw is not None and inp["style"] == "discrete" and r % 2 == 0:
                    inp["style"] = "gauss"
                if bw is not None and inp["style"] == "discrete":
                    inp["weights"] = "uniform"
            else:
                inp["bandwidth"] = float(inp["spread"] * rng.choice([0.05, 0.12, 0.3, 0.8]))
                inp["kernel"] = str(rng.choice(["gaussian", "gaussian", "gaussian", "epanechnikov", "tophat"])) if cls == "DdtHistKDE" else "gaussian"
                inp["nkin"] = int(rng.integers(1, 4))
                inp["max_quad"] = 1500 if quick else 4000
            if inp["style"] == "discrete" and inp["nbins"] < 17:
                inp["nbins"] = 17
            rec.case(inp, kind="%s/%s/w=%s" % (cls + ("" if bw is None else ":" + bw), inp["style"], inp["weights"]))
            rec.guard(check_hist, rec, inp)
    # bandwidth rule + zero weight on the first sample (order-dependent NaN inside scipy)
    for bw in ["scott"]:
        inp = dict(check="hist", cls="DdtHist", data_seed=20240612, n=30, style="gauss", weights="zero_first",
                   nbins=20, center=4000., spread=200., route="direct", binning_method=bw, focus=args.focus)
        rec.case(inp, kind="DdtHist:bw/zero_first")
        rec.guard(check_hist, rec, inp)
    # minimal / boundary sample sets
    for cls, bw in [("DdtHist", None), ("DdtHist", "scott"), ("DdtHistKDE", None), ("DdtHistKin", None)]:
        for n, nb in [(2, 5), (3, 2), (5, 200)]:
            inp = dict(check="hist", cls=cls, data_seed=int(rng.integers(0, 2 ** 31)), n=n, style="gauss", weights="integer", nbins=nb,
                       center=4000., spread=200., route="direct", binning_method=bw, bandwidth=40., kernel="gaussian", nkin=1,
                       max_quad=1500, focus=args.focus)
            if bw is not None and n < 3:
                continue
            rec.case(inp, kind="%s/minimal" % cls)
            rec.guard(check_hist, rec, inp)


def main():
    args = parse_args("C12")
    rec = Recorder("C12", args.tier, args.seed,
                   "permutation / weight-scale / replication invariance, integral one, constant normalisation offset, "
                   "weighted mean and std, kinematics variant = sum of parts")
    if args.replay:
        with open(args.replay) as f:
            r = unjson(json.load(f))
        inp = r["input"]
        for k in ("scale", "normalized"):
            inp.pop(k, None)
        rec.case(inp, kind="replay")
        rec.guard(CHECKS[inp["check"]], rec, inp)
    else:
        rec.guard(run, rec, args)
    out = rec.write(args.out)
    print("C12 %s seed=%d: %d cases, %d violations %s, %d errors, %.1fs" % (
        args.tier, args.seed, out["evaluations"], len(out["violations"]), sorted(out["violation_counts"]), len(out["errors"]), out["wall_s"]))


if __name__ == "__main__":
    main()
