"""Implementation-level oracle for C01:
   "Sampling vector and named hyper-parameters map one-to-one in a fixed order".

For random ParamManager configurations over ALL switches (cosmology, every *_sampling flag, distribution choices,
log_scatter, random kwargs_fixed_* subsets of every block, 0-4 per-lens slopes, 0-3 line-of-sight populations,
SNe options) the REAL ParamManager is driven and checked against
  (a) purely behavioural relations between its four parallel ladders (param_list / args2kwargs / kwargs2args /
      param_bounds): round trips, "perturbing component i changes exactly one dictionary entry, and that entry is
      the one the i-th name / i-th bound talks about", and
  (b) an independent slot table (SLOT TABLE below) written from the documented parameter order, which decides
      which keys are active, which are log10-sampled and what the documented plain name of each slot is.

Violation keys (class of failing input = check : block.key):
  C01:raises:<where>             ParamManager raised on a valid configuration
  C01:length                     len(plain) / len(latex) / num_param / len(lower) / len(upper) disagree
  C01:roundtrip_args:<b.k>       kwargs2args(args2kwargs(x))[i] != x[i]
  C01:roundtrip_kwargs:<b.k>     args2kwargs(kwargs2args(kw))[k] != kw[k] on a sampled key
  C01:perturb_count              changing x[i] changes != 1 dictionary entries
  C01:perturb_value:<b.k>        the changed entry is not x[i] (resp. 10**x[i])
  C01:name_align:<b.k>           i-th plain name is not the documented name of the key driven by x[i]
  C01:name_unique                two slots share a plain name
  C01:latex:<b.k>                i-th LaTeX label does not denote that key / log10 marker wrong
  C01:bounds_align:<b.k>         lower[i]/upper[i] is not the (log10-)bound of the key driven by x[i]
  C01:fixed_slot:<b.k>           a fixed parameter occupies a vector slot / shows up in the name list
  C01:fixed_value:<b.k>          a fixed, active parameter is missing from the dict or has another value
  C01:log_scatter:<b.k>          log10-sampling applied to the wrong set of keys
  C01:block_order                slots are not grouped cosmo,lens,kin,source,los
  C01:slot_table                 sequence of (block,key) slots differs from the documented table
  C01:dict_keys:<block>          dictionary carries keys other than the active ones (or misses one)
  C01:state_leak                 a call modified an earlier result or the configuration
  C01:mcmc_param_names           MCMCSampler.param_names != ParamManager.param_list for the same model
  C01:gamma_pl_handover          CosmoLikelihood hands a wrong gamma_pl_num to the ParamManager
"""
import copy, json, sys, os, time
sys.path.insert(0, os.path.dirname(os.path.abspath(__file__)))
from common import *  # noqa
import numpy as np

PROP = "C01"
COSMOLOGIES = ["FLCDM", "FwCDM", "w0waCDM", "oLCDM"]
BLOCKS = ["cosmo", "lens", "kin", "source", "los"]
ALLK = dict(cosmo=["h0", "om", "w", "w0", "wa", "ok", "gamma_ppn"],
            lens=["lambda_mst", "lambda_mst_sigma", "lambda_ifu", "lambda_ifu_sigma", "gamma_in", "gamma_in_sigma",
                  "log_m2l", "log_m2l_sigma", "alpha_lambda", "beta_lambda", "alpha_gamma_in", "alpha_log_m2l",
                  "gamma_pl_mean", "gamma_pl_sigma"],
            kin=["a_ani", "a_ani_sigma", "beta_inf", "beta_inf_sigma", "sigma_v_sys_error"],
            source=["mu_sne", "sigma_sne"], los=["mean", "sigma", "xi"])
# scatter parameters that are sampled in log10 when log_scatter is on (gamma_pl_sigma, sigma_sne and the LOS sigmas
# are linear, as documented in the design: C01_log_scatter_linear)
LOGKEYS = {("lens", "lambda_mst_sigma"), ("lens", "lambda_ifu_sigma"), ("lens", "gamma_in_sigma"),
           ("lens", "log_m2l_sigma"), ("kin", "a_ani_sigma"), ("kin", "beta_inf_sigma"), ("kin", "sigma_v_sys_error")}

# LaTeX: substrings that must / must not appear in the label of a key (loose on purpose: cosmetic relabelling is fine,
# a label that denotes another parameter is not)
LATEX = {
    ("cosmo", "h0"): (["H_0"], []), ("cosmo", "om"): (["Omega", "m}"], []), ("cosmo", "w"): (["w"], ["w_"]),
    ("cosmo", "w0"): (["w_0"], []), ("cosmo", "wa"): (["w_{", "a}"], []), ("cosmo", "ok"): (["Omega", "k}"], []),
    ("cosmo", "gamma_ppn"): (["ppn"], []),
    ("lens", "lambda_mst"): (["lambda", "int"], ["sigma", "ifu"]), ("lens", "lambda_mst_sigma"): (["sigma", "lambda", "int"], ["ifu"]),
    ("lens", "lambda_ifu"): (["lambda", "ifu"], ["sigma", "int"]), ("lens", "lambda_ifu_sigma"): (["sigma", "lambda", "ifu"], ["int"]),
    ("lens", "gamma_in"): (["gamma", "in}"], ["sigma", "alpha"]), ("lens", "gamma_in_sigma"): (["sigma", "gamma", "in}"], ["alpha"]),
    ("lens", "log_m2l"): (["Upsilon"], ["sigma", "alpha"]), ("lens", "log_m2l_sigma"): (["sigma", "Upsilon"], ["alpha"]),
    ("lens", "alpha_lambda"): (["alpha", "lambda"], ["beta", "sigma"]), ("lens", "beta_lambda"): (["beta", "lambda"], ["alpha", "sigma"]),
    ("lens", "alpha_gamma_in"): (["alpha", "gamma", "in}"], ["sigma"]), ("lens", "alpha_log_m2l"): (["alpha", "Upsilon"], ["sigma"]),
    ("lens", "gamma_pl_list"): (["gamma", "pl"], ["sigma", "global"]),
    ("lens", "gamma_pl_mean"): (["gamma", "pl", "global"], ["sigma"]), ("lens", "gamma_pl_sigma"): (["sigma", "gamma", "pl", "global"], []),
    ("kin", "a_ani"): (["a_{", "ani"], ["sigma"]), ("kin", "a_ani_sigma"): (["sigma", "ani"], []),
    ("kin", "beta_inf"): (["beta", "infty"], ["sigma"]), ("kin", "beta_inf_sigma"): (["sigma", "beta", "infty"], []),
    ("kin", "sigma_v_sys_error"): (["sys", "sigma_v"], []),
    ("source", "mu_sne"): (["m}_{", "p}"], ["sigma"]), ("source", "sigma_sne"): (["sigma", "m_{", "p}"], []),
    ("los", "mean"): (["mu", "los"], ["sigma", "xi"]), ("los", "sigma"): (["sigma", "los"], ["mu", "xi"]),
    ("los", "xi"): (["xi", "los"], ["mu", "sigma"]),
}


# ---------------------------------------------------------------------------------------------------------
# SLOT TABLE: the documented order of the hyper-parameters.  Returns the ordered list of ACTIVE keys
# (block, key, sub) with sub = list index (gamma_pl_list) or LOS population index, else None.
def active_keys(cfg):
    out = []
    c = cfg["cosmology"]
    if c != "NONE":
        out.append(("cosmo", "h0", None))
        if c in COSMOLOGIES: out.append(("cosmo", "om", None))
        if c == "FwCDM": out.append(("cosmo", "w", None))
        if c == "w0waCDM": out += [("cosmo", "w0", None), ("cosmo", "wa", None)]
        if c == "oLCDM": out.append(("cosmo", "ok", None))
    if cfg["ppn_sampling"]: out.append(("cosmo", "gamma_ppn", None))
    for name, samp, dist in [("lambda_mst", "lambda_mst_sampling", "lambda_mst_distribution"),
                             ("lambda_ifu", "lambda_ifu_sampling", "lambda_ifu_distribution"),
                             ("gamma_in", "gamma_in_sampling", "gamma_in_distribution"),
                             ("log_m2l", "log_m2l_sampling", "log_m2l_distribution")]:
        if cfg[samp]:
            out.append(("lens", name, None))
            if cfg[dist] == "GAUSSIAN": out.append(("lens", name + "_sigma", None))
    for name in ["alpha_lambda", "beta_lambda", "alpha_gamma_in", "alpha_log_m2l"]:
        if cfg[name + "_sampling"]: out.append(("lens", name, None))
    for j in range(cfg["gamma_pl_num"]): out.append(("lens", "gamma_pl_list", j))
    if cfg["gamma_pl_global_sampling"]:
        out.append(("lens", "gamma_pl_mean", None))
        if cfg["gamma_pl_global_dist"] == "GAUSSIAN": out.append(("lens", "gamma_pl_sigma", None))
    if cfg["anisotropy_sampling"]:
        gauss = cfg["anisotropy_distribution"] in ["GAUSSIAN", "GAUSSIAN_SCALED"]
        if cfg["anisotropy_model"] in ["OM", "GOM", "const"]:
            out.append(("kin", "a_ani", None))
            if gauss: out.append(("kin", "a_ani_sigma", None))
        if cfg["anisotropy_model"] == "GOM":
            out.append(("kin", "beta_inf", None))
            if gauss: out.append(("kin", "beta_inf_sigma", None))
    if cfg["sigma_v_systematics"]: out.append(("kin", "sigma_v_sys_error", None))
    if cfg["sne_apparent_m_sampling"]:
        out.append(("source", "mu_sne", None))
        if cfg["sne_distribution"] == "GAUSSIAN": out.append(("source", "sigma_sne", None))
    if cfg["los_sampling"]:
        for k, d in enumerate(cfg["los_distributions"] or []):
            if d in ["GEV", "GAUSSIAN"]: out += [("los", "mean", k), ("los", "sigma", k)]
            if d == "GEV": out.append(("los", "xi", k))
    return out


def fixed_of(cfg, blk, key, sub):
    """(is_fixed, value) of an active key according to the USER-FACING kwargs_fixed_* arguments"""
    if blk == "los":
        fx = cfg.get("kwargs_fixed_los")
        if fx is None: return False, None
        return (key in fx[sub]), fx[sub].get(key)
    if key == "gamma_pl_list": return False, None
    fx = cfg.get("kwargs_fixed_" + blk) or {}
    return (key in fx), fx.get(key)


def doc_name(blk, key, sub):
    if blk == "los": return "%s_los_%d" % (key, sub)
    if key == "gamma_pl_list": return "gamma_pl_%d" % sub
    return key


def is_log(cfg, blk, key):
    return bool(cfg["log_scatter"]) and (blk, key) in LOGKEYS


def cls(blk, key):
    return "%s.%s" % (blk, key)


# ---------------------------------------------------------------------------------------------------------
def rand_cfg(rng, kind):
    """kind: 'mixed' (all switches random), 'dense' (most things on), 'sparse' (most off), 'degenerate'"""
    p_on = dict(mixed=0.55, dense=0.9, sparse=0.15, degenerate=0.5)[kind]
    p_fix = dict(mixed=0.25, dense=0.12, sparse=0.3, degenerate=0.5)[kind]
    B = lambda p=p_on: bool(rng.random() < p)
    ch = lambda xs: xs[int(rng.integers(len(xs)))]
    dist = lambda: ch(["GAUSSIAN", "NONE"]) if kind != "dense" else ch(["GAUSSIAN", "GAUSSIAN", "GAUSSIAN", "NONE"])
    nlos = int(rng.integers(0, 4))
    losd = [ch(["GEV", "GAUSSIAN"]) if rng.random() < 0.93 else "NONE" for _ in range(nlos)]
    cfg = dict(
        cosmology=ch(COSMOLOGIES) if rng.random() < 0.95 else "NONE", ppn_sampling=B(),
        lambda_mst_sampling=B(), lambda_mst_distribution=dist(),
        anisotropy_sampling=B(), anisotropy_model=ch(["OM", "GOM", "GOM", "const", "NONE"]),
        anisotropy_distribution=ch(["NONE", "GAUSSIAN", "GAUSSIAN_SCALED"]),
        gamma_in_sampling=B(), gamma_in_distribution=dist(), log_m2l_sampling=B(), log_m2l_distribution=dist(),
        lambda_ifu_sampling=B(), lambda_ifu_distribution=dist(),
        alpha_lambda_sampling=B(), beta_lambda_sampling=B(), alpha_gamma_in_sampling=B(), alpha_log_m2l_sampling=B(),
        gamma_pl_num=int(rng.integers(0, 5)), gamma_pl_global_sampling=B(), gamma_pl_global_dist=dist(),
        sigma_v_systematics=B(), sne_apparent_m_sampling=B(), sne_distribution=ch(["GAUSSIAN", "NONE"]),
        z_apparent_m_anchor=float(np.round(rng.uniform(0.01, 0.5), 3)),
        log_scatter=bool(rng.random() < 0.5), los_sampling=bool(rng.random() < 0.75), los_distributions=losd)
    if kind == "degenerate":
        r = rng.integers(5)
        if r == 0:    # nothing sampled at all
            for k in list(cfg):
                if k.endswith("_sampling") or k == "sigma_v_systematics": cfg[k] = False
            cfg["cosmology"] = "NONE"; cfg["gamma_pl_num"] = 0
        elif r == 1:  # everything on and everything fixed
            p_fix = 1.0
        elif r == 2:  # only list-type slots
            for k in list(cfg):
                if k.endswith("_sampling") or k == "sigma_v_systematics": cfg[k] = False
            cfg["los_sampling"] = True; cfg["gamma_pl_num"] = int(rng.integers(1, 5)); cfg["cosmology"] = "NONE"
        elif r == 3:  # los list given but sampling off / None list
            cfg["los_sampling"] = bool(rng.random() < 0.5)
            if rng.random() < 0.5: cfg["los_distributions"] = None; losd = []
        else:         # all scatter keys fixed only
            p_fix = 0.0
    # a parameter fixed at exactly 0 (xi = 0 is the Gumbel limit, ok = 0 flat, wa = 0 ...) is as fixed as any other value
    zero = lambda v: 0.0 if rng.random() < 0.2 else v
    for b in ["cosmo", "lens", "kin", "source"]:
        fx = {k: zero(float(np.round(1000 + 100 * rng.random(), 6))) for k in ALLK[b] if rng.random() < p_fix}
        if kind == "degenerate" and p_fix == 0.0:
            fx = {k: float(np.round(1000 + 100 * rng.random(), 6)) for k in ALLK[b] if k.endswith("sigma") or k == "sigma_v_sys_error"}
        cfg["kwargs_fixed_" + b] = fx if (fx or rng.random() < 0.7) else None
    fl = [{k: zero(float(np.round(2000 + 100 * rng.random(), 6))) for k in ALLK["los"] if rng.random() < p_fix} for _ in losd]
    cfg["kwargs_fixed_los"] = fl if (any(fl) or rng.random() < 0.7 or cfg["los_distributions"] is None) else None
    if cfg["los_distributions"] is None: cfg["kwargs_fixed_los"] = None
    return cfg


def values_for(cfg, rng, lo, hi, positive_sigma=True):
    """dictionaries (all known keys of every block, also inactive ones) with distinct random values"""
    def val(k):
        if positive_sigma and (k.endswith("sigma") or k == "sigma_v_sys_error" or k == "sigma_sne"):
            return float(rng.uniform(1e-3, 5.0))
        return float(rng.uniform(lo, hi))
    kw = {b: {k: val(k) for k in ALLK[b]} for b in ["cosmo", "lens", "kin", "source"]}
    kw["lens"]["gamma_pl_list"] = [float(rng.uniform(lo, hi)) for _ in range(cfg["gamma_pl_num"])]
    kw["los"] = [{k: val(k) for k in ALLK["los"]} for _ in (cfg["los_distributions"] or [])]
    return kw


def flat(kws):
    """flatten the 5 returned structures to {(block,key,sub): value}"""
    out = {}
    for b, d in zip(BLOCKS[:4], kws[:4]):
        for k, v in d.items():
            if isinstance(v, (list, tuple, np.ndarray)):
                for j, x in enumerate(v): out[(b, k, j)] = x
                if len(v) == 0: out[(b, k, -1)] = "empty"
            else:
                out[(b, k, None)] = v
    for j, d in enumerate(kws[4]):
        for k, v in d.items(): out[("los", k, j)] = v
    return out


def eqv(a, b):
    try:
        return bool(a == b)
    except Exception:
        return False


def near(a, b, log):
    # non-log slots are copied: exact.  log slots go through 10**x / log10: each is correctly rounded to <=1 ulp,
    # the composition is within 4 ulp of the identity in relative terms of 10**x, i.e. ~1e-15 absolute on x.
    if not log: return eqv(a, b)
    return bool(np.isclose(a, b, rtol=2e-14, atol=2e-15))


def build_pm(cfg, bounds):
    from hierarc.Sampling.ParamManager.param_manager import ParamManager
    lo, hi = bounds
    kw = dict(cfg)
    for b in BLOCKS:
        kw["kwargs_lower_" + b] = lo[b]; kw["kwargs_upper_" + b] = hi[b]
    return ParamManager(**kw)


def run_case(rec, inp):
    """inp = {"cfg": configuration, "vseed": int (values), "container": "list"|"array"|"tuple"}; returns #violations"""
    v0 = sum(rec._vkeys.values())
    cfg = inp["cfg"]; cfg_snapshot = copy.deepcopy(cfg)
    rng = rng_of(inp["vseed"], 101)
    lo = values_for(cfg, rng, -3, -1); hi = values_for(cfg, rng, 1, 3)
    try:
        pm = build_pm(cfg, (lo, hi))
        names = pm.param_list(); latex = pm.param_list(latex_style=True); n = pm.num_param
        lower, upper = pm.param_bounds
    except Exception as e:
        rec.violation("C01:raises:init", "ParamManager construction / param_list / param_bounds raised", inp, repr(e), "no exception")
        return 1
    spec = active_keys(cfg)
    free = [s for s in spec if not fixed_of(cfg, *s)[0]]
    failed = set()

    def slot_check(cond, kind, blk, key, what, inp_, observed, required):
        # a single slip shifts every later slot: report only the first offending slot of each kind per configuration
        if cond or kind in failed: return
        failed.add(kind)
        rec.violation("C01:%s:%s" % (kind, cls(blk, key)), what, inp_, observed, required)
    # ---- lengths
    rec.check(len(names) == len(latex) == n == len(lower) == len(upper) == len(free), "C01:length",
              "lengths of plain names, LaTeX names, num_param, lower, upper, documented free slots", inp,
              [len(names), len(latex), n, len(lower), len(upper), len(free)], "all equal")
    rec.check(len(set(names)) == len(names), "C01:name_unique", "plain names must be distinct", inp, names, "distinct")
    # ---- vector -> dict -> vector
    x = rng.uniform(-2.5, 1.5, size=n)
    x = {"list": list(map(float, x)), "array": np.array(x), "tuple": tuple(map(float, x))}[inp.get("container", "list")]
    try:
        kw = pm.args2kwargs(x)
        kw_snapshot = copy.deepcopy(kw)
        back = pm.kwargs2args(*kw)
    except Exception as e:
        rec.violation("C01:raises:roundtrip", "args2kwargs/kwargs2args raised on a vector of length num_param", inp, repr(e), "no exception")
        return 1
    f0 = flat(kw)
    # dictionary key set == active keys (+ the anchor constant)
    for bi, b in enumerate(BLOCKS[:4]):
        want = set(k for (bb, k, s) in spec if bb == b)
        if b == "source": want.add("z_apparent_m_anchor")
        rec.check(set(kw[bi].keys()) == want, "C01:dict_keys:" + b, "keys of the returned dictionary", inp, sorted(kw[bi].keys()), sorted(want))
    want_los = [set(k for (bb, k, s) in spec if bb == "los" and s == j) for j in range(len(cfg["los_distributions"] or []))]
    rec.check([set(d.keys()) for d in kw[4]] == want_los, "C01:dict_keys:los", "keys of the LOS dictionaries", inp,
              [sorted(d.keys()) for d in kw[4]], [sorted(s) for s in want_los])
    rec.check(eqv(kw[3].get("z_apparent_m_anchor"), cfg["z_apparent_m_anchor"]), "C01:fixed_value:source.z_apparent_m_anchor",
              "anchor redshift constant injected", inp, kw[3].get("z_apparent_m_anchor"), cfg["z_apparent_m_anchor"])
    if len(back) != n:
        rec.violation("C01:roundtrip_args:length", "kwargs2args(args2kwargs(x)) has another length", inp, len(back), n)
    # ---- perturbation: which entry does component i drive?
    driven = []
    for i in range(n):
        x2 = list(x); x2[i] = x2[i] + 0.53125
        if inp.get("container") == "array": x2 = np.array(x2)
        try:
            f1 = flat(pm.args2kwargs(x2))
        except Exception as e:
            rec.violation("C01:raises:args2kwargs", "args2kwargs raised", dict(inp, i=i), repr(e), "no exception"); return 1
        ch = [k for k in f0 if k not in f1 or not eqv(f0[k], f1[k])] + [k for k in f1 if k not in f0]
        if len(ch) != 1:
            rec.violation("C01:perturb_count", "changing one vector component must change exactly one dictionary entry",
                          dict(inp, i=i), [list(map(str, c)) for c in ch], "exactly one entry")
            driven.append(None); continue
        blk, key, sub = ch[0]
        driven.append(ch[0])
        lg = is_log(cfg, blk, key)
        # value exposed in linear space: 10**x for log-sampled scatters, x otherwise (direct numpy reference)
        ref = 10.0 ** float(x2[i]) if lg else float(x2[i])
        slot_check(near(f1[ch[0]], ref, lg), "perturb_value", blk, key, "dictionary value of the slot driven by x[i]",
                  dict(inp, i=i), f1[ch[0]], ref)
        # is the value log-transformed although it should not be (or vice versa)?
        got_log = (not eqv(f1[ch[0]], float(x2[i]))) and bool(np.isclose(f1[ch[0]], 10.0 ** float(x2[i]), rtol=1e-12))
        slot_check(got_log == lg, "log_scatter", blk, key, "log10-sampling must apply exactly to the documented scatter keys",
                  dict(inp, i=i), got_log, lg)
        # name
        slot_check(i < len(names) and names[i] == doc_name(blk, key, sub), "name_align", blk, key,
                  "i-th plain name must be the documented name of the key driven by x[i]", dict(inp, i=i),
                  names[i] if i < len(names) else None, doc_name(blk, key, sub))
        # latex
        if i < len(latex):
            must, mustnot = LATEX.get((blk, key), ([], []))
            lab = latex[i]
            ok = all(t in lab for t in must) and not any(t in lab for t in mustnot)
            if sub is not None: ok = ok and (str(sub) in lab)
            ok = ok and (("log_{10}" in lab) == lg)
            slot_check(ok, "latex", blk, key, "i-th LaTeX label must denote the key driven by x[i] (log10 marker iff log-sampled)",
                      dict(inp, i=i), lab, dict(must=must, must_not=mustnot, index=sub, log10=lg))
        # round trip of this component
        if i < len(back):
            slot_check(near(back[i], x[i], lg), "roundtrip_args", blk, key, "kwargs2args(args2kwargs(x))[i] == x[i]",
                      dict(inp, i=i), back[i], x[i])
        # bounds
        for nm, vec, src in [("lower", lower, lo), ("upper", upper, hi)]:
            if i >= len(vec): continue
            raw = src["los"][sub][key] if blk == "los" else (src[blk][key][sub] if key == "gamma_pl_list" else src[blk][key])
            refb = np.log10(raw) if lg else raw
            slot_check(near(vec[i], refb, lg), "bounds_align", blk, key, nm + "[i] must be the (log10-)bound of the key driven by x[i]",
                      dict(inp, i=i, which=nm), vec[i], refb)
        # a fixed key must not be driven by the vector
        fx, fv = fixed_of(cfg, blk, key, sub)
        slot_check(not fx, "fixed_slot", blk, key, "a fixed parameter must not occupy a vector slot", dict(inp, i=i), names[i] if i < len(names) else None, "no slot")
    # ---- block order and documented table
    got = [d for d in driven if d is not None]
    if len(got) == n:
        order = [BLOCKS.index(d[0]) for d in got]
        rec.check(order == sorted(order), "C01:block_order", "slots must be grouped cosmo,lens,kin,source,los", inp, [d[0] for d in got], "non-decreasing block order")
        rec.check(got == free, "C01:slot_table", "sequence of slots must be the documented one", inp,
                  [doc_name(*d) for d in got], [doc_name(*d) for d in free])
    # ---- fixed parameters
    for s in spec:
        fx, fv = fixed_of(cfg, *s)
        if not fx: continue
        rec.check(s in f0 and eqv(f0[s], fv), "C01:fixed_value:" + cls(s[0], s[1]), "fixed active parameter must appear with its fixed value",
                  inp, f0.get(s, "missing"), fv)
        rec.check(doc_name(*s) not in names, "C01:fixed_slot:" + cls(s[0], s[1]), "fixed parameter must not be in the name list", inp, names, "absent")
    # ---- dict -> vector -> dict
    kw_in = values_for(cfg, rng, -2, 2)
    try:
        a = pm.kwargs2args(kw_in["cosmo"], kw_in["lens"], kw_in["kin"], kw_in["source"], kw_in["los"])
        kw2 = flat(pm.args2kwargs(a))
        for s in free:
            blk, key, sub = s
            raw = kw_in["los"][sub][key] if blk == "los" else (kw_in[blk][key][sub] if key == "gamma_pl_list" else kw_in[blk][key])
            lg = is_log(cfg, blk, key)
            okv = s in kw2 and (bool(np.isclose(kw2[s], raw, rtol=2e-14, atol=0)) if lg else eqv(kw2[s], raw))
            slot_check(okv, "roundtrip_kwargs", blk, key, "args2kwargs(kwargs2args(kw))[k] == kw[k] on sampled keys", inp, kw2.get(s, "missing"), raw)
        rec.check(len(a) == n, "C01:length", "kwargs2args must return num_param entries", inp, len(a), n)
    except Exception as e:
        rec.violation("C01:raises:kwargs2args", "kwargs2args/args2kwargs raised on complete dictionaries", inp, repr(e), "no exception")
    # ---- no state leaking
    rec.check(json.dumps(jsonable(kw), sort_keys=True) == json.dumps(jsonable(kw_snapshot), sort_keys=True) and cfg == cfg_snapshot,
              "C01:state_leak", "earlier results / configuration must not be modified by later calls", inp, None, "unchanged")
    try:
        again = pm.param_list()
        rec.check(again == names and flat(pm.args2kwargs(x)).keys() == f0.keys(), "C01:state_leak", "repeated calls must agree", inp, again, names)
    except Exception as e:
        rec.violation("C01:raises:repeat", "repeated call raised", inp, repr(e), "no exception")
    return sum(rec._vkeys.values()) - v0


# ---------------------------------------------------------------------------------------------------------
def run_mcmc_case(rec, inp):
    """MCMCSampler.param_names and the gamma_pl_num hand-over of CosmoLikelihood.
    inp = {"cfg":..., "n_slope_lenses": int, "vseed": int, "mcmc": True}"""
    from hierarc.Sampling.mcmc_sampling import MCMCSampler
    cfg = copy.deepcopy(inp["cfg"]); nsl = int(inp["n_slope_lenses"])
    rng = rng_of(inp["vseed"], 202)
    lenses = [dict(z_lens=0.5, z_source=1.5, likelihood_type="DdtGaussian", ddt_mean=4000., ddt_sigma=200.)]
    for j in range(nsl):
        lenses.append(dict(z_lens=0.3 + 0.05 * j, z_source=1.2, likelihood_type="IFUKinCov", kin_scaling_param_list=["gamma_pl"],
                           j_kin_scaling_param_axes=[np.linspace(1.5, 2.5, 5)], j_kin_scaling_grid_list=[np.linspace(0.8, 1.2, 5)] * 2,
                           **kin_kw(rng, 2)))
    if rng.random() < 0.5: lenses = lenses[1:] + lenses[:1]
    cosmology = cfg.pop("cosmology"); cfg.pop("gamma_pl_num")
    bounds = {k: cfg.pop(k) for k in list(cfg) if k.startswith("kwargs_fixed_")}
    lo = values_for(dict(inp["cfg"], gamma_pl_num=nsl), rng, -3, -1); hi = values_for(dict(inp["cfg"], gamma_pl_num=nsl), rng, 1, 3)
    for b in BLOCKS:
        bounds["kwargs_lower_" + b] = lo[b]; bounds["kwargs_upper_" + b] = hi[b]
    try:
        s = MCMCSampler(lenses, cosmology, cfg, bounds)
        pn, pl = s.param_names(), s.param_names(latex_style=True)
    except Exception as e:
        rec.violation("C01:raises:mcmc", "MCMCSampler construction / param_names raised", inp, repr(e), "no exception"); return 1
    v0 = sum(rec._vkeys.values())
    want_num = 0 if cfg["gamma_pl_global_sampling"] else nsl
    cfg_eff = dict(inp["cfg"], gamma_pl_num=want_num)
    free = [doc_name(*k) for k in active_keys(cfg_eff) if not fixed_of(cfg_eff, *k)[0]]
    got_num = sum(1 for nme in pn if nme.startswith("gamma_pl_") and nme[9:].isdigit())
    rec.check(got_num == want_num, "C01:gamma_pl_handover", "number of per-lens slope slots = number of lenses with a gamma_pl kinematic scaling (0 under global sampling)",
              inp, got_num, want_num)
    rec.check(pn == free and pn == s.param.param_list() and pl == s.param.param_list(latex_style=True) and len(pn) == s.param.num_param
              and len(s.chain.param.param_bounds[0]) == len(pn),
              "C01:mcmc_param_names", "MCMCSampler.param_names must be the ParamManager order of the same model", inp, pn, free)
    return sum(rec._vkeys.values()) - v0


def lens_valid(cfg):
    """configurations the per-lens classes accept (AnisotropyDistribution rejects GAUSSIAN_SCALED for const/NONE)"""
    if cfg["anisotropy_distribution"] == "GAUSSIAN_SCALED" and cfg["anisotropy_model"] not in ["OM", "GOM"]: return False
    if cfg["cosmology"] == "NONE": return False
    if cfg["los_distributions"] is None: return False
    return True


def main():
    args = parse_args(PROP)
    rec = Recorder(PROP, args.tier, args.seed, rule="random ParamManager configurations (all switches x fixed subsets x 0-4 slopes x 0-3 LOS) x random vectors; "
                   "round trips, per-component alignment of names/LaTeX/bounds, fixed handling, log-scatter, block order, MCMCSampler names")
    if args.replay:
        with open(args.replay) as f: rp = json.load(f)
        inp = unjson(rp["input"]); inp = {k: v for k, v in inp.items() if k not in ("i", "which")}
        rec.case(inp, kind="replay")
        rec.guard(run_mcmc_case if inp.get("mcmc") else run_case, rec, inp)
        rec.write(args.out); return
    n_cfg, n_mcmc = (4500, 250) if args.tier == "quick" else (60000, 2500)
    rng = rng_of(args.seed, 1)
    t0 = time.process_time(); budget = 2 * 30 if args.tier == "quick" else 300
    kinds = ["mixed"] * 6 + ["dense"] * 2 + ["sparse"] + ["degenerate"]
    for t in range(n_cfg):
        kind = kinds[t % len(kinds)]
        cfg = rand_cfg(rng, kind)
        inp = dict(cfg=cfg, vseed=int(rng.integers(2 ** 31)), container=["list", "array", "tuple"][t % 3])
        nfree = len([s for s in active_keys(cfg) if not fixed_of(cfg, *s)[0]])
        rec.case(dict(cfg=cfg), nontrivial=nfree > 0, kind="%s/%s" % (kind, cfg["cosmology"]))
        rec.tally("num_param=%d-%d" % (nfree // 5 * 5, nfree // 5 * 5 + 4))
        rec.guard(run_case, rec, inp)
        if t < n_mcmc * 3 and t % 3 == 0 and lens_valid(cfg):
            inp2 = dict(cfg=cfg, n_slope_lenses=int(rng.integers(0, 4)), vseed=int(rng.integers(2 ** 31)), mcmc=True)
            rec.case(dict(mcmc=inp2["n_slope_lenses"], cfg=cfg), kind="mcmc_names")
            rec.guard(run_mcmc_case, rec, inp2)
        if time.process_time() - t0 > budget: break
    rec.write(args.out)


if __name__ == "__main__":
    main()
