"""Oracle for C07: the sample log-probability is a sum of independent terms, local settings over global.

Sub-checks / keys:
  C07:gamma_pl_num             LensSampleLikelihood.gamma_pl_num == number of lenses whose kin_scaling_param_list has gamma_pl
                               (0 when the slope is sampled globally); CosmoLikelihood.param has exactly that many gamma_pl_i
  C07:additivity               sharp: sample value == sum of single-lens samples (each alone, own slope, merged settings,
                               every evaluation with a FRESH deep copy of the hyper-parameter dictionaries)
  C07:additivity:sys_error_multi_lens   the same when kwargs_kin carries a non-zero "sigma_v_sys_error" and a kinematic lens built
                               with sigma_sys_error_include=True is NOT first in the list (stream 4 guarantees >= 2 such lenses;
                               stream 1 mixes them in at random; stream 3 does it through CosmoLikelihood, sigma_v_systematics=True)
  C07:permutation:sys_error_multi_lens  re-ordering invariance for those samples
  C07:caller_dict_mutated      kwargs_lens / kwargs_kin / kwargs_source / kwargs_los handed to LensSampleLikelihood.log_likelihood or
                               LensLikelihood.lens_log_likelihood are deep-equal to a snapshot taken before the call
  C07:additivity_scatter       seeded scatter: sample value == sum of its lens terms evaluated in order on the same stream
  C07:permutation              invariant under re-ordering the lens list with the slopes re-ordered accordingly
  C07:merge:<what>             lens object of the sample behaves as LensLikelihood(**{whitelisted global, **lens}):
                               override (lens key beats global), non_whitelisted (global mst_ifu/prior_list/... ignored),
                               static (the dict returned by _merge_global2local_settings)
  C07:interference:<clause>    other_slope | lambda_ifu_on_non_ifu | lambda_mst_on_ifu | los_other_population |
                               los_unassigned | sne_on_non_mag | anisotropy_without_scaling | sigma_v_sys_on_non_kin |
                               sigma_v_sys_without_include (kinematic lens built without sigma_sys_error_include) :
                               exact equality (==) of the lens term when an inapplicable hyper-parameter changes
  C07:num_data:<Type>, C07:num_data:sum    integer data count per type (all 14) and its sum over the sample
  C07:terms:sne|kde|prior|all|none   CosmoLikelihood.likelihood == lens part + SNe + KDE-chain + custom prior, each term
                               equal to an independent reference and present iff switched on
  C07:prior_kwargs             custom_prior receives the five kwargs of args2kwargs
  C07:terms:sys_error_param    args2kwargs yields kwargs_kin["sigma_v_sys_error"] iff sigma_v_systematics is switched on
  C07:raises:<where>           hierArc raised on a valid configuration
"""
import os
for _v in ("OMP_NUM_THREADS", "OPENBLAS_NUM_THREADS", "MKL_NUM_THREADS"):
    os.environ.setdefault(_v, "1")   # tiny matrices: threaded BLAS only adds latency (4x slower here) and nondeterminism
import sys, os, json, time, traceback, copy, math
sys.path.insert(0, os.path.dirname(os.path.abspath(__file__)))
from common import Recorder, parse_args, jsonable, unjson, fscalar, pd, TYPES, KIN_TYPES, MAG_TYPES, lens_kwargs, cosmo_interp
import numpy as np
from scipy.stats import multivariate_normal as mvn
from scipy.special import logsumexp

from hierarc.Likelihood.lens_sample_likelihood import LensSampleLikelihood
from hierarc.Likelihood.hierarchy_likelihood import LensLikelihood
from hierarc.Likelihood.cosmo_likelihood import CosmoLikelihood
from hierarc.Likelihood.KDELikelihood.chain import Chain

PROP = "C07"
WHITELIST = ["anisotropy_model", "anisotropy_sampling", "anisotropy_distribution", "los_distributions", "lambda_mst_distribution",
             "gamma_in_sampling", "gamma_in_distribution", "log_m2l_sampling", "log_m2l_distribution", "alpha_lambda_sampling",
             "beta_lambda_sampling", "alpha_gamma_in_sampling", "alpha_log_m2l_sampling", "gamma_pl_global_sampling",
             "gamma_pl_global_dist", "log_scatter"]
COSMO = None
AX_G = np.linspace(1.5, 2.5, 6)
AX_A = np.linspace(0.5, 2.0, 5)


def cosmo():
    global COSMO
    if COSMO is None:
        COSMO = cosmo_interp(H0=70.0, Om0=0.3, zmax=6.0, n=200)
    return COSMO


def rng_case(case):
    return np.random.default_rng([int(c) for c in case])


def expected_num_data(kw):
    t = kw["likelihood_type"]
    if t in ("DdtGaussian", "DsDdsGaussian", "DdtLogNorm", "DdtHist", "DdtHistKDE", "DSPL"): return 1
    if t in ("DdtDdKDE", "DdtDdGaussian"): return 2
    if t == "IFUKinCov": return len(kw["j_model"])
    if t in ("DdtHistKin", "DdtGaussKin"): return 1 + len(kw["j_model"])
    if t == "Mag": return len(kw["amp_measured"])
    if t == "TDMag": return len(kw["time_delay_measured"]) + len(kw["amp_measured"])
    if t == "TDMagMagnitude": return len(kw["time_delay_measured"]) + len(kw["magnitude_measured"])
    raise ValueError(t)


def mklens(i, rng, gm, force_type=None):
    t = force_type or str(rng.choice(TYPES))
    nkin = int(rng.integers(1, 5))
    kw = dict(z_lens=0.3 + 0.05 * i, z_source=1.5 + 0.1 * i, likelihood_type=t, name="L%d" % i, **lens_kwargs(t, rng, nkin=nkin))
    if t == "DdtDdKDE":
        kw["ddt_samples"] = kw["ddt_samples"][:150]; kw["dd_samples"] = kw["dd_samples"][:150]
    scal = None
    if t in KIN_TYPES and rng.random() < 0.75:
        scal = str(rng.choice(["gamma_pl", "a_ani", "a_ani+gamma_pl"]))
        n = len(kw["j_model"])
        if scal == "gamma_pl":
            kw.update(kin_scaling_param_list=["gamma_pl"], j_kin_scaling_param_axes=[AX_G],
                      j_kin_scaling_grid_list=[rng.uniform(.8, 1.2, 6) for _ in range(n)])
        elif scal == "a_ani":
            kw.update(kin_scaling_param_list=["a_ani"], j_kin_scaling_param_axes=[AX_A],
                      j_kin_scaling_grid_list=[rng.uniform(.8, 1.2, 5) for _ in range(n)])
        else:
            kw.update(kin_scaling_param_list=["a_ani", "gamma_pl"], j_kin_scaling_param_axes=[AX_A, AX_G],
                      j_kin_scaling_grid_list=[rng.uniform(.8, 1.2, (5, 6)) for _ in range(n)])
    if t == "DSPL" and rng.random() < 0.5:
        kw.update(kin_scaling_param_list=["gamma_pl"])     # a double-source-plane lens that samples its own slope
        scal = "gamma_pl(dspl)"
    if rng.random() < 0.4: kw["mst_ifu"] = True
    kw["num_distribution_draws"] = int(rng.integers(2, 7))   # keeps the seeded-scatter comparisons cheap
    r = rng.random()
    if r < 0.55: kw["global_los_distribution"] = int(rng.integers(0, 2))
    elif r < 0.7: kw["global_los_distribution"] = False
    if rng.random() < 0.3: kw["lambda_scaling_property"] = float(rng.uniform(-1, 1))
    if rng.random() < 0.15: kw["lambda_scaling_property_beta"] = float(rng.uniform(-1, 1))
    # a lens that overrides a global (whitelisted) setting
    if rng.random() < 0.3:
        kw["lambda_mst_distribution"] = "NONE" if gm.get("lambda_mst_distribution") == "GAUSSIAN" else "GAUSSIAN"
    if rng.random() < 0.15 and gm.get("anisotropy_sampling"):
        kw["anisotropy_distribution"] = "NONE" if gm.get("anisotropy_distribution") == "GAUSSIAN" else "GAUSSIAN"
    # a lens that switches OFF locally (a falsy value) what the global model switches on
    if rng.random() < 0.25:
        for k in ("alpha_lambda_sampling", "beta_lambda_sampling", "anisotropy_sampling", "gamma_pl_global_sampling"):
            if k == "gamma_pl_global_sampling" and "gamma_pl" in (kw.get("kin_scaling_param_list") or []): continue   # (would leave the lens without any slope)
            if gm.get(k) and rng.random() < 0.5: kw[k] = False
    return kw, scal


def has_slope(kw, gm):
    return ("gamma_pl" in (kw.get("kin_scaling_param_list") or [])) and not gm.get("gamma_pl_global_sampling", False)


def gen_global(rng):
    gm = dict(los_distributions=["GAUSSIAN", "GAUSSIAN"], alpha_lambda_sampling=True, beta_lambda_sampling=True,
              lambda_mst_distribution=str(rng.choice(["NONE", "GAUSSIAN"])))
    if rng.random() < 0.6:
        gm.update(anisotropy_sampling=True, anisotropy_model="const", anisotropy_distribution=str(rng.choice(["NONE", "GAUSSIAN"])))
    else:
        gm.update(anisotropy_model=str(rng.choice(["NONE", "const", "OM"])))
    if rng.random() < 0.15:
        gm.update(gamma_pl_global_sampling=True, gamma_pl_global_dist=str(rng.choice(["NONE", "GAUSSIAN"])))
    # keys that are NOT in the whitelist: parameter-manager switches and per-lens options placed in the global dict
    gm_extra = dict(ppn_sampling=True, lambda_mst_sampling=True, lambda_ifu_sampling=True, sne_apparent_m_sampling=True,
                    sigma_v_systematics=False, los_sampling=True, z_apparent_m_anchor=0.1)
    if rng.random() < 0.5:
        gm_extra.update(mst_ifu=True, lambda_scaling_property=5.0, prior_list=[["lambda_mst", 0.0, 1e-3]],
                        global_los_distribution=1, num_distribution_draws=3)
    return gm, gm_extra


def my_merge(gm_all, kw):
    return {**{k: copy.deepcopy(gm_all[k]) for k in WHITELIST if k in gm_all}, **kw}


def val(x):
    return fscalar(x)


def deq(a, b):
    """deep equality of hyper-parameter containers (dict / list / ndarray / scalars)"""
    if isinstance(a, dict):
        return isinstance(b, dict) and set(a.keys()) == set(b.keys()) and all(deq(a[k], b[k]) for k in a)
    if isinstance(a, (list, tuple)):
        return type(a) == type(b) and len(a) == len(b) and all(deq(x, y) for x, y in zip(a, b))
    if isinstance(a, np.ndarray) or isinstance(b, np.ndarray):
        return isinstance(a, np.ndarray) and isinstance(b, np.ndarray) and a.shape == b.shape and bool(np.array_equal(a, b))
    return type(a) == type(b) and a == b


def sys_key(base, sys_multi):
    return base + (":sys_error_multi_lens" if sys_multi else "")


def run_sample(rec, case):
    rng = rng_case(case)
    rng2 = rng_case(list(case) + [7])     # choices of the systematic-error extension: own stream, the older draws stay as they were
    sysmode = int(case[1]) == 4           # stream 4: >= 2 kinematic lenses with the sampled systematic error, not all of them first
    gm, gm_extra = gen_global(rng)
    gm_all = {**gm, **gm_extra}
    nl = int(rng.integers(1, 7))
    force = TYPES[int(case[2]) % len(TYPES)]          # every type appears regularly
    forced = {0: force}
    sys_pos = []
    if sysmode:
        nl = max(nl, 2)
        sys_pos = sorted(int(x) for x in rng2.choice(nl, int(rng2.integers(2, nl + 1)), replace=False))
        for q in sys_pos: forced[q] = str(rng2.choice(KIN_TYPES))
    built = [mklens(i, rng, gm, force_type=forced.get(i)) for i in range(nl)]
    lenses = [b[0] for b in built]
    # (own stream) half of the samples with a double-source-plane lens: its first source sits just behind the deflector (small beta) and
    # lambda_mst is taken from the low end of the prior - see below
    low_lam = any(l["likelihood_type"] == "DSPL" for l in lenses) and rng_case(list(case) + [9]).random() < 0.5
    if low_lam:
        for l in lenses:
            if l["likelihood_type"] == "DSPL": l["z_source"] = round(l["z_lens"] + 0.08, 3)
    # sigma_sys_error_include: the kinematic covariance gets + outer(sigma_v * sigma_v_sys_error); sampled with sigma_v_systematics
    p_inc = 0.6 if (sysmode or rng2.random() < 0.4) else 0.0
    for i, l in enumerate(lenses):
        if l["likelihood_type"] in KIN_TYPES:
            r = rng2.random()
            if i in sys_pos or r < p_inc: l["sigma_sys_error_include"] = True
            elif r > 0.9: l["sigma_sys_error_include"] = False
    sys_inc = [bool(l.get("sigma_sys_error_include", False)) for l in lenses]
    normalized = bool(rng.random() < 0.5)
    descr = dict(case=list(case), types=[l["likelihood_type"] for l in lenses], scaling=[b[1] for b in built], sys_include=sys_inc,
                 mst_ifu=[bool(l.get("mst_ifu", False)) for l in lenses], los=[l.get("global_los_distribution", "unset") for l in lenses],
                 overrides=[{k: l[k] for k in WHITELIST if k in l} for l in lenses], global_model=gm, global_extra=sorted(gm_extra),
                 normalized=normalized)
    rec.case(descr, kind="sample:n=%d" % nl)
    for l in lenses:
        rec.tally("type:" + l["likelihood_type"])
    try:
        S = LensSampleLikelihood(lenses, normalized=normalized, kwargs_global_model=gm_all)
    except Exception as e:
        rec.violation("C07:raises:LensSampleLikelihood", "constructor raised %r" % (e,), descr, traceback.format_exc(limit=3))
        return
    C = cosmo()
    hs = [has_slope(l, gm) for l in lenses]
    npl = sum(hs)
    rec.check(S.gamma_pl_num == npl, "C07:gamma_pl_num", "gamma_pl_num is not the number of slope-interpolating lenses", descr, S.gamma_pl_num, npl)
    gl = [float(x) for x in rng.uniform(1.7, 2.3, npl)]
    kl = dict(lambda_mst=float(rng.uniform(0.9, 1.1)), lambda_mst_sigma=0.0, lambda_ifu=float(rng.uniform(0.9, 1.1)), lambda_ifu_sigma=0.0,
              alpha_lambda=float(rng.uniform(-0.1, 0.1)), beta_lambda=float(rng.uniform(-0.1, 0.1)), gamma_ppn=float(rng.uniform(0.8, 1.2)))
    if npl: kl["gamma_pl_list"] = gl
    # the low end of a usual [0.5, 1.5] prior on lambda_mst: a double-source-plane lens with its own slope then has a negative base under a
    # fractional power (NaN, sanitised to 0 for THAT lens); the other lenses of the sample keep their terms (own stream)
    if low_lam:
        kl["lambda_mst"] = float(rng_case(list(case) + [10]).uniform(0.5, 0.72)); rec.tally("low_lambda_mst_with_dspl")
    if gm.get("gamma_pl_global_sampling"): kl.update(gamma_pl_mean=float(rng.uniform(1.8, 2.2)), gamma_pl_sigma=0.0)
    kk = dict(a_ani=float(rng.uniform(0.7, 1.8)), a_ani_sigma=0.0)
    ks = dict(mu_sne=float(rng.uniform(18.5, 20)), sigma_sne=0.0, z_apparent_m_anchor=0.1)
    klos = [dict(mean=float(rng.uniform(-0.05, 0.05)), sigma=0.0), dict(mean=float(rng.uniform(-0.05, 0.05)), sigma=0.0)]
    r = rng2.random()
    if sysmode or (any(sys_inc) and r < 0.85) or r < 0.08:
        kk["sigma_v_sys_error"] = float(rng2.uniform(0.03, 0.25))
    # the class of inputs where a lens that uses the systematic error is evaluated after another lens of the same sample
    sys_multi = bool(kk.get("sigma_v_sys_error")) and any(sys_inc[1:])
    if sys_multi: rec.tally("sys_error_multi_lens:n_sys=%d" % min(sum(sys_inc), 3))
    hyper = dict(kwargs_lens=kl, kwargs_kin=kk, kwargs_source=ks, kwargs_los=klos)
    inp = dict(descr, hyper=copy.deepcopy(hyper))

    def call(obj, **over):
        # every evaluation gets a FRESH deep copy of the dictionaries (an evaluation must not see what an earlier one did to
        # them) and the copy is compared with a snapshot afterwards: the caller's dictionaries are inputs, not scratch space
        h = copy.deepcopy(dict(hyper, **over))
        snap = copy.deepcopy(h)
        is_sample = isinstance(obj, LensSampleLikelihood)
        v = val(obj.log_likelihood(C, **h)) if is_sample else val(obj.lens_log_likelihood(C, **h))
        if not deq(h, snap):
            bad = [k for k in snap if not deq(h[k], snap[k])]
            rec.violation("C07:caller_dict_mutated", "the hyper-parameter dictionaries of the caller were modified by the evaluation: " + ", ".join(bad),
                          dict(inp, where="LensSampleLikelihood.log_likelihood" if is_sample else "LensLikelihood.lens_log_likelihood(%s)" % obj.name,
                               changed=over), {k: h[k] for k in bad}, {k: snap[k] for k in bad})
        return v

    try:
        tot = call(S)
        terms = [call(L) for L in S._lens_list]
    except Exception as e:
        rec.violation("C07:raises:log_likelihood", "sample evaluation raised %r" % (e,), inp, traceback.format_exc(limit=4))
        return
    scale = sum(abs(t) for t in terms) + 1.0

    # ---- additivity: each lens alone in its own sample with its own slope
    slope_of = {}
    j = 0
    for i, h in enumerate(hs):
        if h:
            slope_of[i] = gl[j]; j += 1
    try:
        parts = []
        for i, l in enumerate(lenses):
            S1 = LensSampleLikelihood([l], normalized=normalized, kwargs_global_model=gm_all)
            kl1 = dict(kl); kl1.pop("gamma_pl_list", None)
            if hs[i]:
                kl1["gamma_pl_list"] = [slope_of[i]]
            rec.check(S1.gamma_pl_num == int(hs[i]), "C07:gamma_pl_num", "single-lens sample: wrong slope count", dict(inp, lens=i), S1.gamma_pl_num, int(hs[i]))
            parts.append(call(S1, kwargs_lens=kl1))
        ssum = 0
        for p in parts: ssum = ssum + p
        rec.check(tot == ssum or abs(tot - ssum) <= 1e-13 * scale, sys_key("C07:additivity", sys_multi), "sample value is not the sum of the lenses evaluated alone",
                  dict(inp, parts=parts), tot, ssum)
    except Exception as e:
        rec.violation("C07:raises:single_lens_sample", "raised %r" % (e,), inp, traceback.format_exc(limit=3))

    # ---- permutation with slopes re-ordered accordingly
    try:
        p = [int(x) for x in rng.permutation(nl)]
        Sp = LensSampleLikelihood([lenses[i] for i in p], normalized=normalized, kwargs_global_model=gm_all)
        klp = dict(kl)
        if npl: klp["gamma_pl_list"] = [slope_of[i] for i in p if hs[i]]
        totp = call(Sp, kwargs_lens=klp)
        # different summation order: rounding of nl additions
        rec.check(abs(tot - totp) <= 1e-12 * scale, sys_key("C07:permutation", sys_multi), "value changes under re-ordering of the lens list", dict(inp, perm=p), totp, tot)
        if sys_multi and nl <= 4:
            # every lens once in first position (a term that depends on what was evaluated before it shows for some rotation)
            for sft in range(1, nl):
                q = [(i + sft) % nl for i in range(nl)]
                Sq = LensSampleLikelihood([lenses[i] for i in q], normalized=normalized, kwargs_global_model=gm_all)
                klq = dict(kl)
                if npl: klq["gamma_pl_list"] = [slope_of[i] for i in q if hs[i]]
                totq = call(Sq, kwargs_lens=klq)
                rec.check(abs(tot - totq) <= 1e-12 * scale, "C07:permutation:sys_error_multi_lens", "value changes under rotation of the lens list",
                          dict(inp, perm=q), totq, tot)
    except Exception as e:
        rec.violation("C07:raises:permuted_sample", "raised %r" % (e,), inp, traceback.format_exc(limit=3))

    # ---- merge: the lens of the sample == LensLikelihood(**{whitelisted global, **lens})  (sharp and seeded scatter)
    scat = dict(kwargs_lens=dict(kl, lambda_mst_sigma=0.05, lambda_ifu_sigma=0.04), kwargs_kin=dict(kk, a_ani_sigma=0.1),
                kwargs_los=[dict(klos[0], sigma=0.02), dict(klos[1], sigma=0.03)])
    sd = int(rng.integers(1 << 30))
    idx = 0
    for i, l in enumerate(lenses):
        gi = None
        if hs[i]:
            gi = idx; idx += 1
        what = "override" if any(k in l for k in WHITELIST) else ("non_whitelisted" if "mst_ifu" in gm_extra else "plain")
        try:
            Lref = LensLikelihood(gamma_pl_index=gi, normalized=normalized, **my_merge(gm_all, l))
            a0, b0 = terms[i], call(Lref)
            np.random.seed(sd); a1 = call(S._lens_list[i], **scat)
            np.random.seed(sd); b1 = call(Lref, **scat)
            rec.check(a0 == b0 and a1 == b1, "C07:merge:" + what, "lens of the sample differs from LensLikelihood built from {whitelisted global, **lens}",
                      dict(inp, lens=i, np_seed=sd), [a0, a1], [b0, b1])
        except Exception as e:
            rec.violation("C07:raises:merge", "raised %r" % (e,), dict(inp, lens=i), traceback.format_exc(limit=3))
    try:
        l0 = lenses[0]
        m = LensSampleLikelihood._merge_global2local_settings(kwargs_global_model=gm_all, kwargs_lens=l0)
        exp = my_merge(gm_all, l0)
        same = set(m.keys()) == set(exp.keys()) and all((m[k] is l0[k]) if k in l0 else (m[k] == exp[k]) for k in exp)
        rec.check(same, "C07:merge:static", "_merge_global2local_settings: wrong key set / precedence", dict(descr, lens=0),
                  sorted(m.keys()), sorted(exp.keys()))
    except Exception as e:
        rec.violation("C07:raises:merge", "raised %r" % (e,), descr)

    # ---- additivity under scatter: plain sum of the lens terms on one random stream
    try:
        np.random.seed(sd); ts = call(S, **scat)
        np.random.seed(sd)
        acc = 0
        for L in S._lens_list: acc = acc + call(L, **scat)
        rec.check(ts == acc, "C07:additivity_scatter", "with scatter the sample value is not the in-order sum of its lens terms",
                  dict(inp, np_seed=sd), ts, acc)
    except Exception as e:
        rec.violation("C07:raises:log_likelihood", "scatter evaluation raised %r" % (e,), inp, traceback.format_exc(limit=3))

    # ---- non-interference (exact equality, sharp hyper-parameters)
    idx = 0
    for i, l in enumerate(lenses):
        L = S._lens_list[i]
        base = terms[i]
        t = l["likelihood_type"]
        own = None
        if hs[i]:
            own = idx; idx += 1
        scal_list = l.get("kin_scaling_param_list") or []

        def clause(name, **over):
            try:
                v = call(L, **over)
            except Exception as e:
                rec.violation("C07:interference:" + name, "raised %r" % (e,), dict(inp, lens=i, type=t, changed=over))
                return
            rec.check(v == base, "C07:interference:" + name, "an inapplicable hyper-parameter changes the lens term",
                      dict(inp, lens=i, type=t, changed=over), v, base)
        if npl > (1 if own is not None else 0):
            gl2 = [g + 0.37 for g in gl]
            if own is not None: gl2[own] = gl[own]
            clause("other_slope", kwargs_lens=dict(kl, gamma_pl_list=gl2))
        if not l.get("mst_ifu"):
            clause("lambda_ifu_on_non_ifu", kwargs_lens=dict(kl, lambda_ifu=kl["lambda_ifu"] + 0.31))
        else:
            clause("lambda_mst_on_ifu", kwargs_lens=dict(kl, lambda_mst=kl["lambda_mst"] + 0.31))
        g = l.get("global_los_distribution", False)
        if g is False:
            clause("los_unassigned", kwargs_los=[dict(mean=0.21, sigma=0.0), dict(mean=-0.17, sigma=0.0)])
        else:
            k2 = [dict(d) for d in klos]; k2[1 - g]["mean"] = 0.23
            clause("los_other_population", kwargs_los=k2)
        if t not in MAG_TYPES:
            clause("sne_on_non_mag", kwargs_source=dict(mu_sne=25.0, sigma_sne=0.0, z_apparent_m_anchor=0.35))
        if "a_ani" not in scal_list:
            clause("anisotropy_without_scaling", kwargs_kin=dict(kk, a_ani=kk["a_ani"] * 0.6 + 0.1))
        if t not in KIN_TYPES:
            clause("sigma_v_sys_on_non_kin", kwargs_kin=dict(kk, sigma_v_sys_error=0.2))
        elif not sys_inc[i]:
            clause("sigma_v_sys_without_include", kwargs_kin=dict(kk, sigma_v_sys_error=0.31))

    # ---- non-interference under scatter: the OTHER lambda population's scatter must not reach this lens (same random stream)
    for i, l in enumerate(lenses):
        L = S._lens_list[i]
        other = "lambda_mst_sigma" if l.get("mst_ifu") else "lambda_ifu_sigma"
        try:
            np.random.seed(sd); a0 = call(L, **scat)
            np.random.seed(sd); a1 = call(L, **dict(scat, kwargs_lens=dict(scat["kwargs_lens"], **{other: scat["kwargs_lens"][other] + 0.07})))
        except Exception as e:
            rec.violation("C07:interference:other_population_scatter", "raised %r" % (e,), dict(inp, lens=i, changed=other)); continue
        rec.check(a0 == a1, "C07:interference:other_population_scatter",
                  "the scatter of the lambda population this lens does NOT belong to changes its term (same random stream)",
                  dict(inp, lens=i, type=l["likelihood_type"], mst_ifu=bool(l.get("mst_ifu")), changed=other, np_seed=sd), a1, a0)

    # ---- number of data points
    try:
        exp = [expected_num_data(l) for l in lenses]
        for i, (L, e) in enumerate(zip(S._lens_list, exp)):
            n = L.num_data()
            rec.check(isinstance(n, (int, np.integer)) and n == e, "C07:num_data:" + lenses[i]["likelihood_type"],
                      "per-lens data count wrong / not an integer", dict(descr, lens=i), repr(n), e)
        n = S.num_data()
        rec.check(isinstance(n, (int, np.integer)) and n == sum(exp), "C07:num_data:sum", "sample data count is not the integer sum", descr, repr(n), sum(exp))
    except Exception as e:
        rec.violation("C07:num_data:sum", "num_data raised %r" % (e,), descr, traceback.format_exc(limit=3))


# ------------------------------------------------------------------ SNe / KDE / prior terms of CosmoLikelihood
def run_terms(rec, case):
    rng = rng_case(case)
    use_mag = bool(rng.random() < 0.4)
    types = [str(t) for t in rng.choice(["DdtGaussian", "DdtDdGaussian", "DsDdsGaussian", "DdtLogNorm", "IFUKinCov", "DdtGaussKin", "DSPL"],
                                        int(rng.integers(1, 4)))]
    if use_mag: types.append(str(rng.choice(MAG_TYPES)))
    lenses = [dict(z_lens=0.3 + 0.05 * i, z_source=1.2 + 0.1 * i, likelihood_type=t, **lens_kwargs(t, rng)) for i, t in enumerate(types)]
    cosmology = str(rng.choice(["FLCDM", "FwCDM", "oLCDM"]))
    sne_sampling = bool(rng.random() < 0.7)
    sigma_sne = 0.0 if (use_mag or not sne_sampling) else float(rng.choice([0.0, rng.uniform(0.02, 0.2)]))
    anchor = float(rng.choice([0.1, 0.2]))
    km = dict(lambda_mst_sampling=True, z_apparent_m_anchor=anchor)
    if sne_sampling: km.update(sne_apparent_m_sampling=True, sne_distribution="GAUSSIAN")
    kb = dict(kwargs_lower_cosmo=dict(h0=0, om=0, w=-3, ok=-1), kwargs_upper_cosmo=dict(h0=200, om=1, w=0, ok=1),
              kwargs_lower_lens=dict(lambda_mst=0), kwargs_upper_lens=dict(lambda_mst=2),
              kwargs_lower_source=dict(mu_sne=0, sigma_sne=0), kwargs_upper_source=dict(mu_sne=40, sigma_sne=2))
    nsn = int(rng.integers(3, 9))
    zc = np.sort(rng.uniform(0.02, 1.1, nsn)); zh = zc + rng.normal(0, 1e-3, nsn)
    mags = 19.0 + 5 * np.log10(zc * (1 + zc)) + rng.normal(0, 0.1, nsn)
    sne = dict(mag_mean=mags, cov_mag=pd(rng, nsn, 0.12), zhel=zh, zcmb=zc)
    nchain = int(rng.integers(80, 200))
    cols = {"h0": rng.normal(70, 3, nchain), "om": rng.normal(0.3, 0.03, nchain)}
    if cosmology == "FwCDM": cols["w"] = rng.normal(-1, 0.1, nchain)
    if cosmology == "oLCDM" and rng.random() < 0.5: cols["ok"] = rng.normal(0, 0.05, nchain)
    order = [str(x) for x in rng.permutation(list(cols))]          # chain column order != sampling order
    wts = rng.uniform(0.5, 2.0, nchain)
    bw = float(rng.uniform(0.05, 0.3))
    h0, om = float(rng.uniform(62, 78)), float(rng.uniform(0.22, 0.38))
    args = [h0, om] + ([float(rng.uniform(-1.2, -0.8))] if cosmology == "FwCDM" else []) + ([float(rng.uniform(-0.1, 0.1))] if cosmology == "oLCDM" else [])
    args += [float(rng.uniform(0.9, 1.1))]
    if sne_sampling: args += [float(rng.uniform(18.5, 19.5)), sigma_sne]
    seen = []

    def prior(kwargs_cosmo, kwargs_lens, kwargs_kin, kwargs_source, kwargs_los):
        seen.append(copy.deepcopy((kwargs_cosmo, kwargs_lens, kwargs_kin, kwargs_source, kwargs_los)))
        return -(kwargs_cosmo["h0"] - 71.0) ** 2 / 18.0 + 0.3 * kwargs_lens["lambda_mst"] - 2.0 * kwargs_cosmo["om"]
    inp = dict(case=list(case), cosmology=cosmology, types=types, args=args, sne_sampling=sne_sampling, sigma_sne=sigma_sne, anchor=anchor,
               chain_columns=order, n_chain=nchain, bandwidth=bw, n_sne=nsn)
    rec.case(inp, kind="terms:%s" % cosmology)

    def build(sn, kd, pr):
        ch = Chain("kw", "probe", {k: cols[k].copy() for k in order}, wts.copy(), cosmology, rescale=True) if kd else None
        return CosmoLikelihood(copy.deepcopy(lenses), cosmology, km, kb, sne_likelihood="CUSTOM" if sn else None,
                               kwargs_sne_likelihood=copy.deepcopy(sne) if sn else None, KDE_likelihood_chain=ch,
                               kwargs_kde_likelihood=dict(likelihood_type="kde_full", bandwidth=bw) if kd else None,
                               custom_prior=prior if pr else None, interpolate_cosmo=True, num_redshift_interp=150)
    try:
        np.random.seed(int(case[2]))
        base_obj = build(False, False, False)
        v_none = fscalar(base_obj.likelihood(args))
        kw5 = base_obj.param.args2kwargs(args)
        C = base_obj.cosmo_instance(kw5[0])
        lens_part = fscalar(base_obj._likelihoodLensSample.log_likelihood(C, kwargs_lens=kw5[1], kwargs_kin=kw5[2], kwargs_source=kw5[3], kwargs_los=kw5[4]))
        vals = {}
        for name, sw in (("sne", (1, 0, 0)), ("kde", (0, 1, 0)), ("prior", (0, 0, 1)), ("all", (1, 1, 1))):
            np.random.seed(int(case[2]))
            vals[name] = fscalar(build(*sw).likelihood(args))
    except Exception as e:
        rec.violation("C07:raises:CosmoLikelihood", "raised %r" % (e,), inp, traceback.format_exc(limit=4))
        return
    # independent references of the three added terms
    Csn = build(True, False, False).cosmo_instance(kw5[0])          # table reaches the SNe redshifts
    da = np.array([fscalar(Csn.angular_diameter_distance(z).value) for z in zc])
    lum = 5 * np.log10((1 + zh) * (1 + zc) * da) - 5 * np.log10((1 + anchor) ** 2 * fscalar(Csn.angular_diameter_distance(anchor).value))
    cov = sne["cov_mag"] + (np.eye(nsn) * sigma_sne ** 2 if sne_sampling else 0.0)
    if sne_sampling:
        m0 = kw5[3]["mu_sne"]
    else:
        iv = 1.0 / np.diag(cov)
        m0 = np.sum((mags - lum) * iv) / np.sum(iv)
    ref_sne = float(mvn.logpdf(mags, lum + m0, cov))
    pts = np.array([(cols[k] - cols[k].min()) / (cols[k].max() - cols[k].min()) for k in order]).T
    x = np.array([(kw5[0][k] - cols[k].min()) / (cols[k].max() - cols[k].min()) for k in order])
    d = pts.shape[1]
    ref_kde = float(logsumexp(np.log(wts) - np.sum((pts - x) ** 2, axis=1) / (2 * bw ** 2)) - math.log(np.sum(wts)) - 0.5 * d * math.log(2 * math.pi * bw ** 2))
    ref_prior = -(kw5[0]["h0"] - 71.0) ** 2 / 18.0 + 0.3 * kw5[1]["lambda_mst"] - 2.0 * kw5[0]["om"]
    tol = lambda *xs: 1e-9 * (sum(abs(v) for v in xs) + 1.0)
    # sigma_sne>0 on a sample without magnification lenses: lens part is the N-fold mean of identical values (known C04 cost
    # finding), equal to the sharp value up to rounding -> compare against the directly evaluated lens part
    rec.check(abs(v_none - lens_part) <= tol(lens_part), "C07:terms:none", "without optional terms the value is not the lens sum", inp, v_none, lens_part)
    rec.check(abs(vals["sne"] - v_none - ref_sne) <= tol(v_none, ref_sne), "C07:terms:sne", "SNe term is not added as the independent SNe log-density", inp, vals["sne"] - v_none, ref_sne)
    rec.check(abs(vals["kde"] - v_none - ref_kde) <= tol(v_none, ref_kde), "C07:terms:kde", "KDE-chain term is not added as the independent kernel density", inp, vals["kde"] - v_none, ref_kde)
    rec.check(abs(vals["prior"] - v_none - ref_prior) <= tol(v_none, ref_prior), "C07:terms:prior", "custom prior is not added", inp, vals["prior"] - v_none, ref_prior)
    rec.check(abs(vals["all"] - (v_none + ref_sne + ref_kde + ref_prior)) <= tol(v_none, ref_sne, ref_kde, ref_prior), "C07:terms:all",
              "all terms on: value is not lens sum + SNe + KDE + prior", inp, vals["all"], v_none + ref_sne + ref_kde + ref_prior)
    ok = len(seen) == 2 and all(jsonable(s) == jsonable(tuple(kw5)) for s in seen)
    rec.check(ok, "C07:prior_kwargs", "custom_prior not called once per evaluation with the kwargs of args2kwargs", inp, jsonable(seen[:1]), jsonable(kw5))
    # the parameter manager received gamma_pl_num of the sample
    n_g = sum(1 for nme in base_obj.param.param_list() if nme.startswith("gamma_pl_"))
    rec.check(n_g == base_obj._likelihoodLensSample.gamma_pl_num, "C07:gamma_pl_num", "parameter manager and sample disagree on the number of slopes",
              inp, n_g, base_obj._likelihoodLensSample.gamma_pl_num)


def run_slopes_param(rec, case):
    """CosmoLikelihood: per-lens slopes are sampled coordinates gamma_pl_0.. in list order; likelihood == sum of lens terms"""
    rng = rng_case(case)
    gm = dict(lambda_mst_sampling=True, lambda_mst_distribution="NONE")
    nl = int(rng.integers(2, 6))
    lenses = []
    for i in range(nl):
        t = str(rng.choice(["IFUKinCov", "DdtGaussKin", "DSPL", "DdtGaussian"]))
        kw = dict(z_lens=0.3 + 0.05 * i, z_source=1.2 + 0.1 * i, likelihood_type=t, **lens_kwargs(t, rng, nkin=int(rng.integers(1, 4))))
        if t in KIN_TYPES and rng.random() < 0.7:
            kw.update(kin_scaling_param_list=["gamma_pl"], j_kin_scaling_param_axes=[AX_G],
                      j_kin_scaling_grid_list=[rng.uniform(.8, 1.2, 6) for _ in range(len(kw["j_model"]))])
        if t == "DSPL" and rng.random() < 0.7:
            kw.update(kin_scaling_param_list=["gamma_pl"])
        lenses.append(kw)
    hs = [has_slope(l, {}) for l in lenses]
    npl = sum(hs)
    kb = dict(kwargs_lower_cosmo=dict(h0=0, om=0), kwargs_upper_cosmo=dict(h0=200, om=1),
              kwargs_lower_lens=dict(lambda_mst=0, gamma_pl_list=[1.5] * npl), kwargs_upper_lens=dict(lambda_mst=2, gamma_pl_list=[2.5] * npl))
    gl = [float(x) for x in rng.uniform(1.7, 2.3, npl)]
    args = [float(rng.uniform(62, 78)), float(rng.uniform(0.25, 0.35)), float(rng.uniform(0.95, 1.05))] + gl
    # sampled systematic velocity-dispersion error (own random stream; the older draws stay as they were)
    rng2 = rng_case(list(case) + [7])
    sys_sampled = bool(rng2.random() < 0.6)
    if sys_sampled:
        gm["sigma_v_systematics"] = True
        kb.update(kwargs_lower_kin=dict(sigma_v_sys_error=0.0), kwargs_upper_kin=dict(sigma_v_sys_error=1.0))
        for l in lenses:
            if l["likelihood_type"] in KIN_TYPES and rng2.random() < 0.8: l["sigma_sys_error_include"] = True
        args = args + [float(rng2.uniform(0.03, 0.25))]
    sys_inc = [bool(l.get("sigma_sys_error_include", False)) for l in lenses]
    sys_multi = sys_sampled and any(sys_inc[1:])
    inp = dict(case=list(case), types=[l["likelihood_type"] for l in lenses], has_slope=hs, args=args, sys_include=sys_inc, sys_sampled=sys_sampled)
    rec.case(inp, kind="slopes_param:n=%d" % npl)
    try:
        cl = CosmoLikelihood(lenses, "FLCDM", gm, kb, interpolate_cosmo=True, num_redshift_interp=100)
        names = cl.param.param_list()
        rec.check([n for n in names if n.startswith("gamma_pl")] == ["gamma_pl_%d" % i for i in range(npl)], "C07:gamma_pl_num",
                  "sampled slope coordinates are not gamma_pl_0..gamma_pl_(num-1)", inp, names, npl)
        v = fscalar(cl.likelihood(args))
        kc, kl, kk, ks, klos = cl.param.args2kwargs(args)
        C = cl.cosmo_instance(kc)
        acc, j = 0.0, 0
        for i, l in enumerate(lenses):
            kl1 = dict(lambda_mst=kl["lambda_mst"])
            if hs[i]:
                kl1["gamma_pl_list"] = [gl[j]]; j += 1
            # CosmoLikelihood switches to the normalised likelihoods when the systematic error is sampled (the determinant depends on it)
            S1 = LensSampleLikelihood([l], normalized=sys_sampled, kwargs_global_model=gm)
            acc += fscalar(S1.log_likelihood(C, kwargs_lens=kl1, kwargs_kin=copy.deepcopy(kk), kwargs_source=copy.deepcopy(ks), kwargs_los=copy.deepcopy(klos)))
        rec.check(sys_sampled == ("sigma_v_sys_error" in kk), "C07:terms:sys_error_param", "sigma_v_systematics does not produce the kinematic hyper-parameter sigma_v_sys_error",
                  inp, sorted(kk), "sigma_v_sys_error present iff sigma_v_systematics")
        rec.check(abs(v - acc) <= 1e-12 * (abs(acc) + 1), sys_key("C07:additivity", sys_multi),
                  "CosmoLikelihood.likelihood is not the sum of the lenses evaluated alone (j-th sampled slope to the j-th slope lens, the sampled "
                  "systematic error to every lens that includes it)", inp, v, acc)
    except Exception as e:
        rec.violation("C07:raises:CosmoLikelihood", "raised %r" % (e,), inp, traceback.format_exc(limit=4))


def run_los_populations(rec, case):
    """CosmoLikelihood.likelihood(args) with several sampled line-of-sight populations: the value is the sum of the lenses evaluated alone,
    and a lens' term does not move when only ANOTHER population's parameters move (sharp populations: sigma = 0 fixed by the bounds' centre)."""
    rng = rng_case(case)
    npop = int(rng.integers(2, 4))
    dists = [str(rng.choice(["GAUSSIAN", "GEV"])) for _ in range(npop)]
    nl = int(rng.integers(2, 5))
    lenses, assign = [], []
    for i in range(nl):
        t = str(rng.choice(["DdtGaussian", "DdtLogNorm", "DdtDdGaussian"]))
        k = int(rng.integers(npop)) if i >= npop else i          # every population has a lens first, then random
        lenses.append(dict(z_lens=0.3 + 0.05 * i, z_source=1.2 + 0.1 * i, likelihood_type=t, global_los_distribution=k, **lens_kwargs(t, rng, nkin=1)))
        assign.append(k)
    gm = dict(los_sampling=True, los_distributions=dists)
    lo = [dict(mean=-0.1, sigma=0.0, xi=-0.2) for _ in dists]; hi = [dict(mean=0.1, sigma=0.1, xi=0.2) for _ in dists]
    kb = dict(kwargs_lower_cosmo=dict(h0=0, om=0), kwargs_upper_cosmo=dict(h0=200, om=1), kwargs_lower_los=lo, kwargs_upper_los=hi)

    def vec(means):
        a = [70.0, 0.3]
        for d, m in zip(dists, means):
            a += [m, 0.0] + ([0.1] if d == "GEV" else [])
        return a
    means = [float(x) for x in rng.uniform(-0.05, 0.05, npop)]
    inp = dict(case=list(case), types=[l["likelihood_type"] for l in lenses], los_distributions=dists, assignment=assign, means=means)
    rec.case(inp, kind="los_populations:n=%d" % npop)
    try:
        # (exact distances: an interpolated cosmology would depend on the highest redshift of each sample)
        cl = CosmoLikelihood(lenses, "FLCDM", gm, kb, interpolate_cosmo=False)
        singles = [CosmoLikelihood([l], "FLCDM", gm, kb, interpolate_cosmo=False) for l in lenses]
        rec.check(len(cl.param.param_list()) == len(vec(means)), "C07:los_populations:num_param", "unexpected number of sampled parameters", inp,
                  cl.param.param_list(), len(vec(means)))
        np.random.seed(3); v = fscalar(cl.likelihood(vec(means)))
        parts = []
        for s1 in singles:
            np.random.seed(3); parts.append(fscalar(s1.likelihood(vec(means))))
        rec.check(abs(v - sum(parts)) <= 1e-10 * (sum(abs(x) for x in parts) + 1), "C07:additivity:los_populations",
                  "CosmoLikelihood.likelihood with several line-of-sight populations is not the sum of the lenses evaluated alone", inp, v, sum(parts))
        for k in range(npop):
            m2 = list(means); m2[k] = means[k] + 0.03
            for i, s1 in enumerate(singles):
                np.random.seed(3); w = fscalar(s1.likelihood(vec(m2)))
                if assign[i] != k:
                    rec.check(w == parts[i], "C07:interference:los_other_population",
                              "a lens' term moves when only the mean of a line-of-sight population it is NOT assigned to moves",
                              dict(inp, lens=i, moved_population=k), w, parts[i])
                else:
                    rec.check(w != parts[i], "C07:los_populations:own_population_ignored",
                              "a lens' term does not move when the mean of ITS line-of-sight population moves", dict(inp, lens=i, moved_population=k), w, parts[i])
    except Exception as e:
        rec.violation("C07:raises:CosmoLikelihood", "raised %r" % (e,), inp, traceback.format_exc(limit=4))


STREAMS = {1: run_sample, 2: run_terms, 3: run_slopes_param, 4: run_sample, 5: run_los_populations}   # 4: run_sample in its systematic-error mode
COUNTS = {"quick": {1: 280, 2: 60, 3: 60, 4: 90, 5: 25}, "thorough": {1: 4200, 2: 700, 3: 700, 4: 1400, 5: 400}}


def main():
    a = parse_args(PROP)
    rec = Recorder(PROP, a.tier, a.seed, "sample logL == sum of single-lens terms (+SNe+KDE+prior); merge local over global; == under inapplicable parameters")
    if a.replay:
        rp = unjson(json.load(open(a.replay)))
        case = [int(c) for c in rp["input"]["case"]]
        try:
            STREAMS[case[1]](rec, case)
        except Exception:
            rec.error(traceback.format_exc(limit=6))
        rec.write(a.out)
        return
    budget = 34 if a.tier == "quick" else 330
    for stream, fn in STREAMS.items():
        for i in range(COUNTS[a.tier][stream]):
            if time.process_time() - rec.cpu0 > 2 * budget:
                rec.tally("stopped_on_time_budget")
                break
            try:
                fn(rec, [a.seed, stream, i])
            except Exception:
                rec.error("case %s: %s" % ([a.seed, stream, i], traceback.format_exc(limit=6)))
    out = rec.write(a.out)
    print(json.dumps(dict(property=PROP, evaluations=out["evaluations"], violations=out["violation_counts"],
                          errors=len(out["errors"]), wall_s=out["wall_s"])))


if __name__ == "__main__":
    main()
