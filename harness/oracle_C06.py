"""Oracle for C06: each data likelihood is the stated density; the normalisation flag drops constants only.

Every likelihood class is called directly and compared with an independent scipy.stats reference
(multivariate_normal / norm / lognorm, own covariance assembly, own physical constants).

Sub-checks / keys:
  C06:kin:<variant>            KinLikelihood == mvn.logpdf(sigma_v; c*sqrt(J Ds/Dds s), M [+ outer(sv*eps)] + Q*sqrt(s)sqrt(s)^T*Ds/Dds*c^2)
                               variant = normalized|unnormalized : sys_included|sys_ignored|sys_none (offset / scaling kind in the input)
  C06:kin:norm_difference      un-normalised minus normalised == (n ln 2pi + ln det C)/2 (Cholesky log-det) and nothing else
  C06:joint:DdtGaussKin / C06:joint:DdtHistKin   joint == Ddt part + kinematic part (both parts from references)
  C06:scalar:<Type>            DdtGaussian, DdtLogNorm, DdtDdGaussian, DsDdsGaussian vs norm/lognorm (+ documented prefactor)
  C06:mag:Mag|TDMag|TDMagMagnitude   vs mvn with data+scaled model covariance
  C06:dspl:<normalized|unnormalized>, C06:dspl:norm_difference
  C06:singular:<Type>          exactly singular total covariance -> -inf, no exception
  C06:forced_norm:<Type>       sigma_v_systematics sampled => normalised density irrespective of the flag (through
                               CosmoLikelihood.__init__ / LensSampleLikelihood), sampled sigma_v_sys_error reaches the lens
  C06:flag_passthrough:<Type>  LensSampleLikelihood(normalized=..) reaches every type that has the flag: difference equals
                               the documented constant
  C06:dispatch:<Type>          LensLikelihoodBase.log_likelihood hands each of the 14 types exactly its arguments (spy)
  C06:dispatch_value:<Type>    and the value through the base equals the reference
  C06:raises:<where>           hierArc raised on a valid input
"""
import os
for _v in ("OMP_NUM_THREADS", "OPENBLAS_NUM_THREADS", "MKL_NUM_THREADS"):
    os.environ.setdefault(_v, "1")   # tiny matrices: threaded BLAS only adds latency (4x slower here) and nondeterminism
import sys, os, json, time, traceback, inspect, math
sys.path.insert(0, os.path.dirname(os.path.abspath(__file__)))
from common import Recorder, parse_args, jsonable, unjson, fscalar, pd, TYPES, KIN_TYPES, lens_kwargs
import numpy as np
from scipy.stats import multivariate_normal as mvn, norm, lognorm
from scipy.special import logsumexp

from hierarc.Likelihood.LensLikelihood.kin_likelihood import KinLikelihood
from hierarc.Likelihood.LensLikelihood.ddt_gauss_kin_likelihood import DdtGaussKinLikelihood
from hierarc.Likelihood.LensLikelihood.ddt_hist_kin_likelihood import DdtHistKinLikelihood
from hierarc.Likelihood.LensLikelihood.mag_likelihood import MagnificationLikelihood
from hierarc.Likelihood.LensLikelihood.td_mag_likelihood import TDMagLikelihood
from hierarc.Likelihood.LensLikelihood.td_mag_magnitude_likelihood import TDMagMagnitudeLikelihood
from hierarc.Likelihood.LensLikelihood.ddt_lognorm_likelihood import DdtLogNormLikelihood
from hierarc.Likelihood.LensLikelihood.ddt_gauss_likelihood import DdtGaussianLikelihood
from hierarc.Likelihood.LensLikelihood.ds_dds_gauss_likelihood import DsDdsGaussianLikelihood
from hierarc.Likelihood.LensLikelihood.ddt_dd_gauss_likelihood import DdtDdGaussian
from hierarc.Likelihood.LensLikelihood.double_source_plane import DSPLikelihood
from hierarc.Likelihood.LensLikelihood.base_lens_likelihood import LensLikelihoodBase
from hierarc.Likelihood.lens_sample_likelihood import LensSampleLikelihood
from hierarc.Likelihood.cosmo_likelihood import CosmoLikelihood

PROP = "C06"
CKM = 299792.458                                   # km/s
FERMAT_UNIT = 3.08567758e22 / 299792458.0 / 86400.0 * (math.pi / 180 / 3600) ** 2   # Mpc/c/day * arcsec^2
LN2PI = math.log(2 * math.pi)
RTOL, ATOL = 1e-9, 1e-8   # mvn.logpdf (eigen-decomposition) vs inv/slogdet (LU) on well-conditioned matrices


def close(a, b, rtol=RTOL, atol=ATOL):
    a, b = float(a), float(b)
    if a == b:
        return True
    return bool(np.isfinite(a) and np.isfinite(b) and abs(a - b) <= atol + rtol * max(abs(a), abs(b)))


def logdet_chol(C):
    return 2.0 * float(np.sum(np.log(np.diag(np.linalg.cholesky(C)))))


def rng_case(case):
    return np.random.default_rng([int(c) for c in case])


def hier(rec, key, inp, fn):
    """call hierArc; an exception where the property promises a value is a violation"""
    try:
        return True, fn()
    except Exception as e:
        rec.violation(key, "hierArc raised %r" % (e,), inp, traceback.format_exc(limit=3), "a log-likelihood value")
        return False, None


# ------------------------------------------------------------------ kinematics
def gen_kin(rng, n=None, realistic=None):
    n = int(rng.integers(1, 6)) if n is None else n
    zl = float(rng.uniform(0.1, 1.0))
    ddt, dd = float(rng.uniform(1500, 7000)), float(rng.uniform(500, 1700))
    r = ddt / dd / (1 + zl)
    realistic = bool(rng.random() < 0.7) if realistic is None else realistic
    if realistic:   # predictions within a few sigma of the data
        sv_true = rng.uniform(180, 320, n)
        J = (sv_true / CKM) ** 2 / r * rng.uniform(0.9, 1.1, n)
        Q = pd(rng, n, float(rng.uniform(5, 25)) / CKM / math.sqrt(r))
        sv = sv_true + rng.normal(0, 10, n)
        M = pd(rng, n, float(rng.uniform(5, 20)))
    else:           # far from the best fit, strongly unequal scales
        sv = rng.uniform(200, 300, n); J = rng.uniform(0.015, 0.03, n)
        M = pd(rng, n, 12.0); Q = pd(rng, n, 0.002)
    return dict(n=n, z_lens=zl, ddt=ddt, dd=dd, sv=sv, J=J, M=M, Q=Q, realistic=realistic)


def kin_ref(k, s, eps, inc, off, normed):
    n = k["n"]
    r = k["ddt"] / k["dd"] / (1 + k["z_lens"])
    svec = np.ones(n) if s is None else np.ones(n) * np.asarray(s, dtype=float)
    mu = CKM * np.sqrt(k["J"] * r * svec)
    C = np.array(k["M"], dtype=float)
    if inc and eps is not None:
        C = C + np.outer(k["sv"] * eps, k["sv"] * eps)
    C = C + k["Q"] * np.outer(np.sqrt(svec), np.sqrt(svec)) * r * CKM ** 2
    data = k["sv"] if off is None else k["sv"] * (1 + off)
    ref = float(mvn.logpdf(data, mu, C))
    const = 0.5 * (n * LN2PI + logdet_chol(C))
    return (ref if normed else ref + const), const


def run_kin(rec, case):
    rng = rng_case(case)
    # "a covariance of any dimension": every 40th case is an IFU map with very many bins (det C leaves the binary64 range, ln det C does not)
    k = gen_kin(rng, n=int(rng.choice([120, 180, 260])), realistic=True) if case[2] % 40 == 7 else gen_kin(rng)
    n = k["n"]
    skind = str(rng.choice(["none", "array", "scalar", "ones"]))
    s = {"none": None, "array": rng.uniform(0.6, 1.5, n), "scalar": float(rng.uniform(0.6, 1.5)), "ones": np.ones(n)}[skind]
    eps = [None, 0.0, float(rng.uniform(0.005, 0.15))][int(rng.integers(0, 3))]
    off = [None, None, float(rng.uniform(-0.05, 0.05))][int(rng.integers(0, 3))]
    inp = dict(case=list(case), n=n, z_lens=k["z_lens"], ddt=k["ddt"], dd=k["dd"], sigma_v_measurement=k["sv"], j_model=k["J"],
               error_cov_measurement=k["M"], error_cov_j_sqrt=k["Q"], kin_scaling=s, sigma_v_sys_error=eps,
               sigma_v_sys_offset=off)
    rec.case(dict(kin=n, s=skind, eps=eps, off=off, realistic=k["realistic"]), kind="kin:n=%d" % n)
    vals = {}
    for normed in (True, False):
        for inc in (True, False):
            lab = "%s:%s" % ("normalized" if normed else "unnormalized",
                             "sys_none" if eps is None else ("sys_included" if inc else "sys_ignored"))
            ref, const = kin_ref(k, s, eps, inc, off, normed)
            kw = dict(kin_scaling=s, sigma_v_sys_error=eps)
            if off is not None:
                kw["sigma_v_sys_offset"] = off
            ok, v = hier(rec, "C06:raises:KinLikelihood", dict(inp, normalized=normed, sigma_sys_error_include=inc),
                         lambda: KinLikelihood(k["z_lens"], 2.0, list(k["sv"]), list(k["J"]), k["M"], k["Q"], normalized=normed,
                                               sigma_sys_error_include=inc).log_likelihood(k["ddt"], k["dd"], **kw))
            if not ok:
                continue
            v = fscalar(v)
            vals[(normed, inc)] = (v, const)
            rec.check(close(v, ref), "C06:kin:" + lab, "KinLikelihood differs from the multivariate-normal reference",
                      dict(inp, normalized=normed, sigma_sys_error_include=inc), v, ref)
            # joint likelihoods: sum of the parts (both from references)
            mean, sig = float(rng.uniform(2000, 6000)), float(rng.uniform(100, 400))
            gref = -(k["ddt"] - mean) ** 2 / (2 * sig ** 2)   # DdtGaussian is always un-normalised: norm.logpdf + ln(sig sqrt(2pi))
            gref2 = float(norm.logpdf(k["ddt"], mean, sig)) + math.log(sig * math.sqrt(2 * math.pi))
            ok, vj = hier(rec, "C06:raises:DdtGaussKin", dict(inp, normalized=normed),
                          lambda: DdtGaussKinLikelihood(k["z_lens"], 2.0, mean, sig, list(k["sv"]), list(k["J"]), k["M"], k["Q"],
                                                        normalized=normed, sigma_sys_error_include=inc).log_likelihood(k["ddt"], k["dd"], **kw))
            if ok:
                rec.check(close(fscalar(vj), gref2 + ref) and close(gref, gref2), "C06:joint:DdtGaussKin",
                          "DdtGaussKin is not Gaussian(Ddt) + kinematics",
                          dict(inp, normalized=normed, sigma_sys_error_include=inc, ddt_mean=mean, ddt_sigma=sig), fscalar(vj), gref2 + ref)
    if (True, True) in vals and (False, True) in vals:
        for inc in (True, False):
            d = vals[(False, inc)][0] - vals[(True, inc)][0]
            const = vals[(True, inc)][1]
            # the two values are O(chi2); their difference carries the rounding of both
            tol = 1e-9 * (abs(vals[(False, inc)][0]) + abs(vals[(True, inc)][0]) + abs(const)) + 1e-9
            rec.check(abs(d - const) <= tol, "C06:kin:norm_difference",
                      "un-normalised minus normalised is not (n ln 2pi + ln det C)/2",
                      dict(inp, sigma_sys_error_include=inc), d, const)


def histkde_ref(samples, weights, bandwidth, nbins, x, normed=False):
    """Gaussian kernel density on the density-histogram of the samples (what DdtHistKDE fits); the un-normalised
    hierArc convention adds the documented Gaussian prefactor ln(std(samples) sqrt(2pi))"""
    vals, edges = np.histogram(samples, bins=nbins, weights=weights, density=True)
    centres = 0.5 * (edges[:-1] + edges[1:])
    keep = vals > 0
    w, b = vals[keep], centres[keep]
    lk = logsumexp(np.log(w) + norm.logpdf(x, b, bandwidth)) - math.log(np.sum(w))
    return float(lk if normed else lk + math.log(np.std(samples) * math.sqrt(2 * math.pi)))


def run_histkin(rec, case):
    rng = rng_case(case)
    k = gen_kin(rng)
    ns = int(rng.integers(200, 600))
    samples = rng.normal(k["ddt"] * rng.uniform(0.95, 1.05), k["ddt"] * 0.05, ns)
    weights = None if rng.random() < 0.5 else rng.uniform(0.5, 2.0, ns)
    bw, nb = float(rng.uniform(20, 80)), int(rng.integers(20, 60))
    normed, inc = bool(rng.random() < 0.5), bool(rng.random() < 0.5)
    eps = float(rng.uniform(0.0, 0.1))
    s = rng.uniform(0.7, 1.3, k["n"])
    inp = dict(case=list(case), n=k["n"], ddt=k["ddt"], dd=k["dd"], z_lens=k["z_lens"], bandwidth=bw, nbins_hist=nb,
               weighted=weights is not None, normalized=normed, sigma_sys_error_include=inc, sigma_v_sys_error=eps, kin_scaling=s)
    rec.case(dict(histkin=k["n"], bw=bw, nb=nb, w=weights is not None, normed=normed, inc=inc), kind="joint:DdtHistKin")
    # the flag reaches both parts of the joint likelihood
    ref = histkde_ref(samples, weights, bw, nb, k["ddt"], normed) + kin_ref(k, s, eps, inc, None, normed)[0]
    ok, v = hier(rec, "C06:raises:DdtHistKin", inp,
                 lambda: DdtHistKinLikelihood(k["z_lens"], 2.0, samples, list(k["sv"]), list(k["J"]), k["M"], k["Q"], ddt_weights=weights,
                                              bandwidth=bw, nbins_hist=nb, sigma_sys_error_include=inc, normalized=normed)
                 .log_likelihood(k["ddt"], k["dd"], kin_scaling=s, sigma_v_sys_error=eps))
    if ok:
        rec.check(close(fscalar(v), ref, rtol=1e-8), "C06:joint:DdtHistKin", "DdtHistKin is not KDE(Ddt) + kinematics", inp, fscalar(v), ref)


# ------------------------------------------------------------------ scalar types
def run_scalar(rec, case):
    rng = rng_case(case)
    zl = float(rng.uniform(0.1, 1.0))
    ddt, dd = float(rng.uniform(1000, 8000)), float(rng.uniform(400, 1800))
    s0 = float(rng.uniform(0.7, 1.4))
    ks = [None, np.array([s0]), np.array([s0, 0.3, 2.0])][int(rng.integers(0, 3))]
    sc = 1.0 if ks is None else float(ks[0])
    m, sg = float(rng.uniform(2000, 6000)), float(rng.uniform(50, 500))
    inp = dict(case=list(case), z_lens=zl, ddt=ddt, dd=dd, kin_scaling=ks)
    rec.case(dict(scalar=True, ks=None if ks is None else len(ks)), kind="scalar")
    pref = lambda s: math.log(s * math.sqrt(2 * math.pi))
    # DdtGaussian (always without the 1/(sigma sqrt(2pi)) prefactor)
    ok, v = hier(rec, "C06:raises:DdtGaussian", inp, lambda: DdtGaussianLikelihood(zl, 2.0, m, sg).log_likelihood(ddt, dd))
    if ok:
        rec.check(close(v, norm.logpdf(ddt, m, sg) + pref(sg)), "C06:scalar:DdtGaussian", "not the Gaussian log-density (+ln(sigma sqrt(2pi)))",
                  dict(inp, ddt_mean=m, ddt_sigma=sg), fscalar(v), float(norm.logpdf(ddt, m, sg) + pref(sg)))
    # DdtLogNorm: lognormal density up to sqrt(2pi)
    mu, sl = float(rng.uniform(7.5, 9.0)), float(rng.uniform(0.02, 0.3))
    ok, v = hier(rec, "C06:raises:DdtLogNorm", inp, lambda: DdtLogNormLikelihood(zl, 2.0, mu, sl).log_likelihood(ddt, dd))
    if ok:
        ref = float(lognorm.logpdf(ddt, sl, scale=math.exp(mu))) + 0.5 * LN2PI
        rec.check(close(v, ref), "C06:scalar:DdtLogNorm", "not the log-normal log-density (+ln 2pi/2)", dict(inp, ddt_mu=mu, ddt_sigma=sl), fscalar(v), ref)
    # DdtDdGaussian
    m2, sg2 = float(rng.uniform(500, 1700)), float(rng.uniform(30, 200))
    ok, v = hier(rec, "C06:raises:DdtDdGaussian", inp, lambda: DdtDdGaussian(zl, 2.0, m, sg, m2, sg2).log_likelihood(ddt, dd, kin_scaling=ks))
    if ok:
        ref = float(norm.logpdf(ddt, m, sg) + pref(sg) + norm.logpdf(dd * sc, m2, sg2) + pref(sg2))
        rec.check(close(v, ref), "C06:scalar:DdtDdGaussian", "not the product of the Ddt and Dd*s0 Gaussians",
                  dict(inp, ddt_mean=m, ddt_sigma=sg, dd_mean=m2, dd_sigma=sg2), fscalar(v), ref)
    # DsDdsGaussian
    m3, sg3 = float(rng.uniform(1.0, 4.0)), float(rng.uniform(0.05, 0.5))
    ok, v = hier(rec, "C06:raises:DsDdsGaussian", inp, lambda: DsDdsGaussianLikelihood(zl, 2.0, m3, sg3).log_likelihood(ddt, dd, kin_scaling=ks))
    if ok:
        ref = float(norm.logpdf(ddt / dd / (1 + zl) / sc, m3, sg3) + pref(sg3))
        rec.check(close(v, ref), "C06:scalar:DsDdsGaussian", "not the Gaussian in Ddt/Dd/(1+z_d)/s0",
                  dict(inp, ds_dds_mean=m3, ds_dds_sigma=sg3), fscalar(v), ref)


# ------------------------------------------------------------------ magnification types
def gen_mag(rng):
    ntd = int(rng.integers(1, 4)); na = ntd + 1
    mu = float(rng.uniform(17, 22)); zp = float(rng.choice([20.0, 20.0, 25.0, float(rng.uniform(18, 28))]))
    ddt = float(rng.uniform(1500, 7000))
    amp = 10 ** (-(mu - zp) / 2.5)
    magn = rng.uniform(0.5, 8.0, na) * rng.choice([1, 1, -1], na)   # negative parity images allowed
    fermat = rng.uniform(0.05, 1.0, ntd) * rng.choice([1, -1], ntd)
    return dict(ntd=ntd, na=na, mu=mu, zp=zp, ddt=ddt, amp=amp, magn=magn, fermat=fermat,
                td=ddt * FERMAT_UNIT * fermat + rng.normal(0, 1.0, ntd), cov_td=pd(rng, ntd, float(rng.uniform(0.3, 2))),
                amp_meas=amp * magn + rng.normal(0, 0.3 * amp, na), cov_amp=pd(rng, na, float(0.3 * amp * rng.uniform(0.5, 2))),
                cov_model=pd(rng, ntd + na, float(rng.uniform(0.02, 0.2))), cov_magn=pd(rng, na, float(rng.uniform(0.1, 0.5))),
                mag_meas=mu - 2.5 * np.log10(np.abs(magn)) + rng.normal(0, 0.1, na), cov_mag=pd(rng, na, float(rng.uniform(0.05, 0.2))),
                magn_mag=-2.5 * np.log10(np.abs(magn)))


def run_mag(rec, case):
    rng = rng_case(case)
    g = gen_mag(rng)
    ntd, na, amp, ddt, mu = g["ntd"], g["na"], g["amp"], g["ddt"], g["mu"]
    base = dict(case=list(case), ddt=ddt, mu_intrinsic=mu, magnitude_zero_point=g["zp"])
    rec.case(dict(mag=True, ntd=ntd, zp=g["zp"]), kind="mag:n=%d" % (ntd + na))
    # Mag
    kw = dict(amp_measured=g["amp_meas"], cov_amp_measured=g["cov_amp"], magnification_model=g["magn"],
              cov_magnification_model=g["cov_magn"], magnitude_zero_point=g["zp"])
    ok, v = hier(rec, "C06:raises:Mag", dict(base, **kw), lambda: MagnificationLikelihood(**kw).log_likelihood(mu))
    if ok:
        ref = float(mvn.logpdf(g["amp_meas"], amp * g["magn"], g["cov_amp"] + amp ** 2 * g["cov_magn"]))
        rec.check(close(v, ref), "C06:mag:Mag", "not N(amp; A*mu_model, C_data + A^2 C_model)", dict(base, **kw), fscalar(v), ref)
    # TDMag
    kw = dict(time_delay_measured=g["td"], cov_td_measured=g["cov_td"], amp_measured=g["amp_meas"], cov_amp_measured=g["cov_amp"],
              fermat_diff=g["fermat"], magnification_model=g["magn"], cov_model=g["cov_model"], magnitude_zero_point=g["zp"])
    ok, v = hier(rec, "C06:raises:TDMag", dict(base, **kw), lambda: TDMagLikelihood(**kw).log_likelihood(ddt, mu))
    if ok:
        sc = np.append(ddt * FERMAT_UNIT * np.ones(ntd), amp * np.ones(na))
        C = np.zeros((ntd + na, ntd + na)); C[:ntd, :ntd] = g["cov_td"]; C[ntd:, ntd:] = g["cov_amp"]
        C = C + np.outer(sc, sc) * g["cov_model"]
        ref = float(mvn.logpdf(np.append(g["td"], g["amp_meas"]), sc * np.append(g["fermat"], g["magn"]), C))
        rec.check(close(v, ref), "C06:mag:TDMag", "not N(data; scale*model, C_data + scale scale^T C_model)", dict(base, **kw), fscalar(v), ref)
    # TDMagMagnitude
    kw = dict(time_delay_measured=g["td"], cov_td_measured=g["cov_td"], magnitude_measured=g["mag_meas"], cov_magnitude_measured=g["cov_mag"],
              fermat_diff=g["fermat"], magnification_model=g["magn_mag"], cov_model=g["cov_model"])
    ok, v = hier(rec, "C06:raises:TDMagMagnitude", dict(base, **kw), lambda: TDMagMagnitudeLikelihood(**kw).log_likelihood(ddt, mu))
    if ok:
        sc = np.append(ddt * FERMAT_UNIT * np.ones(ntd), np.ones(na))
        C = np.zeros((ntd + na, ntd + na)); C[:ntd, :ntd] = g["cov_td"]; C[ntd:, ntd:] = g["cov_mag"]
        C = C + np.outer(sc, sc) * g["cov_model"]
        mean = np.append(ddt * FERMAT_UNIT * g["fermat"], g["magn_mag"] + mu)
        ref = float(mvn.logpdf(np.append(g["td"], g["mag_meas"]), mean, C))
        rec.check(close(v, ref), "C06:mag:TDMagMagnitude", "not N(data; [Ddt*fermat, m_model + m], C_data + scaled C_model)", dict(base, **kw), fscalar(v), ref)


    # TDMagMagnitude with an EMPTY magnitude block (a lens entered with its time delays only): the magnitude offset touches nothing
    if case[2] % 5 == 2:
        cm = pd(rng, ntd, float(rng.uniform(0.02, 0.2)))
        kw = dict(time_delay_measured=g["td"], cov_td_measured=g["cov_td"], magnitude_measured=np.array([]), cov_magnitude_measured=np.zeros((0, 0)),
                  fermat_diff=g["fermat"], magnification_model=np.array([]), cov_model=cm)
        ok, v = hier(rec, "C06:raises:TDMagMagnitude", dict(base, **kw), lambda: TDMagMagnitudeLikelihood(**kw).log_likelihood(ddt, mu))
        if ok:
            sc = ddt * FERMAT_UNIT * np.ones(ntd)
            ref = float(mvn.logpdf(g["td"], sc * g["fermat"], g["cov_td"] + np.outer(sc, sc) * cm))
            rec.check(close(v, ref), "C06:mag:TDMagMagnitude", "no magnitudes: not N(td; Ddt*fermat, C_td + scaled C_model)", dict(base, **kw), fscalar(v), ref)


# ------------------------------------------------------------------ double source plane
def dspl_ref(beta, gamma_pl, lam, b_meas, sig, normed):
    theta = (beta - (1 - lam) * (1 - beta)) ** (1.0 / (gamma_pl - 1))
    r = float(norm.logpdf(theta, b_meas, sig))
    return r if normed else r + math.log(sig * math.sqrt(2 * math.pi))


def run_dspl(rec, case):
    rng = rng_case(case)
    beta = float(rng.uniform(0.3, 0.95)); gpl = float(rng.uniform(1.6, 2.5)); lam = float(rng.uniform(0.8, 1.2))
    b, sg = float(rng.uniform(0.3, 1.0)), float(rng.uniform(0.005, 0.2))
    inp = dict(case=list(case), beta_dsp=beta, gamma_pl=gpl, lambda_mst=lam, beta_dspl=b, sigma_beta_dspl=sg)
    rec.case(dict(dspl=True, beta=beta, g=gpl, l=lam), kind="dspl")
    out = {}
    for normed in (True, False):
        ok, v = hier(rec, "C06:raises:DSPL", dict(inp, normalized=normed),
                     lambda: DSPLikelihood(b, sg, normalized=normed).log_likelihood(beta, gamma_pl=gpl, lambda_mst=lam))
        if not ok:
            return
        ref = dspl_ref(beta, gpl, lam, b, sg, normed)
        out[normed] = fscalar(v)
        rec.check(close(v, ref), "C06:dspl:%s" % ("normalized" if normed else "unnormalized"),
                  "not the Gaussian in the Einstein-radius ratio", dict(inp, normalized=normed), fscalar(v), ref)
    const = 0.5 * math.log(2 * math.pi * sg ** 2)
    rec.check(close(out[False] - out[True], const, atol=1e-9 * (abs(out[False]) + 1)), "C06:dspl:norm_difference",
              "un-normalised minus normalised is not ln(2 pi sigma^2)/2", inp, out[False] - out[True], const)


# ------------------------------------------------------------------ singular covariance
def run_singular(rec, case):
    rng = rng_case(case)
    n = int(rng.integers(1, 5))
    how = str(rng.choice(["zeros", "zero_row_col", "ones"])) if n > 1 else "zeros"
    def sing(n, scale):
        if how == "zeros": return np.zeros((n, n))
        if how == "ones": return np.ones((n, n)) * scale          # exactly rank one, power-of-two scale
        m = pd(rng, n, scale); j = int(rng.integers(0, n)); m[j, :] = 0; m[:, j] = 0; return m
    k = gen_kin(rng, n=n)
    inp = dict(case=list(case), n=n, how=how)
    rec.case(dict(singular=how, n=n), kind="singular:" + how)
    zero = np.zeros((n, n))

    def expect_minus_inf(key, fn):
        try:
            v = fn()
            rec.check(np.ndim(v) == 0 and v == -np.inf, key, "singular covariance does not give -inf", inp, v, "-inf")
        except Exception as e:
            rec.violation(key, "singular covariance raises %r instead of returning -inf" % (e,), inp, repr(e), "-inf")
    for normed in (True, False):
        M = sing(n, 64.0)
        Q = zero if how != "zero_row_col" else M * 0.0
        if how == "zero_row_col":
            Q = zero
        expect_minus_inf("C06:singular:IFUKinCov", lambda: KinLikelihood(k["z_lens"], 2., k["sv"], k["J"], M, Q, normalized=normed)
                         .log_likelihood(k["ddt"], k["dd"], kin_scaling=np.ones(n)))
        expect_minus_inf("C06:singular:DdtGaussKin", lambda: DdtGaussKinLikelihood(k["z_lens"], 2., 4000., 200., k["sv"], k["J"], M, Q, normalized=normed)
                         .log_likelihood(k["ddt"], k["dd"]))
    g = gen_mag(rng)
    na, ntd = g["na"], g["ntd"]
    expect_minus_inf("C06:singular:Mag", lambda: MagnificationLikelihood(g["amp_meas"], np.zeros((na, na)), g["magn"], np.zeros((na, na))).log_likelihood(g["mu"]))
    expect_minus_inf("C06:singular:TDMag", lambda: TDMagLikelihood(g["td"], np.zeros((ntd, ntd)), g["amp_meas"], g["cov_amp"], g["fermat"], g["magn"],
                                                                   np.zeros((ntd + na, ntd + na))).log_likelihood(g["ddt"], g["mu"]))
    expect_minus_inf("C06:singular:TDMagMagnitude", lambda: TDMagMagnitudeLikelihood(g["td"], g["cov_td"], g["mag_meas"], np.zeros((na, na)), g["fermat"],
                                                                                     g["magn_mag"], np.zeros((ntd + na, ntd + na))).log_likelihood(g["ddt"], g["mu"]))


# ------------------------------------------------------------------ normalisation forced when sigma_v_systematics is sampled
def run_forced(rec, case):
    rng = rng_case(case)
    flag = bool(rng.random() < 0.5)            # the flag the caller asks for
    sysm = bool(rng.random() < 0.6)            # sigma_v_systematics sampled?
    log_scatter = bool(sysm and rng.random() < 0.3)
    zl, zs, zs2 = float(rng.uniform(0.2, 0.8)), float(rng.uniform(1.0, 2.0)), float(rng.uniform(2.2, 3.5))
    lenses, gens = [], []
    for t in ("IFUKinCov", "DdtGaussKin", "DSPL", "IFUKinCov"):
        inc = bool(rng.random() < 0.6)
        if t == "DSPL":
            b, sg = float(rng.uniform(0.5, 0.9)), float(rng.uniform(0.01, 0.1))
            lenses.append(dict(z_lens=zl, z_source=zs, z_source2=zs2, likelihood_type="DSPL", beta_dspl=b, sigma_beta_dspl=sg))
            gens.append(dict(t=t, b=b, sg=sg))
            continue
        k = gen_kin(rng, realistic=True)
        kw = dict(z_lens=zl, z_source=zs, likelihood_type=t, sigma_v_measurement=list(k["sv"]), j_model=list(k["J"]),
                  error_cov_measurement=k["M"], error_cov_j_sqrt=k["Q"], sigma_sys_error_include=inc)
        if t == "DdtGaussKin":
            kw.update(ddt_mean=float(rng.uniform(3000, 5000)), ddt_sigma=float(rng.uniform(100, 300)))
        lenses.append(kw); gens.append(dict(t=t, k=k, inc=inc, kw=kw))
    eps = float(rng.uniform(0.01, 0.12))
    km = dict(sigma_v_systematics=True, log_scatter=log_scatter) if sysm else {}
    kb = dict(kwargs_lower_cosmo=dict(h0=0, om=0), kwargs_upper_cosmo=dict(h0=200, om=1),
              kwargs_lower_kin=dict(sigma_v_sys_error=1e-4), kwargs_upper_kin=dict(sigma_v_sys_error=1.0))
    h0, om = float(rng.uniform(60, 80)), float(rng.uniform(0.2, 0.4))
    inp = dict(case=list(case), normalized_flag=flag, sigma_v_systematics=sysm, log_scatter=log_scatter, h0=h0, om=om,
               sigma_v_sys_error=eps, types=[g["t"] for g in gens], include=[g.get("inc") for g in gens])
    rec.case(inp, kind="forced_norm:sys=%s:flag=%s" % (sysm, flag))
    try:
        cl = CosmoLikelihood(lenses, "FLCDM", km, kb, normalized=flag, interpolate_cosmo=True, num_redshift_interp=60)
        # with log_scatter the sampled coordinate is log10(sigma_v_sys_error)
        args = [h0, om] + ([math.log10(eps) if log_scatter else eps] if sysm else [])
        kc, kl, kk, ks, klos = cl.param.args2kwargs(args)
        total = fscalar(cl.likelihood(args))
        cosmo = cl.cosmo_instance(kc)
        L = cl._likelihoodLensSample._lens_list
    except Exception as e:
        rec.violation("C06:raises:CosmoLikelihood", "hierArc raised %r" % (e,), inp, traceback.format_exc(limit=3))
        return
    want_normed = True if sysm else flag
    ref_total = 0.0
    for lens, g in zip(L, gens):
        if g["t"] == "DSPL":
            r = dspl_ref(fscalar(lens.beta_dsp(cosmo)), 2.0, 1.0, g["b"], g["sg"], want_normed)
        else:
            ddt, dd = lens.angular_diameter_distances(cosmo)    # distances are C05's business
            k = dict(g["k"], ddt=fscalar(ddt), dd=fscalar(dd), z_lens=zl)
            r = kin_ref(k, None, eps if sysm else None, g["inc"], None, want_normed)[0]
            if g["t"] == "DdtGaussKin":
                r += float(norm.logpdf(k["ddt"], g["kw"]["ddt_mean"], g["kw"]["ddt_sigma"]) + math.log(g["kw"]["ddt_sigma"] * math.sqrt(2 * math.pi)))
        try:
            v = fscalar(lens.lens_log_likelihood(cosmo, kwargs_lens=kl, kwargs_kin=kk, kwargs_source=ks, kwargs_los=klos))
        except Exception as e:
            rec.violation("C06:raises:lens_log_likelihood", "hierArc raised %r" % (e,), dict(inp, type=g["t"]))
            return
        rec.check(close(v, r), "C06:forced_norm:%s" % g["t"],
                  "density is not the %s one (sigma_v_systematics=%s, flag=%s)" % ("normalised" if want_normed else "un-normalised", sysm, flag),
                  dict(inp, type=g["t"], include=g.get("inc")), v, r)
        ref_total += r
    rec.check(close(total, ref_total), "C06:forced_norm:total", "CosmoLikelihood.likelihood is not the sum of the stated densities", inp, total, ref_total)


# ------------------------------------------------------------------ normalized flag reaches every type that has it
def run_passthrough(rec, case):
    rng = rng_case(case)
    t = ["IFUKinCov", "DdtGaussKin", "DdtHistKin", "DdtHist", "DdtHistKDE", "DSPL"][int(case[2]) % 6]
    zl, zs = float(rng.uniform(0.2, 0.8)), float(rng.uniform(1.0, 2.0))
    kw = dict(z_lens=zl, z_source=zs, likelihood_type=t)
    ddt, dd = float(rng.uniform(3500, 4500)), float(rng.uniform(900, 1500))
    if t in KIN_TYPES:
        k = gen_kin(rng, realistic=True); k.update(ddt=ddt, dd=dd, z_lens=zl)
        kw.update(sigma_v_measurement=list(k["sv"]), j_model=list(k["J"]), error_cov_measurement=k["M"], error_cov_j_sqrt=k["Q"])
        const = kin_ref(k, None, None, False, None, True)[1]
        if t == "DdtGaussKin": kw.update(ddt_mean=4000., ddt_sigma=200.)
        if t == "DdtHistKin":
            smp = rng.normal(4000, 200, 300)
            kw.update(ddt_samples=smp, bandwidth=50, nbins_hist=30)
            const += math.log(np.std(smp) * math.sqrt(2 * math.pi))   # Ddt histogram part carries the flag too
    elif t in ("DdtHist", "DdtHistKDE"):
        smp = rng.normal(4000, 200, 300)
        kw.update(ddt_samples=smp, nbins_hist=30)
        if t == "DdtHistKDE": kw.update(bandwidth=50)
        const = math.log(np.std(smp) * math.sqrt(2 * math.pi))
    else:
        sg = float(rng.uniform(0.01, 0.1))
        kw.update(z_source2=zs + 1.0, beta_dspl=0.8, sigma_beta_dspl=sg)
        const = 0.5 * math.log(2 * math.pi * sg ** 2)
    inp = dict(case=list(case), type=t, ddt=ddt, dd=dd)
    rec.case(inp, kind="passthrough:" + t)
    try:
        v = {}
        for normed in (True, False):
            S = LensSampleLikelihood([kw], normalized=normed)
            v[normed] = fscalar(S._lens_list[0].log_likelihood(ddt, dd, beta_dsp=0.75, gamma_pl=2.0, lambda_mst=1.0))
    except Exception as e:
        rec.violation("C06:raises:LensSampleLikelihood", "hierArc raised %r" % (e,), inp, traceback.format_exc(limit=3))
        return
    d = v[False] - v[True]
    rec.check(abs(d - const) <= 1e-9 * (abs(v[False]) + abs(v[True]) + abs(const)) + 1e-9, "C06:flag_passthrough:" + t,
              "LensSampleLikelihood(normalized=..): un-normalised minus normalised is not the documented constant", inp, d, const)


# ------------------------------------------------------------------ dispatch
EXPECTED_ARGS = {   # type -> names of the arguments the data likelihood must receive
    "DdtGaussian": ("ddt", "dd"), "DdtLogNorm": ("ddt", "dd"), "DdtHist": ("ddt", "dd"), "DdtHistKDE": ("ddt", "dd"),
    "DdtDdKDE": ("ddt", "dd", "kin_scaling"), "DdtDdGaussian": ("ddt", "dd", "kin_scaling"), "DsDdsGaussian": ("ddt", "dd", "kin_scaling"),
    "DdtHistKin": ("ddt", "dd", "kin_scaling", "sigma_v_sys_error"), "IFUKinCov": ("ddt", "dd", "kin_scaling", "sigma_v_sys_error"),
    "DdtGaussKin": ("ddt", "dd", "kin_scaling", "sigma_v_sys_error"),
    "Mag": ("mu_intrinsic",), "TDMag": ("ddt", "mu_intrinsic"), "TDMagMagnitude": ("ddt", "mu_intrinsic"),
    "DSPL": ("beta_dsp", "gamma_pl", "lambda_mst"),
}


class Spy(object):
    def __init__(self, real):
        self.real, self.calls = real, []
        self.num_data = getattr(real, "num_data", None)

    def log_likelihood(self, *a, **k):
        self.calls.append((a, k))
        return 0.0


def run_dispatch(rec, case):
    rng = rng_case(case)
    t = TYPES[int(case[2]) % len(TYPES)]
    zl, zs = float(rng.uniform(0.2, 0.8)), float(rng.uniform(1.0, 2.0))
    n = int(rng.integers(1, 5))
    kw = lens_kwargs(t, rng, nkin=n)
    normed = bool(rng.random() < 0.5)
    given = dict(ddt=float(rng.uniform(3000, 5000)), dd=float(rng.uniform(900, 1500)), beta_dsp=float(rng.uniform(0.5, 0.9)),
                 kin_scaling=rng.uniform(0.8, 1.2, n), sigma_v_sys_error=float(rng.uniform(0.01, 0.1)),
                 mu_intrinsic=float(rng.uniform(18, 21)), gamma_pl=float(rng.uniform(1.8, 2.2)), lambda_mst=float(rng.uniform(0.9, 1.1)))
    inp = dict(case=list(case), type=t, normalized=normed, given=given)
    rec.case(dict(dispatch=t, n=n, normed=normed), kind="dispatch:" + t)
    try:
        base = LensLikelihoodBase(z_lens=zl, z_source=zs, likelihood_type=t, normalized=normed, **kw)
        real = base._lens_type
        value = base.log_likelihood(given["ddt"], given["dd"], **{k: v for k, v in given.items() if k not in ("ddt", "dd")})
        spy = Spy(real)
        base._lens_type = spy
        base.log_likelihood(given["ddt"], given["dd"], **{k: v for k, v in given.items() if k not in ("ddt", "dd")})
        base._lens_type = real
    except Exception as e:
        rec.violation("C06:dispatch:" + t, "LensLikelihoodBase raised %r" % (e,), inp, traceback.format_exc(limit=3))
        return
    ok = len(spy.calls) == 1
    got = None
    if ok:
        a, k = spy.calls[0]
        try:
            bound = inspect.signature(real.log_likelihood).bind(*a, **k)
            got = dict(bound.arguments)
        except TypeError as e:
            got = "arguments do not fit the class signature: %r" % (e,)
            ok = False
    if ok:
        exp = EXPECTED_ARGS[t]
        ok = set(got.keys()) == set(exp) and all(np.array_equal(np.asarray(got[nm]), np.asarray(given[nm])) for nm in exp)
    rec.check(ok, "C06:dispatch:" + t, "data likelihood of this type does not receive exactly its arguments",
              inp, got if not isinstance(got, dict) else {k: got[k] for k in got}, {nm: given[nm] for nm in EXPECTED_ARGS[t]})
    # value through the base vs reference
    ref = None
    ddt, dd, s, eps, mu = given["ddt"], given["dd"], given["kin_scaling"], given["sigma_v_sys_error"], given["mu_intrinsic"]
    pref = lambda sg: math.log(sg * math.sqrt(2 * math.pi))
    if t == "DdtGaussian": ref = norm.logpdf(ddt, kw["ddt_mean"], kw["ddt_sigma"]) + pref(kw["ddt_sigma"])
    elif t == "DdtLogNorm": ref = lognorm.logpdf(ddt, kw["ddt_sigma"], scale=math.exp(kw["ddt_mu"])) + 0.5 * LN2PI
    elif t == "DdtDdGaussian": ref = norm.logpdf(ddt, kw["ddt_mean"], kw["ddt_sigma"]) + pref(kw["ddt_sigma"]) + norm.logpdf(dd * s[0], kw["dd_mean"], kw["dd_sigma"]) + pref(kw["dd_sigma"])
    elif t == "DsDdsGaussian": ref = norm.logpdf(ddt / dd / (1 + zl) / s[0], kw["ds_dds_mean"], kw["ds_dds_sigma"]) + pref(kw["ds_dds_sigma"])
    elif t == "DdtDdKDE":
        pts = np.vstack([kw["dd_samples"], kw["ddt_samples"]])
        cov = np.cov(pts) * pts.shape[1] ** (-2.0 / 6.0)       # scipy gaussian_kde, Scott factor n^(-1/(d+4)), d=2
        ref = logsumexp(mvn.logpdf((np.array([[dd * s[0]], [ddt]]) - pts).T, np.zeros(2), cov)) - math.log(pts.shape[1])
    elif t in ("IFUKinCov", "DdtGaussKin", "DdtHistKin"):
        k = dict(n=n, z_lens=zl, ddt=ddt, dd=dd, sv=np.array(kw["sigma_v_measurement"]), J=np.array(kw["j_model"]),
                 M=kw["error_cov_measurement"], Q=kw["error_cov_j_sqrt"])
        ref = kin_ref(k, s, eps, False, None, normed)[0]      # sigma_sys_error_include defaults to False
        if t == "DdtGaussKin": ref += norm.logpdf(ddt, kw["ddt_mean"], kw["ddt_sigma"]) + pref(kw["ddt_sigma"])
        if t == "DdtHistKin": ref += histkde_ref(kw["ddt_samples"], None, kw["bandwidth"], kw["nbins_hist"], ddt, normed)
    elif t == "DdtHistKDE":
        ref = histkde_ref(kw["ddt_samples"], None, kw["bandwidth"], kw["nbins_hist"], ddt, normed)
    elif t == "Mag":
        amp = 10 ** (-(mu - 20.0) / 2.5)
        ref = mvn.logpdf(kw["amp_measured"], amp * kw["magnification_model"], kw["cov_amp_measured"] + amp ** 2 * kw["cov_magnification_model"])
    elif t in ("TDMag", "TDMagMagnitude"):
        amp = 10 ** (-(mu - 20.0) / 2.5) if t == "TDMag" else 1.0
        sc = np.append(ddt * FERMAT_UNIT * np.ones(2), amp * np.ones(3))
        dat = "amp_measured" if t == "TDMag" else "magnitude_measured"
        C = np.zeros((5, 5)); C[:2, :2] = kw["cov_td_measured"]; C[2:, 2:] = kw["cov_" + dat]
        C = C + np.outer(sc, sc) * kw["cov_model"]
        mean = sc * np.append(kw["fermat_diff"], kw["magnification_model"]) + (0 if t == "TDMag" else np.append(np.zeros(2), mu * np.ones(3)))
        ref = mvn.logpdf(np.append(kw["time_delay_measured"], kw[dat]), mean, C)
    elif t == "DSPL":
        ref = dspl_ref(given["beta_dsp"], given["gamma_pl"], given["lambda_mst"], kw["beta_dspl"], kw["sigma_beta_dspl"], normed)
    if ref is not None:
        rec.check(close(fscalar(value), float(ref), rtol=1e-8), "C06:dispatch_value:" + t,
                  "value through LensLikelihoodBase.log_likelihood differs from the reference density", inp, fscalar(value), float(ref))


STREAMS = {1: run_kin, 2: run_scalar, 3: run_mag, 4: run_dspl, 5: run_singular, 6: run_forced, 7: run_dispatch,
           8: run_passthrough, 9: run_histkin}
COUNTS = {"quick": {1: 900, 2: 600, 3: 600, 4: 300, 5: 200, 6: 200, 7: 280, 8: 120, 9: 150},
          "thorough": {1: 12000, 2: 6000, 3: 6000, 4: 3000, 5: 2000, 6: 2500, 7: 2800, 8: 1200, 9: 2000}}


def main():
    a = parse_args(PROP)
    rec = Recorder(PROP, a.tier, a.seed, "each likelihood class == scipy.stats reference density; flag removes (n ln2pi + ln det C)/2 only")
    if a.replay:
        rp = unjson(json.load(open(a.replay)))
        case = [int(c) for c in rp["input"]["case"]]
        try:
            STREAMS[case[1]](rec, case)
        except Exception:
            rec.error(traceback.format_exc(limit=6))
        rec.write(a.out)
        return
    budget = 34 if a.tier == "quick" else 330
    for stream, fn in STREAMS.items():
        for i in range(COUNTS[a.tier][stream]):
            if time.process_time() - rec.cpu0 > 2 * budget:
                rec.tally("stopped_on_time_budget")
                break
            try:
                fn(rec, [a.seed, stream, i])
            except Exception:
                rec.error("case %s: %s" % ([a.seed, stream, i], traceback.format_exc(limit=6)))
    out = rec.write(a.out)
    print(json.dumps(dict(property=PROP, evaluations=out["evaluations"], violations=out["violation_counts"],
                          errors=len(out["errors"]), wall_s=out["wall_s"])))


if __name__ == "__main__":
    main()
