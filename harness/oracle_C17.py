"""Oracle C17 -- blinding hides the absolute H0 / lambda_int and touches nothing else.

Executable statement of property C17 against hierarc.Diagnostics.blinding.blind_posterior.

Sub-checks (violation keys):
  C17:median:h0 / C17:median:lambda_mst   median of the blinded column == 70 / 1               (rel 1e-12)
  C17:rescale:joint|h0_only|lambda_only   blind(P with blinded columns * c) == blind(P)        (rel 1e-12)
  C17:ratios                              b[:, i] * P[k, i] == P[:, i] * b[k, i]  (ratios within a blinded column kept)
  C17:other_columns                       every non-blinded column bit-identical (bytes)
  C17:input_modified                      the input array (and its base, for views) is bit-identical afterwards
  C17:aliasing                            output is a new object that shares no memory with the input
  C17:absent_identity                     without "h0"/"lambda_mst" in the names the output equals the input bit for bit
  C17:idempotent                          blinding an already blinded posterior changes nothing (rel 1e-12) and a second
                                          call on the same input returns the same values (no state between calls)
  C17:shape                               output shape / dtype equal those of the input
  C17:raises                              blind_posterior raised on a well-formed input

Tolerances: the only arithmetic is column * (target / median(column)); median of an even number of samples is
the mean of the two central ones, so median(blinded) differs from the target by a few ulp: 1e-12 relative is ~4
orders of magnitude above that and far below any semantic change (mean instead of median differs at 1e-3).
"""
import sys, os, json, copy, traceback
sys.path.insert(0, os.path.dirname(os.path.abspath(__file__)))
from common import *  # noqa

PROP = "C17"
RULE = ("blind_posterior(P, names): median(h0 col)=70, median(lambda_mst col)=1, invariant under positive rescaling "
        "of those columns, ratios inside them kept, every other column and the input bit-identical, output not aliased")

OTHER_NAMES = ["om", "w", "w0", "wa", "ok", "gamma_ppn", "lambda_mst_sigma", "lambda_ifu", "alpha_lambda", "a_ani",
               "a_ani_sigma", "beta_inf", "mu_sne", "sigma_sne", "H0", "h0_", "lambda_mst ", "Lambda_mst", "kappa_ext"]


def bits(a):
    return np.ascontiguousarray(a).tobytes()


# ------------------------------------------------------------------------------------------------
def gen_case(rng, boundary=False):
    """returns a json-able input description"""
    ncol_other = int(rng.integers(0, 6))
    names = list(rng.choice(OTHER_NAMES, size=ncol_other, replace=False))
    mode = rng.choice(["both", "h0", "lambda", "none"], p=[.55, .15, .15, .15])
    if mode in ("both", "h0"):
        names.append("h0")
    if mode in ("both", "lambda"):
        names.append("lambda_mst")
    if len(names) == 0:
        names = ["om"]
    names = [str(n) for n in rng.permutation(names)]
    if boundary:
        n = int(rng.choice([1, 1, 2, 3, 4]))
    else:
        n = int(rng.choice([1, 2, 3, 4, 5, 6, 7, 8, 9, 10, 11, 16, 17, 50, 51, 200, 201]))
    ncol = len(names)
    extra_cols = int(rng.integers(0, 3)) if rng.random() < 0.15 else 0  # more columns than names: trailing columns untouched
    P = np.empty((n, ncol + extra_cols))
    for i in range(ncol + extra_cols):
        nm = names[i] if i < ncol else None
        if nm == "h0":
            kind = rng.choice(["gauss", "lognormal", "tiny", "huge", "ties"]) if boundary else "gauss"
            if kind == "gauss": col = np.abs(rng.normal(rng.uniform(20, 150), rng.uniform(.1, 10), n)) + 1e-3
            elif kind == "lognormal": col = np.exp(rng.normal(4, 1.5, n))
            elif kind == "tiny": col = rng.uniform(1, 2, n) * 1e-150
            elif kind == "huge": col = rng.uniform(1, 2, n) * 1e150
            else: col = rng.choice([60., 70., 80.], n)
        elif nm == "lambda_mst":
            kind = rng.choice(["gauss", "negative_median", "mixed_sign", "ties"]) if boundary else "gauss"
            if kind == "gauss": col = np.abs(rng.normal(rng.uniform(.5, 1.5), rng.uniform(.01, .2), n)) + 1e-3
            elif kind == "negative_median": col = -np.abs(rng.normal(1, .1, n)) - 1e-3
            elif kind == "mixed_sign":
                col = rng.normal(1, 2., n)
                if abs(np.median(col)) < 1e-3: col = col + 1.
            else: col = rng.choice([.9, 1., 1.1], n)
        else:
            col = rng.normal(rng.uniform(-3, 3), rng.uniform(.01, 5), n)
            if boundary and rng.random() < .5:
                # specials that must survive bit for bit in an untouched column
                sp = rng.choice([0.0, -0.0, np.inf, -np.inf, np.nan, 5e-324, 1.7976931348623157e308], n)
                m = rng.random(n) < .4
                col = np.where(m, sp, col)
        P[:, i] = col
    layout = str(rng.choice(["C", "F", "view_rows", "view_cols"], p=[.55, .15, .15, .15]))
    f = rng.uniform(.05, 20, 2)
    if rng.random() < .2: f = 2.0 ** rng.integers(-6, 7, 2)
    return dict(names=names, posterior=P.tolist(), layout=layout, factors=[float(f[0]), float(f[1])],
                names_as=str(rng.choice(["list", "tuple", "array"])))


def build(inp):
    """materialise the posterior in the requested memory layout; returns (array passed to hierArc, base array)"""
    P = np.array(unjson(inp["posterior"]), dtype=float)
    if P.ndim == 1:
        P = P.reshape(len(inp["posterior"]), -1)
    lay = inp.get("layout", "C")
    if lay == "F":
        base = np.asfortranarray(P); arr = base
    elif lay == "view_rows":  # every second row of a larger array
        base = np.full((2 * P.shape[0] + 1, P.shape[1]), 123.456); base[1::2] = P; arr = base[1::2]
    elif lay == "view_cols":  # interior columns of a wider array
        base = np.full((P.shape[0], P.shape[1] + 2), -7.5); base[:, 1:-1] = P; arr = base[:, 1:-1]
    else:
        base = np.ascontiguousarray(P); arr = base
    names = list(inp["names"])
    if inp.get("names_as") == "tuple": names = tuple(names)
    elif inp.get("names_as") == "array": names = np.array(names)
    return arr, base, names


def run_case(rec, inp):
    from hierarc.Diagnostics.blinding import blind_posterior
    arr, base, names = build(inp)
    name_list = [str(n) for n in inp["names"]]
    ref = np.array(arr, copy=True)            # independent copy of the values handed in
    base_bits = bits(base)
    small = dict(names=name_list, shape=list(ref.shape), layout=inp.get("layout"), factors=inp["factors"])
    try:
        b = blind_posterior(arr, names)
    except Exception as e:
        rec.violation("C17:raises", "blind_posterior raised on a well-formed posterior", inp, repr(e), "no exception")
        return
    ih = [i for i, nm in enumerate(name_list) if nm == "h0"]
    il = [i for i, nm in enumerate(name_list) if nm == "lambda_mst"]
    blinded = set(ih + il)
    # input untouched (including the memory around a view)
    rec.check(bits(base) == base_bits and bits(arr) == bits(ref), "C17:input_modified",
              "input posterior was modified in place", inp, None, "input bit-identical after the call")
    # output is a fresh object
    ok_alias = (b is not arr) and isinstance(b, np.ndarray) and not np.shares_memory(b, base)
    rec.check(ok_alias, "C17:aliasing", "output aliases the input", inp, type(b).__name__, "new ndarray sharing no memory")
    if not isinstance(b, np.ndarray):
        return
    if not rec.check(b.shape == ref.shape and b.dtype == ref.dtype, "C17:shape", "shape/dtype changed", inp,
                     [list(b.shape), str(b.dtype)], [list(ref.shape), str(ref.dtype)]):
        return
    if ok_alias and b.size:  # writing into the output must not reach the input either
        keep = b.copy(); b += 1.0
        rec.check(bits(base) == base_bits, "C17:aliasing", "writing into the output changed the input", inp)
        b = keep
    # medians
    for i in ih:
        m = float(np.median(b[:, i]))
        rec.check(abs(m - 70.) <= 70. * 1e-12, "C17:median:h0", "median of blinded h0 is not 70", inp, m, 70.)
    for i in il:
        m = float(np.median(b[:, i]))
        rec.check(abs(m - 1.) <= 1e-12, "C17:median:lambda_mst", "median of blinded lambda_mst is not 1", inp, m, 1.)
    # other columns bit-identical
    for i in range(ref.shape[1]):
        if i not in blinded:
            rec.check(bits(b[:, i]) == bits(ref[:, i]), "C17:other_columns", "a non-blinded column changed", inp,
                      dict(column=i, name=name_list[i] if i < len(name_list) else None), "bit-identical")
    if not blinded:
        rec.check(bits(b) == bits(ref), "C17:absent_identity", "no blinded name present but output != input", inp)
    # ratios inside a blinded column: b[j]/b[k] == P[j]/P[k]  <=>  b[j]*P[k] == P[j]*b[k]
    for i in blinded:
        k = int(np.argmax(np.abs(ref[:, i])))
        lhs, rhs = b[:, i] * ref[k, i], ref[:, i] * b[k, i]
        sc = np.abs(rhs).max() if rhs.size else 1.0
        rec.check(np.all(np.abs(lhs - rhs) <= 1e-12 * sc), "C17:ratios", "ratios within a blinded column not preserved",
                  inp, dict(column=i, max_dev=float(np.abs(lhs - rhs).max() / sc)), "<=1e-12 relative")
        # same sign structure relative to the median's sign (a positive factor if the median is positive)
    # rescaling invariance: jointly and separately
    f = inp["factors"]
    for tag, fh, fl in (("joint", f[0], f[1]), ("h0_only", f[0], 1.0), ("lambda_only", 1.0, f[1])):
        if (tag == "h0_only" and not ih) or (tag == "lambda_only" and not il) or not blinded:
            continue
        sc = np.array(ref, copy=True)
        for i in ih: sc[:, i] = sc[:, i] * fh
        for i in il: sc[:, i] = sc[:, i] * fl
        try:
            b2 = blind_posterior(sc, names)
        except Exception as e:
            rec.violation("C17:raises", "blind_posterior raised on a rescaled posterior", inp, repr(e)); continue
        for i in range(ref.shape[1]):
            if i in blinded:
                s = np.abs(b[:, i]).max()
                rec.check(np.all(np.abs(b2[:, i] - b[:, i]) <= 1e-12 * s), "C17:rescale:" + tag,
                          "blinded output depends on the absolute scale of the blinded column", inp,
                          dict(column=i, max_dev=float(np.abs(b2[:, i] - b[:, i]).max() / s)), "<=1e-12 relative")
            else:
                rec.check(bits(b2[:, i]) == bits(ref[:, i]), "C17:other_columns", "a non-blinded column changed (rescaled input)", inp,
                          dict(column=i), "bit-identical")
    # idempotence and no state between calls
    try:
        b3 = blind_posterior(np.array(b, copy=True), names)
        b4 = blind_posterior(arr, names)
    except Exception as e:
        rec.violation("C17:raises", "blind_posterior raised on its own output", inp, repr(e)); return
    rec.check(bits(b4) == bits(b), "C17:idempotent", "second call on the same input gives a different result", inp)
    for i in blinded:
        s = np.abs(b[:, i]).max()
        rec.check(np.all(np.abs(b3[:, i] - b[:, i]) <= 1e-12 * s), "C17:idempotent", "blinding twice differs from blinding once", inp,
                  dict(column=i), "<=1e-12 relative")


def main():
    args = parse_args(PROP)
    rec = Recorder(PROP, args.tier, args.seed, RULE)
    if args.replay:
        with open(args.replay) as fh:
            rep = json.load(fh)
        rec.case(dict(replay=rep.get("key")), kind="replay")
        try:
            run_case(rec, rep["input"])
        except Exception:
            rec.error(traceback.format_exc(limit=4))
        rec.write(args.out)
        return
    n_main, n_bound = (3000, 1200) if args.tier == "quick" else (30000, 12000)
    rng = rng_of(args.seed, 17)
    for t in range(n_main + n_bound):
        boundary = t >= n_main
        try:
            inp = gen_case(rng, boundary=boundary)
            nm = inp["names"]
            kind = ("boundary:" if boundary else "") + ("both" if "h0" in nm and "lambda_mst" in nm else "h0" if "h0" in nm else
                                                       "lambda_mst" if "lambda_mst" in nm else "absent")
            rec.case(dict(t=t, names=nm, n=len(inp["posterior"]), layout=inp["layout"], f=inp["factors"]),
                     nontrivial=("h0" in nm or "lambda_mst" in nm), kind=kind)
            rec.tally("n_samples:" + ("1" if len(inp["posterior"]) == 1 else "even" if len(inp["posterior"]) % 2 == 0 else "odd"))
            rec.tally("layout:" + inp["layout"])
            run_case(rec, inp)
        except Exception:
            rec.error(traceback.format_exc(limit=4))
    rec.write(args.out)


if __name__ == "__main__":
    main()
