"""Shared helpers for the implementation-level oracles (harness/oracle_Cxx.py).

An oracle is an executable statement of one property against the REAL hierArc code in /repo.
It never decides that a property holds (the Coq theorems + the model/code tie do that); it
(a) searches for a concrete failing input when a proof obligation or a correspondence case
breaks, and (b) runs on every check as a guard against gaps in the model.

Interface (all oracles):
    /venv/bin/python harness/oracle_Cxx.py --tier quick|thorough --seed N --out FILE [--replay FILE]
writes FILE (json):
    {"property": "Cxx", "tier": ..., "seed": ..., "evaluations": int, "distinct_nontrivial": int,
     "rule": str, "samples": [...], "distribution": {...},
     "violations": [{"key": str, "what": str, "input": {...}, "observed": ..., "required": ...}, ...],
     "errors": [str, ...]}          # harness problems (never reported as violations)
`key` is a short stable identifier of the failing input class ("C12:replicate:bw=scott"); it is
what known_findings.json is matched against.  Exit status of an oracle is always 0 unless the
harness itself crashed.
"""
import argparse, json, os, sys, time, warnings, hashlib, traceback

REPO = os.environ.get("HIERARC_REPO", "/repo")
if REPO not in sys.path:
    sys.path.insert(0, REPO)
os.environ.setdefault("PYTHONHASHSEED", "0")
for _v in ("OMP_NUM_THREADS", "OPENBLAS_NUM_THREADS", "MKL_NUM_THREADS"):
    os.environ.setdefault(_v, "1")
warnings.simplefilter("ignore")

import numpy as np  # noqa: E402


def jsonable(x):
    """Best-effort conversion of numpy / nested values into json-serialisable python values."""
    if isinstance(x, dict):
        return {str(k): jsonable(v) for k, v in x.items()}
    if isinstance(x, (list, tuple)):
        return [jsonable(v) for v in x]
    if isinstance(x, np.ndarray):
        return jsonable(x.tolist())
    if isinstance(x, (np.floating, float)):
        x = float(x)
        if x != x:
            return "nan"
        if x in (float("inf"), float("-inf")):
            return "inf" if x > 0 else "-inf"
        return x
    if isinstance(x, (np.integer,)):
        return int(x)
    if isinstance(x, (np.bool_,)):
        return bool(x)
    if x is None or isinstance(x, (int, str, bool)):
        return x
    return repr(x)


def unjson(x):
    """Inverse of jsonable for the special float strings."""
    if isinstance(x, dict):
        return {k: unjson(v) for k, v in x.items()}
    if isinstance(x, list):
        return [unjson(v) for v in x]
    if x == "nan":
        return float("nan")
    if x == "inf":
        return float("inf")
    if x == "-inf":
        return float("-inf")
    return x


class Recorder(object):
    """Collects evaluations, violations and the input distribution of one oracle run."""

    def __init__(self, prop, tier, seed, rule):
        self.prop, self.tier, self.seed, self.rule = prop, tier, seed, rule
        self.evaluations = 0
        self._nontrivial = set()
        self.samples = []
        self.distribution = {}
        self.violations = []
        self.errors = []
        self._vkeys = {}
        self.t0 = time.time()
        self.cpu0 = time.process_time()   # budgets are in CPU seconds so that a loaded machine does not shrink the exploration

    # --- bookkeeping -------------------------------------------------------------------
    def case(self, descr, nontrivial=True, kind=None):
        """Register one explored case. descr: json-able description (used for distinctness)."""
        self.evaluations += 1
        d = jsonable(descr)
        if nontrivial:
            self._nontrivial.add(hashlib.sha1(json.dumps(d, sort_keys=True).encode()).hexdigest())
        if len(self.samples) < 6:
            self.samples.append(d)
        if kind is not None:
            self.distribution[kind] = self.distribution.get(kind, 0) + 1

    def tally(self, kind, n=1):
        self.distribution[kind] = self.distribution.get(kind, 0) + n

    def violation(self, key, what, inp, observed=None, required=None):
        """Record a violation of the property by the implementation (at most 3 per key kept)."""
        k = self._vkeys.get(key, 0)
        self._vkeys[key] = k + 1
        if k < 3:
            self.violations.append(dict(key=key, what=what, input=jsonable(inp),
                                        observed=jsonable(observed), required=jsonable(required)))

    def check(self, cond, key, what, inp, observed=None, required=None):
        if not cond:
            self.violation(key, what, inp, observed, required)
        return bool(cond)

    def close(self, a, b, rtol=1e-9, atol=1e-9):
        a = np.asarray(a, dtype=float)
        b = np.asarray(b, dtype=float)
        if a.shape != b.shape:
            try:
                a, b = np.broadcast_arrays(a, b)
            except ValueError:
                return False
        return bool(np.all(np.isclose(a, b, rtol=rtol, atol=atol, equal_nan=False) | ((a == b))))

    def error(self, msg):
        if len(self.errors) < 10:
            self.errors.append(str(msg))

    def guard(self, fn, *a, **k):
        """Run fn; an unexpected exception inside the harness is an error, not a violation."""
        try:
            return fn(*a, **k)
        except Exception:
            self.error(traceback.format_exc(limit=4))
            return None

    def write(self, path):
        out = dict(property=self.prop, tier=self.tier, seed=self.seed, evaluations=self.evaluations,
                   distinct_nontrivial=len(self._nontrivial), rule=self.rule, samples=self.samples,
                   distribution=self.distribution, violations=self.violations,
                   violation_counts=self._vkeys, errors=self.errors, wall_s=round(time.time() - self.t0, 2))
        os.makedirs(os.path.dirname(os.path.abspath(path)), exist_ok=True)
        with open(path, "w") as f:
            json.dump(out, f, indent=1)
        return out


def parse_args(prop):
    ap = argparse.ArgumentParser()
    ap.add_argument("--tier", default=os.environ.get("VERIF_TIER", "quick"), choices=["quick", "thorough"])
    ap.add_argument("--seed", type=int, default=int(os.environ.get("VERIF_SEED", "0") or 0))
    ap.add_argument("--out", default="/verif/build/%s/oracle.json" % prop)
    ap.add_argument("--replay", default=None)
    ap.add_argument("--focus", default=None, help="hint from the Coq side: name of the broken theorem / case")
    return ap.parse_args()


def rng_of(seed, salt=0):
    return np.random.default_rng([int(seed), int(salt)])


# ---------- hierArc fixtures shared by several oracles ---------------------------------
TYPES = ["DdtGaussian", "DdtDdKDE", "DdtDdGaussian", "DsDdsGaussian", "DdtLogNorm", "IFUKinCov", "DdtHist",
         "DdtHistKDE", "DdtHistKin", "DdtGaussKin", "Mag", "TDMag", "TDMagMagnitude", "DSPL"]
KIN_TYPES = ["IFUKinCov", "DdtHistKin", "DdtGaussKin"]
MAG_TYPES = ["Mag", "TDMag", "TDMagMagnitude"]


def cosmo_interp(H0=70.0, Om0=0.3, zmax=6.0, n=200):
    from lenstronomy.Cosmo.cosmo_interp import CosmoInterp
    from astropy.cosmology import FlatLambdaCDM
    return CosmoInterp(cosmo=FlatLambdaCDM(H0=H0, Om0=Om0), z_stop=zmax, num_interp=n)


def pd(rng, n, scale):
    """random positive-definite covariance with diagonal scale**2"""
    a = rng.normal(size=(n, n))
    m = a @ a.T + n * np.eye(n)
    d = np.sqrt(np.diag(m))
    return m / np.outer(d, d) * scale ** 2


def kin_kw(rng, n=3):
    return dict(sigma_v_measurement=list(rng.uniform(200, 300, n)), j_model=list(rng.uniform(0.015, 0.03, n)),
                error_cov_measurement=pd(rng, n, 12.), error_cov_j_sqrt=pd(rng, n, 0.002))


def lens_kwargs(t, rng, nkin=3):
    """data keyword arguments of one lens of likelihood type t (no z_lens/z_source)"""
    ddts = rng.normal(4000, 200, 400)
    dds = rng.normal(1200, 80, 400)
    if t == "DdtGaussian": return dict(ddt_mean=4100., ddt_sigma=250.)
    if t == "DdtDdKDE": return dict(dd_samples=dds, ddt_samples=ddts, bandwidth=20)
    if t == "DdtDdGaussian": return dict(ddt_mean=4100., ddt_sigma=250., dd_mean=1250., dd_sigma=90.)
    if t == "DsDdsGaussian": return dict(ds_dds_mean=2.1, ds_dds_sigma=0.2)
    if t == "DdtLogNorm": return dict(ddt_mu=8.3, ddt_sigma=0.05)
    if t == "IFUKinCov": return kin_kw(rng, nkin)
    if t == "DdtHist": return dict(ddt_samples=ddts, ddt_weights=rng.uniform(.5, 2, 400), nbins_hist=40)
    if t == "DdtHistKDE": return dict(ddt_samples=ddts, bandwidth=60, nbins_hist=40)
    if t == "DdtHistKin": return dict(ddt_samples=ddts, ddt_weights=None, bandwidth=60, nbins_hist=40, **kin_kw(rng, nkin))
    if t == "DdtGaussKin": return dict(ddt_mean=4100., ddt_sigma=250., **kin_kw(rng, nkin))
    if t == "Mag": return dict(amp_measured=np.array([10., 8.]), cov_amp_measured=pd(rng, 2, 1.), magnification_model=np.array([5., 4.]), cov_magnification_model=pd(rng, 2, .3))
    if t == "TDMag": return dict(time_delay_measured=np.array([10., 25.]), cov_td_measured=pd(rng, 2, 1.), amp_measured=np.array([10., 8., 3.]), cov_amp_measured=pd(rng, 3, 1.), fermat_diff=np.array([0.3, 0.7]), magnification_model=np.array([5., 4., 1.5]), cov_model=pd(rng, 5, 0.05))
    if t == "TDMagMagnitude": return dict(time_delay_measured=np.array([10., 25.]), cov_td_measured=pd(rng, 2, 1.), magnitude_measured=np.array([18., 18.3, 19.2]), cov_magnitude_measured=pd(rng, 3, .1), fermat_diff=np.array([0.3, 0.7]), magnification_model=np.array([-1.7, -1.5, -0.4]), cov_model=pd(rng, 5, 0.05))
    if t == "DSPL": return dict(z_source2=3.0, beta_dspl=0.8, sigma_beta_dspl=0.05)
    raise ValueError(t)


def fscalar(x):
    return float(np.squeeze(np.asarray(x, dtype=float)))
