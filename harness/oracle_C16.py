"""Oracle C16 -- posterior processing emits a self-consistent kinematic likelihood configuration.

The kinematics engine (`velocity_dispersion_map_dimension_less`) is replaced in harness subclasses of the four real
classes by a smooth, deterministic, name-sensitive function J of ALL its arguments (every leaf of the keyword
arguments enters through sin(c*log|v| + phase) with weights derived from a hash of the leaf's path), so that a
mis-routed, mis-scaled, missing or renamed argument changes J.  `kinematics_modeling_settings` is stubbed (lenstronomy
1.14.2 rejects hierArc's settings).

Sub-checks (each case replayable from its `case_seed`):
  kin         KinConstraints / DdtKinConstraints / DdtGaussKinConstraints x OM / GOM / const x optional gamma_pl axis x
              default or supplied light profile x error specification:
                accepted      LensLikelihood(**config) constructs and evaluates
                cov           error_cov_measurement == diag(ind^2) + cov^2 or the supplied matrix
                axes          kin_scaling_param_list / axes == declared names and arrays in declared order
                base/draws    arguments received by the engine == documented meaning (r_ani = a_ani*r_eff, beta_inf, beta,
                              gamma, light sizes * delta_r_eff ...), draws re-computed from the seeded np.random stream,
                              theta_E >= 0, 1 <= gamma < 3, r_eff > 0, mean values when no_error
                marginal      j_model == mean_draws J, error_cov_j_sqrt == cov_draws sqrt(J)
                grid          every node of every bin == J(args at node) / J(args at base)
                kin_scaling   LensLikelihood(**config).kin_scaling(node) == that ratio
                ddt keys      Ddt samples / weights / mean / sigma passed through, likelihood_type
  composite   KinConstraintsComposite x OM / GOM / const x population-level or per-lens M/L x halo input mode
              (alpha_Rs | kappa_s | rho0): the same checks with gamma_in / log_m2l axes and the stellar amplitude
              amp * 10**log_m2l / Sigma_crit in BOTH M/L modes

Run: cd /verif && PYTHONPATH=/repo PYTHONHASHSEED=0 /venv/bin/python harness/oracle_C16.py --tier quick --seed 0 --out F
"""
import os, sys, json, copy, hashlib, itertools, traceback, re

sys.path.insert(0, os.path.dirname(os.path.abspath(__file__)))
from common import *  # noqa: E402,F401

from hierarc.LensPosterior.kin_constraints import KinConstraints  # noqa: E402
from hierarc.LensPosterior.kin_constraints_composite import KinConstraintsComposite  # noqa: E402
from hierarc.LensPosterior.ddt_kin_constraints import DdtKinConstraints  # noqa: E402
from hierarc.LensPosterior.ddt_kin_gauss_constraints import DdtGaussKinConstraints  # noqa: E402
from hierarc.Likelihood.hierarchy_likelihood import LensLikelihood  # noqa: E402
from lenstronomy.LensModel.Profiles.gnfw import GNFW  # noqa: E402

PROP = "C16"
RULE = ("config accepted by LensLikelihood; cov_meas = diag(ind^2)+cov^2 | matrix; j_model/cov = mean/cov over seeded draws; "
        "grid[idx] = J(node)/J(base) in declared axis order and kin_scaling(node) returns it; engine receives r_ani=a_ani*r_eff, "
        "beta_inf, gamma, gamma_in, amp*10^log_m2l/Sigma_crit (both M/L modes), sizes*delta_r_eff; draws in physical ranges")

# lenstronomy's GNFW() constructor tabulates an integral (~60 ms) and hierArc instantiates it in every engine call of
# the kappa_s / rho0 input modes.  The harness hands the module ONE shared instance and memoises kappa_s_to_alpha_Rs
# (same object, same values; nothing in /repo is modified).
import hierarc.LensPosterior.kin_constraints_composite as _kcc_module  # noqa: E402

_GNFW_SINGLE = GNFW()
_k2a_cache = {}


class _GNFWShared(object):
    def kappa_s_to_alpha_Rs(self, kappa_s, Rs, gamma_in):
        key = (float(kappa_s), float(Rs), float(gamma_in))
        if key not in _k2a_cache:
            _k2a_cache[key] = _GNFW_SINGLE.kappa_s_to_alpha_Rs(kappa_s, Rs, gamma_in)
        return _k2a_cache[key]


_kcc_module.GNFW = _GNFWShared


# ------------------------------------------------------------------------------------------------
# the replacement engine
# ------------------------------------------------------------------------------------------------
def leaves(o, path=""):
    if isinstance(o, dict):
        for k in sorted(o):
            yield from leaves(o[k], path + "." + str(k))
    elif isinstance(o, (list, tuple)):
        for i, v in enumerate(o):
            yield from leaves(v, path + "[%d]" % i)
    elif isinstance(o, np.ndarray):
        for i, v in enumerate(o.ravel()):
            yield path + "[%d]" % i, float(v)
    else:
        yield path, float(o)


_HP = {}


def _hp(path, b):
    k = (path, b)
    if k not in _HP:
        h = hashlib.md5(("%s|%d" % (path, b)).encode()).digest()
        u = [int.from_bytes(h[4 * i:4 * i + 4], "little") / 2.0 ** 32 for i in range(3)]
        _HP[k] = (2 * u[0] - 1, 0.8 + 0.8 * u[1], 2 * np.pi * u[2])
    return _HP[k]


def J_of(kw, nbin):
    """smooth positive function of every (path, value) leaf of the engine's keyword arguments.  Two independent
    weighted sums s1, s2 over the leaves enter as exp(s1/4) * (1.2 + sin(s2)): not separable, so an argument that is
    wrong in the same way at a node and at the base does NOT cancel in the ratio J(node)/J(base)."""
    lv = list(leaves(kw))
    out = np.zeros(nbin)
    for b in range(nbin):
        s1 = s2 = 0.0
        for path, v in lv:
            u = np.log(abs(v) + 1e-30) + (0.37 if v < 0 else 0.0)
            w, c, ph = _hp(path, b)
            s1 += w * np.sin(c * u + ph)
            w, c, ph = _hp(path, b + 1000)
            s2 += w * np.sin(c * u + ph)
        out[b] = (1.5 + 0.1 * b) * np.exp(0.25 * s1) * (1.2 + np.sin(s2))
    return out


class Stub(object):
    def kinematics_modeling_settings(self, *a, **k):
        self.__dict__["_kms_args"] = (a, k)

    def velocity_dispersion_map_dimension_less(self, **kw):
        self.__dict__.setdefault("_log", []).append(copy.deepcopy(kw))
        return J_of(kw, len(self._sigma_v_measured))


class KC(Stub, KinConstraints):
    pass


class DKC(Stub, DdtKinConstraints):
    pass


class DGKC(Stub, DdtGaussKinConstraints):
    pass


class KCC(Stub, KinConstraintsComposite):
    pass


AP = {"aperture_type": "slit", "length": 1, "width": 1, "center_ra": 0, "center_dec": 0, "angle": 0}
SEE = {"psf_type": "GAUSSIAN", "fwhm": 1.4}
NUM = {"interpol_grid_num": 100, "log_integration": True, "max_integrate": 100, "min_integrate": 0.001}
ANI_AXES = {"OM": [np.array([0.1, 0.2, 0.5, 1, 2, 5])], "GOM": [np.array([0.1, 0.2, 0.5, 1, 2, 5]), np.array([0, 0.5, 0.8, 1])],
            "const": [np.linspace(-0.49, 1, 7)]}
ANI_NAMES = {"OM": ["a_ani"], "GOM": ["a_ani", "beta_inf"], "const": ["a_ani"]}


def ani_kwargs(model, r_eff0, a_ani, beta_inf=None):
    if model == "OM":
        return {"r_ani": a_ani * r_eff0}
    if model == "GOM":
        return {"r_ani": a_ani * r_eff0, "beta_inf": beta_inf}
    return {"beta": a_ani}


def ani_base(model, r_eff0):
    return ani_kwargs(model, r_eff0, 0.1 if model == "const" else 1, 1 if model == "GOM" else None)


def compare_args(rec, got, exp, key_prefix, what, inp):
    """leaf-by-leaf comparison of an engine call with the documented arguments"""
    g, e = dict(leaves(got)), dict(leaves(exp))
    ok = True
    for p in sorted(set(g) | set(e)):
        name = re.sub(r"\[\d+\]$", "", re.sub(r"^\.", "", p))  # array elements share one key
        if p not in g:
            ok &= rec.check(False, "%s:%s" % (key_prefix, name), "%s: engine argument missing" % what, inp, None, e[p])
        elif p not in e:
            ok &= rec.check(False, "%s:%s" % (key_prefix, name), "%s: unexpected engine argument" % what, inp, g[p], None)
        else:
            # same arithmetic in the same order is bit-identical; 1e-12 leaves room for a re-associated product
            ok &= rec.check(g[p] == e[p] or abs(g[p] - e[p]) <= 1e-12 * max(abs(e[p]), 1e-300), "%s:%s" % (key_prefix, name),
                            "%s: engine argument != documented meaning" % what, inp, g[p], e[p])
    return ok


def check_common(rec, cfg, obj, P, inp, names, axes, node_args, base_args, draw_args, tagk):
    """checks shared by all four classes once the expected arguments are known"""
    nbin = len(P["sigma_v"])
    log = obj.__dict__.get("_log", [])
    N = P["num_sample"]
    # --- measurement covariance
    if P["cov_matrix"] is not None:
        expC = np.asarray(P["cov_matrix"], float)
    else:
        expC = np.diag(np.asarray(P["err_ind"], float) ** 2) + float(P["err_cov"]) ** 2 * np.ones((nbin, nbin))
    gotC = np.asarray(cfg.get("error_cov_measurement"), float)
    rec.check(gotC.shape == expC.shape and rec.close(gotC, expC, 1e-12, 0), "C16:cov_measurement",
              "error_cov_measurement != diag(independent^2) + covariant^2 (or the supplied matrix)", inp, gotC, expC)
    rec.check(rec.close(cfg.get("sigma_v_measurement"), P["sigma_v"], 0, 0), "C16:sigma_v_measurement",
              "sigma_v_measurement not passed through", inp, cfg.get("sigma_v_measurement"), P["sigma_v"])
    rec.check(cfg.get("z_lens") == P["z_lens"] and cfg.get("z_source") == P["z_source"] and cfg.get("anisotropy_model") == P["model"],
              "C16:redshifts_model", "z_lens / z_source / anisotropy_model not passed through", inp)
    # --- axes
    gn, ga = cfg.get("kin_scaling_param_list"), cfg.get("j_kin_scaling_param_axes")
    ok_axes = list(gn) == list(names) and len(ga) == len(axes) and all(rec.close(a, b, 0, 0) for a, b in zip(ga, axes))
    rec.check(ok_axes, "C16:param_axes", "kin_scaling_param_list / axes != declared parameters and arrays in declared order", inp,
              [gn, ga], [names, axes])
    if not ok_axes:
        return
    # --- calls: N draws, then the base, then the nodes
    n_nodes = int(np.prod([len(a) for a in axes]))
    rec.check(len(log) == N + 1 + n_nodes, "C16:engine_calls", "number of engine calls != draws + base + nodes", inp, len(log),
              N + 1 + n_nodes)
    if len(log) < N + 1:
        return
    # --- draws: documented meaning, seeded re-computation, physical ranges
    ok_draws = True
    for i in range(N):
        c = log[i]
        te, gm, re_ = float(c["theta_E"]), float(c["gamma"]), float(c["r_eff"])
        rec.check(te >= 0, "C16:draw_range:theta_E", "drawn theta_E < 0", dict(inp, draw=i), te, ">= 0")
        rec.check(1.0 <= gm < 3.0, "C16:draw_range:gamma", "drawn gamma outside [1, 3)", dict(inp, draw=i), gm, "[1,3)")
        rec.check(re_ > 0, "C16:draw_range:r_eff", "drawn r_eff <= 0", dict(inp, draw=i), re_, "> 0")
        if ok_draws:
            ok_draws &= compare_args(rec, c, draw_args[i], "C16:args:draw", "draw %d" % i, dict(inp, draw=i))
    # --- base: mean values (no_error)
    compare_args(rec, log[N], base_args, "C16:args:base", "base (no_error) call", inp)
    # --- marginalisation
    Jd = np.array([J_of(a, nbin) for a in draw_args])
    exp_j = np.mean(Jd, axis=0)
    exp_c = np.atleast_2d(np.cov(np.sqrt(Jd.T)))
    got_j = np.asarray(cfg.get("j_model"), float)
    got_c = np.atleast_2d(np.asarray(cfg.get("error_cov_j_sqrt"), float))
    rec.check(got_j.shape == exp_j.shape and rec.close(got_j, exp_j, 1e-10, 0), "C16:marginal:j_model",
              "j_model != mean of J over the lens-model draws", inp, got_j, exp_j)
    rec.check(got_c.shape == exp_c.shape and rec.close(got_c, exp_c, 1e-8, 1e-14 * float(np.max(np.abs(exp_c)) + 1e-300)),
              "C16:marginal:error_cov_j_sqrt", "error_cov_j_sqrt != covariance of sqrt(J) over the lens-model draws", inp, got_c, exp_c)
    # --- grid nodes and the likelihood's scaling at the nodes
    grids = cfg.get("j_kin_scaling_grid_list")
    shape = tuple(len(a) for a in axes)
    ok_shape = len(grids) == nbin and all(np.shape(g) == shape for g in grids)
    rec.check(ok_shape, "C16:grid_shape", "scaling grids: one per bin with the shape of the declared axes", inp,
              [np.shape(g) for g in grids], [shape] * nbin)
    if not ok_shape:
        return
    J0 = J_of(base_args, nbin)
    ll = None
    try:
        gpi = 0 if "gamma_pl" in names else None
        ll = LensLikelihood(gamma_pl_index=gpi, **cfg)
    except Exception as e:
        rec.check(False, "C16:accepted:%s" % P["cls"], "LensLikelihood(**hierarchy_configuration()) raised", inp, repr(e))
    bad_node = False
    for idx in itertools.product(*[range(n) for n in shape]):
        vals = [axes[i][idx[i]] for i in range(len(axes))]
        exp = J_of(node_args(dict(zip(names, vals))), nbin) / J0
        got = np.array([g[idx] for g in grids], float)
        if not bad_node and not rec.close(got, exp, 1e-10, 0):
            bad_node = True
            rec.check(False, "C16:grid_node:%s" % tagk, "grid[idx] != J(parameters at the node) / J(base parameters)",
                      dict(inp, node=dict(zip(names, vals)), idx=list(idx)), got, exp)
        if ll is not None:
            try:
                ks = np.asarray(ll.kin_scaling(dict(zip(names, vals))), float)
                # exact node of a (multi-)linear interpolant
                if not rec.close(ks, exp, 1e-9, 0):
                    rec.check(False, "C16:kin_scaling_at_node:%s" % tagk,
                              "LensLikelihood.kin_scaling at a grid node != J(node)/J(base)", dict(inp, node=dict(zip(names, vals))), ks, exp)
                    ll = None
            except Exception as e:
                rec.check(False, "C16:kin_scaling_at_node:%s" % tagk, "LensLikelihood.kin_scaling raised at a grid node",
                          dict(inp, node=dict(zip(names, vals))), repr(e))
                ll = None
    # --- the configuration also evaluates
    try:
        gpi = 0 if "gamma_pl" in names else None
        kw_model = dict(anisotropy_sampling=True, gamma_in_sampling="gamma_in" in names, log_m2l_sampling="log_m2l" in names)
        l2 = LensLikelihood(gamma_pl_index=gpi, normalized=False, **kw_model, **cfg)
        mid = {nm: float(ax[len(ax) // 2]) for nm, ax in zip(names, axes)}
        kl = {k: mid[k] for k in ("gamma_in", "log_m2l") if k in mid}
        if "gamma_pl" in mid:
            kl["gamma_pl_list"] = [mid["gamma_pl"]]
        kk = {k: mid[k] for k in ("a_ani", "beta_inf") if k in mid}
        v = fscalar(l2.lens_log_likelihood(cosmo_interp(zmax=P["z_source"] + 0.5, n=60), kwargs_lens=kl, kwargs_kin=kk))
        rec.check(np.isfinite(v), "C16:accepted:%s" % P["cls"], "likelihood built from the configuration is not finite", inp, v)
    except Exception as e:
        rec.check(False, "C16:accepted:%s" % P["cls"], "likelihood built from hierarchy_configuration() raised on evaluation", inp, repr(e))


# ------------------------------------------------------------------------------------------------
# sub-check: kin (KinConstraints, DdtKinConstraints, DdtGaussKinConstraints)
# ------------------------------------------------------------------------------------------------
def gen_errors(rng, nbin):
    mode = str(rng.choice(["ind_cov", "ind_cov0", "matrix"]))
    err_ind = rng.uniform(5, 25, nbin)
    if rng.random() < 0.3: err_ind = rng.integers(5, 25, nbin)        # errors written as integers (as the library's own tests do): dtype must not leak
    err_cov = float(rng.uniform(1, 8)) if mode != "ind_cov0" else 0.0
    M = pd(rng, nbin, 12.0) if mode == "matrix" else None
    return mode, err_ind, err_cov, M


def check_kin(rec, rng, inp):
    cls = str(rng.choice(["KinConstraints", "KinConstraints", "DdtKinConstraints", "DdtGaussKinConstraints"]))
    model = str(rng.choice(["OM", "GOM", "const"]))
    nbin = int(rng.integers(1, 5))
    gpl = None
    if cls != "DdtGaussKinConstraints" and rng.random() < 0.5:
        gpl = np.sort(rng.uniform(1.6, 2.5, int(rng.integers(2, 5))))
    stress = bool(rng.random() < 0.4)  # large errors so that the clipping of the draws is exercised
    theta_E = float(rng.uniform(0.6, 2.0))
    gamma = float(rng.uniform(1.7, 2.4))
    r_eff = float(rng.choice([rng.uniform(0.3, 0.9), rng.uniform(1.1, 2.5)]))
    theta_E_err = float(theta_E * (rng.uniform(0.5, 1.5) if stress else rng.uniform(0.01, 0.05)))
    gamma_err = float(rng.uniform(0.5, 1.5) if stress else rng.uniform(0.02, 0.15))
    r_eff_err = float(r_eff * (rng.uniform(0.5, 1.5) if stress else rng.uniform(0.02, 0.1)))
    lightmode = str(rng.choice(["default", "hernquist", "sersic", "two"]))
    light, light_list = None, ["HERNQUIST"]
    if lightmode == "hernquist":
        light = [{"Rs": float(rng.uniform(0.2, 1.0)), "amp": float(rng.uniform(1, 50)), "center_x": 0.0, "center_y": 0.0}]
    elif lightmode == "sersic":
        light, light_list = [{"R_sersic": float(rng.uniform(0.3, 1.5)), "n_sersic": float(rng.uniform(1, 5)), "amp": float(rng.uniform(1, 50)),
                              "center_x": 0.0, "center_y": 0.0}], ["SERSIC"]
    elif lightmode == "two":
        light = [{"R_sersic": float(rng.uniform(0.3, 1.5)), "n_sersic": float(rng.uniform(1, 5)), "amp": float(rng.uniform(1, 50)),
                  "center_x": 0.0, "center_y": 0.0},
                 {"Rs": float(rng.uniform(0.2, 1.0)), "amp": float(rng.uniform(1, 50)), "center_x": 0.0, "center_y": 0.0}]
        light_list = ["SERSIC", "HERNQUIST"]
    emode, err_ind, err_cov, M = gen_errors(rng, nbin)
    sigma_v = rng.uniform(180, 320, nbin)
    zl = float(rng.uniform(0.2, 0.8))
    zs = float(rng.uniform(zl + 0.4, 3.0))
    N = int(rng.integers(2, 9))
    npseed = int(rng.integers(2 ** 31))
    P = dict(cls=cls, model=model, sigma_v=sigma_v, err_ind=err_ind, err_cov=err_cov, cov_matrix=M, num_sample=N, z_lens=zl, z_source=zs)
    inp = dict(inp, cls=cls, model=model, nbin=nbin, gamma_pl_scaling=gpl, theta_E=[theta_E, theta_E_err], gamma=[gamma, gamma_err],
               r_eff=[r_eff, r_eff_err], light=lightmode, kwargs_lens_light=light, errors=emode, err_ind=err_ind, err_cov=err_cov,
               cov_matrix=M, num_sample_model=N, np_seed=npseed, z=[zl, zs])
    tagk = "%s:%s%s" % (cls, model, "+gamma_pl" if gpl is not None else "")
    rec.case(dict(check="kin", cls=cls, model=model, gamma_pl=gpl is not None, light=lightmode, errors=emode, stress=stress, nbin=nbin),
             kind="kin:%s:%s" % (tagk, lightmode))
    kw = dict(sigma_v_error_independent=(None if emode == "matrix" else err_ind), sigma_v_error_covariant=(None if emode == "matrix" else err_cov),
              sigma_v_error_cov_matrix=M, kwargs_lens_light=light, lens_light_model_list=light_list)
    args = (theta_E, theta_E_err, gamma, gamma_err, r_eff, r_eff_err, sigma_v, AP, SEE, NUM, model)
    extra = {}
    try:
        if cls == "KinConstraints":
            obj = KC(zl, zs, *args, gamma_pl_scaling=gpl, **kw)
        elif cls == "DdtKinConstraints":
            extra = dict(ddt_samples=rng.normal(4000, 300, 200), ddt_weights=(rng.uniform(0.5, 2, 200) if rng.random() < 0.5 else None))
            obj = DKC(zl, zs, extra["ddt_samples"], extra["ddt_weights"], *args, gamma_pl_scaling=gpl, **kw)
        else:
            extra = dict(ddt_mean=float(rng.uniform(2000, 6000)), ddt_sigma=float(rng.uniform(100, 400)))
            obj = DGKC(zl, zs, extra["ddt_mean"], extra["ddt_sigma"], *args, **kw)
        np.random.seed(npseed)
        cfg = obj.hierarchy_configuration(num_sample_model=N)
    except Exception as e:
        rec.check(False, "C16:raises:%s" % cls, "constructor / hierarchy_configuration raised on a valid input", inp, repr(e))
        return
    names = ANI_NAMES[model] + (["gamma_pl"] if gpl is not None else [])
    axes = [np.asarray(a, float) for a in ANI_AXES[model]] + ([np.asarray(gpl, float)] if gpl is not None else [])

    def build(ani, te, gm, delta):
        re_ = delta * r_eff
        if light is None:
            lt = [{"Rs": re_ * 0.551, "amp": 1.0}]
        else:
            lt = copy.deepcopy(light)
            for k in lt:
                if "Rs" in k:
                    k["Rs"] = k["Rs"] * delta
                if "R_sersic" in k:
                    k["R_sersic"] = k["R_sersic"] * delta
        return dict(kwargs_lens=[{"theta_E": te, "gamma": gm, "center_x": 0, "center_y": 0}], kwargs_lens_light=lt,
                    kwargs_anisotropy=ani, r_eff=re_, theta_E=te, gamma=gm)

    def node_args(d):
        return build(ani_kwargs(model, r_eff, d["a_ani"], d.get("beta_inf")), theta_E, d.get("gamma_pl", gamma), 1)

    base_args = build(ani_base(model, r_eff), theta_E, gamma, 1)
    # seeded re-computation of the draws: theta_E, (gamma unless it is an interpolation axis), delta_r_eff
    np.random.seed(npseed)
    draw_args = []
    for i in range(N):
        te = max(np.random.normal(loc=theta_E, scale=theta_E_err), 0)
        if gpl is None:
            gm = min(max(np.random.normal(loc=gamma, scale=gamma_err), 1.0), 2.999)
        else:
            gm = gamma
        dl = max(np.random.normal(loc=1, scale=r_eff_err / r_eff), 0.001)
        draw_args.append(build(ani_base(model, r_eff), te, gm, dl))
    check_common(rec, cfg, obj, P, inp, names, axes, node_args, base_args, draw_args, tagk)
    # --- class specific keys
    lt = {"KinConstraints": "IFUKinCov", "DdtKinConstraints": "DdtHistKin", "DdtGaussKinConstraints": "DdtGaussKin"}[cls]
    rec.check(cfg.get("likelihood_type") == lt, "C16:likelihood_type:%s" % cls, "likelihood_type of the configuration", inp,
              cfg.get("likelihood_type"), lt)
    for k, v in extra.items():
        same = (cfg.get(k) is None and v is None) or (v is not None and cfg.get(k) is not None and rec.close(cfg.get(k), v, 0, 0))
        rec.check(same, "C16:ddt_passthrough:%s" % k, "Ddt data not passed through to the configuration", inp)
    if cls != "DdtGaussKinConstraints":
        expp = [["gamma_pl", gamma, gamma_err]] if gpl is not None else []
        rec.check(cfg.get("prior_list") == expp, "C16:prior_list", "prior_list != gamma_pl prior from the imaging constraint (only when interpolated)",
                  inp, cfg.get("prior_list"), expp)


# ------------------------------------------------------------------------------------------------
# sub-check: composite
# ------------------------------------------------------------------------------------------------
def check_composite(rec, rng, inp):
    model = str(rng.choice(["OM", "GOM", "const"]))
    pop = bool(rng.random() < 0.5)
    halo = str(rng.choice(["alpha_Rs", "kappa_s", "rho0"]))
    nbin = int(rng.integers(1, 4))
    nS = int(rng.integers(3, 12))
    ng = int(rng.integers(2, 4))
    nm = int(rng.integers(2, 4))
    gamma_in_array = np.sort(rng.uniform(0.3, 1.8, ng))
    log_m2l_array = np.sort(rng.uniform(0.05, 0.9, nm)) if pop else rng.uniform(0.05, 0.9, nS)
    if rng.random() < 0.3: gamma_in_array = gamma_in_array[::-1].copy()                  # axes tabulated in descending order are legal
    if pop and rng.random() < 0.3: log_m2l_array = log_m2l_array[::-1].copy()
    stress = bool(rng.random() < 0.3)
    theta_E, gamma = float(rng.uniform(0.6, 2.0)), float(rng.uniform(1.8, 2.3))
    r_eff = float(rng.choice([rng.uniform(0.3, 0.9), rng.uniform(1.1, 2.5)]))
    r_eff_err = float(r_eff * (rng.uniform(0.5, 1.5) if stress else rng.uniform(0.02, 0.1)))
    ncomp = int(rng.integers(1, 4))
    light = [{"amp": rng.uniform(1, 30, ncomp), "sigma": np.sort(rng.uniform(0.1, 2.0, ncomp))}]
    emode, err_ind, err_cov, M = gen_errors(rng, nbin)
    sigma_v = rng.uniform(180, 320, nbin)
    zl = float(rng.uniform(0.2, 0.8))
    zs = float(rng.uniform(zl + 0.4, 3.0))
    N = int(rng.integers(2, 8))
    npseed = int(rng.integers(2 ** 31))
    r_s_angle = rng.uniform(4, 12, nS)
    alpha_Rs = rng.uniform(0.4, 1.2, nS)
    kappa_s = rng.uniform(0.02, 0.2, nS)
    rho0 = rng.uniform(0.5e15, 3e15, nS)
    r_s_phys = rng.uniform(0.03, 0.08, nS)
    prior = (float(rng.uniform(0.8, 1.2)), float(rng.uniform(0.05, 0.3))) if rng.random() < 0.5 else (None, None)
    P = dict(cls="KinConstraintsComposite", model=model, sigma_v=sigma_v, err_ind=err_ind, err_cov=err_cov, cov_matrix=M, num_sample=N,
             z_lens=zl, z_source=zs)
    inp = dict(inp, cls="KinConstraintsComposite", model=model, m2l_population_level=pop, halo_input=halo, nbin=nbin,
               gamma_in_array=gamma_in_array, log_m2l_array=log_m2l_array, theta_E=theta_E, gamma=gamma, r_eff=[r_eff, r_eff_err],
               kwargs_lens_light=light, errors=emode, err_ind=err_ind, err_cov=err_cov, cov_matrix=M, num_sample_model=N, np_seed=npseed,
               z=[zl, zs], alpha_Rs=alpha_Rs, r_s_angle=r_s_angle, kappa_s=kappa_s, rho0=rho0, r_s=r_s_phys, gamma_in_prior=prior)
    tagk = "Composite:%s:%s:%s" % (model, "m2l_pop" if pop else "m2l_per_lens", halo)
    rec.case(dict(check="composite", model=model, pop=pop, halo=halo, nbin=nbin, errors=emode, ng=ng, nm=nm, stress=stress), kind="composite:" + tagk)
    kw = dict(gamma_in_array=gamma_in_array, log_m2l_array=log_m2l_array, theta_E=theta_E, theta_E_error=0.05, gamma=gamma, gamma_error=0.1,
              r_eff=r_eff, r_eff_error=r_eff_err, sigma_v_measured=sigma_v, kwargs_aperture=AP, kwargs_seeing=SEE, kwargs_numerics_galkin=NUM,
              anisotropy_model=model, sigma_v_error_independent=(None if emode == "matrix" else err_ind),
              sigma_v_error_covariant=(None if emode == "matrix" else err_cov), sigma_v_error_cov_matrix=M, kwargs_lens_light=copy.deepcopy(light),
              lens_light_model_list=["MULTI_GAUSSIAN"], is_m2l_population_level=pop, gamma_in_prior_mean=prior[0], gamma_in_prior_std=prior[1])
    if halo == "alpha_Rs":
        kw.update(alpha_Rs_array=alpha_Rs, r_s_angle_array=r_s_angle)
    elif halo == "kappa_s":
        kw.update(alpha_Rs_array=None, r_s_angle_array=r_s_angle, kappa_s_array=kappa_s)
    else:
        kw.update(alpha_Rs_array=None, r_s_angle_array=None, rho0_array=rho0, r_s_array=r_s_phys)
    try:
        obj = KCC(zl, zs, **kw)
        np.random.seed(npseed)
        cfg = obj.hierarchy_configuration(num_sample_model=N)
    except Exception as e:
        rec.check(False, "C16:raises:KinConstraintsComposite", "constructor / hierarchy_configuration raised on a valid input", inp, repr(e))
        return
    # quantities of the fiducial cosmology come from lenstronomy's LensCosmo (an input of the property)
    sc_angle = float(obj.lensCosmo.sigma_crit_angle)
    if halo == "alpha_Rs":
        norm, rsa = alpha_Rs, r_s_angle
    elif halo == "kappa_s":
        norm, rsa = kappa_s, r_s_angle
    else:
        arcsec = 2 * np.pi / 360 / 3600
        rsa = r_s_phys / float(obj.lensCosmo.dd) / arcsec
        norm = rho0 * r_s_phys / float(obj.lensCosmo.sigma_crit)
    names = ANI_NAMES[model] + ["gamma_in"] + (["log_m2l"] if pop else [])
    axes = [np.asarray(a, float) for a in ANI_AXES[model]] + [np.asarray(gamma_in_array, float)] + ([np.asarray(log_m2l_array, float)] if pop else [])
    gfun = _GNFWShared()

    def build(ani, g_in, log_m2l, hn, rs, delta):
        stars = {"amp": light[0]["amp"] * (10 ** log_m2l / sc_angle), "sigma": light[0]["sigma"] * delta}
        lt = [{"amp": light[0]["amp"] * 1.0, "sigma": light[0]["sigma"] * delta}]
        a_rs = hn if halo == "alpha_Rs" else gfun.kappa_s_to_alpha_Rs(hn, rs, g_in)
        return dict(kwargs_lens=[{"Rs": rs, "gamma_in": g_in, "alpha_Rs": a_rs, "center_x": 0, "center_y": 0}, stars],
                    kwargs_lens_light=lt, kwargs_anisotropy=ani, r_eff=delta * r_eff, theta_E=theta_E, gamma=gamma)

    m2l_mean = float(np.mean(log_m2l_array))
    hn_mean, rs_mean = float(np.mean(norm)), float(np.mean(rsa))

    def node_args(d):
        return build(ani_kwargs(model, r_eff, d["a_ani"], d.get("beta_inf")), d["gamma_in"], d["log_m2l"] if pop else m2l_mean,
                     hn_mean, rs_mean, 1)

    base_args = build(ani_base(model, r_eff), float(np.mean(gamma_in_array)), m2l_mean, hn_mean, rs_mean, 1)
    np.random.seed(npseed)
    draw_args = []
    for i in range(N):
        idx = np.random.randint(low=0, high=nS)
        dl = max(np.random.normal(loc=1, scale=r_eff_err / r_eff), 0.001)
        lm = m2l_mean if pop else float(log_m2l_array[idx])
        draw_args.append(build(ani_base(model, r_eff), float(np.mean(gamma_in_array)), lm, float(norm[idx]), float(rsa[idx]), dl))
    check_common(rec, cfg, obj, P, inp, names, axes, node_args, base_args, draw_args, tagk)
    rec.check(cfg.get("likelihood_type") == "IFUKinCov", "C16:likelihood_type:KinConstraintsComposite", "likelihood_type of the configuration",
              inp, cfg.get("likelihood_type"), "IFUKinCov")
    expp = [["gamma_in", prior[0], prior[1]]] if prior[0] is not None else None
    rec.check(cfg.get("prior_list") == expp, "C16:prior_list", "prior_list != supplied gamma_in prior", inp, cfg.get("prior_list"), expp)


CHECKS = dict(kin=check_kin, composite=check_composite)
SALT = dict(kin=1, composite=2)
PLAN = dict(quick=dict(kin=150, composite=40), thorough=dict(kin=2500, composite=450))


def run_case(rec, name, cs):
    rng = np.random.default_rng([int(c) for c in cs])
    try:
        CHECKS[name](rec, rng, dict(check=name, case_seed=[int(c) for c in cs]))
    except Exception:
        rec.error("%s %s: %s" % (name, cs, traceback.format_exc(limit=8)))


def main():
    args = parse_args(PROP)
    rec = Recorder(PROP, args.tier, args.seed, RULE)
    np.random.seed(args.seed % (2 ** 31))
    if args.replay:
        with open(args.replay) as f:
            rp = json.load(f)
        i = unjson(rp["input"])
        run_case(rec, i["check"], i["case_seed"])
    else:
        for name, cnt in PLAN[args.tier].items():
            for i in range(cnt):
                run_case(rec, name, [args.seed, SALT[name], i])
    out = rec.write(args.out)
    print("C16 %s seed=%d: %d cases, %d violations %s, %d errors, %.1fs" % (
        args.tier, args.seed, out["evaluations"], len(out["violations"]), sorted(out["violation_counts"]),
        len(out["errors"]), out["wall_s"]))


if __name__ == "__main__":
    main()
