"""Oracle C19 -- distance-ratio likelihoods are blind to H0; time-delay ones see only H0 x scale.

Executable statement of property C19 against the real CosmoLikelihood / LensSampleLikelihood / LensLikelihood, for the four
cosmologies (FLCDM, FwCDM, w0waCDM, oLCDM), on the plain astropy path (interpolate_cosmo=False) and on the interpolated path.

Sub-checks (violation keys; <T> = likelihood type):
  C19:ratio:<T>              T in {IFUKinCov, DsDdsGaussian, DSPL, Mag}: CosmoLikelihood.likelihood(args) is unchanged when only h0
                             is multiplied by c (several c, several parameter points, sharp and scattered hyper-parameters with the
                             global numpy RNG re-seeded identically, lambda / lambda_ifu / alpha,beta scaling / kappa_ext populations /
                             anisotropy scaling grids / sigma_v systematics / SNe anchor magnitude / global gamma_pl).
  C19:ratio_lens:<T>         same relation on LensSampleLikelihood.log_likelihood(cosmo, ...) with an explicit cosmology object built by
                             ParamManager.cosmo (here gamma_ppn reaches the lens, which it never does through CosmoLikelihood).
  C19:sample:ratio_flat      a sample made only of ratio-type lenses has the same likelihood at >= 3 values of H0.
  C19:td_const:<T>           time-delay types: d = L_B(p with h0*c) - L_A(p), where B holds the data divided by c (distances, their sigmas,
                             samples and bandwidths; time delays for TDMag*), equals the closed-form constant
                                 DdtGaussian, DdtDdGaussian, DdtGaussKin             : 0
                                 DdtLogNorm (mu -> mu - ln c)                        : + ln c
                                 DdtHist, DdtHistKDE, DdtHistKin                     : 0 (normalized=False: the -log(1/(sigma sqrt(2pi))) term
                                                                                         absorbs it) / + ln c (normalized=True)
                                 DdtDdKDE (2-d density)                              : + 2 ln c
                                 TDMag, TDMagMagnitude                               : + n_td ln c   (log-determinant of the delay block)
  C19:td_param_dependent:<T> the differences d at different parameter points (all sampled parameters changed) disagree with each other.
  C19:sample:td_const        mixed sample: the constant is the sum of the per-lens constants.
  C19:raises:<T>             hierArc raised where the property needs a value.

Tolerances.  All distances are (c/H0) x (an H0-independent integral): astropy evaluates the same integrand/closed form for H0 and
H0*c (Tcmb0=0, so no radiation term that would tie Omega_gamma to h), CosmoInterp interpolates those comoving distances linearly
(a linear operation).  So D(H0*c) = D(H0)/c up to a few ulp on BOTH paths; the likelihoods amplify this by |dL/dlnD| <~ 1e3.
We therefore use |dL| <= 1e-9 * max(1, |L|) on both paths (measured worst case on this tree ~1e-12); a semantic H0 dependence
(e.g. the kinematic prediction fed Ddt instead of Ddt/Dd) shows up at order 1.
"""
import sys, os, json, traceback, copy
sys.path.insert(0, os.path.dirname(os.path.abspath(__file__)))
from common import *  # noqa

PROP = "C19"
RULE = ("ratio-type lens likelihoods (IFUKinCov, DsDdsGaussian, DSPL, Mag) invariant under h0 -> h0*c for every cosmology and "
        "hyper-parameter value; time-delay types: L(h0*c; data/c) - L(h0; data) is a closed-form constant independent of all parameters")

RATIO_TYPES = ["IFUKinCov", "DsDdsGaussian", "DSPL", "Mag"]
TD_TYPES = ["DdtGaussian", "DdtLogNorm", "DdtHist", "DdtHistKDE", "DdtGaussKin", "DdtHistKin", "DdtDdGaussian", "DdtDdKDE",
            "TDMag", "TDMagMagnitude"]
COSMOLOGIES = ["FLCDM", "FwCDM", "w0waCDM", "oLCDM"]
C_KMS = 299792.458
RTOL = 1e-9
ARRAY_KEYS = ["sigma_v_measurement", "j_model", "error_cov_measurement", "error_cov_j_sqrt", "ddt_samples", "dd_samples",
              "ddt_weights", "amp_measured", "cov_amp_measured", "magnification_model", "cov_magnification_model",
              "time_delay_measured", "cov_td_measured", "fermat_diff", "cov_model", "magnitude_measured", "cov_magnitude_measured"]

_FID = None


def fid():
    global _FID
    if _FID is None:
        from astropy.cosmology import FlatLambdaCDM
        _FID = FlatLambdaCDM(H0=70., Om0=0.3)
    return _FID


def fermat_conv():
    from lenstronomy.Util import constants as const
    return const.Mpc / const.c / const.day_s * const.arcsec ** 2


def cov_scaled(rng, scales):
    n = len(scales)
    c = pd(rng, n, 1.0)
    s = np.asarray(scales, float)
    return c * np.outer(s, s)


# ------------------------------------------------------------------------------------------------
# generation
# ------------------------------------------------------------------------------------------------
def gen_model(rng, types):
    km = dict(lambda_mst_sampling=True, lambda_mst_distribution=str(rng.choice(["NONE", "GAUSSIAN"])))
    if rng.random() < .5:
        km.update(lambda_ifu_sampling=True, lambda_ifu_distribution=str(rng.choice(["NONE", "GAUSSIAN"])))
    if rng.random() < .5: km["alpha_lambda_sampling"] = True
    if rng.random() < .3: km["beta_lambda_sampling"] = True
    if rng.random() < .25: km["log_scatter"] = True
    aniso = str(rng.choice(["off", "OM", "const", "GOM"], p=[.3, .3, .15, .25]))
    if aniso != "off":
        dists = ["NONE", "GAUSSIAN"] + (["GAUSSIAN_SCALED"] if aniso in ("OM", "GOM") else [])
        km.update(anisotropy_sampling=True, anisotropy_model=aniso, anisotropy_distribution=str(rng.choice(dists)))
    if rng.random() < .3: km["sigma_v_systematics"] = True
    nlos = int(rng.choice([0, 1, 2], p=[.35, .4, .25]))
    if nlos:
        km.update(los_sampling=True, los_distributions=[str(rng.choice(["GAUSSIAN", "GEV"])) for _ in range(nlos)])
    if any(t in MAG_TYPES for t in types) or rng.random() < .1:
        km.update(sne_apparent_m_sampling=True, sne_distribution=str(rng.choice(["GAUSSIAN", "NONE"], p=[.8, .2])),
                  z_apparent_m_anchor=float(rng.uniform(.05, .6)))
    if "DSPL" in types or rng.random() < .15:
        km.update(gamma_pl_global_sampling=True, gamma_pl_global_dist=str(rng.choice(["GAUSSIAN", "NONE"])))
    if rng.random() < .3: km["ppn_sampling"] = True
    return km


A_ANI_AXIS = [0.3, 1.0, 2.0, 3.0, 4.0, 5.0]
BETA_INF_AXIS = [0.0, 0.35, 0.7, 1.0]


def gen_point(rng, km, cosmology, sharp, mu_fid):
    """one point in parameter space (five kwargs groups)"""
    pos = lambda lo, hi: float(rng.uniform(lo, hi))
    sig = lambda lo, hi: (pos(lo, hi) if (not sharp or km.get("log_scatter")) else 0.0)
    kc = dict(h0=pos(35, 110))
    if cosmology == "oLCDM":
        kc.update(om=pos(.1, .5), ok=pos(-.2, .3))
    else:
        kc["om"] = pos(.05, .6)
    if cosmology == "FwCDM": kc["w"] = pos(-1.8, -.4)
    if cosmology == "w0waCDM": kc.update(w0=pos(-1.6, -.5), wa=pos(-1., .5))
    if km.get("ppn_sampling"): kc["gamma_ppn"] = pos(.7, 1.3)
    kl = dict(lambda_mst=pos(.8, 1.2))
    if km["lambda_mst_distribution"] == "GAUSSIAN": kl["lambda_mst_sigma"] = sig(.01, .08)
    if km.get("lambda_ifu_sampling"):
        kl["lambda_ifu"] = pos(.8, 1.2)
        if km["lambda_ifu_distribution"] == "GAUSSIAN": kl["lambda_ifu_sigma"] = sig(.01, .08)
    if km.get("alpha_lambda_sampling"): kl["alpha_lambda"] = pos(-.1, .1)
    if km.get("beta_lambda_sampling"): kl["beta_lambda"] = pos(-.1, .1)
    if km.get("gamma_pl_global_sampling"):
        kl["gamma_pl_mean"] = pos(1.85, 2.15)
        if km["gamma_pl_global_dist"] == "GAUSSIAN": kl["gamma_pl_sigma"] = (0.0 if sharp else pos(.01, .04))
    kk = {}
    if km.get("anisotropy_sampling"):
        kk["a_ani"] = pos(1.0, 4.0)
        d = km["anisotropy_distribution"]
        if d in ("GAUSSIAN", "GAUSSIAN_SCALED"): kk["a_ani_sigma"] = sig(.05, .3)
        if km["anisotropy_model"] == "GOM":
            kk["beta_inf"] = pos(.2, .8)
            if d in ("GAUSSIAN", "GAUSSIAN_SCALED"): kk["beta_inf_sigma"] = sig(.02, .1)
    if km.get("sigma_v_systematics"): kk["sigma_v_sys_error"] = pos(.01, .06)
    ks = {}
    if km.get("sne_apparent_m_sampling"):
        ks["mu_sne"] = mu_fid + float(rng.normal(0, .05))
        if km["sne_distribution"] == "GAUSSIAN": ks["sigma_sne"] = (0.0 if sharp else pos(.02, .12))
    klos = []
    for d in km.get("los_distributions", []):
        e = dict(mean=pos(-.04, .06), sigma=(pos(.005, .03) if (not sharp or d == "GEV") else 0.0))
        if d == "GEV": e["xi"] = pos(-.15, .15)
        klos.append(e)
    return dict(kwargs_cosmo=kc, kwargs_lens=kl, kwargs_kin=kk, kwargs_source=ks, kwargs_los=klos)


def gen_lens(t, rng, idx, km, mu_fid):
    F = fid()
    zl = float(rng.uniform(.1, 1.0)); zs = float(zl + rng.uniform(.3, 2.2))
    dd = F.angular_diameter_distance(zl).value; ds = F.angular_diameter_distance(zs).value
    dds = F.angular_diameter_distance_z1z2(zl, zs).value
    ddt = (1 + zl) * dd * ds / dds; r = ds / dds
    off = lambda s: float(1 + s * rng.normal())
    kw = dict(z_lens=zl, z_source=zs, likelihood_type=t, name="L%d_%s" % (idx, t), num_distribution_draws=int(rng.integers(3, 8)))

    def kin():
        n = int(rng.integers(1, 4))
        st = rng.uniform(180, 320, n)
        return dict(sigma_v_measurement=st * (1 + .04 * rng.normal(size=n)), j_model=(st / C_KMS) ** 2 / r,
                    error_cov_measurement=pd(rng, n, float(rng.uniform(6, 15))),
                    error_cov_j_sqrt=pd(rng, n, float(rng.uniform(3, 10)) / (np.sqrt(r) * C_KMS)))

    def samples(mean, frac, ns):
        return rng.normal(mean * off(.03), mean * frac, ns)

    def mag_truth():
        z_a = km.get("z_apparent_m_anchor", 0.1)
        mod = lambda z: 5 * np.log10((1 + z) ** 2 * F.angular_diameter_distance(z).value)
        m_s = mu_fid + mod(zs) - mod(z_a)
        return float(m_s), float(10 ** (-(m_s - 20) / 2.5))

    if t == "DdtGaussian": kw.update(ddt_mean=ddt * off(.05), ddt_sigma=ddt * float(rng.uniform(.03, .1)))
    elif t == "DdtDdGaussian": kw.update(ddt_mean=ddt * off(.05), ddt_sigma=ddt * float(rng.uniform(.03, .1)), dd_mean=dd * off(.05), dd_sigma=dd * float(rng.uniform(.04, .12)))
    elif t == "DdtLogNorm": kw.update(ddt_mu=float(np.log(ddt * off(.03))), ddt_sigma=float(rng.uniform(.03, .1)))
    elif t == "DsDdsGaussian": kw.update(ds_dds_mean=r * off(.05), ds_dds_sigma=r * float(rng.uniform(.04, .12)))
    elif t == "IFUKinCov": kw.update(kin())
    elif t == "DdtGaussKin": kw.update(ddt_mean=ddt * off(.05), ddt_sigma=ddt * float(rng.uniform(.03, .1)), **kin())
    elif t == "DdtHist":
        ns = int(rng.integers(100, 300))
        kw.update(ddt_samples=samples(ddt, .06, ns), ddt_weights=(rng.uniform(.5, 2, ns) if rng.random() < .5 else None), nbins_hist=int(rng.integers(15, 40)))
        bm = rng.choice(["none", "scott", "silverman", "scalar"])
        if bm != "none": kw["binning_method"] = float(rng.uniform(.2, .6)) if bm == "scalar" else str(bm)
    elif t == "DdtHistKDE":
        ns = int(rng.integers(100, 300))
        kw.update(ddt_samples=samples(ddt, .06, ns), ddt_weights=(rng.uniform(.5, 2, ns) if rng.random() < .5 else None),
                  bandwidth=ddt * float(rng.uniform(.01, .04)), nbins_hist=int(rng.integers(15, 40)))
        if rng.random() < .3: kw["kde_kernel"] = str(rng.choice(["epanechnikov", "tophat", "exponential"]))
        if kw.get("kde_kernel") in ("epanechnikov", "tophat"): kw["bandwidth"] = ddt * .3   # compact kernels: keep the model inside the support
    elif t == "DdtHistKin":
        ns = int(rng.integers(100, 300))
        kw.update(ddt_samples=samples(ddt, .06, ns), ddt_weights=(rng.uniform(.5, 2, ns) if rng.random() < .5 else None),
                  bandwidth=ddt * float(rng.uniform(.01, .04)), nbins_hist=int(rng.integers(15, 40)), **kin())
    elif t == "DdtDdKDE":
        ns = int(rng.integers(100, 250))
        kw.update(ddt_samples=samples(ddt, .07, ns), dd_samples=samples(dd, .08, ns))
        if rng.random() < .4: kw.update(kde_type="gaussian", bandwidth=dd * float(rng.uniform(.03, .08)))
    elif t == "DSPL":
        zs2 = float(zs + rng.uniform(.3, 1.5))
        ds2 = F.angular_diameter_distance(zs2).value; dds2 = F.angular_diameter_distance_z1z2(zl, zs2).value
        beta = dds / ds * ds2 / dds2
        kw.update(z_source2=zs2, beta_dspl=float(beta * off(.01)), sigma_beta_dspl=float(rng.uniform(.01, .05)))
    elif t in MAG_TYPES:
        n = int(rng.integers(2, 5))
        mu = rng.uniform(1, 8, n)
        m_s, amp = mag_truth()
        if t == "Mag":
            kw.update(amp_measured=amp * mu * (1 + .05 * rng.normal(size=n)), cov_amp_measured=cov_scaled(rng, .05 * amp * mu),
                      magnification_model=mu, cov_magnification_model=cov_scaled(rng, .08 * mu))
        else:
            ntd = n - 1
            fer = rng.uniform(.1, 1., ntd) * rng.choice([-1., 1.], ntd)
            dt = ddt * fermat_conv() * fer
            kw.update(time_delay_measured=dt * (1 + .02 * rng.normal(size=ntd)), cov_td_measured=cov_scaled(rng, rng.uniform(.3, 2., ntd)), fermat_diff=fer)
            if t == "TDMag":
                kw.update(amp_measured=amp * mu * (1 + .05 * rng.normal(size=n)), cov_amp_measured=cov_scaled(rng, .05 * amp * mu),
                          magnification_model=mu, cov_model=cov_scaled(rng, np.append(.02 * np.abs(fer), .08 * mu)))
            else:
                mm = -2.5 * np.log10(mu)
                kw.update(magnitude_measured=m_s + mm + .05 * rng.normal(size=n), cov_magnitude_measured=cov_scaled(rng, np.full(n, .06)),
                          magnification_model=mm, cov_model=cov_scaled(rng, np.append(.02 * np.abs(fer), np.full(n, .08))))
    else:
        raise ValueError(t)
    # per-lens options
    if rng.random() < .3: kw["mst_ifu"] = True
    if rng.random() < .4: kw["lambda_scaling_property"] = float(rng.uniform(-1, 1))
    if rng.random() < .2: kw["lambda_scaling_property_beta"] = float(rng.uniform(-1, 1))
    nlos = len(km.get("los_distributions", []))
    u = rng.random()
    # (a DdtDdKDE lens with a line-of-sight distribution used to raise ValueError -- shape-(1,) ddt from draw_los(size=1) -- until
    #  "fix: DdtDdKDELikelihood evaluates the KDE at scalar distances"; the combination is generated on purpose.)
    if nlos and u < .6:
        kw["global_los_distribution"] = int(rng.integers(0, nlos))
    elif u > .88:
        if rng.random() < .5:
            kw.update(los_distribution_individual="GEV", kwargs_los_individual=dict(xi=float(rng.uniform(-.1, .1)), mean=float(rng.uniform(-.02, .04)), sigma=float(rng.uniform(.005, .03))))
        else:
            edges = np.linspace(-.05, .12, 9)
            kw.update(los_distribution_individual="PDF", kwargs_los_individual=dict(bin_edges=edges, pdf_array=rng.uniform(.1, 1, 8)))
    if km.get("anisotropy_sampling") and t in KIN_TYPES + ["DsDdsGaussian", "DdtDdGaussian", "DdtDdKDE"] and rng.random() < .8:
        nk = len(kw["j_model"]) if "j_model" in kw else 1
        names, axes = ["a_ani"], [np.array(A_ANI_AXIS)]
        if km["anisotropy_model"] == "GOM":
            names.append("beta_inf"); axes.append(np.array(BETA_INF_AXIS))
        shape = tuple(len(a) for a in axes)
        kw.update(kin_scaling_param_list=names, j_kin_scaling_param_axes=axes, j_kin_scaling_grid_list=[rng.uniform(.7, 1.4, shape) for _ in range(nk)])
    if km.get("sigma_v_systematics") and t in KIN_TYPES:
        kw["sigma_sys_error_include"] = bool(rng.random() < .8)
    return kw


def gen_case(rng, stream, types, cosmology, interp, tier="thorough"):
    km = gen_model(rng, types)
    mu_fid = float(rng.uniform(18.5, 19.5))
    lenses = [gen_lens(t, rng, i, km, mu_fid) for i, t in enumerate(types)]
    sharp = bool(rng.random() < .45)
    # every likelihood call builds an astropy cosmology (~40 ms of unit bookkeeping inside astropy): the quick tier uses fewer points
    npts = (3 if stream != "ratio" else 2) if tier == "thorough" else (2 if stream != "ratio" else 1)
    pts = [gen_point(rng, km, cosmology, sharp, mu_fid) for _ in range(npts)]
    cs = [float(x) for x in rng.uniform(.45, 1.8, 2)]
    if rng.random() < .2: cs[0] = float(2.0 ** rng.integers(-1, 2) or 2.0)
    if cs[0] == 1.0: cs[0] = 0.5
    return dict(stream=stream, types=list(types), cosmology=cosmology, interpolate=bool(interp), num_redshift_interp=int(rng.integers(20, 80)),
                normalized=bool(rng.random() < .5), kwargs_model=km, lenses=jsonable(lenses), points=pts, c=cs,
                np_seed=int(rng.integers(0, 2 ** 31 - 1)), sharp=sharp)


# ------------------------------------------------------------------------------------------------
# building / evaluating
# ------------------------------------------------------------------------------------------------
def build_lens(lj):
    kw = {}
    for k, v in unjson(lj).items():
        if k in ARRAY_KEYS and v is not None:
            kw[k] = np.array(v, dtype=float)
        elif k == "j_kin_scaling_param_axes":
            kw[k] = [np.array(a, dtype=float) for a in v]
        elif k == "j_kin_scaling_grid_list":
            kw[k] = [np.array(a, dtype=float) for a in v]
        elif k == "kwargs_los_individual":
            kw[k] = {kk: (np.array(vv, dtype=float) if isinstance(vv, list) else vv) for kk, vv in v.items()}
        else:
            kw[k] = v
    return kw


def scale_lens(kw, c):
    """the same lens with every measured distance scale divided by c (what an observer using H0*c would have inferred)"""
    t = kw["likelihood_type"]
    out = dict(kw)
    div = lambda k, p=1: out.__setitem__(k, out[k] / c ** p)
    if t in ("DdtGaussian", "DdtGaussKin"): div("ddt_mean"); div("ddt_sigma")
    elif t == "DdtDdGaussian": div("ddt_mean"); div("ddt_sigma"); div("dd_mean"); div("dd_sigma")
    elif t == "DdtLogNorm": out["ddt_mu"] = out["ddt_mu"] - np.log(c)
    elif t == "DdtHist": div("ddt_samples")
    elif t in ("DdtHistKDE", "DdtHistKin"): div("ddt_samples"); div("bandwidth")
    elif t == "DdtDdKDE":
        div("ddt_samples"); div("dd_samples")
        if "bandwidth" in out: div("bandwidth")
    elif t in ("TDMag", "TDMagMagnitude"): div("time_delay_measured"); div("cov_td_measured", 2)
    return out


def td_constant(kw, c, normalized):
    t = kw["likelihood_type"]
    if t == "DdtLogNorm": return float(np.log(c))
    # DdtHistKin forwards the lens' normalized flag to its histogram part (since "fix: DdtHistKinLikelihood forwards the normalized flag")
    if t in ("DdtHist", "DdtHistKDE", "DdtHistKin"): return float(np.log(c)) if normalized else 0.0
    if t == "DdtDdKDE": return 2 * float(np.log(c))
    if t in ("TDMag", "TDMagMagnitude"): return len(kw["time_delay_measured"]) * float(np.log(c))
    return 0.0


def bounds_of(points):
    lo, hi = {}, {}
    p = points[0]
    for grp, nm in (("kwargs_cosmo", "cosmo"), ("kwargs_lens", "lens"), ("kwargs_kin", "kin"), ("kwargs_source", "source")):
        lo["kwargs_lower_" + nm] = {k: -1e6 for k in p[grp]}
        hi["kwargs_upper_" + nm] = {k: 1e6 for k in p[grp]}
    lo["kwargs_lower_los"] = [{k: -1e6 for k in d} for d in p["kwargs_los"]]
    hi["kwargs_upper_los"] = [{k: 1e6 for k in d} for d in p["kwargs_los"]]
    return {**lo, **hi}


def make_cl(inp, lenses):
    from hierarc.Likelihood.cosmo_likelihood import CosmoLikelihood
    return CosmoLikelihood(copy.deepcopy(lenses), inp["cosmology"], copy.deepcopy(inp["kwargs_model"]), bounds_of(inp["points"]),
                           normalized=inp["normalized"], interpolate_cosmo=inp["interpolate"], num_redshift_interp=inp["num_redshift_interp"])


def args_of(cl, pt, h0):
    kc = dict(pt["kwargs_cosmo"]); kc["h0"] = h0
    return cl.param.kwargs2args(kwargs_cosmo=kc, kwargs_lens=pt["kwargs_lens"], kwargs_kin=pt["kwargs_kin"],
                                kwargs_source=pt["kwargs_source"], kwargs_los=pt["kwargs_los"])


def evaluate(cl, pt, h0, seed):
    np.random.seed(seed)
    return fscalar(cl.likelihood(args_of(cl, pt, h0)))


def usable(*vals):
    return all(np.isfinite(v) and v > -1e290 for v in vals)


def tol(*vals):
    return RTOL * max([1.0] + [abs(v) for v in vals])


def run_case(rec, inp):
    inp = unjson(inp)
    types = inp["types"]
    tname = types[0] if len(types) == 1 else "sample"
    lenses = [build_lens(l) for l in inp["lenses"]]
    lensnorm = True if inp["kwargs_model"].get("sigma_v_systematics") else inp["normalized"]
    seed = int(inp["np_seed"])
    small = dict(stream=inp["stream"], types=types, cosmology=inp["cosmology"], interpolate=inp["interpolate"], sharp=inp.get("sharp"))
    try:
        clA = make_cl(inp, lenses)
    except Exception as e:
        rec.violation("C19:raises:" + tname, "CosmoLikelihood could not be built for a well-formed configuration", inp, repr(e)); return False
    all_ratio = all(t in RATIO_TYPES for t in types)
    nontrivial = False
    # ---------------- ratio types: H0 invariance ---------------------------------------------------
    if all_ratio:
        for ip, pt in enumerate(inp["points"]):
            h0 = pt["kwargs_cosmo"]["h0"]
            try:
                base = evaluate(clA, pt, h0, seed + ip)
                others = [(c, evaluate(clA, pt, h0 * c, seed + ip)) for c in inp["c"]]
                if len(types) > 1: others.append((2.5, evaluate(clA, pt, h0 * 2.5, seed + ip)))
            except Exception as e:
                rec.violation("C19:raises:" + tname, "likelihood raised", inp, dict(point=ip, err=repr(e))); continue
            if not usable(base): rec.tally("trivial:-inf"); continue
            nontrivial = True
            key = ("C19:ratio:" + tname) if len(types) == 1 else "C19:sample:ratio_flat"
            for c, v in others:
                rec.check(usable(v) and abs(v - base) <= tol(base), key, "likelihood of ratio-type lens(es) changes when only h0 is rescaled", inp,
                          dict(point=ip, c=c, L_h0=base, L_h0c=v, diff=v - base), "equal within %g relative" % RTOL)
        # a profile scan over the dark-energy equation of state at fixed (h0, om) on ONE object, then an H0 rescaling: the value at the
        # new equation of state must not remember the previous one (an interpolation table keyed on H0/Om0/Ode0 only would)
        if inp["cosmology"] in ("FwCDM", "w0waCDM") and inp["points"]:
            wkey = "w" if inp["cosmology"] == "FwCDM" else "w0"
            pt = copy.deepcopy(inp["points"][0]); h0 = pt["kwargs_cosmo"]["h0"]
            pt2 = copy.deepcopy(pt); pt2["kwargs_cosmo"][wkey] = min(pt["kwargs_cosmo"][wkey] + 0.35, -0.35)
            try:
                evaluate(clA, pt, h0, seed + 31)
                b2 = evaluate(clA, pt2, h0, seed + 31)
                v2 = evaluate(clA, pt2, h0 * inp["c"][0], seed + 31)
                if usable(b2):
                    key = ("C19:ratio:" + tname) if len(types) == 1 else "C19:sample:ratio_flat"
                    rec.check(usable(v2) and abs(v2 - b2) <= tol(b2), key,
                              "after a step in the equation of state at fixed (h0, om) on the same object, the ratio-type likelihood changes when only h0 is rescaled",
                              inp, dict(history=[pt["kwargs_cosmo"], pt2["kwargs_cosmo"]], c=inp["c"][0], L_h0=b2, L_h0c=v2, diff=v2 - b2), "equal within %g relative" % RTOL)
            except Exception as e:
                rec.violation("C19:raises:" + tname, "likelihood raised", inp, dict(history=True, err=repr(e)))
        # explicit-cosmology path with gamma_ppn reaching the lens
        try:
            from hierarc.Likelihood.lens_sample_likelihood import LensSampleLikelihood
            from lenstronomy.Cosmo.cosmo_interp import CosmoInterp
            S = LensSampleLikelihood(copy.deepcopy(lenses), normalized=lensnorm, kwargs_global_model=copy.deepcopy(inp["kwargs_model"]))
            zmax = max([l["z_source"] for l in lenses] + [l.get("z_source2", 0) or 0 for l in lenses])
            pt = inp["points"][0]
            sub = rng_of(seed, 1901)
            kl = dict(pt["kwargs_lens"]); kl["gamma_ppn"] = float(sub.uniform(.6, 1.4))
            vals = []
            for c in [1.0] + list(inp["c"]):
                kc = dict(pt["kwargs_cosmo"]); kc["h0"] = kc["h0"] * c
                cosmo = clA.param.cosmo(kc)
                if inp["interpolate"]: cosmo = CosmoInterp(cosmo=cosmo, z_stop=zmax, num_interp=inp["num_redshift_interp"])
                np.random.seed(seed + 77)
                ks = dict(pt["kwargs_source"]); ks["z_apparent_m_anchor"] = inp["kwargs_model"].get("z_apparent_m_anchor", 0.1)
                vals.append(fscalar(S.log_likelihood(cosmo, kwargs_lens=kl, kwargs_kin=pt["kwargs_kin"], kwargs_source=ks, kwargs_los=pt["kwargs_los"])))
            if usable(vals[0]):
                nontrivial = True
                key = ("C19:ratio_lens:" + tname) if len(types) == 1 else "C19:sample:ratio_flat"
                for c, v in zip(inp["c"], vals[1:]):
                    rec.check(usable(v) and abs(v - vals[0]) <= tol(vals[0]), key, "lens_log_likelihood (explicit cosmology, gamma_ppn set) changes with H0", inp,
                              dict(c=c, gamma_ppn=kl["gamma_ppn"], L_h0=vals[0], L_h0c=v), "equal within %g relative" % RTOL)
        except Exception as e:
            rec.violation("C19:raises:" + tname, "LensSampleLikelihood.log_likelihood raised", inp, repr(e))
        return nontrivial
    # ---------------- time-delay types: only H0 x scale --------------------------------------------
    for c in inp["c"][:1 if len(inp["points"]) > 2 else 2]:
        try:
            clB = make_cl(inp, [scale_lens(l, c) for l in lenses])
        except Exception as e:
            rec.violation("C19:raises:" + tname, "CosmoLikelihood could not be built for the rescaled data", inp, repr(e)); continue
        const = sum(td_constant(l, c, lensnorm) for l in lenses)
        diffs = []
        for ip, pt in enumerate(inp["points"]):
            h0 = pt["kwargs_cosmo"]["h0"]
            try:
                a = evaluate(clA, pt, h0, seed + ip)
                b = evaluate(clB, pt, h0 * c, seed + ip)
            except Exception as e:
                rec.violation("C19:raises:" + tname, "likelihood raised", inp, dict(point=ip, err=repr(e))); continue
            if not usable(a, b): rec.tally("trivial:-inf"); continue
            nontrivial = True
            diffs.append((ip, a, b, b - a))
            key = ("C19:td_const:" + tname) if len(types) == 1 else "C19:sample:td_const"
            rec.check(abs((b - a) - const) <= tol(a, b), key, "L(h0*c; data/c) - L(h0; data) differs from the closed-form constant", inp,
                      dict(point=ip, c=c, L_A=a, L_B=b, diff=b - a), const)
        if len(diffs) >= 2:
            d0 = diffs[0]
            for d in diffs[1:]:
                key = ("C19:td_param_dependent:" + tname) if len(types) == 1 else "C19:sample:td_const"
                rec.check(abs(d[3] - d0[3]) <= tol(d[1], d[2], d0[1], d0[2]), key,
                          "the H0 x scale offset depends on the sampled parameters", inp, dict(c=c, point_a=d0[0], diff_a=d0[3], point_b=d[0], diff_b=d[3]), "equal")
    return nontrivial


# ------------------------------------------------------------------------------------------------
def plan(tier, rng):
    """list of (stream, types, cosmology, interp)"""
    out = []
    reps = 1 if tier == "quick" else 7
    for rep in range(reps):
        for ic, cosmology in enumerate(COSMOLOGIES):
            for interp in (False, True):
                if tier == "quick":
                    # quick: per cosmology one path for the single-type cases (alternating, so that every type meets both paths and
                    # every cosmology both paths through the samples); thorough: full cross product, 7 times
                    single = (interp == bool(ic % 2))
                else:
                    single = True
                if not single:
                    k = int(rng.integers(2, 5))
                    out.append(("ratio", [str(x) for x in rng.choice(RATIO_TYPES, k)], cosmology, interp))
                    tt = [str(x) for x in rng.choice(TD_TYPES, 2)] + [str(rng.choice(RATIO_TYPES))]
                    out.append(("td", tt, cosmology, interp))
                    continue
                for t in RATIO_TYPES:
                    out.append(("ratio", [t], cosmology, interp))
                for t in TD_TYPES:
                    out.append(("td", [t], cosmology, interp))
                # samples
                k = int(rng.integers(2, 5))
                out.append(("ratio", [str(x) for x in rng.choice(RATIO_TYPES, k)], cosmology, interp))
                k = int(rng.integers(2, 4))
                tt = [str(x) for x in rng.choice(TD_TYPES, k)] + [str(rng.choice(RATIO_TYPES))]
                out.append(("td", tt, cosmology, interp))
    return out


def main():
    args = parse_args(PROP)
    rec = Recorder(PROP, args.tier, args.seed, RULE)
    if args.replay:
        with open(args.replay) as fh:
            rep = json.load(fh)
        rec.case(dict(replay=rep.get("key")), kind="replay")
        try:
            run_case(rec, rep["input"])
        except Exception:
            rec.error(traceback.format_exc(limit=6))
        rec.write(args.out)
        return
    rng = rng_of(args.seed, 19)
    for i, (stream, types, cosmology, interp) in enumerate(plan(args.tier, rng)):
        try:
            inp = gen_case(rng, stream, types, cosmology, interp, args.tier)
            nt = run_case(rec, inp)
            rec.case(dict(i=i, stream=stream, types=types, cosmology=cosmology, interp=interp, km=inp["kwargs_model"], c=inp["c"], sharp=inp["sharp"],
                          h0=[p["kwargs_cosmo"]["h0"] for p in inp["points"]]),
                     nontrivial=bool(nt), kind="%s|%s|%s" % (stream, cosmology, "interp" if interp else "astropy"))
            rec.tally("type:" + (types[0] if len(types) == 1 else "sample"))
            rec.tally("hyper:" + ("sharp" if inp["sharp"] else "scatter"))
        except Exception:
            rec.error(traceback.format_exc(limit=6))
    rec.write(args.out)


if __name__ == "__main__":
    main()
