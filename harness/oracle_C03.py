"""Implementation-level oracle for C03:
   "Mass sheet, external convergence and PPN are multiplicative distance rescalings".

For every one of the 14 lens likelihood types a real LensLikelihood is built (random data, lens properties x,y, IFU
flag, normalisation, 0-2 global line-of-sight populations with zero scatter carrying kappa_ext, optional kinematic
scaling grid, optional per-lens / global slope, optional per-lens priors) and evaluated with SHARP hyper-parameters
on interpolated or plain astropy cosmologies.  `lens._lens_type.log_likelihood` is wrapped on the instance to record
its arguments.  Distances, beta_dsp and the luminosity-distance modulus are recomputed here from the cosmology object.

Sub-checks / violation keys (<t> = likelihood type)
  C03:raises:<t>             sharp evaluation raised            (C03:raises:DdtDdKDE_los_draw: regression witness)
  C03:n_calls:<t>            sharp hyper-parameters must cost exactly one data-likelihood evaluation
  C03:wiring_value:<t>       lens_log_likelihood == data likelihood at (Ddt*lam*(1-kap), Dd*(1+gppn)/2, m+5log10(lam(1-kap)))
                             [DSPL: at cosmological beta, lens lambda, slope] + per-lens prior
  C03:wiring_args:<t>        the recorded arguments of the data likelihood are those rescaled quantities
  C03:closed_form:<t>        value == closed formula (DdtGaussian, DdtDdGaussian, DsDdsGaussian, DdtLogNorm, IFUKinCov, DSPL)
  C03:neutral:<t>            lambda=1,kappa=0,gamma_ppn=1 (explicit or defaulted) leaves the cosmological prediction unchanged
  C03:degeneracy:<t>         (lambda,kappa) and (lambda*(1-kappa),0) give the same likelihood (non-DSPL)
  C03:ifu_flag:<t>           IFU-flagged lens ignores lambda_mst, other lenses ignore lambda_ifu
  C03:scaling_relation:<t>   (lambda,alpha,beta) and (lambda+alpha*x+beta*y,0,0) give the same likelihood
  C03:dspl_beta              DSPL evaluated at beta = Dds1/Ds1*Ds2/Dds2 of the cosmology
  C03:state_leak:<t>         A,B,A evaluation sequence: second A differs from the first
  C03:floor:<t>              lambda*(1-kappa) below 1e-4 is replaced by 1e-4 (boundary stream)
  C03:displace_formula       displace_prediction != (Ddt*lam(1-kap), Dd(1+gppn)/2, m+5log10(lam(1-kap)))
  C03:commute                PPN and MST steps do not commute / two MST steps do not compose multiplicatively
"""
import copy, json, sys, os, time, inspect
for _v in ("OMP_NUM_THREADS", "OPENBLAS_NUM_THREADS", "MKL_NUM_THREADS"):
    os.environ.setdefault(_v, "1")
sys.path.insert(0, os.path.dirname(os.path.abspath(__file__)))
from common import *  # noqa
import numpy as np

PROP = "C03"
C_KMS = 299792.458
A_AX = np.linspace(0.5, 5.0, 6)
G_AX = np.linspace(1.5, 2.5, 6)
SCALABLE = KIN_TYPES + ["DdtDdKDE", "DdtDdGaussian", "DsDdsGaussian"]
_cosmo_cache = {}


def get_cosmo(c):
    key = json.dumps(c, sort_keys=True)
    if key not in _cosmo_cache:
        from astropy.cosmology import FlatLambdaCDM, LambdaCDM, FlatwCDM
        if c["model"] == "FLCDM": a = FlatLambdaCDM(H0=c["H0"], Om0=c["Om"])
        elif c["model"] == "oLCDM": a = LambdaCDM(H0=c["H0"], Om0=c["Om"], Ode0=1.0 - c["Om"] - c["Ok"])
        else: a = FlatwCDM(H0=c["H0"], Om0=c["Om"], w0=c["w"])
        if c["interp"]:
            from lenstronomy.Cosmo.cosmo_interp import CosmoInterp
            a = CosmoInterp(cosmo=a, z_stop=6.0, num_interp=c["n"])
        _cosmo_cache[key] = a
    return _cosmo_cache[key]


def gen_cosmo(rng):
    model = ["FLCDM", "FLCDM", "oLCDM", "FwCDM"][int(rng.integers(4))]
    return dict(model=model, H0=float(np.round(rng.uniform(55, 90), 2)), Om=float(np.round(rng.uniform(0.15, 0.5), 3)),
                Ok=float(np.round(rng.uniform(-0.15, 0.15), 3)), w=float(np.round(rng.uniform(-1.4, -0.6), 3)),
                interp=bool(rng.random() < 0.7), n=int([80, 150, 300][int(rng.integers(3))]))


def D(cosmo, z):
    return fscalar(cosmo.angular_diameter_distance(z).value)


def D12(cosmo, z1, z2):
    return fscalar(cosmo.angular_diameter_distance_z1z2(z1, z2).value)


def gen_case(rng, t, cosmos, stream="main"):
    B = lambda p=0.5: bool(rng.random() < p)
    nlos = int(rng.integers(0, 3))
    zl = float(np.round(rng.uniform(0.15, 0.9), 3)); zs = float(np.round(rng.uniform(zl + 0.3, 3.0), 3))
    inp = dict(t=t, lens_seed=int(rng.integers(2 ** 31)), z_lens=zl, z_source=zs, z_source2=float(np.round(zs + rng.uniform(0.2, 2.0), 3)),
               x=float(np.round(rng.uniform(-1, 1), 3)), y=float(np.round(rng.uniform(-1, 1), 3)), mst_ifu=B(), normalized=B(),
               nlos=nlos, los_index=int(rng.integers(nlos)) if nlos else None, nkin=int(rng.integers(1, 4)),
               kin_scaling=(t in SCALABLE) and B(0.5), gamma_mode=["none", "global", "index"][int(rng.integers(3))] if t in ("DSPL",) + tuple(KIN_TYPES) else "none",
               prior=B(0.3), lam_dist=["NONE", "GAUSSIAN"][int(rng.integers(2))], cosmo=cosmos[int(rng.integers(len(cosmos)))], stream=stream,
               hp=dict(lam=float(rng.uniform(0.7, 1.3)), lifu=float(rng.uniform(0.7, 1.3)), al=float(rng.uniform(-.15, .15)), be=float(rng.uniform(-.15, .15)),
                       kap=float(rng.uniform(-.2, .3)) if nlos else 0.0, gppn=float(rng.uniform(0.3, 2.0)), mu=float(rng.uniform(18, 21)),
                       z_anchor=float(np.round(rng.uniform(0.05, 0.3), 3)), a_ani=float(rng.uniform(0.6, 4.9)), gamma_pl=float(rng.uniform(1.6, 2.4))))
    if stream == "floor":      # lambda*(1-kappa) just above / below the 1e-4 floor
        inp["nlos"], inp["los_index"] = max(nlos, 1), 0 if not nlos else inp["los_index"]
        target = float(1e-4 * rng.choice([0.5, 0.999, 1.0, 1.001, 2.0])) * (1 if rng.random() < 0.8 else -1)
        h = inp["hp"]; h["kap"] = float(rng.uniform(0.2, 0.6)); h["al"] = h["be"] = 0.0
        h["lam"] = h["lifu"] = target / (1 - h["kap"])
    return inp


def build(inp):
    from hierarc.Likelihood.hierarchy_likelihood import LensLikelihood
    rng = rng_of(inp["lens_seed"], 3)
    t = inp["t"]
    kw = lens_kwargs(t, rng, inp["nkin"])
    if t == "DSPL": kw["z_source2"] = inp["z_source2"]
    names, axes = [], []
    extra = {}
    if inp["kin_scaling"]:
        names.append("a_ani"); axes.append(A_AX)
        extra.update(anisotropy_model="OM", anisotropy_sampling=True, anisotropy_distribution="NONE")
    if inp["gamma_mode"] != "none" and t in KIN_TYPES:
        names.append("gamma_pl"); axes.append(G_AX)
    nmeas = inp["nkin"] if t in KIN_TYPES else 1
    grids = None
    if names:
        shape = tuple(len(a) for a in axes)
        grids = [rng.uniform(0.8, 1.25, size=shape) for _ in range(nmeas)]
        extra.update(kin_scaling_param_list=names, j_kin_scaling_param_axes=list(axes), j_kin_scaling_grid_list=grids)
    if inp["gamma_mode"] == "global": extra.update(gamma_pl_global_sampling=True, gamma_pl_global_dist="NONE")
    if inp["gamma_mode"] == "index": extra.update(gamma_pl_index=1)
    prior = None
    if inp["prior"]:
        prior = [["lambda_mst", 1.0, 0.1], ["gamma_ppn", 1.0, 0.5]]
        if inp["kin_scaling"]: prior.append(["a_ani", 2.0, 1.0])
        extra["prior_list"] = prior
    if inp["nlos"]:
        extra.update(global_los_distribution=inp["los_index"], los_distributions=["GAUSSIAN"] * inp["nlos"])
    ll = LensLikelihood(z_lens=inp["z_lens"], z_source=inp["z_source"], likelihood_type=t, lambda_scaling_property=inp["x"],
                        lambda_scaling_property_beta=inp["y"], mst_ifu=inp["mst_ifu"], alpha_lambda_sampling=True, beta_lambda_sampling=True,
                        lambda_mst_distribution=inp["lam_dist"], normalized=inp["normalized"], num_distribution_draws=7, **extra, **kw)
    # the same lens as a sample of one: the population-level switches travel through kwargs_global_model, the rest with the lens
    GLOBAL = ["anisotropy_model", "anisotropy_sampling", "anisotropy_distribution", "gamma_pl_global_sampling", "gamma_pl_global_dist", "los_distributions"]
    glob = dict(alpha_lambda_sampling=True, beta_lambda_sampling=True, lambda_mst_distribution=inp["lam_dist"], **{k: extra[k] for k in GLOBAL if k in extra})
    per_lens = dict(z_lens=inp["z_lens"], z_source=inp["z_source"], likelihood_type=t, lambda_scaling_property=inp["x"], lambda_scaling_property_beta=inp["y"],
                    mst_ifu=inp["mst_ifu"], num_distribution_draws=7, **{k: v for k, v in extra.items() if k not in GLOBAL}, **kw)
    build.sample_args = (per_lens, glob)
    return ll, kw, names, axes, grids, prior


class Recorder1(object):
    def __init__(self, ll):
        self.calls = []
        self.orig = ll._lens_type.log_likelihood
        sig = inspect.signature(self.orig)

        def f(*a, **k):
            self.calls.append(dict(sig.bind(*a, **k).arguments))
            return self.orig(*a, **k)
        ll._lens_type.log_likelihood = f


def interp_grid(names, axes, grid, vals):
    """independent multilinear interpolation on the regular grid (1-d: np.interp, 2-d: bilinear by hand)"""
    if len(names) == 1:
        return float(np.interp(vals[0], axes[0], grid))
    (x0, y0) = vals
    i = int(np.clip(np.searchsorted(axes[0], x0) - 1, 0, len(axes[0]) - 2)); j = int(np.clip(np.searchsorted(axes[1], y0) - 1, 0, len(axes[1]) - 2))
    tx = (x0 - axes[0][i]) / (axes[0][i + 1] - axes[0][i]); ty = (y0 - axes[1][j]) / (axes[1][j + 1] - axes[1][j])
    g = grid
    return float(g[i, j] * (1 - tx) * (1 - ty) + g[i + 1, j] * tx * (1 - ty) + g[i, j + 1] * (1 - tx) * ty + g[i + 1, j + 1] * tx * ty)


def same(a, b, rtol=1e-9, atol=1e-9):
    try:
        a = np.asarray(a, dtype=float); b = np.asarray(b, dtype=float)
        if a.size != b.size: return False
        a = a.reshape(-1); b = b.reshape(-1)
        return bool(np.all((a == b) | np.isclose(a, b, rtol=rtol, atol=atol)))
    except Exception:
        return False


def hyper(inp, hp, kap=None):
    """keyword arguments of lens_log_likelihood for sharp hyper-parameters hp"""
    kl = dict(lambda_mst=hp["lam"], lambda_ifu=hp["lifu"], alpha_lambda=hp["al"], beta_lambda=hp["be"], gamma_ppn=hp["gppn"],
              lambda_mst_sigma=0.0, lambda_ifu_sigma=0.0)
    if inp["gamma_mode"] == "global": kl["gamma_pl_mean"] = hp["gamma_pl"]
    if inp["gamma_mode"] == "index": kl["gamma_pl_list"] = [1.23, hp["gamma_pl"], 3.21]
    kk = dict(a_ani=hp["a_ani"]) if inp["kin_scaling"] else {}
    ks = dict(mu_sne=hp["mu"], sigma_sne=0, z_apparent_m_anchor=hp["z_anchor"])
    kap = hp["kap"] if kap is None else kap
    klos = None
    if inp["nlos"]:
        klos = [dict(mean=0.777, sigma=0.0) for _ in range(inp["nlos"])]   # only the population of the lens carries kappa
        klos[inp["los_index"]] = dict(mean=kap, sigma=0.0)
    return dict(kwargs_lens=kl, kwargs_kin=kk, kwargs_source=ks, kwargs_los=klos)


def run_case(rec, inp):
    t = inp["t"]; hp = inp["hp"]
    try:
        ll, kw, names, axes, grids, prior = build(inp)
        cosmo = get_cosmo(inp["cosmo"])
        r1 = Recorder1(ll)
    except Exception:
        rec.error("build failed %s: %s" % (json.dumps(jsonable(inp))[:200], traceback.format_exc(limit=3))); return
    zl, zs, zs2 = inp["z_lens"], inp["z_source"], inp["z_source2"]
    # ---- independent cosmological prediction
    dd = D(cosmo, zl); ds = D(cosmo, zs); dds = D12(cosmo, zl, zs)
    ddt = (1.0 + zl) * dd * ds / dds
    dl = 0.0
    if t in MAG_TYPES:
        za = hp["z_anchor"]
        dl = 5 * np.log10((1 + zs) ** 2 * ds) - 5 * np.log10((1 + za) ** 2 * D(cosmo, za))
    beta = None
    if t == "DSPL":
        # np.float64 like the library's own beta: a negative base ** fractional power is then NaN, not a complex number
        beta = np.float64(D12(cosmo, zl, zs) / D(cosmo, zs) * D(cosmo, zs2) / D12(cosmo, zl, zs2))

    def evaluate(hp_, kap=None, kwargs=None):
        r1.calls = []
        np.random.seed(12345)
        v = ll.lens_log_likelihood(cosmo, **(kwargs if kwargs is not None else hyper(inp, hp_, kap)))
        return fscalar(v), list(r1.calls)

    def expected(hp_, kap=None):
        kap = hp_["kap"] if kap is None else kap
        lam_l = (hp_["lifu"] if inp["mst_ifu"] else hp_["lam"]) + hp_["al"] * inp["x"] + hp_["be"] * inp["y"]
        lt = max(lam_l * (1.0 - kap), 1e-4)
        e = dict(lam_l=lam_l, lt=lt, ddt=ddt * lt, dd=dd * (1.0 + hp_["gppn"]) / 2.0, mu=hp_["mu"] + dl + 5 * np.log10(lt))
        vals = []
        for nm in names: vals.append(hp_["a_ani"] if nm == "a_ani" else hp_["gamma_pl"])
        e["kin_scaling"] = np.array([interp_grid(names, axes, g, vals) for g in grids]) if names else np.ones(1)
        e["gamma_pl"] = hp_["gamma_pl"] if inp["gamma_mode"] != "none" else 2
        pr = 0.0
        if prior:
            pv = dict(lambda_mst=lam_l, gamma_ppn=hp_["gppn"], a_ani=hp_["a_ani"])
            for nm, mean, sig in prior: pr -= (pv[nm] - mean) ** 2 / (2 * sig ** 2)
        e["prior"] = pr
        return e

    def data_like(e):
        ref = r1.orig
        if t in ["DdtGaussian", "DdtLogNorm", "DdtHist", "DdtHistKDE"]: return ref(e["ddt"], e["dd"])
        if t in ["DdtDdKDE", "DdtDdGaussian", "DsDdsGaussian"]: return ref(e["ddt"], e["dd"], kin_scaling=e["kin_scaling"])
        if t in KIN_TYPES: return ref(e["ddt"], e["dd"], kin_scaling=e["kin_scaling"], sigma_v_sys_error=None)
        if t == "Mag": return ref(mu_intrinsic=e["mu"])
        if t in ["TDMag", "TDMagMagnitude"]: return ref(ddt=e["ddt"], mu_intrinsic=e["mu"])
        if t == "DSPL": return ref(beta_dsp=beta, gamma_pl=e["gamma_pl"], lambda_mst=e["lam_l"])

    def closed_form(e):
        if t == "DdtGaussian": return -(e["ddt"] - kw["ddt_mean"]) ** 2 / (2 * kw["ddt_sigma"] ** 2)
        if t == "DdtDdGaussian":
            d_ = e["dd"] * e["kin_scaling"][0]
            return -(e["ddt"] - kw["ddt_mean"]) ** 2 / (2 * kw["ddt_sigma"] ** 2) - (d_ - kw["dd_mean"]) ** 2 / (2 * kw["dd_sigma"] ** 2)
        if t == "DsDdsGaussian":
            r = e["ddt"] / e["dd"] / (1 + zl) / e["kin_scaling"][0]
            return -(r - kw["ds_dds_mean"]) ** 2 / (2 * kw["ds_dds_sigma"] ** 2)
        if t == "DdtLogNorm":
            return -0.5 * (np.log(e["ddt"]) - kw["ddt_mu"]) ** 2 / kw["ddt_sigma"] ** 2 - np.log(e["ddt"]) - 0.5 * np.log(kw["ddt_sigma"] ** 2)
        if t == "IFUKinCov":
            r = max(e["ddt"] / e["dd"] / (1 + zl), 0.0); s = e["kin_scaling"] * np.ones(len(kw["j_model"]))
            pred = np.sqrt(np.array(kw["j_model"]) * r * s) * C_KMS
            cov = np.array(kw["error_cov_measurement"]) + np.array(kw["error_cov_j_sqrt"]) * np.outer(np.sqrt(s), np.sqrt(s)) * r * C_KMS ** 2
            dlt = np.array(kw["sigma_v_measurement"]) - pred
            v = -0.5 * dlt @ np.linalg.solve(cov, dlt)
            if inp["normalized"]: v -= 0.5 * (len(dlt) * np.log(2 * np.pi) + np.linalg.slogdet(cov)[1])
            return v
        if t == "DSPL":
            ratio = (beta - (1 - e["lam_l"]) * (1 - beta)) ** (1.0 / (e["gamma_pl"] - 1.0))
            v = -0.5 * ((ratio - kw["beta_dspl"]) / kw["sigma_beta_dspl"]) ** 2
            if inp["normalized"]: v -= 0.5 * np.log(2 * np.pi * kw["sigma_beta_dspl"] ** 2)
            return v
        return None

    def args_ok(call, e):
        exp = {}
        if t in ["DdtGaussian", "DdtLogNorm", "DdtHist", "DdtHistKDE"]: exp = dict(ddt=e["ddt"], dd=e["dd"])
        elif t in ["DdtDdKDE", "DdtDdGaussian", "DsDdsGaussian"] + KIN_TYPES: exp = dict(ddt=e["ddt"], dd=e["dd"], kin_scaling=e["kin_scaling"])
        elif t == "Mag": exp = dict(mu_intrinsic=e["mu"])
        elif t in ["TDMag", "TDMagMagnitude"]: exp = dict(ddt=e["ddt"], mu_intrinsic=e["mu"])
        elif t == "DSPL": exp = dict(beta_dsp=beta, gamma_pl=e["gamma_pl"], lambda_mst=e["lam_l"])
        bad = {k: (jsonable(call.get(k)), jsonable(v)) for k, v in exp.items() if not (k in call and same(call[k], v, rtol=1e-11, atol=0))}
        return bad

    def vio(key, what, observed, required, **more):
        rec.violation(key, what, dict(inp, **more), observed, required)

    rec.case({k: inp[k] for k in inp if k != "cosmo"}, kind="%s/%s" % (inp["stream"], t))
    # ---- 1. wiring at the sampled hyper-parameters
    try:
        v, calls = evaluate(hp)
    except Exception as e:
        key = "C03:raises:DdtDdKDE_los_draw" if (t == "DdtDdKDE" and inp["nlos"] and "inhomogeneous" in repr(e)) else "C03:raises:" + t
        vio(key, "sharp evaluation raised", repr(e)[:200], "a value"); return
    e = expected(hp)
    fl = inp["stream"] == "floor"
    if len(calls) != 1:
        vio("C03:n_calls:" + t, "sharp hyper-parameters: exactly one data-likelihood evaluation", len(calls), 1); return
    with np.errstate(all="ignore"):
        ref = fscalar(data_like(e)) + e["prior"]
        cf = closed_form(e)
    # tolerance: identical float operations up to re-association of lam*(1-kap) -> a few ulp on the distances; the
    # likelihoods amplify by at most ~1e4 (chi^2 ~ 1e4): 1e-9 relative is ample.  A NaN data likelihood (DSPL with a
    # negative base) is C02's business (nan_to_num) and skipped here; -inf is returned as -1.8e308.
    if not np.isnan(ref):
        okv = same(v, ref) if np.isfinite(ref) else (v < -1e300)
        if not okv:
            vio(("C03:floor:" if fl else "C03:wiring_value:") + t, "lens likelihood != data likelihood at the rescaled distances (+prior)", v, ref, lam_lens=e["lam_l"], lam_tot=e["lt"])
    bad = args_ok(calls[0], e)
    if bad: vio(("C03:floor:" if fl else "C03:wiring_args:") + t, "arguments handed to the data likelihood (got, expected)", bad, "rescaled cosmological prediction")
    if t == "DSPL" and not same(calls[0].get("beta_dsp"), beta, rtol=1e-12, atol=0):
        vio("C03:dspl_beta", "DSPL must be evaluated at the cosmological beta", jsonable(calls[0].get("beta_dsp")), beta)
    if cf is not None and np.isfinite(cf):
        # closed forms use np.linalg.solve instead of inv: 1e-8 relative
        if not same(v, fscalar(cf) + e["prior"], rtol=1e-8, atol=1e-8):
            vio("C03:closed_form:" + t, "value != closed formula at the rescaled distances", v, fscalar(cf) + e["prior"])
    # ---- 1b. the same lens reached the standard way, as a sample of one lens with the population switches in the global model settings
    if inp["gamma_mode"] != "index":
        try:
            from hierarc.Likelihood.lens_sample_likelihood import LensSampleLikelihood
            per_lens, glob = build.sample_args
            sl = LensSampleLikelihood([per_lens], normalized=inp["normalized"], kwargs_global_model=glob)
            np.random.seed(12345)
            vs_ = fscalar(sl.log_likelihood(cosmo, **hyper(inp, hp)))
            if np.isfinite(v) and not same(vs_, v):
                vio("C03:sample_route:" + t, "the lens evaluated as a sample of one (population switches passed in kwargs_global_model) != the same lens evaluated alone", vs_, v, lam_lens=e["lam_l"])
        except Exception as ex:
            vio("C03:raises:sample_route:" + t, "the lens evaluated as a sample of one raised", repr(ex)[:200], "a value")
    if inp["stream"] == "floor": return
    # ---- 2. neutral values
    hp0 = dict(hp, lam=1.0, lifu=1.0, al=0.0, be=0.0, kap=0.0, gppn=1.0)
    try:
        v0, c0 = evaluate(hp0)
        e0 = expected(hp0)
        raw = dict(e0, ddt=ddt, dd=dd, mu=hp["mu"] + dl, lam_l=1.0)
        bad = args_ok(c0[0], raw) if len(c0) == 1 else {"calls": len(c0)}
        if bad: vio("C03:neutral:" + t, "neutral values must hand the unchanged cosmological prediction to the data likelihood (got, expected)", bad, "unchanged", neutral="explicit")
        # defaults: no lens hyper-parameters at all
        kwd = hyper(inp, hp0); kwd["kwargs_lens"] = {k: v_ for k, v_ in kwd["kwargs_lens"].items() if k.startswith("gamma_pl")} or None
        if inp["nlos"] == 0: kwd["kwargs_los"] = None
        v1, c1 = evaluate(hp0, kwargs=kwd)
        if not same(v1, v0, rtol=1e-12, atol=1e-12):
            vio("C03:neutral:" + t, "defaulted hyper-parameters must equal the explicit neutral values", v1, v0, neutral="default")
    except Exception as ex:
        vio("C03:raises:" + t, "neutral evaluation raised", repr(ex)[:200], "a value")
    # ---- 3. degeneracy (non-DSPL): (lam_l, kap) ~ (lam_l*(1-kap), 0)
    try:
        if t != "DSPL":
            lt = e["lam_l"] * (1 - hp["kap"])
            hpd = dict(hp, lam=lt, lifu=lt, al=0.0, be=0.0, kap=0.0)
            vd, cd = evaluate(hpd)
            prd = expected(hpd)["prior"]
            # one extra rounding of lam*(1-kap): relative 1e-16 on Ddt, amplified by d lnL/d ln Ddt <~ 1e5
            if not same(vd - prd, v - e["prior"], rtol=1e-8, atol=1e-8):
                vio("C03:degeneracy:" + t, "(lambda,kappa) and (lambda(1-kappa),0) must give the same likelihood", vd - prd, v - e["prior"])
    except Exception as ex:
        vio("C03:raises:" + t, "degenerate evaluation raised", repr(ex)[:200], "a value")
    # ---- 4. IFU flag routing
    try:
        other = dict(hp); other["lam" if inp["mst_ifu"] else "lifu"] = hp["lam" if inp["mst_ifu"] else "lifu"] + 0.37
        vi, ci = evaluate(other)
        pri = expected(other)["prior"]
        if not same(vi, v, rtol=1e-12, atol=1e-12):
            vio("C03:ifu_flag:" + t, "the lambda of the OTHER population must not enter (IFU lens <- lambda_ifu, else lambda_mst)", vi, v, changed="lambda_mst" if inp["mst_ifu"] else "lambda_ifu")
    except Exception as ex:
        vio("C03:raises:" + t, "evaluation raised", repr(ex)[:200], "a value")
    # ---- 5. scaling relation: lam + al*x + be*y only enters as a sum
    try:
        hps = dict(hp, al=0.0, be=0.0); hps["lifu" if inp["mst_ifu"] else "lam"] = e["lam_l"]
        vs, cs = evaluate(hps)
        if not same(vs, v, rtol=1e-8, atol=1e-8):
            vio("C03:scaling_relation:" + t, "(lambda,alpha,beta) and (lambda+alpha*x+beta*y,0,0) must agree", vs, v)
    except Exception as ex:
        vio("C03:raises:" + t, "evaluation raised", repr(ex)[:200], "a value")
    # ---- 6. A,B,A
    try:
        va, _ = evaluate(hp)
        if not same(va, v, rtol=0, atol=0): vio("C03:state_leak:" + t, "re-evaluating the first hyper-parameters after others gives another value", va, v)
    except Exception as ex:
        vio("C03:raises:" + t, "evaluation raised", repr(ex)[:200], "a value")


def run_displace(rec, inp):
    """displace_prediction against the formula; commutation / multiplicativity (relational)"""
    from hierarc.Likelihood.transformed_cosmography import TransformedCosmography
    tc = TransformedCosmography(z_lens=0.5, z_source=1.5)
    ddt, dd, g, lam, kap, m = inp["ddt"], inp["dd"], inp["g"], inp["lam"], inp["kap"], inp["m"]
    rec.case(inp, kind="displace")
    try:
        a = tc.displace_prediction(ddt, dd, gamma_ppn=g, lambda_mst=lam, kappa_ext=kap, mag_source=m)
        lt = max(lam * (1 - kap), 1e-4)
        ref = (ddt * lt, dd * (1 + g) / 2.0, m + 5 * np.log10(lt))
        rec.check(same(a, ref, rtol=1e-13, atol=0), "C03:displace_formula", "displace_prediction", inp, a, ref)
        n = tc.displace_prediction(ddt, dd, gamma_ppn=1, lambda_mst=1, kappa_ext=0, mag_source=m)
        rec.check(same(n, (ddt, dd, m), rtol=0, atol=0) and same(tc.displace_prediction(ddt, dd), (ddt, dd, 0), rtol=0, atol=0),
                  "C03:neutral:displace", "neutral values leave the triple unchanged", inp, n, (ddt, dd, m))
        # PPN then MST == MST then PPN
        p1 = tc._displace_ppn(ddt, dd, gamma_ppn=g); o1 = tc._displace_lambda_mst(p1[0], p1[1], lambda_mst=lam, kappa_ext=kap, mag_source=m)
        q1 = tc._displace_lambda_mst(ddt, dd, lambda_mst=lam, kappa_ext=kap, mag_source=m); o2 = tc._displace_ppn(q1[0], q1[1], gamma_ppn=g) + (q1[2],)
        rec.check(same(o1, o2, rtol=1e-14, atol=0) and same(o1, a, rtol=1e-14, atol=0), "C03:commute", "PPN and MST steps commute", inp, [o1, o2], "equal")
        # two MST steps compose multiplicatively; kappa alone == lambda alone
        lam2 = inp["lam2"]
        if lam * lam2 >= 1e-4 and lam >= 1e-4 and lam2 >= 1e-4:
            s1 = tc.displace_prediction(ddt, dd, lambda_mst=lam, mag_source=m); s2 = tc.displace_prediction(s1[0], s1[1], lambda_mst=lam2, mag_source=s1[2])
            s12 = tc.displace_prediction(ddt, dd, lambda_mst=lam * lam2, mag_source=m)
            rec.check(same(s2, s12, rtol=1e-13, atol=1e-13), "C03:commute", "MST(lam1) then MST(lam2) == MST(lam1*lam2)", inp, s2, s12)
        k1 = tc.displace_prediction(ddt, dd, gamma_ppn=g, lambda_mst=lam * (1 - kap), kappa_ext=0, mag_source=m)
        rec.check(same(k1, a, rtol=1e-13, atol=1e-13), "C03:degeneracy:displace", "(lambda,kappa) and (lambda(1-kappa),0) displace identically", inp, k1, a)
    except Exception as e:
        rec.violation("C03:raises:displace", "displace_prediction raised", inp, repr(e)[:200], "a triple")


def run_kde_los_witness(rec):
    """regression witness (repaired by 377b90b): DdtDdKDE lens with a line-of-sight population carrying kappa"""
    inp = dict(t="DdtDdKDE", lens_seed=1, z_lens=0.5, z_source=2.0, z_source2=3.0, x=0.3, y=-0.2, mst_ifu=False, normalized=False, nlos=1, los_index=0, nkin=1,
               kin_scaling=False, gamma_mode="none", prior=False, lam_dist="GAUSSIAN", cosmo=dict(model="FLCDM", H0=70., Om=0.3, Ok=0., w=-1., interp=True, n=150),
               stream="main", hp=dict(lam=1.05, lifu=0.9, al=0.1, be=-0.05, kap=0.08, gppn=1.2, mu=19., z_anchor=0.1, a_ani=1., gamma_pl=2.))
    run_case(rec, inp)


def main():
    args = parse_args(PROP)
    rec = Recorder(PROP, args.tier, args.seed, rule="14 lens types x random data/flags/cosmologies, sharp hyper-parameters: likelihood == data likelihood at independently "
                   "rescaled distances (value, recorded arguments, closed forms), neutral, degeneracy, IFU routing, scaling relation, DSPL beta, floor, displace algebra")
    if args.replay:
        with open(args.replay) as f: rp = json.load(f)
        inp = unjson(rp["input"])
        for k in ("lam_lens", "lam_tot", "neutral", "changed"): inp.pop(k, None)
        rec.guard(run_displace if "ddt" in inp else run_case, rec, inp)
        rec.write(args.out); return
    rng = rng_of(args.seed, 3)
    cosmos = [gen_cosmo(rng) for _ in range(5 if args.tier == "quick" else 12)]
    rec.guard(run_kde_los_witness, rec)
    t0 = time.process_time(); budget = 2 * 24 if args.tier == "quick" else 300
    n_round = 200 if args.tier == "quick" else 4000   # until the time budget
    for k in range(300 if args.tier == "quick" else 3000):
        lam = float(rng.uniform(0.3, 1.8)) if k % 5 else float(rng.choice([1e-5, 1e-4, 2e-4, 1.0, -0.5]))
        rec.guard(run_displace, rec, dict(ddt=float(rng.uniform(100, 9000)), dd=float(rng.uniform(100, 2000)), g=float(rng.uniform(0, 3)), lam=lam,
                                          kap=float(rng.uniform(-0.5, 0.9)), m=float(rng.uniform(15, 25)), lam2=float(rng.uniform(0.3, 1.8))))
    for r in range(n_round):
        for t in TYPES:
            stream = "floor" if (r % 7 == 6) else "main"
            rec.guard(run_case, rec, gen_case(rng, t, cosmos, stream))
        if time.process_time() - t0 > budget: break
    rec.write(args.out)


if __name__ == "__main__":
    main()
