#!/venv/bin/python
"""Certified correspondence for C05: the distances that come out of the REAL hierArc path
    CosmoLikelihood(...).param.args2kwargs(args) -> CosmoLikelihood.cosmo_instance(kwargs_cosmo) -> cosmo.angular_diameter_distance*(z)
(plain astropy when interpolate_cosmo=False, lenstronomy CosmoInterp when True) are compared with the Friedmann specification
coq/C05/Flrw.v (Coquelicot RInt) by KERNEL-CHECKED interval arithmetic: for every case a lemma
    Rabs (Flrw.DA12 H0 om ok w0 wa z1 z2 - <observed float>) <= tol * <observed float>
is generated and closed by Interval's `integral` tactic. A lemma that does not check is a mismatch (model and code disagree).
Inputs are short decimals so that the Coq rationals are the numbers Python used (to 1 ulp)."""
import os, sys, json, time, subprocess, argparse
sys.path.insert(0, os.path.dirname(os.path.abspath(__file__)))
from common import rng_of, fscalar
import numpy as np

VERIF = os.path.dirname(os.path.dirname(os.path.abspath(__file__)))
BOUNDS = dict(kwargs_lower_cosmo=dict(h0=0, om=0, ok=-1, w=-3, w0=-3, wa=-3), kwargs_upper_cosmo=dict(h0=200, om=1, ok=1, w=1, w0=1, wa=3),
              kwargs_lower_source=dict(mu_sne=0), kwargs_upper_source=dict(mu_sne=40))


def frac(x, nd):
    """decimal with nd digits -> (python float, Coq rational text)"""
    n = int(round(x * 10 ** nd))
    return n / 10 ** nd, "(%d / %d)" % (n, 10 ** nd)


def gen_case(rng, model, closed):
    h0 = frac(rng.uniform(50, 90), 1)
    om = frac(rng.uniform(0.15, 0.5), 2)
    ok = frac(0, 2); w0 = frac(-1, 2); wa = frac(0, 2)
    if model == "FwCDM":
        w0 = frac(rng.uniform(-1.5, -0.6), 2)
    if model == "w0waCDM":
        w0 = frac(rng.uniform(-1.3, -0.7), 2); wa = frac(rng.uniform(-0.5, 0.4), 2)
    if model == "oLCDM":
        ok = frac(rng.uniform(-0.25, -0.05) if closed else rng.uniform(0.05, 0.3), 2)
    zl = frac(rng.uniform(0.1, 0.9), 2)
    zs = frac(zl[0] + rng.uniform(0.3, 2.0), 2)
    return dict(model=model, h0=h0, om=om, ok=ok, w0=w0, wa=wa, zl=zl, zs=zs)


def args_of(c):
    m = c["model"]
    if m == "FLCDM": return [c["h0"][0], c["om"][0]]
    if m == "FwCDM": return [c["h0"][0], c["om"][0], c["w0"][0]]
    if m == "w0waCDM": return [c["h0"][0], c["om"][0], c["w0"][0], c["wa"][0]]
    if m == "oLCDM": return [c["h0"][0], c["om"][0], c["ok"][0]]


def observe(c, interp, n_interp):
    from hierarc.Likelihood.cosmo_likelihood import CosmoLikelihood
    lens = dict(z_lens=c["zl"][0], z_source=c["zs"][0], likelihood_type="DdtGaussian", ddt_mean=3000., ddt_sigma=100.)
    cl = CosmoLikelihood([lens], c["model"], {}, BOUNDS, interpolate_cosmo=interp, num_redshift_interp=n_interp)
    kw = cl.param.args2kwargs(args_of(c))[0]
    cosmo = cl.cosmo_instance(kw)
    zl, zs = c["zl"][0], c["zs"][0]
    return dict(dl=fscalar(cosmo.angular_diameter_distance(zl).value), ds=fscalar(cosmo.angular_diameter_distance(zs).value),
                dls=fscalar(cosmo.angular_diameter_distance_z1z2(zl, zs).value))


def coq_float(x):
    from decimal import Decimal
    d = Decimal(repr(float(x)))
    s, digits, e = d.as_tuple()
    m = int("".join(map(str, digits))) * (-1 if s else 1)
    return "(%d / %d)" % (m, 10 ** (-e)) if e < 0 else "(%d)" % (m * 10 ** e)


def lemma(name, c, z1, z2, obs, tol):
    P = "%s %s %s %s %s" % (c["h0"][1], c["om"][1], c["ok"][1], c["w0"][1], c["wa"][1])
    ok = c["ok"][0]
    rw = "rewrite sk_zero by lra" if ok == 0 else ("rewrite sk_open by lra" if ok > 0 else "rewrite sk_closed by lra")
    return ("Lemma %s : Rabs (DA12 %s %s %s - %s) <= %s * %s.\nProof. unfold DA12. %s. unfold chi, E2, ckm. integral with (i_relwidth 40, i_prec 60). Qed.\n"
            % (name, P, z1, z2, coq_float(obs), tol, coq_float(obs), rw))


def main():
    ap = argparse.ArgumentParser()
    ap.add_argument("--tier", default="quick"); ap.add_argument("--seed", type=int, default=0)
    ap.add_argument("--out", required=True); ap.add_argument("--builddir", required=True)
    a = ap.parse_args()
    t0 = time.time()
    rng = rng_of(a.seed, 505)
    nper = 1 if a.tier == "quick" else 4
    cases, dist = [], {}
    for model, closed in [("FLCDM", False), ("FwCDM", False), ("w0waCDM", False), ("oLCDM", False), ("oLCDM", True)]:
        for k in range(nper):
            cases.append(gen_case(rng, model, closed))
    lemmas, meta, errors = [], [], []
    for i, c in enumerate(cases):
        for interp in (False, True):
            try:
                o = observe(c, interp, 300)
            except Exception as e:       # the real code raising on a valid input is a disagreement with the specification too
                errors.append(dict(case="case%d_%s" % (i, "interp" if interp else "exact"), input={k: (v[0] if isinstance(v, tuple) else v) for k, v in c.items()},
                                   observed="raised %r" % (e,)))
                continue
            tol = "(1 / 500)" if interp else "(1 / 10000000)"       # 2e-3: linear interpolation on 300 nodes; 1e-7: quadrature + rounding
            for nm, z1, z2, key in (("dl", "0", c["zl"][1], "dl"), ("ds", "0", c["zs"][1], "ds"), ("dls", c["zl"][1], c["zs"][1], "dls")):
                name = "case%d_%s_%s" % (i, "interp" if interp else "exact", nm)
                lemmas.append((name, lemma(name, c, z1, z2, o[key], tol)))
                meta.append(dict(case=name, model=c["model"], input={k: (v[0] if isinstance(v, tuple) else v) for k, v in c.items()}, observed=o[key], tol=tol))
            k = "%s:%s" % (c["model"] + ("(closed)" if c["ok"][0] < 0 else "(open)" if c["ok"][0] > 0 else ""), "interp" if interp else "exact")
            dist[k] = dist.get(k, 0) + 3
    # one Coq file per lemma group so that a failing lemma is identified; run in parallel
    hdr = ("From Coq Require Import Reals Lra.\nFrom Coquelicot Require Import Coquelicot.\nFrom Interval Require Import Tactic.\n"
           "Require Import C05.Flrw.\nOpen Scope R_scope.\n")
    bd = a.builddir
    procs = []
    for name, txt in lemmas:
        fn = os.path.join(bd, "Corr_%s.v" % name)
        open(fn, "w").write(hdr + txt)
    mismatches = []
    # Flrw.vo must exist (compiled by the driver before the correspondence step)
    names = [n for n, _ in lemmas]
    from concurrent.futures import ThreadPoolExecutor
    def run(n):
        p = subprocess.run("timeout 120 coqc -q -Q %s Py -Q . C05 Corr_%s.v" % (os.path.join(VERIF, "coq", "Base"), n), shell=True, cwd=bd,
                           stdout=subprocess.PIPE, stderr=subprocess.PIPE, text=True)
        return n, p.returncode, p.stderr[-400:]
    with ThreadPoolExecutor(max_workers=12) as ex:
        for n, rc, err in ex.map(run, names):
            if rc != 0:
                m = next(x for x in meta if x["case"] == n)
                mismatches.append(dict(case=n, detail=err.strip().splitlines()[-1] if err.strip() else "coqc rc=%d" % rc, **{k: m[k] for k in ("model", "input", "observed", "tol")}))
    for e in errors:
        mismatches.append(dict(case=e["case"], detail="hierArc raised", input=e["input"], observed=e["observed"]))
    for f in os.listdir(bd):
        if f.startswith("Corr_") and not f.endswith(".v"):
            try: os.remove(os.path.join(bd, f))
            except OSError: pass
    out = dict(cases=len(lemmas), certified=len(lemmas) - len([m for m in mismatches if not m["detail"].startswith("hierArc")]),
               method="Interval `integral` (kernel-checked enclosure of the Friedmann integral) vs. values observed through CosmoLikelihood.cosmo_instance",
               distribution=dist, samples=meta[:6], mismatches=mismatches, wall_s=round(time.time() - t0, 1))
    json.dump(out, open(a.out, "w"), indent=1)
    print("corr C05: %d lemmas, %d mismatches, %.0fs" % (len(lemmas), len(mismatches), time.time() - t0))


if __name__ == "__main__":
    main()
