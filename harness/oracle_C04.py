"""Implementation-level oracle for C04:
   "Population scatter is marginalised by an unbiased N-draw mean of the likelihood".

For every scatter parameter x every lens flagging that makes it applicable (and the flaggings that make it NOT
applicable) a real LensLikelihood is built; `lens._lens_type.log_likelihood` and `lens._prior.log_likelihood` are
wrapped ON THE INSTANCE to count evaluations and to record the per-draw values l_i = data_i + prior_i.

Sub-checks / violation keys (<c> = case name, e.g. "a_ani_sigma/kin")
  C04:raises:<c>               evaluation raised                (C04:raises:DdtDdKDE_los_draw: regression witness)
  C04:n_evals:<c>              applicable non-zero scatter: number of data-likelihood evaluations != int(num_distribution_draws)
  C04:estimator:<c>            value != log( sum_i exp(l_i) / N ) recomputed (max-shifted) from the recorded l_i
  C04:bounds:<c>               value outside [max_i l_i - log N, max_i l_i]  (any mean of L obeys this)
  C04:underflow:<c>            finite l_i recorded but the result is -inf / -1.8e308 (very low likelihoods, l ~ -11848)
  C04:no_scatter_drawn:<c>     applicable scatter but all N recorded values are identical (no draw reached the data)
  C04:seeds_equal:<c>          two different numpy seeds give the same marginalised value
  C04:not_reproducible:<c>     the same numpy seed gives two different values (hidden state)
  C04:sharp_n_evals:<c>        all scatters zero: != 1 evaluation
  C04:sharp_nondeterministic:<c>  all scatters zero: value depends on the seed
  C04:small_scatter_limit:<c>  scatter -> 0 does not converge to the sharp value
  C04:state_leak:<c>           sharp call after a marginalised call (or vice versa) behaves differently from a fresh one
  C04:kwargs_mutated:<c>       the hyper-parameter dictionaries were modified by the call
  C04:reference_integral:<c>   N=4000 estimate outside the 5-sigma Monte-Carlo band of the population integral of L
                               (closed form for Gaussian lambda / kappa on a Gaussian Ddt, trapezoid quadrature otherwise)
  C04:error_scaling            Var over seeds at N vs 4N not in ratio ~4 (1/sqrt(N))
  C04:draw_distribution:<c>    the realised parameters of the draws (recorded at draw_lens / draw_anisotropy / draw_los inside an N=4000
                               evaluation, and 40000 further draws taken directly from the lens' own distribution objects) do not follow
                               the DECLARED distribution: N(mean, sigma) [sigma*a_ani for GAUSSIAN_SCALED], truncated and renormalised to
                               the interpolation range when the parameter is interpolated (out-of-range draws are re-drawn), GEV / tabulated
                               PDF for the line of sight (Kolmogorov-Smirnov, p < 1e-7)
  <c> ending in "/edge"        the population mean sits 0.4-1.2 sigma from an edge of the interpolation grid, so that 10-35 % of the raw
                               draws are rejected and re-drawn (a_ani GAUSSIAN / GAUSSIAN_SCALED, beta_inf, gamma_in, log_m2l; joint/GOM/edge:
                               a_ani scattered away from its edges while beta_inf re-draws trigger the joint re-draw); these cases run
                               through the matrix, the population integral (truncated quadrature) and the draw-distribution check
  C04:holds_n_evals:<c>        scatter of ANOTHER line-of-sight population / no LOS on this lens: must stay 1 evaluation
  C04:inapplicable_changes_value:<c>  an inapplicable scatter changes the value / makes it seed dependent
  C04:inapplicable_scatter_costs_N         (KNOWN FINDING) inapplicable non-zero scatter costs N evaluations instead of 1
  C04:ifu_scatter_needs_mst_distribution   (KNOWN FINDING) IFU lens, lambda_ifu_sigma>0, lambda_mst_distribution!="GAUSSIAN":
                                           N identical evaluations, no scatter drawn
"""
import copy, json, sys, os, time
for _v in ("OMP_NUM_THREADS", "OPENBLAS_NUM_THREADS", "MKL_NUM_THREADS"):
    os.environ.setdefault(_v, "1")
sys.path.insert(0, os.path.dirname(os.path.abspath(__file__)))
from common import *  # noqa
import numpy as np

PROP = "C04"
C_KMS = 299792.458
ZL, ZS = 0.5, 2.0
AX = dict(a_ani=np.linspace(0.1, 5.0, 6), beta_inf=np.linspace(0.0, 1.0, 5), gamma_in=np.linspace(0.2, 2.2, 6),
          log_m2l=np.linspace(0.0, 1.0, 5), gamma_pl=np.linspace(1.5, 2.5, 6))
_cosmo = {}


def cosmo0():
    if "c" not in _cosmo:
        _cosmo["c"] = cosmo_interp()
        c = _cosmo["c"]
        dd = fscalar(c.angular_diameter_distance(ZL).value); ds = fscalar(c.angular_diameter_distance(ZS).value)
        dds = fscalar(c.angular_diameter_distance_z1z2(ZL, ZS).value)
        _cosmo.update(dd=dd, ds=ds, dds=dds, ddt=(1 + ZL) * dd * ds / dds)
    return _cosmo["c"]


APPLICABLE = ["lambda_mst_sigma/nonIFU", "lambda_ifu_sigma/IFU", "a_ani_sigma/kin", "beta_inf_sigma/GOM", "gamma_in_sigma/kin", "log_m2l_sigma/kin",
              "gamma_pl_sigma/global/kin", "gamma_pl_sigma/global/DSPL", "sigma_sne/mag", "los_global_sigma/GAUSSIAN", "los_global_sigma/GEV",
              "los_individual/PDF", "los_individual/GEV", "joint/kin", "nonfinite_draws/DSPL",
              "a_ani_sigma/kin/edge", "beta_inf_sigma/GOM/edge", "joint/GOM/edge", "gamma_in_sigma/kin/edge", "log_m2l_sigma/kin/edge",
              "joint/lens/edge"]
INAPPLICABLE = ["lambda_mst_sigma/IFU", "lambda_ifu_sigma/nonIFU", "lambda_mst_sigma/nonIFU/dist_NONE", "a_ani_sigma/no_kin_scaling", "a_ani_sigma/dist_NONE",
                "a_ani_sigma/not_sampled", "beta_inf_sigma/OM", "gamma_in_sigma/not_sampled", "log_m2l_sigma/not_sampled", "gamma_pl_sigma/not_global", "sigma_sne/nonmag"]
KNOWN_IFU = ["lambda_ifu_sigma/IFU/mst_dist_NONE"]
HOLDS = ["los_other_population_sigma", "los_sigma/no_los_on_lens"]
NON_MAG = [t for t in TYPES if t not in MAG_TYPES]


def kin_data(rng, n, good_fit):
    kw = kin_kw(rng, n)
    if good_fit:   # self-consistent data: prediction 200-300 km/s, 12 km/s measurement and ~5 km/s model error, measurement
        cosmo0()   # within 2% of the prediction at the test cosmology (lnL of order -10, no heavy-tailed per-draw likelihood)
        r = _cosmo["ds"] / _cosmo["dds"]
        kw["j_model"] = list((rng.uniform(200, 300, n) / C_KMS) ** 2 / r)
        kw["error_cov_j_sqrt"] = pd(rng, n, 5.0 / (C_KMS * np.sqrt(r)))
        pred = np.sqrt(np.array(kw["j_model"]) * r) * C_KMS
        kw["sigma_v_measurement"] = list(pred * (1 + rng.normal(0, 0.02, n)))
    return kw


def good_fit_adjust(tt, d, rng):
    """move the data of a lens onto the prediction of the test cosmology (so that lnL is of order -1..-20 and the
    per-draw likelihoods have no heavy tail); kinematic parts are handled by kin_data"""
    cosmo0(); ddt, dd, ds, dds = _cosmo["ddt"], _cosmo["dd"], _cosmo["ds"], _cosmo["dds"]
    f = 1 + rng.normal(0, 0.02)
    if "ddt_samples" in d: d["ddt_samples"] = d["ddt_samples"] + (ddt * f - 4000.)
    if "dd_samples" in d: d["dd_samples"] = d["dd_samples"] + (dd * f - 1200.)
    if "ddt_mean" in d: d["ddt_mean"], d["ddt_sigma"] = ddt * f, 0.06 * ddt
    if "dd_mean" in d: d["dd_mean"], d["dd_sigma"] = dd * f, 0.07 * dd
    if "ds_dds_mean" in d: d["ds_dds_mean"], d["ds_dds_sigma"] = ds / dds * f, 0.08 * ds / dds
    if "ddt_mu" in d: d["ddt_mu"] = float(np.log(ddt * f))
    return d


def grid_for(rng, names, n):
    shape = tuple(len(AX[k]) for k in names)
    return dict(kin_scaling_param_list=list(names), j_kin_scaling_param_axes=[AX[k] for k in names],
                j_kin_scaling_grid_list=[rng.uniform(0.85, 1.2, size=shape) for _ in range(n)])


def make_case(inp):
    """-> dict(lens=LensLikelihood kwargs, hyper=sharp hyper-parameter kwargs, sig=[(block, key, value)], kind=...)
    block in kwargs_lens/kwargs_kin/kwargs_source or ("kwargs_los", k)."""
    c = inp["case"]; rng = rng_of(inp["pseed"], 41); t = inp.get("t")
    good = bool(inp.get("good_fit", False))
    lens = dict(z_lens=ZL, z_source=ZS, num_distribution_draws=inp["N_arg"], normalized=bool(rng.random() < 0.5))
    # log_scatter (the SAMPLER walks in log10 of the scatter amplitudes; ParamManager hands linear widths to the lenses) must not change
    # what a lens does with the linear width it is given (own stream: the other draws of the case stay as they were)
    if rng_of(inp["pseed"], 43).random() < 0.4: lens["log_scatter"] = True
    kl = dict(lambda_mst=float(rng.uniform(0.9, 1.1)), lambda_mst_sigma=0.0, lambda_ifu=float(rng.uniform(0.9, 1.1)), lambda_ifu_sigma=0.0)
    kk, ks, klos = {}, dict(mu_sne=19.3, sigma_sne=0.0, z_apparent_m_anchor=0.1), None
    sig = []
    nk = int(rng.integers(1, 4))

    def data(tt, **more):
        d = kin_data(rng, nk, good) if tt == "IFUKinCov" else lens_kwargs(tt, rng, nk)
        if good:
            if tt in ("DdtHistKin", "DdtGaussKin"): d.update(kin_data(rng, nk, True))
            good_fit_adjust(tt, d, rng)
            if tt in MAG_TYPES:   # source magnitude that reproduces the measured amplitudes / magnitudes
                c_ = cosmo0(); da = fscalar(c_.angular_diameter_distance(0.1).value)
                dl = 5 * np.log10((1 + ZS) ** 2 * _cosmo["ds"]) - 5 * np.log10(1.1 ** 2 * da)
                ks["mu_sne"] = float((19.7 if tt == "TDMagMagnitude" else 20 - 2.5 * np.log10(2.0)) - dl)
        if tt == "DSPL": d["z_source2"] = 3.0
        lens.update(likelihood_type=tt, **d); lens.update(more)

    s_lam = float(rng.uniform(0.02, 0.12))
    if c == "lambda_mst_sigma/nonIFU":
        data(t, lambda_mst_distribution="GAUSSIAN"); sig = [("kwargs_lens", "lambda_mst_sigma", s_lam)]
    elif c == "lambda_ifu_sigma/IFU":
        data(t, lambda_mst_distribution="GAUSSIAN", mst_ifu=True); sig = [("kwargs_lens", "lambda_ifu_sigma", s_lam)]
    elif c == "lambda_mst_sigma/IFU":
        data(t, lambda_mst_distribution="GAUSSIAN", mst_ifu=True); sig = [("kwargs_lens", "lambda_mst_sigma", s_lam)]
    elif c == "lambda_ifu_sigma/nonIFU":
        data(t, lambda_mst_distribution="GAUSSIAN"); sig = [("kwargs_lens", "lambda_ifu_sigma", s_lam)]
    elif c == "lambda_ifu_sigma/IFU/mst_dist_NONE":
        data(t, lambda_mst_distribution="NONE", mst_ifu=True); sig = [("kwargs_lens", "lambda_ifu_sigma", s_lam)]
    elif c == "lambda_mst_sigma/nonIFU/dist_NONE":
        data(t, lambda_mst_distribution="NONE"); sig = [("kwargs_lens", "lambda_mst_sigma", s_lam)]
    elif c in ("a_ani_sigma/kin", "beta_inf_sigma/GOM", "joint/kin"):
        model = "GOM" if c == "beta_inf_sigma/GOM" else ["OM", "const", "GOM"][int(rng.integers(3))]
        dist = ["GAUSSIAN", "GAUSSIAN_SCALED"][int(rng.integers(2))] if model != "const" else "GAUSSIAN"
        if inp.get("aniso_dist"): model, dist = "OM", inp["aniso_dist"]
        names = ["a_ani", "beta_inf"] if model == "GOM" else ["a_ani"]
        data(t, anisotropy_model=model, anisotropy_sampling=True, anisotropy_distribution=dist, **grid_for(rng, names, nk))
        kk = dict(a_ani=float(rng.uniform(1.5, 3.5)), a_ani_sigma=0.0)
        if model == "GOM": kk.update(beta_inf=float(rng.uniform(0.35, 0.65)), beta_inf_sigma=0.0)
        if c == "beta_inf_sigma/GOM": sig = [("kwargs_kin", "beta_inf_sigma", float(rng.uniform(0.03, 0.1)))]
        else: sig = [("kwargs_kin", "a_ani_sigma", float(rng.uniform(0.05, 0.25)) / (kk["a_ani"] if dist == "GAUSSIAN_SCALED" else 1.0))]
        if c == "joint/kin":
            lens.update(lambda_mst_distribution="GAUSSIAN", global_los_distribution=0, los_distributions=["GAUSSIAN"])
            klos = [dict(mean=0.02, sigma=0.0)]
            sig += [("kwargs_lens", "lambda_mst_sigma", s_lam), (("kwargs_los", 0), "sigma", 0.03)]
    elif c in ("a_ani_sigma/kin/edge", "beta_inf_sigma/GOM/edge", "joint/GOM/edge"):
        # population mean z = 0.4..1.2 sigma inside an edge of the interpolation grid: Phi(-z) = 34..11 % of the raw draws are re-drawn
        model = "GOM" if c != "a_ani_sigma/kin/edge" else ["OM", "const", "GOM"][int(rng.integers(3))]
        dist = ["GAUSSIAN", "GAUSSIAN_SCALED"][int(rng.integers(2))] if model != "const" else "GAUSSIAN"
        if inp.get("aniso_dist"): model, dist = ("OM" if c == "a_ani_sigma/kin/edge" else "GOM"), inp["aniso_dist"]
        names = ["a_ani", "beta_inf"] if model == "GOM" else ["a_ani"]
        data(t, anisotropy_model=model, anisotropy_sampling=True, anisotropy_distribution=dist, **grid_for(rng, names, nk))
        upper = bool(rng.random() < 0.5); z = float(rng.uniform(0.4, 1.2))
        if c == "a_ani_sigma/kin/edge":
            lo_, hi_ = float(AX["a_ani"][0]), float(AX["a_ani"][-1])
            if dist == "GAUSSIAN_SCALED":
                mean = float(rng.uniform(4.0, 4.7) if upper else rng.uniform(0.25, 0.6))
                s_a = ((hi_ - mean) if upper else (mean - lo_)) / z / mean          # sigma = s_a * mean
            else:
                s_a = float(rng.uniform(0.1, 0.3)); mean = hi_ - z * s_a if upper else lo_ + z * s_a
            kk = dict(a_ani=float(mean), a_ani_sigma=0.0)
            if model == "GOM": kk.update(beta_inf=float(rng.uniform(0.35, 0.65)), beta_inf_sigma=0.0)
            sig = [("kwargs_kin", "a_ani_sigma", float(s_a))]
        else:
            s_b = float(rng.uniform(0.05, 0.15)); a = float(rng.uniform(1.5, 3.5))
            kk = dict(a_ani=a, a_ani_sigma=0.0, beta_inf=float(1 - z * s_b if upper else z * s_b), beta_inf_sigma=0.0)
            sig = [("kwargs_kin", "beta_inf_sigma", s_b)]
            if c == "joint/GOM/edge": sig.append(("kwargs_kin", "a_ani_sigma", float(rng.uniform(0.05, 0.25)) / (a if dist == "GAUSSIAN_SCALED" else 1.0)))
    elif c in ("gamma_in_sigma/kin/edge", "log_m2l_sigma/kin/edge"):
        two = bool(rng.random() < 0.5)
        p = c.split("_sigma")[0]
        names = ["gamma_in", "log_m2l"] if two else [p]
        flags = {}
        if "gamma_in" in names: flags.update(gamma_in_sampling=True, gamma_in_distribution="GAUSSIAN")
        if "log_m2l" in names: flags.update(log_m2l_sampling=True, log_m2l_distribution="GAUSSIAN")
        data(t, **flags, **grid_for(rng, names, nk))
        kl.update(gamma_in=float(rng.uniform(0.9, 1.5)), gamma_in_sigma=0.0, log_m2l=float(rng.uniform(0.35, 0.65)), log_m2l_sigma=0.0)
        upper = bool(rng.random() < 0.5); z = float(rng.uniform(0.4, 1.2))
        s_p = float(rng.uniform(0.05, 0.2)) if p == "gamma_in" else float(rng.uniform(0.03, 0.1))
        kl[p] = float(AX[p][-1] - z * s_p if upper else AX[p][0] + z * s_p)
        sig = [("kwargs_lens", p + "_sigma", s_p)]
    elif c == "joint/lens/edge":
        # every lens-level scatter at once on a lens whose inner slope AND mass-to-light sit near a grid edge: each rejected draw re-enters
        # draw_lens, and every re-draw must still sample the declared lambda / gamma_in / log_m2l populations (IFU and non-IFU flagging)
        ifu = bool(rng.random() < 0.6)
        data(t, gamma_in_sampling=True, gamma_in_distribution="GAUSSIAN", log_m2l_sampling=True, log_m2l_distribution="GAUSSIAN",
             lambda_mst_distribution="GAUSSIAN", mst_ifu=ifu, **grid_for(rng, ["gamma_in", "log_m2l"], nk))
        s_g, s_m = float(rng.uniform(0.05, 0.2)), float(rng.uniform(0.03, 0.1))
        zg, zm = float(rng.uniform(0.3, 0.9)), float(rng.uniform(0.3, 0.9))
        kl.update(gamma_in=float(AX["gamma_in"][-1] - zg * s_g if rng.random() < 0.5 else AX["gamma_in"][0] + zg * s_g), gamma_in_sigma=0.0,
                  log_m2l=float(AX["log_m2l"][-1] - zm * s_m if rng.random() < 0.5 else AX["log_m2l"][0] + zm * s_m), log_m2l_sigma=0.0)
        sig = [("kwargs_lens", "gamma_in_sigma", s_g), ("kwargs_lens", "log_m2l_sigma", s_m),
               ("kwargs_lens", "lambda_ifu_sigma" if ifu else "lambda_mst_sigma", s_lam)]
    elif c == "a_ani_sigma/no_kin_scaling":
        data(t, anisotropy_model="OM", anisotropy_sampling=True, anisotropy_distribution="GAUSSIAN")
        kk = dict(a_ani=2.0, a_ani_sigma=0.0); sig = [("kwargs_kin", "a_ani_sigma", 0.2)]
    elif c == "a_ani_sigma/dist_NONE":
        data(t, anisotropy_model="OM", anisotropy_sampling=True, anisotropy_distribution="NONE", **grid_for(rng, ["a_ani"], nk))
        kk = dict(a_ani=2.0, a_ani_sigma=0.0); sig = [("kwargs_kin", "a_ani_sigma", 0.2)]
    elif c == "a_ani_sigma/not_sampled":
        data(t); kk = dict(a_ani=2.0, a_ani_sigma=0.0); sig = [("kwargs_kin", "a_ani_sigma", 0.2)]
    elif c == "beta_inf_sigma/OM":
        data(t, anisotropy_model="OM", anisotropy_sampling=True, anisotropy_distribution="GAUSSIAN", **grid_for(rng, ["a_ani"], nk))
        kk = dict(a_ani=2.0, a_ani_sigma=0.0, beta_inf=0.5, beta_inf_sigma=0.0); sig = [("kwargs_kin", "beta_inf_sigma", 0.1)]
    elif c in ("gamma_in_sigma/kin", "log_m2l_sigma/kin"):
        two = bool(rng.random() < 0.5)
        p = c.split("_sigma")[0]
        names = ["gamma_in", "log_m2l"] if two else [p]
        flags = {}
        if "gamma_in" in names: flags.update(gamma_in_sampling=True, gamma_in_distribution="GAUSSIAN")
        if "log_m2l" in names: flags.update(log_m2l_sampling=True, log_m2l_distribution="GAUSSIAN")
        data(t, **flags, **grid_for(rng, names, nk))
        kl.update(gamma_in=float(rng.uniform(0.9, 1.5)), gamma_in_sigma=0.0, log_m2l=float(rng.uniform(0.35, 0.65)), log_m2l_sigma=0.0)
        sig = [("kwargs_lens", p + "_sigma", float(rng.uniform(0.05, 0.2)) if p == "gamma_in" else float(rng.uniform(0.03, 0.1)))]
    elif c in ("gamma_in_sigma/not_sampled", "log_m2l_sigma/not_sampled"):
        data(t); p = c.split("_sigma")[0]
        kl.update({p: 1.0, p + "_sigma": 0.0}); sig = [("kwargs_lens", p + "_sigma", 0.2)]
    elif c == "gamma_pl_sigma/global/kin":
        data(t, gamma_pl_global_sampling=True, gamma_pl_global_dist="GAUSSIAN", **grid_for(rng, ["gamma_pl"], nk))
        kl.update(gamma_pl_mean=float(rng.uniform(1.9, 2.1)), gamma_pl_sigma=0.0); sig = [("kwargs_lens", "gamma_pl_sigma", float(rng.uniform(0.02, 0.1)))]
    elif c == "gamma_pl_sigma/global/DSPL":
        data("DSPL", gamma_pl_global_sampling=True, gamma_pl_global_dist="GAUSSIAN")
        kl.update(gamma_pl_mean=float(rng.uniform(1.9, 2.1)), gamma_pl_sigma=0.0); sig = [("kwargs_lens", "gamma_pl_sigma", float(rng.uniform(0.02, 0.1)))]
    elif c == "gamma_pl_sigma/not_global":
        data(t); kl.update(gamma_pl_mean=2.0, gamma_pl_sigma=0.0); sig = [("kwargs_lens", "gamma_pl_sigma", 0.05)]
    elif c in ("sigma_sne/mag", "sigma_sne/nonmag"):
        data(t); sig = [("kwargs_source", "sigma_sne", float(rng.uniform(0.03, 0.2)))]
    elif c in ("los_global_sigma/GAUSSIAN", "los_global_sigma/GEV"):
        d = c.split("/")[1]; npop = int(rng.integers(1, 4)); k = int(rng.integers(npop))
        data(t, global_los_distribution=k, los_distributions=[d] * npop)
        klos = [dict(mean=float(rng.uniform(-0.02, 0.05)), sigma=0.0, xi=0.1) for _ in range(npop)]
        sig = [(("kwargs_los", k), "sigma", float(rng.uniform(0.01, 0.05)))]
    elif c == "los_other_population_sigma":
        data(t, global_los_distribution=0, los_distributions=["GAUSSIAN", "GEV"])
        klos = [dict(mean=0.01, sigma=0.0), dict(mean=0.0, sigma=0.0, xi=0.1)]; sig = [(("kwargs_los", 1), "sigma", 0.05)]
    elif c == "los_sigma/no_los_on_lens":
        data(t, los_distributions=["GAUSSIAN"])
        klos = [dict(mean=0.01, sigma=0.0)]; sig = [(("kwargs_los", 0), "sigma", 0.05)]
    elif c == "los_individual/PDF":
        data(t, los_distribution_individual="PDF", kwargs_los_individual=dict(bin_edges=np.linspace(-0.05, 0.1, 11), pdf_array=rng.uniform(0.2, 1, 10)))
    elif c == "los_individual/GEV":
        data(t, los_distribution_individual="GEV", kwargs_los_individual=dict(xi=0.1, mean=0.01, sigma=0.03))
    elif c == "nonfinite_draws/DSPL":
        # small beta (first source just behind the deflector) + non-integer slope: lambda draws with a negative base give NaN
        data("DSPL", lambda_mst_distribution="GAUSSIAN", gamma_pl_global_sampling=True, gamma_pl_global_dist="NONE")
        lens.update(z_source=0.58, z_source2=1.5)
        kl.update(lambda_mst=0.8, gamma_pl_mean=2.3); sig = [("kwargs_lens", "lambda_mst_sigma", 0.3)]
    else:
        raise ValueError(c)
    if inp.get("prior"):
        # per-lens priors act on the DRAWN values: a prior on a_ani/lambda_mst would make their scatter applicable, so
        # the inapplicable / holds cases only get a prior on a parameter that is never drawn
        lens["prior_list"] = [["lambda_mst", 1.0, 0.05], ["a_ani", 2.5, 0.5]] if c in APPLICABLE else [["gamma_ppn", 0.9, 0.3]]
    return dict(lens=lens, hyper=dict(kwargs_lens=kl, kwargs_kin=kk, kwargs_source=ks, kwargs_los=klos), sig=sig)


def with_sigma(hyper, sig, factor=1.0):
    h = copy.deepcopy(hyper)
    for blk, key, val in sig:
        if isinstance(blk, (tuple, list)): h["kwargs_los"][blk[1]][key] = val * factor
        else: h[blk][key] = val * factor
    return h


class Probe(object):
    """counts and records the per-draw data likelihood and prior of one LensLikelihood instance"""

    def __init__(self, ll):
        self.ll = ll; self.data = []; self.prior = []
        od, op = ll._lens_type.log_likelihood, ll._prior.log_likelihood

        def fd(*a, **k):
            v = od(*a, **k); self.data.append(np.array(v, dtype=float, copy=True)); return v   # copy: the caller does `+= prior` in place

        def fp(*a, **k):
            v = op(*a, **k); self.prior.append(np.array(v, dtype=float, copy=True)); return v
        ll._lens_type.log_likelihood = fd; ll._prior.log_likelihood = fp

    def run(self, hyper, seed):
        self.data, self.prior = [], []
        h = copy.deepcopy(hyper); snap = json.dumps(jsonable(h), sort_keys=True)
        np.random.seed(int(seed))
        v = self.ll.lens_log_likelihood(cosmo0(), **h)
        mutated = json.dumps(jsonable(h), sort_keys=True) != snap
        l = np.array([fscalar(d) + fscalar(p) for d, p in zip(self.data, self.prior)], dtype=float) if len(self.prior) == len(self.data) else np.array([fscalar(d) for d in self.data])
        return fscalar(v), len(self.data), l, mutated


def log_mean_exp(l, N):
    """independent, max-shifted log( sum exp(l_i) / N ); non-finite draws contribute nothing; all filtered -> -inf"""
    f = l[np.isfinite(l)]
    if len(f) == 0: return -np.inf
    m = np.max(f)
    return m + np.log(np.sum(np.exp(f - m)) / N)


def eq_val(a, b, rtol=1e-10, atol=1e-10):
    if not np.isfinite(b): return a < -1e300     # lens_log_likelihood turns -inf into -1.8e308
    return bool(np.isclose(a, b, rtol=rtol, atol=atol))


def run_case(rec, inp):
    c = inp["case"]; N = int(inp["N_arg"])
    tag = c
    inpj = dict(inp)
    try:
        from hierarc.Likelihood.hierarchy_likelihood import LensLikelihood
        mc = make_case(inp)
        ll = LensLikelihood(**mc["lens"])
        pr = Probe(ll)
    except Exception:
        rec.error("build failed %s: %s" % (json.dumps(jsonable(inp)), traceback.format_exc(limit=3))); return
    sharp_h = mc["hyper"]; scat_h = with_sigma(sharp_h, mc["sig"])
    s1, s2 = inp["seeds"]
    kind = "applicable" if c in APPLICABLE else ("inapplicable" if c in INAPPLICABLE or c in KNOWN_IFU else "holds")
    rec.case(inp, kind="%s/%s" % (kind, c))
    rec.tally("type=%s" % mc["lens"]["likelihood_type"])

    def vio(key, what, observed, required, **more):
        rec.violation(key, what, dict(inpj, **more), observed, required)

    def guarded(h, seed, where):
        try:
            return pr.run(h, seed)
        except Exception as e:
            key = "C04:raises:DdtDdKDE_los_draw" if (mc["lens"]["likelihood_type"] == "DdtDdKDE" and "inhomogeneous" in repr(e)) else "C04:raises:" + tag
            vio(key, "evaluation raised (%s)" % where, repr(e)[:200], "a value"); return None

    has_sharp = c not in ("los_individual/PDF", "los_individual/GEV")
    # ---------- sharp: one evaluation, deterministic
    v_sharp = None
    if has_sharp:
        r = guarded(sharp_h, s1, "sharp");
        if r is None: return
        v_sharp, n0, l0, mut = r
        r2 = guarded(sharp_h, s2, "sharp")
        if r2 is None: return
        if n0 != 1 or r2[1] != 1: vio("C04:sharp_n_evals:" + tag, "all scatters zero: exactly one data-likelihood evaluation", [n0, r2[1]], 1)
        if not (v_sharp == r2[0] or (np.isnan(v_sharp) and np.isnan(r2[0]))): vio("C04:sharp_nondeterministic:" + tag, "all scatters zero: value must not depend on the seed", [v_sharp, r2[0]], "equal")
        if n0 == 1 and np.isfinite(l0[0]) and not eq_val(v_sharp, l0[0], 1e-12, 1e-12): vio("C04:estimator:" + tag, "sharp value != the single recorded draw", v_sharp, l0[0])
        if mut: vio("C04:kwargs_mutated:" + tag, "hyper-parameter dictionaries modified", None, "unchanged")
    # ---------- scatter on
    r = guarded(scat_h, s1, "scatter")
    if r is None: return
    a, na, la, mut = r
    if mut: vio("C04:kwargs_mutated:" + tag, "hyper-parameter dictionaries modified", None, "unchanged")
    rb = guarded(scat_h, s2, "scatter")
    if rb is None: return
    b, nb, lb, _ = rb
    ra = guarded(scat_h, s1, "scatter")
    if ra is None: return
    a2 = ra[0]
    if not (a2 == a): vio("C04:not_reproducible:" + tag, "same numpy seed, same hyper-parameters: values differ", [a, a2], "equal")
    if kind == "applicable":
        if na != N or nb != N or ra[1] != N:
            vio("C04:n_evals:" + tag, "applicable non-zero scatter: exactly N=int(num_distribution_draws) evaluations", [na, nb, ra[1]], N)
        for (val, l, sd) in ((a, la, s1), (b, lb, s2)):
            ref = log_mean_exp(l, N)
            if not eq_val(val, ref): vio("C04:estimator:" + tag, "value != log(sum_i exp(l_i)/N) of the recorded per-draw values", val, ref, seed=sd)
            f = l[np.isfinite(l)]
            if len(f) and not (val > -1e300): vio("C04:underflow:" + tag, "finite draws (max %.1f) but the marginalised value is -inf" % np.max(f), val, ref, seed=sd)
            if len(f) and np.isfinite(ref) and not (np.max(f) - np.log(N) - 1e-9 <= val <= np.max(f) + 1e-9):
                vio("C04:bounds:" + tag, "log-mean-exp must lie in [max l - log N, max l]", val, [np.max(f) - np.log(N), np.max(f)], seed=sd)
        if N >= 2:
            if len(la) >= 2 and len(np.unique(la[np.isfinite(la)])) <= 1 and np.isfinite(la).sum() >= 2:
                vio("C04:no_scatter_drawn:" + tag, "applicable scatter but every draw gives the same likelihood", float(la[0]), "distinct draws")
            if a == b and np.isfinite(la).sum() >= 2 and np.isfinite(lb).sum() >= 2:
                vio("C04:seeds_equal:" + tag, "two numpy seeds give the same marginalised value", [a, b], "different")
        if has_sharp and v_sharp is not None and np.isfinite(v_sharp):
            # small-scatter limit: sigma*1e-7 -> l_i = l_sharp + O(grad*sigma*1e-7); with |grad*sigma| <~ 1e4 (far-off kinematics) <~ 1e-3
            rs = guarded(with_sigma(sharp_h, mc["sig"], 1e-7), s1, "small scatter")
            if rs is not None:
                if rs[1] != N: vio("C04:n_evals:" + tag, "tiny but non-zero scatter still costs N evaluations", rs[1], N, sigma_factor=1e-7)
                if not np.isclose(rs[0], v_sharp, rtol=1e-6, atol=5e-3): vio("C04:small_scatter_limit:" + tag, "marginalised value at scatter*1e-7 must approach the sharp value", rs[0], v_sharp)
            # sharp again after the marginalised calls: one evaluation, same value
            r3 = guarded(sharp_h, s2, "sharp after scatter")
            if r3 is not None and (r3[1] != 1 or r3[0] != v_sharp): vio("C04:state_leak:" + tag, "sharp call after marginalised calls differs from the fresh sharp call", [r3[0], r3[1]], [v_sharp, 1])
    elif c in KNOWN_IFU:
        # declared IFU scatter that never reaches the draw: N identical evaluations, value == sharp
        same_all = len(np.unique(la)) == 1
        if na == N and same_all and eq_val(a, v_sharp, 1e-12, 1e-12) and a == b:
            vio("C04:ifu_scatter_needs_mst_distribution", "IFU lens, lambda_ifu_sigma>0 but lambda_mst_distribution!='GAUSSIAN': no scatter is drawn (N identical evaluations)",
                dict(n_evals=na, value=a, sharp=v_sharp), "N distinct draws from N(lambda_ifu, lambda_ifu_sigma)")
        elif na == N and not same_all:
            pass   # repaired: behaves like an applicable scatter
        else:
            vio("C04:n_evals:" + tag, "IFU scatter: N evaluations expected", na, N)
    elif kind == "inapplicable":
        if not (eq_val(a, v_sharp, 1e-12, 1e-12) and a == b):
            vio("C04:inapplicable_changes_value:" + tag, "a scatter that does not apply to this lens must not change its likelihood", [a, b], v_sharp)
        if na != 1 or nb != 1:
            vio("C04:inapplicable_scatter_costs_N", "inapplicable non-zero scatter (%s): evaluations" % c, [na, nb], 1)
    else:  # holds
        if na != 1 or nb != 1: vio("C04:holds_n_evals:" + tag, "scatter of a population this lens does not use: one evaluation", [na, nb], 1)
        if not (a == v_sharp == b): vio("C04:inapplicable_changes_value:" + tag, "value must equal the sharp one", [a, b], v_sharp)


# ---------------------------------------------------------------------------------------------------------
def run_reference(rec, inp):
    """N=4000 estimate against the population integral of L.
    Monte-Carlo tolerance: |mean(w) - I| <= 5*std(w)/sqrt(N) (+0.5% for the trapezoid rule), w_i = exp(l_i - max);
    cases are built so that the scatter is comparable to the likelihood width (no heavy tails)."""
    from hierarc.Likelihood.hierarchy_likelihood import LensLikelihood
    from scipy.stats import norm
    c = inp["case"]; N = int(inp["N_arg"])
    rec.case(inp, kind="reference/" + c)
    try:
        mc = make_case(inp); ll = LensLikelihood(**mc["lens"]); pr = Probe(ll)
        scat_h = with_sigma(mc["hyper"], mc["sig"])
        val, n, l, _ = pr.run(scat_h, inp["seeds"][0])
    except Exception:
        rec.error("reference case failed %s: %s" % (json.dumps(jsonable(inp)), traceback.format_exc(limit=3))); return
    blk, key, s = mc["sig"][0]
    h = mc["hyper"]
    # mean parameter and its admissible (re-draw) range
    lo, hi = -np.inf, np.inf
    if key == "lambda_mst_sigma": mkey, mblk = "lambda_mst", "kwargs_lens"
    elif key == "lambda_ifu_sigma": mkey, mblk = "lambda_ifu", "kwargs_lens"
    elif key == "sigma_sne": mkey, mblk = "mu_sne", "kwargs_source"
    elif key == "gamma_pl_sigma": mkey, mblk = "gamma_pl_mean", "kwargs_lens"
    elif isinstance(blk, (tuple, list)): mkey, mblk = "mean", blk
    else:
        mkey, mblk = key[:-6], blk
        lo, hi = AX[mkey][0], AX[mkey][-1]
    mean = h["kwargs_los"][mblk[1]][mkey] if isinstance(mblk, (tuple, list)) else h[mblk][mkey]
    sd = s * mean if (key == "a_ani_sigma" and mc["lens"].get("anisotropy_distribution") == "GAUSSIAN_SCALED") else s
    closed = None
    if mc["lens"]["likelihood_type"] == "DdtGaussian" and key in ("lambda_mst_sigma", "lambda_ifu_sigma"):
        cosmo0(); ddt = _cosmo["ddt"]; mu, sg = mc["lens"]["ddt_mean"], mc["lens"]["ddt_sigma"]
        tot = sg ** 2 + (ddt * sd) ** 2
        closed = np.log(sg / np.sqrt(tot)) - (ddt * mean - mu) ** 2 / (2 * tot) + (0.0)
    # quadrature of the sharp likelihood over the (truncated, renormalised) Gaussian population
    th = np.linspace(max(mean - 7 * sd, lo), min(mean + 7 * sd, hi), 801)
    ls = np.empty_like(th)
    for i, x in enumerate(th):
        hh = copy.deepcopy(h)
        if isinstance(mblk, (tuple, list)): hh["kwargs_los"][mblk[1]][mkey] = float(x)
        else: hh[mblk][mkey] = float(x)
        ls[i] = pr.run(hh, 0)[0]
    m = max(np.max(ls), np.max(l[np.isfinite(l)]))
    mass = norm.cdf((hi - mean) / sd) - norm.cdf((lo - mean) / sd)
    integrand = np.exp(ls - m) * norm.pdf(th, mean, sd) / mass
    I = float(np.sum((integrand[1:] + integrand[:-1]) * np.diff(th)) / 2.0)
    w = np.exp(l[np.isfinite(l)] - m); w = np.concatenate([w, np.zeros(N - len(w))])
    est, se = float(np.mean(w)), float(np.std(w, ddof=1) / np.sqrt(N))
    ok = abs(est - I) <= 6 * se + 5e-3 * I   # calibrated: z=(est-I)/se has sd 1.0-1.4, max 3.6 over 1250 trials
    rec.check(n == N and ok, "C04:reference_integral:" + c, "N-draw mean of L vs population integral of L (5 sigma MC band)", inp,
              dict(n=n, estimate=est, se=se, integral=I, log_value=val, log_integral=float(np.log(I) + m)), "|estimate-integral| <= 6 se + 0.5%")
    if closed is not None:
        rec.check(abs(np.exp(val - closed) - 1) <= 6 * se / max(est, 1e-300) + 1e-6 and abs(np.log(I) + m - closed) < 5e-3, "C04:reference_integral:" + c,
                  "closed form E[L] for Gaussian lambda on a Gaussian Ddt", inp, dict(value=val, closed=float(closed), quadrature=float(np.log(I) + m)), "within the 5 sigma band")


def declared_distributions(mc):
    """[(site, name, cdf)] : the declared distribution of every scattered quantity of the case; site in lens / kin / los"""
    from scipy.stats import norm, genextreme
    lens = mc["lens"]; h = with_sigma(mc["hyper"], mc["sig"])
    names = list(lens.get("kin_scaling_param_list") or [])

    def gauss(mean, sd, nm=None):
        lo, hi = (float(AX[nm][0]), float(AX[nm][-1])) if nm in names else (-np.inf, np.inf)    # re-drawn until inside the interpolated range
        a, b = norm.cdf(lo, mean, sd), norm.cdf(hi, mean, sd)
        return lambda x: np.clip((norm.cdf(x, mean, sd) - a) / (b - a), 0.0, 1.0)
    out = []
    kl, kk = h["kwargs_lens"], h["kwargs_kin"]
    for blk, key, val in mc["sig"]:
        if blk == "kwargs_lens":
            if key == "lambda_mst_sigma" and not lens.get("mst_ifu") and lens.get("lambda_mst_distribution") == "GAUSSIAN":
                out.append(("lens", "lambda_mst", gauss(kl["lambda_mst"], val)))
            elif key == "lambda_ifu_sigma" and lens.get("mst_ifu") and lens.get("lambda_mst_distribution") == "GAUSSIAN":
                out.append(("lens", "lambda_mst", gauss(kl["lambda_ifu"], val)))
            elif key in ("gamma_in_sigma", "log_m2l_sigma") and lens.get(key[:-6] + "_sampling"):
                out.append(("lens", key[:-6], gauss(kl[key[:-6]], val, key[:-6])))
            elif key == "gamma_pl_sigma" and lens.get("gamma_pl_global_sampling") and lens.get("gamma_pl_global_dist") == "GAUSSIAN":
                out.append(("lens", "gamma_pl", gauss(kl["gamma_pl_mean"], val)))
        elif blk == "kwargs_kin":
            dist = lens.get("anisotropy_distribution")
            if not lens.get("anisotropy_sampling") or dist not in ("GAUSSIAN", "GAUSSIAN_SCALED"): continue
            if key == "a_ani_sigma":
                out.append(("kin", "a_ani", gauss(kk["a_ani"], val * (kk["a_ani"] if dist == "GAUSSIAN_SCALED" else 1.0), "a_ani")))
            elif key == "beta_inf_sigma" and lens.get("anisotropy_model") == "GOM":
                out.append(("kin", "beta_inf", gauss(kk["beta_inf"], val, "beta_inf")))
        elif isinstance(blk, (tuple, list)):
            k = blk[1]; g = lens.get("global_los_distribution", False)
            if g is not False and int(g) == int(k):
                e = h["kwargs_los"][k]
                if lens["los_distributions"][k] == "GAUSSIAN": out.append(("los", "kappa_ext", gauss(e["mean"], e["sigma"])))
                else: out.append(("los", "kappa_ext", genextreme(c=e["xi"], loc=e["mean"], scale=e["sigma"]).cdf))
    ind = lens.get("los_distribution_individual")
    if ind == "GEV":
        ki = lens["kwargs_los_individual"]
        out.append(("los", "kappa_ext", genextreme(c=ki["xi"], loc=ki["mean"], scale=ki["sigma"]).cdf))
    elif ind == "PDF":
        ki = lens["kwargs_los_individual"]; edges = np.asarray(ki["bin_edges"], dtype=float); pdf = np.asarray(ki["pdf_array"], dtype=float)
        cum = np.concatenate([[0.0], np.cumsum(pdf / np.sum(pdf))])
        out.append(("los", "kappa_ext", lambda x: np.interp(x, edges, cum)))       # uniform inside each bin
    return out


def run_draws(rec, inp):
    """the draws follow the declared distributions: (a) the realised parameters recorded inside one N=4000 evaluation, (b) 40000 draws taken
    directly from the lens' own distribution objects with the same hyper-parameters.  Kolmogorov-Smirnov against the declared CDF; p < 1e-7
    (D > 0.046 at n=4000, > 0.0146 at n=40000) is far outside what a correct sampler produces, and a sampler that e.g. re-draws from a different
    width after a rejection, ignores a truncation or draws a different family is off by D >~ 0.03."""
    from hierarc.Likelihood.hierarchy_likelihood import LensLikelihood
    from scipy.stats import kstest
    c = inp["case"]; N = int(inp["N_arg"]); ND = int(inp.get("n_direct", 40000))
    rec.case(inp, kind="draws/" + c)
    try:
        mc = make_case(inp); ll = LensLikelihood(**mc["lens"])
        decl = declared_distributions(mc)
        h = with_sigma(mc["hyper"], mc["sig"])
    except Exception:
        rec.error("draws case failed %s: %s" % (json.dumps(jsonable(inp)), traceback.format_exc(limit=3))); return
    if not decl:
        rec.error("draws case without a declared distribution: %s" % json.dumps(jsonable(inp))); return
    taps = dict(lens=[], kin=[], los=[]); depth = dict(lens=0, kin=0)
    ld, ad, los = ll._lens_distribution, ll._aniso_distribution, ll._los
    o1, o2, o3 = ld.draw_lens, ad.draw_anisotropy, los.draw_los

    def w1(*a, **k):
        depth["lens"] += 1
        try: r = o1(*a, **k)
        finally: depth["lens"] -= 1
        if depth["lens"] == 0: taps["lens"].append(dict(r))      # the library re-draws recursively: keep the accepted (outer) result
        return r

    def w2(*a, **k):
        depth["kin"] += 1
        try: r = o2(*a, **k)
        finally: depth["kin"] -= 1
        if depth["kin"] == 0: taps["kin"].append(dict(r))
        return r

    def w3(*a, **k):
        r = o3(*a, **k); taps["los"].append(fscalar(r)); return r
    ld.draw_lens, ad.draw_anisotropy, los.draw_los = w1, w2, w3
    try:
        np.random.seed(int(inp["seeds"][0]))
        ll.lens_log_likelihood(cosmo0(), **copy.deepcopy(h))
        ld.draw_lens, ad.draw_anisotropy, los.draw_los = o1, o2, o3
        np.random.seed(int(inp["seeds"][1]))
        direct = {}
        sites = set(d[0] for d in decl)
        if "lens" in sites: direct["lens"] = [ld.draw_lens(**h["kwargs_lens"]) for _ in range(ND)]
        if "kin" in sites: direct["kin"] = [ad.draw_anisotropy(**h["kwargs_kin"]) for _ in range(ND)]
        if "los" in sites: direct["los"] = np.atleast_1d(los.draw_los(h["kwargs_los"], size=ND))
    except Exception as e:
        rec.violation("C04:raises:" + c, "drawing raised", inp, repr(e)[:200], "draws from the declared distributions"); return
    for site, nm, cdf in decl:
        for how, src in (("evaluation", taps), ("direct", direct)):
            x = np.asarray(src[site] if site == "los" else [r[nm] for r in src[site]], dtype=float)
            n_req = N if how == "evaluation" else ND
            res = kstest(x, cdf)
            ok = len(x) == n_req and bool(np.all(np.isfinite(x))) and res.pvalue > 1e-7
            rec.check(ok, "C04:draw_distribution:" + c, "realised %s of the draws (%s) does not follow the declared distribution" % (nm, how),
                      dict(inp, parameter=nm, how=how, hyper=h, anisotropy=[mc["lens"].get("anisotropy_model"), mc["lens"].get("anisotropy_distribution")]),
                      dict(n=len(x), ks_D=float(res.statistic), p=float(res.pvalue), sample_mean=float(np.mean(x)), sample_std=float(np.std(x)),
                           sample_min=float(np.min(x)), sample_max=float(np.max(x))), "Kolmogorov-Smirnov p > 1e-7 against the declared CDF, n = %d" % n_req)


def run_error_scaling(rec, inp):
    """Var over seeds of the estimator L_hat at N and 4N: ratio 4 (1/sqrt(N)).  Data centred on the prediction (no
    heavy tail); R=400 repeats: empirically (40 trials of R=300) the ratio is 4.0 +- 0.42, i.e. +-0.36 at R=400:
    the band [2.3, 6.5] is > 4.5 sigma wide."""
    from hierarc.Likelihood.hierarchy_likelihood import LensLikelihood
    rec.case(inp, kind="error_scaling")
    R = 400; out = {}
    cosmo0(); ddt = _cosmo["ddt"]
    for N in (inp["N_arg"], 4 * inp["N_arg"]):
        ll = LensLikelihood(z_lens=ZL, z_source=ZS, likelihood_type="DdtGaussian", ddt_mean=ddt, ddt_sigma=0.06 * ddt, lambda_mst_distribution="GAUSSIAN", num_distribution_draws=N)
        vals = []
        for r in range(R):
            np.random.seed(inp["seeds"][0] + r + 7919 * N)
            vals.append(np.exp(fscalar(ll.lens_log_likelihood(cosmo0(), kwargs_lens=dict(lambda_mst=1.0, lambda_mst_sigma=0.05)))))
        out[N] = (np.var(vals, ddof=1), np.mean(vals))
    N = inp["N_arg"]
    ratio = out[N][0] / out[4 * N][0]
    rec.check(2.3 <= ratio <= 6.5, "C04:error_scaling", "Var(L_hat) at N over Var at 4N must be ~4", inp, dict(ratio=ratio, means=[out[N][1], out[4 * N][1]]), "2.3..6.5")
    # both means estimate the same integral: difference within 5 standard errors
    rec.check(abs(out[N][1] - out[4 * N][1]) <= 5 * np.sqrt(out[N][0] / R + out[4 * N][0] / R), "C04:reference_integral:error_scaling",
              "means at N and 4N estimate the same integral (unbiased for every N)", inp, [out[N][1], out[4 * N][1]], "equal within 5 se")


def types_for(c):
    if c in ("a_ani_sigma/kin", "beta_inf_sigma/GOM", "joint/kin", "gamma_in_sigma/kin", "log_m2l_sigma/kin", "gamma_pl_sigma/global/kin",
             "a_ani_sigma/dist_NONE", "beta_inf_sigma/OM", "a_ani_sigma/kin/edge", "beta_inf_sigma/GOM/edge", "joint/GOM/edge", "gamma_in_sigma/kin/edge",
             "log_m2l_sigma/kin/edge", "joint/lens/edge"): return KIN_TYPES
    if c == "sigma_sne/mag": return MAG_TYPES
    if c == "sigma_sne/nonmag": return NON_MAG
    if c in ("gamma_pl_sigma/global/DSPL", "nonfinite_draws/DSPL"): return ["DSPL"]
    if c.startswith("los_"): return [t for t in TYPES if t != "DSPL"]     # DSPL does not depend on kappa_ext
    if c in ("a_ani_sigma/no_kin_scaling", "a_ani_sigma/not_sampled", "gamma_in_sigma/not_sampled", "log_m2l_sigma/not_sampled"): return TYPES
    if c == "gamma_pl_sigma/not_global": return [t for t in TYPES if t != "DSPL"]
    return TYPES


def gen(rng, c, t=None, N=None, **more):
    ts = types_for(c)
    n_choices = [1, 2, 3, 5, 8, 13, 37, 50, 12.7, 20.0]
    Narg = N if N is not None else n_choices[int(rng.integers(len(n_choices)))]
    d = dict(case=c, t=t or ts[int(rng.integers(len(ts)))], N_arg=Narg, pseed=int(rng.integers(2 ** 31)),
             seeds=[int(rng.integers(2 ** 31)), int(rng.integers(2 ** 31))], prior=bool(rng.random() < 0.25))
    d.update(more)
    return d


def main():
    args = parse_args(PROP)
    rec = Recorder(PROP, args.tier, args.seed, rule="every scatter parameter x applicable / inapplicable lens flagging x likelihood type x N: evaluation counts, "
                   "value == log-mean-exp of the recorded draws, seeds, sharp limit, low-likelihood underflow, population integral (5 sigma), 1/sqrt(N)")
    if args.replay:
        with open(args.replay) as f: rp = json.load(f)
        inp = unjson(rp["input"])
        for k in ("seed", "sigma_factor"): inp.pop(k, None)
        if inp.get("mode") == "reference": rec.guard(run_reference, rec, inp)
        elif inp.get("mode") == "error_scaling": rec.guard(run_error_scaling, rec, inp)
        elif inp.get("mode") == "draws":
            for k in ("parameter", "how", "hyper", "anisotropy"): inp.pop(k, None)
            rec.guard(run_draws, rec, inp)
        else: rec.guard(run_case, rec, inp)
        rec.write(args.out); return
    rng = rng_of(args.seed, 4)
    t0 = time.process_time(); budget = 240 if args.tier == "quick" else 300   # quick: the fixed number of rounds decides (a CPU budget made the count depend on the machine)
    allc = APPLICABLE + INAPPLICABLE + KNOWN_IFU + HOLDS
    # regression witness: DdtDdKDE with a line-of-sight draw
    rec.guard(run_case, rec, gen(rng, "los_global_sigma/GAUSSIAN", t="DdtDdKDE", N=5))
    # the very-low-likelihood case (far-off IFU kinematics, l ~ -1e4) for every kinematic scatter
    for c in ("a_ani_sigma/kin", "gamma_in_sigma/kin", "log_m2l_sigma/kin", "gamma_pl_sigma/global/kin", "lambda_mst_sigma/nonIFU", "lambda_mst_sigma/IFU"):
        rec.guard(run_case, rec, gen(rng, c, t="IFUKinCov", N=37))
    # population integral
    refs = [("lambda_mst_sigma/nonIFU", "DdtGaussian"), ("lambda_ifu_sigma/IFU", "DdtGaussian"), ("los_global_sigma/GAUSSIAN", "DdtGaussian"),
            ("a_ani_sigma/kin", "IFUKinCov", "GAUSSIAN"), ("a_ani_sigma/kin", "DdtGaussKin", "GAUSSIAN_SCALED"), ("gamma_in_sigma/kin", "IFUKinCov"), ("log_m2l_sigma/kin", "IFUKinCov"), ("gamma_pl_sigma/global/kin", "IFUKinCov"),
            ("sigma_sne/mag", "Mag"), ("beta_inf_sigma/GOM", "IFUKinCov"), ("gamma_pl_sigma/global/DSPL", "DSPL"), ("lambda_mst_sigma/nonIFU", "DdtLogNorm"),
            ("sigma_sne/mag", "TDMag"),
            ("a_ani_sigma/kin/edge", "IFUKinCov", "GAUSSIAN_SCALED"), ("a_ani_sigma/kin/edge", "DdtGaussKin", "GAUSSIAN"), ("beta_inf_sigma/GOM/edge", "IFUKinCov"),
            ("gamma_in_sigma/kin/edge", "IFUKinCov"), ("log_m2l_sigma/kin/edge", "DdtGaussKin")]
    nref = len(refs) if args.tier == "quick" else len(refs) * 4
    order = rng.permutation(len(refs))
    for k in range(nref):
        rf = refs[order[k % len(refs)]]
        more = dict(aniso_dist=rf[2]) if len(rf) > 2 else {}
        rec.guard(run_reference, rec, gen(rng, rf[0], t=rf[1], N=4000, good_fit=True, mode="reference", prior=False, **more))
    rec.guard(run_error_scaling, rec, dict(N_arg=10, seeds=[int(rng.integers(2 ** 30))], mode="error_scaling"))
    # the draws follow the declared distributions (every scatter with a closed-form declared distribution, grid-edge cases twice as often)
    drawc = [c for c in APPLICABLE if c not in ("sigma_sne/mag", "nonfinite_draws/DSPL")]
    drawc += [(c, "GAUSSIAN_SCALED") for c in ("a_ani_sigma/kin/edge", "joint/GOM/edge", "a_ani_sigma/kin")]
    for k in range(1 if args.tier == "quick" else 6):
        for c in drawc:
            more = {}
            if isinstance(c, tuple): c, more = c[0], dict(aniso_dist=c[1])
            rec.guard(run_draws, rec, gen(rng, c, N=4000, good_fit=True, mode="draws", prior=False, **more))
    # the matrix
    rounds = 10 if args.tier == "quick" else 400   # thorough: until the time budget
    for r in range(rounds):
        for c in allc:
            ts = types_for(c)
            t = ts[(r + int(rng.integers(len(ts)))) % len(ts)] if args.tier == "quick" else None
            rec.guard(run_case, rec, gen(rng, c, t=t, good_fit=bool(rng.random() < 0.5)))
            if time.process_time() - t0 > budget: break
        if time.process_time() - t0 > budget: break
    rec.write(args.out)


if __name__ == "__main__":
    main()
