#!/venv/bin/python
"""Driver:  ./check <Cxx> [quick|thorough] [--replay FILE]   |   ./check setup   |   ./check all [tier]

For one property:
  1. regenerate  build/<id>/Src.v  from /repo's CURRENT working tree (tools/py2coq.py, purely syntactic);
  2. compile the property's Coq development against it (full .vo, every coqc under a shell timeout),
     collect `Print Assumptions`, count obligations, grep for forbidden vernacular;
  3. run the correspondence generator (model vs. real implementation), if the property has one;
  4. run the implementation-level oracle (harness/oracle_<id>.py);
  5. verdict:  proof/correspondence intact and oracle silent      -> exit 0
               oracle found a failing input                         -> VIOLATION ... replay=<json>   (exit 1)
               proof or correspondence broken, no failing input     -> VIOLATION ... no-failing-input-found
               violation listed in known_findings.json              -> KNOWN-FINDING line, does not fail
  6. evidence/<id>.json (EVIDENCE.schema.json, level "proof").
"""
import json, os, re, subprocess, sys, time, hashlib, shutil, fcntl, glob

VERIF = os.path.dirname(os.path.dirname(os.path.abspath(__file__)))
REPO = os.environ.get("HIERARC_REPO", "/repo")
PY = "/venv/bin/python"
BASE = os.path.join(VERIF, "coq", "Base")
BUILD = os.environ.get("VERIF_BUILD", os.path.join(VERIF, "build"))
EVIDENCE = os.environ.get("VERIF_EVIDENCE", os.path.join(VERIF, "evidence"))
AXIOM_WHITELIST = {
    # Coq standard library, Reals
    "ClassicalDedekindReals.sig_forall_dec", "ClassicalDedekindReals.sig_not_dec",
    "FunctionalExtensionality.functional_extensionality_dep", "Classical_Prop.classic",
    # reached through Coquelicot / Interval / classical epsilon
    "ClassicalEpsilon.constructive_indefinite_description", "ProofIrrelevance.proof_irrelevance",
    "Eqdep.Eq_rect_eq.eq_rect_eq", "JMeq.JMeq_eq", "PropExtensionality.propositional_extensionality",
    "ClassicalUniqueChoice.dependent_unique_choice", "Epsilon.epsilon_statement", "ChoiceFacts.constructive_definite_description",
}
FORBIDDEN = re.compile(r"\b(Admitted|admit|Axiom|Axioms|Parameter|Parameters|Conjecture|Conjectures|Admit Obligations|"
                       r"Unset Guard Checking|Unset Positivity Checking|Unset Universe Checking|bypass_check|"
                       r"type-in-type|impredicative-set)\b")
THM = re.compile(r"^\s*(Theorem|Lemma|Example|Corollary|Proposition|Fact|Remark)\s+([A-Za-z0-9_']+)", re.M)


def sh(cmd, timeout, cwd=None, env=None):
    t0 = time.time()
    try:
        p = subprocess.run(cmd, shell=isinstance(cmd, str), cwd=cwd, env=env, timeout=timeout,
                           stdout=subprocess.PIPE, stderr=subprocess.PIPE, text=True)
        return p.returncode, p.stdout, p.stderr, time.time() - t0
    except subprocess.TimeoutExpired as e:
        return 124, (e.stdout or b"").decode() if isinstance(e.stdout, bytes) else (e.stdout or ""), "TIMEOUT after %ss" % timeout, time.time() - t0


def strip_comments(s):
    out, depth, i = [], 0, 0
    while i < len(s):
        if s.startswith("(*", i):
            depth += 1; i += 2
        elif s.startswith("*)", i) and depth:
            depth -= 1; i += 2
        else:
            if not depth:
                out.append(s[i])
            i += 1
    return "".join(out)


def build_base():
    os.makedirs(BUILD, exist_ok=True)
    with open(os.path.join(BUILD, ".base.lock"), "w") as lk:
        fcntl.flock(lk, fcntl.LOCK_EX)
        srcs = [l.strip() for l in open(os.path.join(BASE, "_CoqProject")) if l.strip().endswith(".v")]
        stale = any((not os.path.exists(os.path.join(BASE, s + "o"))) or
                    os.path.getmtime(os.path.join(BASE, s + "o")) < os.path.getmtime(os.path.join(BASE, s)) for s in srcs)
        if not stale:
            return True, ""
        rc, out, err, dt = sh("coq_makefile -f _CoqProject -o Makefile > /dev/null && timeout 1500 make -j8", 1600, cwd=BASE)
        return rc == 0, (out + err)[-3000:]


def forbidden_scan(paths):
    hits = []
    for p in paths:
        txt = strip_comments(open(p).read())
        for m in FORBIDDEN.finditer(txt):
            hits.append("%s: %s" % (os.path.relpath(p, VERIF), m.group(0)))
        # Variable / Hypothesis only inside a Section
        depth = 0
        for line in txt.splitlines():
            if re.match(r"\s*Section\s+\w+", line): depth += 1
            elif re.match(r"\s*End\s+\w+", line) and depth: depth -= 1
            elif re.match(r"\s*(Variable|Variables|Hypothesis|Hypotheses|Context)\b", line) and depth == 0:
                hits.append("%s: section-less %s" % (os.path.relpath(p, VERIF), line.strip()[:60]))
    return hits


def parse_assumptions(out):
    """returns {theorem-ish index: [axioms]} flattened to a set of axiom names; 'Closed under the global context' -> none"""
    axioms = set()
    for blk in re.split(r"\n(?=Axioms:|Closed under)", out):
        if blk.startswith("Axioms:"):
            for m in re.finditer(r"^([A-Za-z_][\w.']*)\s*:", blk[len("Axioms:"):], re.M):
                axioms.add(m.group(1))
    return axioms


def enclosing_theorem(vfile, errtext):
    m = re.search(r"line (\d+), characters", errtext)
    if not m:
        return None
    ln = int(m.group(1))
    name = None
    for i, line in enumerate(open(vfile).read().splitlines(), 1):
        t = THM.match(line)
        if t and i <= ln:
            name = t.group(2)
    return name


def load_known():
    p = os.path.join(VERIF, "known_findings.json")
    if not os.path.exists(p):
        return {}
    d = json.load(open(p))
    return {f["key"]: f for f in d.get("findings", []) if f.get("status", "known") == "known"}


def run_property(pid, tier, seed, replay=None):
    t0 = time.time()
    pdir = os.path.join(VERIF, "coq", pid)
    cfg = json.load(open(os.path.join(pdir, "prop.json")))
    bdir = os.path.join(BUILD, pid)
    shutil.rmtree(bdir, ignore_errors=True)
    os.makedirs(bdir)
    os.makedirs(os.path.join(BUILD, "replay"), exist_ok=True)
    log = []
    env = dict(os.environ, PYTHONPATH=REPO, PYTHONHASHSEED="0", HIERARC_REPO=REPO, VERIF_SEED=str(seed), VERIF_TIER=tier,
               OMP_NUM_THREADS="1", OPENBLAS_NUM_THREADS="1", MKL_NUM_THREADS="1", MPLBACKEND="Agg")
    broken = []          # proof obligations / correspondence that no longer check: dicts(kind, name, detail)
    obligations, discharged, theorems, axioms = 0, 0, [], set()

    ok, msg = build_base()
    if not ok:
        broken.append(dict(kind="base", name="coq/Base", detail=msg[-800:]))

    # 1. regenerate the model source from the current tree
    spec = cfg.get("spec", [])
    if spec:
        spec_abs = [dict(file=os.path.join(REPO, e["file"]), items=e["items"]) for e in spec]
        json.dump(spec_abs, open(os.path.join(bdir, "spec.json"), "w"))
        rc, out, err, dt = sh([PY, os.path.join(VERIF, "tools", "py2coq.py"), os.path.join(bdir, "spec.json"), os.path.join(bdir, "Src.v")], 120)
        if rc != 0:
            broken.append(dict(kind="translate", name="py2coq", detail=(out + err)[-800:]))
        else:
            missing = re.findall(r"\(\* MISSING (.*?) \*\)", open(os.path.join(bdir, "Src.v")).read())
            for m in missing:
                broken.append(dict(kind="translate", name="missing function", detail=m))

    # 2. compile
    # a file entry is a name in coq/<id>/ or {"from": "Cyy/File.v", "as": "Name.v"}: another property's model file compiled
    # against THIS property's regenerated source (module prefix Cyy. rewritten to <id>.)
    file_entries = cfg.get("files", [])
    file_names = [f if isinstance(f, str) else f["as"] for f in file_entries]
    files = (["Src.v"] if spec else []) + file_names
    per_file_timeout = cfg.get("coqc_timeout", 150 if tier == "quick" else 400)
    vpaths = []
    for f in file_entries:
        if isinstance(f, str):
            shutil.copy(os.path.join(pdir, f), os.path.join(bdir, f))
        else:
            other = f["from"].split("/")[0]
            txt = open(os.path.join(VERIF, "coq", f["from"])).read().replace(other + ".", pid + ".")
            open(os.path.join(bdir, f["as"]), "w").write(txt)
    failed_from = None
    coq_time = 0.0
    for f in files:
        vp = os.path.join(bdir, f)
        vpaths.append(vp)
        txt = strip_comments(open(vp).read()) if f != "Src.v" else ""
        names = [m.group(2) for m in THM.finditer(txt)]
        obligations += len(names)
        if failed_from is not None or any(b["kind"] in ("base", "translate") for b in broken):
            continue
        rc, out, err, dt = sh("timeout %d coqc -q -Q %s Py -Q . %s %s" % (per_file_timeout, BASE, pid, f), per_file_timeout + 20, cwd=bdir)
        coq_time += dt
        log.append("coqc %s rc=%d %.1fs" % (f, rc, dt))
        if rc != 0:
            failed_from = f
            thm = enclosing_theorem(vp, err) if f != "Src.v" else None
            if rc == 124 and not err.strip():
                err = "coqc did not finish within %d s: a proof (or the answer search of its tactic) no longer terminates in its usual time on this source" % per_file_timeout
                thm = thm or "(timed out)"
            broken.append(dict(kind="proof", name="%s:%s" % (f, thm or "?"), detail=err.strip()[-1200:]))
        else:
            discharged += len(names)
            theorems += [(f, n) for n in names]
            axioms |= parse_assumptions(out)
            open(os.path.join(bdir, f + ".out"), "w").write(out)
    bad_ax = sorted(a for a in axioms if a not in AXIOM_WHITELIST)
    if bad_ax:
        broken.append(dict(kind="axiom", name="non-whitelisted axiom", detail=", ".join(bad_ax)))
    hits = forbidden_scan([p for p in vpaths if not p.endswith("Src.v")] + glob.glob(os.path.join(BASE, "*.v")))
    if hits:
        broken.append(dict(kind="forbidden", name="forbidden vernacular", detail="; ".join(hits[:10])))

    # independent re-check (both tiers): coqchk re-checks EVERY module of this development - coq/Base and the property's own files - with the
    # stand-alone checker and prints the axioms of the whole context. The installed libraries (Coq's standard library, Interval, Flocq,
    # Coquelicot, mathcomp, Bignums) are admitted (-norec on our modules: "check the module, admit its dependencies"): re-checking Interval
    # and what it depends on takes more than 20 minutes per property and says nothing about this development. Seconds per property.
    coqchk = None
    if not broken and cfg.get("properties_file"):
        base_mods = ["Py." + l.strip()[:-2] for l in open(os.path.join(BASE, "_CoqProject")) if l.strip().endswith(".v")]
        own_mods = ["%s.%s" % (pid, f[:-2]) for f in files]
        lim = int(cfg.get("coqchk_timeout", 600 if tier == "quick" else 1200))
        rc, out, err, dt = sh("timeout %d coqchk -silent -o -Q %s Py -Q . %s %s" % (lim, BASE, pid, " ".join("-norec " + m for m in base_mods + own_mods)),
                              lim + 20, cwd=bdir)
        txt = out + err
        ok_chk = rc == 0          # (-silent suppresses the "Modules were successfully checked" line; a failed check exits non-zero)
        anomalies = [l.strip() for l in txt.splitlines() if l.strip().startswith("* ") and "<none>" not in l and not l.strip().startswith("* Axioms")
                     and not l.strip().startswith("* Theory")]
        coqchk = dict(rc=rc, wall_s=round(dt, 1), modules_checked=base_mods + own_mods, admitted="installed libraries (Coq, Interval, Flocq, Coquelicot, mathcomp, Bignums)",
                      summary=[l.strip() for l in txt.splitlines() if l.strip().startswith("* ")],
                      status=("re-checked" if ok_chk else ("not finished within %d s (no verdict)" % lim if rc == 124 else "error")))
        log.append("coqchk rc=%d %.1fs" % (rc, dt))
        if rc != 124 and (not ok_chk or anomalies):
            broken.append(dict(kind="coqchk", name=pid, detail=(txt[-800:] + " " + "; ".join(anomalies))[:1200]))

    # 3. correspondence: (a) the property's own generator, (b) PySem vs CPython on concrete inputs (harness/corr_pysem.py)
    corr = None
    corr_runs = []
    if cfg.get("corr"):
        corr_runs.append((cfg["corr"], [PY, os.path.join(VERIF, "harness", cfg["corr"]), "--tier", tier, "--seed", str(seed)], "corr.json"))
    if cfg.get("pysem_cases") and os.path.exists(os.path.join(bdir, "Src.vo")):
        corr_runs.append(("corr_pysem.py", [PY, os.path.join(VERIF, "harness", "corr_pysem.py"), "--prop", pid, "--tier", tier, "--seed", str(seed)], "corr_pysem.json"))
    for cname, ccmd, cfile in corr_runs:
        cout = os.path.join(bdir, cfile)
        rc, out, err, dt = sh(ccmd + ["--out", cout, "--builddir", bdir], cfg.get("corr_timeout", 1800 if tier == "quick" else 5400), cwd=VERIF, env=env)
        log.append("%s rc=%d %.1fs" % (cname, rc, dt))
        if rc != 0 or not os.path.exists(cout):
            broken.append(dict(kind="correspondence", name=cname, detail=(out + err)[-1200:]))
        else:
            c1 = json.load(open(cout))
            for mm in c1.get("mismatches", [])[:5]:
                broken.append(dict(kind="correspondence", name="%s:%s" % (cname, mm.get("case", "case")), detail=json.dumps(mm)[:1200]))
            if corr is None:
                corr = dict(cases=0, mismatches=[], parts={})
            corr["cases"] += c1.get("cases", 0)
            corr["mismatches"] += c1.get("mismatches", [])
            corr["parts"][cname] = {k: c1[k] for k in c1 if k != "mismatches"}

    # 4. oracle (guided by what broke, if anything)
    oracle = None
    if cfg.get("oracle") and not os.environ.get("VERIF_SKIP_ORACLE"):     # (development switch: compile + correspondence only)
        oout = os.path.join(bdir, "oracle.json")
        cmd = [PY, os.path.join(VERIF, "harness", cfg["oracle"]), "--tier", tier, "--seed", str(seed), "--out", oout]
        if replay:
            cmd += ["--replay", replay]
        rc, out, err, dt = sh(cmd, cfg.get("oracle_timeout", 600 if tier == "quick" else 1800), cwd=VERIF, env=env)
        log.append("oracle rc=%d %.1fs" % (rc, dt))
        if rc != 0 or not os.path.exists(oout):
            broken.append(dict(kind="oracle-harness", name=cfg["oracle"], detail=(out + err)[-1500:]))
        else:
            oracle = json.load(open(oout))
            if oracle.get("errors"):
                broken.append(dict(kind="oracle-harness", name=cfg["oracle"], detail="; ".join(oracle["errors"])[:1500]))

    # 5. verdict
    known = load_known()
    lines, nviol, seen_known = [], 0, set()
    unlisted = []
    for v in (oracle or {}).get("violations", []):
        if v["key"] in known and known[v["key"]]["property"] == pid:
            if v["key"] not in seen_known:
                seen_known.add(v["key"])
                lines.append("KNOWN-FINDING: property=%s %s [%s]" % (pid, known[v["key"]]["what"], v["key"]))
        else:
            unlisted.append(v)
    reported = set()
    for v in unlisted:
        if v["key"] in reported:
            continue
        reported.add(v["key"])
        h = hashlib.sha1(json.dumps(v, sort_keys=True).encode()).hexdigest()[:10]
        rp = os.path.join(BUILD, "replay", "%s_%s.json" % (pid, h))
        json.dump(dict(property=pid, key=v["key"], what=v["what"], input=v["input"], observed=v.get("observed"),
                       required=v.get("required"), broken=[b["name"] for b in broken],
                       replay_cmd="./check %s --replay %s" % (pid, rp)), open(rp, "w"), indent=1)
        lines.append("VIOLATION property=%s replay=%s" % (pid, rp))
        nviol += 1
    if broken and not unlisted:
        h = hashlib.sha1(json.dumps(broken, sort_keys=True).encode()).hexdigest()[:10]
        rp = os.path.join(BUILD, "replay", "%s_unproved_%s.json" % (pid, h))
        json.dump(dict(property=pid, no_failing_input_found=True,
                       what="a proof obligation / correspondence case no longer checks and the oracle found no concrete failing input",
                       broken=broken), open(rp, "w"), indent=1)
        lines.append("VIOLATION property=%s replay=%s no-failing-input-found" % (pid, rp))
        nviol += 1

    # 6. evidence
    samples = []
    pf = cfg.get("properties_file")
    if pf and os.path.exists(os.path.join(pdir, pf)):
        txt = strip_comments(open(os.path.join(pdir, pf)).read())
        for m in re.finditer(r"(Theorem|Corollary|Example)\s+([A-Za-z0-9_']+)(.*?)\.\s*\n\s*Proof", txt, re.S):
            samples.append("%s %s%s" % (m.group(1), m.group(2), re.sub(r"\s+", " ", m.group(3))[:700]))
    tb = ["Coq 8.16.1 kernel + vm_compute (no native_compute)", "tools/py2coq.py (syntactic serialiser Python ast -> PyAst)",
          "coq/Base/PySem.v, PyVal.v (meaning given to Python/numpy constructs; validated by correspondence)",
          "real-number idealisation of binary64 floats; decimal reading of float literals",
          "coqchk re-checks every module of this development (Py.*, %s.*); the installed libraries (Coq standard library, Interval, Flocq, "
          "Coquelicot, mathcomp, Bignums) are admitted as compiled by the distribution" % pid]
    tb += ["axiom: " + a for a in sorted(axioms)]
    tb += ["hypothesis: " + h for h in cfg.get("hypotheses", [])]
    ev = dict(property_id=pid, tier=tier, seed=seed, level="proof",
              coverage=dict(obligations=obligations, discharged=discharged,
                            checker_cmd="coqc -q -Q coq/Base Py -Q build/%s %s <file>.v (each under `timeout %d`); files: %s" % (pid, pid, per_file_timeout, ", ".join(files)),
                            trusted_base=tb,
                            samples=(samples[:12] or ["(no property theorem compiled)"]),
                            theorems=["%s:%s" % t for t in theorems],
                            partial_or_refuted=[n for _, n in theorems if n.endswith("_partial") or n.endswith("_refuted")],
                            source_functions=[("%s:%s.%s" % (e["file"], c, f)) for e in spec if e["items"] != "*" for c, f in e["items"]]
                                             + [("%s:*" % e["file"]) for e in spec if e["items"] == "*"],
                            tie=cfg.get("tie", "regeneration (Src.v re-serialised from /repo on this run)"),
                            broken=broken,
                            correspondence=({k: corr[k] for k in corr if k not in ("mismatches",)} if corr else None),
                            correspondence_mismatches=(len(corr.get("mismatches", [])) if corr else 0),
                            evaluations=(oracle or {}).get("evaluations", 0) + ((corr or {}).get("cases", 0)),
                            distinct_nontrivial=(oracle or {}).get("distinct_nontrivial", 0),
                            rule=(oracle or {}).get("rule", ""),
                            oracle_distribution=(oracle or {}).get("distribution"),
                            oracle_samples=(oracle or {}).get("samples"),
                            oracle_violation_counts=(oracle or {}).get("violation_counts"),
                            known_findings_seen=sorted(seen_known),
                            coqchk=coqchk, coq_wall_s=round(coq_time, 1), log=log,
                            explanation=cfg.get("explanation", "")),
              assumptions=cfg.get("hypotheses", []) + cfg.get("not_modelled", []),
              wall_s=round(time.time() - t0, 2), violations=nviol)
    os.makedirs(EVIDENCE, exist_ok=True)
    json.dump(ev, open(os.path.join(EVIDENCE, pid + ".json"), "w"), indent=1)
    for l in lines:
        print(l)
    print("%s %s: obligations=%d discharged=%d corr_cases=%s oracle_evals=%s broken=%d violations=%d known=%d wall=%.0fs" % (
        pid, tier, obligations, discharged, (corr or {}).get("cases"), (oracle or {}).get("evaluations"), len(broken), nviol,
        len(seen_known), time.time() - t0))
    for b in broken:
        print("  broken[%s] %s: %s" % (b["kind"], b["name"], b["detail"].strip().splitlines()[-1][:300] if b["detail"].strip() else ""))
    return 1 if nviol else 0


def main():
    a = sys.argv[1:]
    if not a:
        print(__doc__); return 2
    if a[0] == "setup":
        ok, msg = build_base()
        print("base build", "ok" if ok else "FAILED\n" + msg)
        return 0 if ok else 1
    tier = os.environ.get("VERIF_TIER", "quick")
    replay = None
    rest = a[1:]
    if "--replay" in rest:
        i = rest.index("--replay"); replay = rest[i + 1]; del rest[i:i + 2]
    if rest and rest[0] in ("quick", "thorough"):
        tier = rest[0]
    seed = int(os.environ.get("VERIF_SEED", "0") or 0)
    if a[0] == "all":
        rc = 0
        for d in sorted(glob.glob(os.path.join(VERIF, "coq", "C[0-9][0-9]"))):
            rc |= run_property(os.path.basename(d), tier, seed)
        return rc
    return run_property(a[0], tier, seed, replay)


if __name__ == "__main__":
    sys.exit(main())
