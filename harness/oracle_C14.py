"""Oracle C14 -- goodness-of-fit outputs describe the same model that the likelihood evaluates.

Sub-checks (each case replayable from its `case_seed`):
  sharp_kin   one kinematic lens (IFUKinCov / DdtHistKin / DdtGaussKin) in a random configuration (anisotropy model,
              1..3 scaling axes in random order incl. gamma_pl / gamma_in / log_m2l, lambda_mst or lambda_ifu, alpha/beta
              scaling, gamma_ppn, sharp kappa_ext, sys-error flag, normalised or not, cosmology object), sharp
              hyper-parameters: reported measurement/prediction vectors and covariances == closed formulas on
              independently displaced distances; lens log-likelihood == mvn.logpdf(meas, pred, Cm+Cp) (+ Ddt term,
              - normalisation when un-normalised); model Ddt/Dd == displaced distances with zero spread;
              GoodnessOfFit.kin_fit lists == the same numbers
  scatter     the same outputs with population scatter (lambda, a_ani, beta_inf, kappa_ext, gamma_in): mean and
              covariance against an independent Monte-Carlo of the population (own generator, 2e5 draws) within
              6 standard errors of an N-draw average; model Ddt mean/std against the analytic product moments
  ddt_meas    ddt_measurement() for all 14 likelihood types: data mean / sigma for the five Ddt types, (None, None) else
  chi2        GoodnessOfFit.reduced_chi2 for random mixed samples == -2 * sum(lnL_unnormalised) / sum(N_data) with
              lnL from closed formulas per type (KDE/hist types: a separately built, explicitly un-normalised object
              at the independently displaced distances)
  chi2_zero   data constructed equal to the prediction: reduced chi2 == 0 for the Gaussian types that have an
              un-normalised form; == (N log 2pi + log det)/N for the magnification types (always normalised)

Run: cd /verif && PYTHONPATH=/repo PYTHONHASHSEED=0 /venv/bin/python harness/oracle_C14.py --tier quick --seed 0 --out F
"""
import os, sys, json, copy, traceback

sys.path.insert(0, os.path.dirname(os.path.abspath(__file__)))
from common import *  # noqa: E402,F401
from scipy.stats import multivariate_normal as mvn  # noqa: E402
from scipy.interpolate import interpn  # noqa: E402

from hierarc.Likelihood.hierarchy_likelihood import LensLikelihood  # noqa: E402
from hierarc.Diagnostics.goodness_of_fit import GoodnessOfFit  # noqa: E402

PROP = "C14"
RULE = ("sharp: kin lnL == mvn.logpdf(reported meas, reported pred, Cm+Cp) (-norm), model Ddt/Dd == displaced distances, "
        "zero spread; scatter: mean/spread == population moments; ddt_measurement == data mean/sigma for Ddt types; "
        "reduced chi2 == -2 lnL_unnormalised/N_data, 0 when measurement == prediction (Gaussian types)")
C_KMS = 299792458.0 / 1000.0
FERMAT = 3.08567758e22 / 299792458.0 / 86400.0 * (2 * np.pi / 360 / 3600) ** 2  # Mpc/c/day * arcsec^2
DDT_TYPES = ["DdtGaussian", "DdtHist", "DdtHistKDE", "DdtHistKin", "DdtGaussKin"]
NDATA = {"DdtGaussian": lambda m: 1, "DdtDdKDE": lambda m: 2, "DdtDdGaussian": lambda m: 2, "DsDdsGaussian": lambda m: 1,
         "DdtLogNorm": lambda m: 1, "IFUKinCov": lambda m: m["nkin"], "DdtHist": lambda m: 1, "DdtHistKDE": lambda m: 1,
         "DdtHistKin": lambda m: 1 + m["nkin"], "DdtGaussKin": lambda m: 1 + m["nkin"], "Mag": lambda m: m["namp"],
         "TDMag": lambda m: m["ntd"] + m["namp"], "TDMagMagnitude": lambda m: m["ntd"] + m["namp"], "DSPL": lambda m: 1}


# ------------------------------------------------------------------------------------------------
# cosmology objects and distances (the cosmology is an INPUT of the property, its methods are used as given)
# ------------------------------------------------------------------------------------------------
def gen_cosmo(rng, zmax=4.0):
    from astropy.cosmology import FlatLambdaCDM, FlatwCDM, LambdaCDM, w0waCDM
    kind = str(rng.choice(["interp", "interp", "FLCDM", "FwCDM", "oLCDM", "w0waCDM"]))
    h0, om = float(rng.uniform(55, 90)), float(rng.uniform(0.15, 0.5))
    d = dict(kind=kind, h0=h0, om=om)
    if kind == "FwCDM":
        d["w"] = float(rng.uniform(-1.4, -0.6))
    if kind == "oLCDM":
        d["ok"] = float(rng.uniform(-0.15, 0.15))
    if kind == "w0waCDM":
        d["w0"], d["wa"] = float(rng.uniform(-1.3, -0.7)), float(rng.uniform(-0.4, 0.4))
    return d


def make_cosmo(d, zmax=4.0):
    from astropy.cosmology import FlatLambdaCDM, FlatwCDM, LambdaCDM, w0waCDM
    k = d["kind"]
    if k == "interp":
        return cosmo_interp(H0=d["h0"], Om0=d["om"], zmax=zmax + 0.5, n=150)
    if k == "FLCDM":
        return FlatLambdaCDM(H0=d["h0"], Om0=d["om"])
    if k == "FwCDM":
        return FlatwCDM(H0=d["h0"], Om0=d["om"], w0=d["w"])
    if k == "oLCDM":
        return LambdaCDM(H0=d["h0"], Om0=d["om"], Ode0=1 - d["om"] - d["ok"])
    return w0waCDM(H0=d["h0"], Om0=d["om"], Ode0=1 - d["om"], w0=d["w0"], wa=d["wa"])


def dist(cosmo, zl, zs):
    dd = float(cosmo.angular_diameter_distance(zl).value)
    ds = float(cosmo.angular_diameter_distance(zs).value)
    dds = float(cosmo.angular_diameter_distance_z1z2(zl, zs).value)
    return (1 + zl) * dd * ds / dds, dd, ds, dds


def lum_modulus(cosmo, zs, za):
    f = lambda z: 5 * np.log10((1 + z) ** 2 * float(cosmo.angular_diameter_distance(z).value))
    return f(zs) - f(za)


# ------------------------------------------------------------------------------------------------
# global model + hyper-parameters
# ------------------------------------------------------------------------------------------------
AXES = {"a_ani_OM": (0.1, 5.0), "a_ani_const": (-0.4, 0.6), "beta_inf": (0.0, 1.0), "gamma_pl": (1.7, 2.3),
        "gamma_in": (0.5, 1.5), "log_m2l": (0.1, 1.0)}


def gen_model(rng, scatter=False):
    """global model settings (kwargs_model of GoodnessOfFit) and matching sharp hyper-parameters"""
    am = str(rng.choice(["NONE", "OM", "GOM", "const"], p=[0.15, 0.4, 0.25, 0.2]))
    model = dict(anisotropy_model=am, anisotropy_sampling=(am != "NONE"))
    model["anisotropy_distribution"] = "NONE"
    model["lambda_mst_distribution"] = str(rng.choice(["NONE", "GAUSSIAN"]))
    model["gamma_in_sampling"] = bool(rng.random() < 0.3)
    model["log_m2l_sampling"] = bool(rng.random() < 0.3)
    if model["gamma_in_sampling"]:
        model["gamma_in_distribution"] = str(rng.choice(["NONE", "GAUSSIAN"]))
    model["alpha_lambda_sampling"] = bool(rng.random() < 0.4)
    model["beta_lambda_sampling"] = bool(rng.random() < 0.3)
    use_los = bool(rng.random() < 0.4)
    if use_los:
        model["los_distributions"] = ["GAUSSIAN"]
    if am != "NONE" and rng.random() < 0.4:
        model["anisotropy_distribution"] = "GAUSSIAN" if am == "const" else str(rng.choice(["GAUSSIAN", "GAUSSIAN_SCALED"]))
    kl = dict(lambda_mst=float(rng.uniform(0.85, 1.15)), gamma_ppn=float(rng.uniform(0.7, 1.3)),
              lambda_ifu=float(rng.uniform(0.85, 1.15)), lambda_mst_sigma=0, lambda_ifu_sigma=0)
    if model["alpha_lambda_sampling"]:
        kl["alpha_lambda"] = float(rng.uniform(-0.1, 0.1))
    if model["beta_lambda_sampling"]:
        kl["beta_lambda"] = float(rng.uniform(-0.1, 0.1))
    if model["gamma_in_sampling"]:
        kl["gamma_in"] = float(rng.uniform(0.6, 1.4))
        kl["gamma_in_sigma"] = 0
    if model["log_m2l_sampling"]:
        kl["log_m2l"] = float(rng.uniform(0.2, 0.9))
        kl["log_m2l_sigma"] = 0
    kk = {}
    if am in ("OM", "GOM"):
        kk["a_ani"] = float(rng.uniform(0.3, 4.5))
    if am == "const":
        kk["a_ani"] = float(rng.uniform(-0.3, 0.5))
    if am == "GOM":
        kk["beta_inf"] = float(rng.uniform(0.1, 0.9))
    if am != "NONE":
        kk["a_ani_sigma"] = 0
        if am == "GOM":
            kk["beta_inf_sigma"] = 0
    if rng.random() < 0.5:
        kk["sigma_v_sys_error"] = float(rng.uniform(0.01, 0.08))
    ks = dict(mu_sne=float(rng.uniform(23.5, 25.5)), sigma_sne=0)
    if rng.random() < 0.5:
        ks["z_apparent_m_anchor"] = float(rng.uniform(0.05, 0.3))
    klos = [dict(mean=float(rng.uniform(-0.05, 0.1)), sigma=0)] if use_los else None
    return model, dict(kwargs_lens=kl, kwargs_kin=kk, kwargs_source=ks, kwargs_los=klos)


def gen_scaling(rng, model, nbin, allow_gamma_pl=True):
    """kinematic scaling grid of one lens consistent with the global model (axes in random order)"""
    am = model["anisotropy_model"]
    names = []
    if am != "NONE":
        names.append("a_ani")
        if am == "GOM":
            names.append("beta_inf")
    if model.get("gamma_in_sampling") and rng.random() < 0.7:
        names.append("gamma_in")
    if model.get("log_m2l_sampling") and rng.random() < 0.7:
        names.append("log_m2l")
    if allow_gamma_pl and rng.random() < 0.3:
        names.append("gamma_pl")
    if not names or rng.random() < 0.1:
        return {}
    names = [names[i] for i in rng.permutation(len(names))][:3]
    if am == "GOM" and ("a_ani" not in names or "beta_inf" not in names):
        # the GOM distribution draws both parameters; both are fine outside the grid as well
        pass
    axes = []
    for nm in names:
        lo, hi = AXES["a_ani_const" if (nm == "a_ani" and am == "const") else ("a_ani_OM" if nm == "a_ani" else nm)]
        k = int(rng.integers(3, 7)) if len(names) == 1 else int(rng.integers(2, 5))
        ax = np.sort(rng.uniform(lo, hi, k))
        ax[0], ax[-1] = lo, hi
        axes.append(ax)
    grids = [rng.uniform(0.75, 1.3, tuple(len(a) for a in axes)) for _ in range(nbin)]
    return dict(kin_scaling_param_list=names, j_kin_scaling_param_axes=axes, j_kin_scaling_grid_list=grids)


def ref_scaling(sc, values):
    """multilinear interpolation of every bin's grid at the named parameter values (independent implementation)"""
    if not sc:
        return None
    names, axes, grids = sc["kin_scaling_param_list"], sc["j_kin_scaling_param_axes"], sc["j_kin_scaling_grid_list"]
    pt = np.atleast_2d(np.column_stack([np.atleast_1d(values[nm]) for nm in names]))
    if len(names) == 1:
        return np.array([np.interp(pt[:, 0], axes[0], g) for g in grids]).T  # (npts, nbin)
    return np.array([interpn(tuple(axes), g, pt, method="linear") for g in grids]).T


# ------------------------------------------------------------------------------------------------
# lenses
# ------------------------------------------------------------------------------------------------
def gen_lens(rng, t, cosmo, model, hyper, exact=False, allow_scaling=True):
    """data keyword arguments of one lens of type t whose data sit near (exact=True: on) the model prediction"""
    zl = float(rng.uniform(0.2, 0.9))
    zs = float(rng.uniform(zl + 0.4, 3.2))
    lens = dict(z_lens=zl, z_source=zs, likelihood_type=t, name="L_%s_%d" % (t, int(rng.integers(1e6))))
    meta = dict(type=t)
    if rng.random() < 0.3:
        lens["mst_ifu"] = True
    if model.get("alpha_lambda_sampling"):
        lens["lambda_scaling_property"] = float(rng.uniform(-1, 1))
    if model.get("beta_lambda_sampling"):
        lens["lambda_scaling_property_beta"] = float(rng.uniform(-1, 1))
    if model.get("los_distributions") and rng.random() < 0.7:
        lens["global_los_distribution"] = 0
    nkin = int(rng.integers(1, 5))
    sc = {}
    if allow_scaling and (t in KIN_TYPES or (t in ("DdtDdGaussian", "DsDdsGaussian", "DdtDdKDE") and rng.random() < 0.4)):
        sc = gen_scaling(rng, model, nkin if t in KIN_TYPES else 1, allow_gamma_pl=(t != "DSPL"))
        lens.update(sc)
    if t == "DSPL":
        lens["z_source2"] = float(rng.uniform(zs + 0.3, 4.0))
        if rng.random() < 0.5:  # a gamma_pl-only 'scaling' makes the DSPL slope a sampled quantity
            ax = np.array([1.7, 2.0, 2.3])
            sc = dict(kin_scaling_param_list=["gamma_pl"], j_kin_scaling_param_axes=[ax],
                      j_kin_scaling_grid_list=[np.ones(3)])
            lens.update(sc)
    meta["scaling"] = sc
    meta["nkin"] = nkin
    lens_for_pred = dict(lens)
    p = predict(lens_for_pred, meta, cosmo, hyper, gamma_pl=2.0 if "gamma_pl" not in sc.get("kin_scaling_param_list", []) else None)
    # p carries displaced distances etc. for gamma_pl = (to be decided by caller); we fix the lens' gamma_pl here
    if "gamma_pl" in sc.get("kin_scaling_param_list", []):
        meta["gamma_pl"] = float(rng.uniform(1.8, 2.2))
        p = predict(lens_for_pred, meta, cosmo, hyper, gamma_pl=meta["gamma_pl"])
    f = (lambda: 1.0) if exact else (lambda: float(1 + rng.normal(0, 0.03)))
    ddt_, dd_ = p["ddt_"], p["dd_"]
    s0 = 1.0 if p["scaling"] is None else float(p["scaling"][0])
    if t == "DdtGaussian":
        lens.update(ddt_mean=ddt_ * f(), ddt_sigma=float(rng.uniform(0.03, 0.1)) * ddt_)
    elif t == "DdtDdGaussian":
        lens.update(ddt_mean=ddt_ * f(), ddt_sigma=float(rng.uniform(0.03, 0.1)) * ddt_, dd_mean=dd_ * s0 * f(),
                    dd_sigma=float(rng.uniform(0.05, 0.15)) * dd_)
    elif t == "DsDdsGaussian":
        lens.update(ds_dds_mean=p["ds_dds"] / s0 * f(), ds_dds_sigma=float(rng.uniform(0.05, 0.15)) * p["ds_dds"])
    elif t == "DdtLogNorm":
        lens.update(ddt_mu=float(np.log(ddt_ * f())), ddt_sigma=float(rng.uniform(0.03, 0.1)))
    elif t == "DdtDdKDE":
        n = 300
        lens.update(ddt_samples=rng.normal(ddt_ * f(), 0.06 * ddt_, n), dd_samples=rng.normal(dd_ * s0 * f(), 0.08 * dd_, n),
                    bandwidth=float(rng.uniform(0.5, 2)))
    elif t in ("DdtHist", "DdtHistKDE", "DdtHistKin"):
        n = int(rng.integers(200, 600))
        lens.update(ddt_samples=rng.normal(ddt_ * f(), 0.06 * ddt_, n), nbins_hist=int(rng.integers(20, 60)))
        if rng.random() < 0.5:
            lens["ddt_weights"] = rng.uniform(0.3, 2.0, n)
        if t == "DdtHist" and rng.random() < 0.3:
            lens["binning_method"] = str(rng.choice(["scott", "silverman"]))
        if t != "DdtHist":
            lens["bandwidth"] = float(rng.uniform(0.01, 0.03) * ddt_)
    elif t == "DdtGaussKin":
        lens.update(ddt_mean=ddt_ * f(), ddt_sigma=float(rng.uniform(0.03, 0.1)) * ddt_)
    if t in KIN_TYPES:
        # J such that the predicted dispersion is 180..320 km/s
        sv_target = rng.uniform(180, 320, nkin)
        sc_vec = np.ones(nkin) if p["scaling"] is None else p["scaling"]
        j = (sv_target / C_KMS) ** 2 / p["ds_dds"] / sc_vec
        lens["j_model"] = j
        lens["error_cov_j_sqrt"] = pd(rng, nkin, 1.0) * np.outer(np.sqrt(j), np.sqrt(j)) * float(rng.uniform(0.02, 0.06)) ** 2
        lens["error_cov_measurement"] = pd(rng, nkin, float(rng.uniform(8, 20)))
        lens["sigma_v_measurement"] = sv_target * np.array([f() for _ in range(nkin)])
        if rng.random() < 0.6:
            lens["sigma_sys_error_include"] = bool(rng.random() < 0.7)
    if t in MAG_TYPES:
        namp = int(rng.integers(2, 5))
        ntd = namp - 1
        meta.update(namp=namp, ntd=ntd)
        mu = p["mu_source_fn"](zs)
        if t == "Mag":
            magm = rng.uniform(2, 8, namp) * rng.choice([-1, 1], namp)
            amp_int = 10 ** (-(mu - 20.0) / 2.5)
            lens.update(magnification_model=magm, cov_magnification_model=pd(rng, namp, 0.3),
                        amp_measured=amp_int * magm * np.array([f() for _ in range(namp)]),
                        cov_amp_measured=pd(rng, namp, 0.1 * amp_int * 5))
            if rng.random() < 0.3:
                lens["magnitude_zero_point"] = 25.0
                amp_int = 10 ** (-(mu - 25.0) / 2.5)
                lens["amp_measured"] = amp_int * magm * np.array([f() for _ in range(namp)])
                lens["cov_amp_measured"] = pd(rng, namp, 0.1 * amp_int * 5)
        else:
            fermat = rng.uniform(0.1, 1.0, ntd) * rng.choice([-1, 1], ntd)
            td = ddt_ * FERMAT * fermat
            lens.update(fermat_diff=fermat, time_delay_measured=td * np.array([f() for _ in range(ntd)]),
                        cov_td_measured=pd(rng, ntd, 0.03 * float(np.mean(np.abs(td)))), cov_model=pd(rng, ntd + namp, 0.05))
            if t == "TDMag":
                magm = rng.uniform(2, 8, namp) * rng.choice([-1, 1], namp)
                amp_int = 10 ** (-(mu - 20.0) / 2.5)
                lens.update(magnification_model=magm, amp_measured=amp_int * magm * np.array([f() for _ in range(namp)]),
                            cov_amp_measured=pd(rng, namp, 0.1 * amp_int * 5))
            else:
                magm = -2.5 * np.log10(rng.uniform(2, 8, namp))
                lens.update(magnification_model=magm, magnitude_measured=(magm + mu) * np.array([f() for _ in range(namp)]),
                            cov_magnitude_measured=pd(rng, namp, 0.1))
    if t == "DSPL":
        p2 = predict(lens, meta, cosmo, hyper, gamma_pl=meta.get("gamma_pl", 2.0))
        lens.update(beta_dspl=p2["theta_ratio"] * f(), sigma_beta_dspl=float(rng.uniform(0.02, 0.08)))
    return lens, meta


def lens_hyper(lens, meta, hyper):
    """the sharp per-lens values: (lambda, gamma_ppn, kappa, parameter values for the scaling grid)"""
    kl, kk = hyper["kwargs_lens"], hyper["kwargs_kin"]
    lam0 = kl["lambda_ifu"] if lens.get("mst_ifu") else kl["lambda_mst"]
    lam = lam0 + kl.get("alpha_lambda", 0) * lens.get("lambda_scaling_property", 0) + \
        kl.get("beta_lambda", 0) * lens.get("lambda_scaling_property_beta", 0)
    kappa = 0.0
    if lens.get("global_los_distribution", False) is not False and hyper["kwargs_los"] is not None:
        kappa = hyper["kwargs_los"][lens["global_los_distribution"]]["mean"]
    vals = dict(a_ani=kk.get("a_ani"), beta_inf=kk.get("beta_inf"), gamma_in=kl.get("gamma_in"), log_m2l=kl.get("log_m2l"),
                gamma_pl=meta.get("gamma_pl"))
    return lam, kl["gamma_ppn"], kappa, vals


def predict(lens, meta, cosmo, hyper, gamma_pl=None):
    """independent model prediction of one lens for sharp hyper-parameters"""
    zl, zs = lens["z_lens"], lens["z_source"]
    if gamma_pl is not None:
        meta = dict(meta, gamma_pl=gamma_pl)
    lam, gppn, kappa, vals = lens_hyper(lens, meta, hyper)
    out = dict(lam=lam, kappa=kappa)
    if lens["likelihood_type"] == "DSPL":
        _, _, ds1, dds1 = dist(cosmo, zl, zs)
        if "z_source2" in lens:
            _, _, ds2, dds2 = dist(cosmo, zl, lens["z_source2"])
            beta = dds1 / ds1 * ds2 / dds2
            g = meta.get("gamma_pl", 2.0) if "gamma_pl" in meta.get("scaling", {}).get("kin_scaling_param_list", []) else 2.0
            out["theta_ratio"] = (beta - (1 - lam) * (1 - beta)) ** (1.0 / (g - 1))
        out.update(ddt_=0.0, dd_=0.0, ds_dds=1.0, scaling=None, mu_source_fn=None)
        return out
    ddt, dd, ds, dds = dist(cosmo, zl, zs)
    lam_tot = max(lam * (1 - kappa), 1e-4)
    out["ddt"], out["dd"] = ddt, dd
    out["ddt_"] = ddt * lam_tot
    out["dd_"] = dd * (1 + gppn) / 2.0
    out["ds_dds"] = max(out["ddt_"] / out["dd_"] / (1 + zl), 0.0)
    sc = meta.get("scaling") or {}
    if sc and all(vals.get(nm) is not None for nm in sc["kin_scaling_param_list"]):
        out["scaling"] = ref_scaling(sc, vals)[0]
    else:
        out["scaling"] = None
    ks = hyper["kwargs_source"]
    za = ks.get("z_apparent_m_anchor", 0.1)
    out["mu_source_fn"] = lambda z: ks["mu_sne"] + lum_modulus(cosmo, z, za) + 5 * np.log10(lam_tot)
    return out


def kin_reference(lens, p, hyper, sys_applies=True):
    """measurement / prediction vectors and covariances of the kinematic part from the closed formulas"""
    j = np.asarray(lens["j_model"], dtype=float)
    n = len(j)
    s = np.ones(n) if p["scaling"] is None else np.asarray(p["scaling"], dtype=float)
    pred = np.sqrt(j * p["ds_dds"] * s) * C_KMS
    cpred = np.asarray(lens["error_cov_j_sqrt"]) * np.outer(np.sqrt(s), np.sqrt(s)) * p["ds_dds"] * C_KMS ** 2
    meas = np.asarray(lens["sigma_v_measurement"], dtype=float)
    cmeas = np.array(lens["error_cov_measurement"], dtype=float)
    se = hyper["kwargs_kin"].get("sigma_v_sys_error")
    if lens.get("sigma_sys_error_include", False) and se is not None:
        cmeas = cmeas + np.outer(meas * se, meas * se)
    return meas, cmeas, pred, cpred


def ref_lnl_unnormalised(lens, meta, cosmo, hyper):
    """ln L of one lens as GoodnessOfFit must evaluate it (normalized=False), from closed formulas"""
    t = lens["likelihood_type"]
    p = predict(lens, meta, cosmo, hyper)
    zl, zs = lens["z_lens"], lens["z_source"]
    s0 = 1.0 if p["scaling"] is None else float(p["scaling"][0])
    if t == "DdtGaussian":
        return -(p["ddt_"] - lens["ddt_mean"]) ** 2 / 2 / lens["ddt_sigma"] ** 2
    if t == "DdtDdGaussian":
        return (-(p["ddt_"] - lens["ddt_mean"]) ** 2 / 2 / lens["ddt_sigma"] ** 2
                - (p["dd_"] * s0 - lens["dd_mean"]) ** 2 / 2 / lens["dd_sigma"] ** 2)
    if t == "DsDdsGaussian":
        return -((p["ddt_"] / p["dd_"] / (1 + zl)) / s0 - lens["ds_dds_mean"]) ** 2 / 2 / lens["ds_dds_sigma"] ** 2
    if t == "DdtLogNorm":
        return (-0.5 * (np.log(p["ddt_"]) - lens["ddt_mu"]) ** 2 / lens["ddt_sigma"] ** 2 - np.log(p["ddt_"])
                - 0.5 * np.log(lens["ddt_sigma"] ** 2))
    if t == "DdtDdKDE":
        from hierarc.Likelihood.LensLikelihood.ddt_dd_kde_likelihood import DdtDdKDELikelihood
        o = DdtDdKDELikelihood(zl, zs, dd_samples=lens["dd_samples"], ddt_samples=lens["ddt_samples"], bandwidth=lens["bandwidth"])
        return fscalar(o.log_likelihood(p["ddt_"], p["dd_"], kin_scaling=np.array([s0])))
    if t == "DdtHist":
        from hierarc.Likelihood.LensLikelihood.ddt_hist_likelihood import DdtHistLikelihood
        o = DdtHistLikelihood(zl, zs, lens["ddt_samples"], ddt_weights=lens.get("ddt_weights"), nbins_hist=lens["nbins_hist"],
                              normalized=False, binning_method=lens.get("binning_method"))
        return fscalar(o.log_likelihood(p["ddt_"]))
    if t in ("DdtHistKDE", "DdtHistKin"):
        from hierarc.Likelihood.LensLikelihood.ddt_hist_likelihood import DdtHistKDELikelihood
        o = DdtHistKDELikelihood(zl, zs, lens["ddt_samples"], ddt_weights=lens.get("ddt_weights"), bandwidth=lens["bandwidth"],
                                 nbins_hist=lens["nbins_hist"], normalized=False)
        v = fscalar(o.log_likelihood(p["ddt_"]))
        if t == "DdtHistKDE":
            return v
    if t == "DdtGaussKin":
        v = -(p["ddt_"] - lens["ddt_mean"]) ** 2 / 2 / lens["ddt_sigma"] ** 2
    if t == "IFUKinCov":
        v = 0.0
    if t in KIN_TYPES:
        m, cm, pr, cp = kin_reference(lens, p, hyper)
        dlt = m - pr
        return v - 0.5 * dlt @ np.linalg.solve(cm + cp, dlt)
    if t == "DSPL":
        return -0.5 * ((p["theta_ratio"] - lens["beta_dspl"]) / lens["sigma_beta_dspl"]) ** 2
    mu = p["mu_source_fn"](zs)
    if t == "Mag":
        amp = 10 ** (-(mu - lens.get("magnitude_zero_point", 20)) / 2.5)
        return gauss_logpdf(lens["amp_measured"], amp * lens["magnification_model"],
                            np.asarray(lens["cov_amp_measured"]) + np.asarray(lens["cov_magnification_model"]) * amp ** 2)
    ntd, namp = meta["ntd"], meta["namp"]
    cd = np.zeros((ntd + namp, ntd + namp))
    cd[:ntd, :ntd] = lens["cov_td_measured"]
    if t == "TDMag":
        amp = 10 ** (-(mu - 20.0) / 2.5)
        cd[ntd:, ntd:] = lens["cov_amp_measured"]
        scale = np.append(p["ddt_"] * FERMAT * np.ones(ntd), amp * np.ones(namp))
        model = scale * np.append(lens["fermat_diff"], lens["magnification_model"])
        data = np.append(lens["time_delay_measured"], lens["amp_measured"])
    else:
        cd[ntd:, ntd:] = lens["cov_magnitude_measured"]
        scale = np.append(p["ddt_"] * FERMAT * np.ones(ntd), np.ones(namp))
        model = np.append(p["ddt_"] * FERMAT * np.asarray(lens["fermat_diff"]), np.asarray(lens["magnification_model"]) + mu)
        data = np.append(lens["time_delay_measured"], lens["magnitude_measured"])
    return gauss_logpdf(data, model, cd + np.outer(scale, scale) * np.asarray(lens["cov_model"]))


def gauss_logpdf(x, mu, C):
    """multivariate normal log-density by solve/slogdet (scipy's mvn rejects the badly scaled joint time-delay /
    flux covariances, condition number ~1e11, as singular)"""
    x, mu, C = np.asarray(x, float), np.asarray(mu, float), np.asarray(C, float)
    d = x - mu
    sign, ld = np.linalg.slogdet(C)
    return float(-0.5 * (d @ np.linalg.solve(C, d) + ld + len(d) * np.log(2 * np.pi)))


def norm_term(lens, meta, cosmo, hyper):
    """(N log 2pi + log det) / 2 of the always-normalised magnification types at measurement == prediction"""
    return -ref_lnl_unnormalised(lens, meta, cosmo, hyper)


def describe(lens, meta):
    d = {k: v for k, v in lens.items() if not isinstance(v, np.ndarray) or v.size <= 30}
    d["_scaling_params"] = (meta.get("scaling") or {}).get("kin_scaling_param_list")
    if "gamma_pl" in meta:
        d["_gamma_pl"] = meta["gamma_pl"]
    return d


def with_gamma_pl(hyper, lenses, metas, via_goodness=True):
    """gamma_pl of lenses whose grid has a gamma_pl axis is passed as gamma_pl_list (index in order of appearance)"""
    h = copy.deepcopy(hyper)
    gl = [m["gamma_pl"] for l, m in zip(lenses, metas) if "gamma_pl" in (m.get("scaling") or {}).get("kin_scaling_param_list", [])]
    if gl:
        h["kwargs_lens"]["gamma_pl_list"] = gl
    return h


def local_model_kwargs(model):
    from hierarc.Likelihood.lens_sample_likelihood import _input_param_list
    return {k: v for k, v in model.items() if k in _input_param_list}


# ------------------------------------------------------------------------------------------------
# sub-check: sharp_kin
# ------------------------------------------------------------------------------------------------
def check_sharp_kin(rec, rng, inp):
    cd = gen_cosmo(rng)
    cosmo = make_cosmo(cd)
    model, hyper = gen_model(rng)
    t = str(rng.choice(KIN_TYPES))
    lens, meta = gen_lens(rng, t, cosmo, model, hyper)
    normalized = bool(rng.random() < 0.5)
    ndraw = int(rng.integers(2, 7))
    hyper_l = with_gamma_pl(hyper, [lens], [meta])
    inp = dict(inp, cosmo=cd, model=model, hyper=hyper_l, lens=describe(lens, meta), normalized=normalized, ndraw=ndraw)
    rec.case(dict(check="sharp_kin", type=t, model=model, scaling=meta["scaling"].get("kin_scaling_param_list"),
                  cosmo=cd["kind"], normalized=normalized, mst_ifu=lens.get("mst_ifu", False),
                  los=lens.get("global_los_distribution", False) is not False),
             kind="sharp_kin:%s:%s:%dd" % (t, model["anisotropy_model"], len(meta["scaling"].get("kin_scaling_param_list", []))))
    gpi = 0 if "gamma_pl" in meta["scaling"].get("kin_scaling_param_list", []) else None
    try:
        ll = LensLikelihood(normalized=normalized, num_distribution_draws=ndraw, gamma_pl_index=gpi,
                            **local_model_kwargs(model), **lens)
        np.random.seed(int(rng.integers(2 ** 31)))
        kw = dict(kwargs_lens=hyper_l["kwargs_lens"], kwargs_kin=hyper_l["kwargs_kin"], kwargs_los=hyper_l["kwargs_los"])
        v = fscalar(ll.lens_log_likelihood(cosmo, kwargs_source=hyper_l["kwargs_source"], **kw))
        m, Cm, pv, Cp = ll.sigma_v_measured_vs_predict(cosmo, **kw)
        dm, ds_, ddm, dds_ = ll.ddt_dd_model_prediction(cosmo, kwargs_lens=hyper_l["kwargs_lens"], kwargs_los=hyper_l["kwargs_los"])
    except Exception as e:
        rec.check(False, "C14:sharp_kin:raises", "goodness-of-fit call raised on a valid sharp configuration", inp, repr(e))
        return
    p = predict(lens, meta, cosmo, hyper)
    rm, rCm, rp, rCp = kin_reference(lens, p, hyper)
    m, Cm, pv, Cp = np.asarray(m, float), np.asarray(Cm, float), np.asarray(pv, float), np.asarray(Cp, float)
    n = len(rm)
    ok_shape = m.shape == (n,) and pv.shape == (n,) and Cm.shape == (n, n) and Cp.shape == (n, n)
    rec.check(ok_shape, "C14:sharp_kin:shape", "reported vectors/matrices have the wrong shape", inp,
              [m.shape, Cm.shape, pv.shape, Cp.shape], n)
    if not ok_shape:
        return
    rec.check(rec.close(m, rm, 1e-12, 0), "C14:sharp_kin:measurement", "reported measurement vector != data", inp, m, rm)
    rec.check(rec.close(Cm, rCm, 1e-10, 1e-12), "C14:sharp_kin:cov_measurement",
              "reported measurement covariance != error_cov_measurement (+ outer(sigma_v*sys) when included and sampled)",
              inp, Cm, rCm)
    # interpolated scaling and interpolated cosmology are exact multilinear / method calls -> 1e-9
    rec.check(rec.close(pv, rp, 1e-9, 0), "C14:sharp_kin:prediction",
              "reported prediction != sqrt(J * Ds/Dds(displaced) * scaling) * c", inp, pv, rp)
    rec.check(rec.close(Cp, rCp, 1e-9, 1e-9 * float(np.max(np.abs(rCp)))), "C14:sharp_kin:cov_prediction",
              "reported prediction covariance != cov_j_sqrt * outer(sqrt s) * Ds/Dds * c^2 (zero sample covariance)", inp, Cp, rCp)
    # likelihood reproduced from the REPORTED quantities
    try:
        ref = float(mvn.logpdf(m, pv, Cm + Cp))
    except Exception as e:
        rec.check(False, "C14:sharp_kin:cov_not_pd", "reported Cm+Cp is not a covariance", inp, repr(e))
        return
    if not normalized:
        ref += 0.5 * (n * np.log(2 * np.pi) + np.linalg.slogdet(Cm + Cp)[1])
    if t == "DdtGaussKin":
        ref += -(dm - lens["ddt_mean"]) ** 2 / 2 / lens["ddt_sigma"] ** 2
    if t == "DdtHistKin":
        ref += fscalar(ll._lens_type._tdLikelihood.log_likelihood(dm))
    rec.check(abs(v - ref) <= 1e-8 * max(1, abs(ref)), "C14:sharp_kin:loglike_vs_reported:%s" % t,
              "lens log-likelihood != mvn.logpdf(reported measurement | reported prediction, Cm+Cp) (+Ddt term, -norm)",
              inp, v, ref)
    ok = (abs(dm - p["ddt_"]) <= 1e-10 * p["ddt_"] and abs(ddm - p["dd_"]) <= 1e-10 * p["dd_"])
    rec.check(ok, "C14:sharp_kin:ddt_dd_model", "model Ddt/Dd != displaced distances ddt*lambda*(1-kappa), dd*(1+gamma_ppn)/2",
              inp, [dm, ddm], [p["ddt_"], p["dd_"]])
    rec.check(abs(ds_) <= 1e-10 * p["ddt_"] and abs(dds_) <= 1e-10 * p["dd_"], "C14:sharp_kin:ddt_dd_spread",
              "model Ddt/Dd spread not zero for sharp hyper-parameters", inp, [ds_, dds_], [0, 0])
    # GoodnessOfFit.kin_fit on a 2-lens sample (second lens without kinematics contributes nothing)
    try:
        other = dict(z_lens=0.4, z_source=1.7, likelihood_type="DdtGaussian", ddt_mean=3000., ddt_sigma=200., name="plain")
        order = [lens, other] if rng.random() < 0.5 else [other, lens]
        G = GoodnessOfFit(order, dict(model))
        names, ml, mel, pl, pel = G.kin_fit(cosmo, hyper_l["kwargs_lens"], hyper_l["kwargs_kin"], hyper_l["kwargs_los"])
        ok = (list(names) == [lens["name"]] * n and rec.close(ml, rm, 1e-12, 0) and rec.close(mel, np.sqrt(np.diag(rCm)), 1e-10, 0)
              and rec.close(pl, rp, 1e-9, 0) and rec.close(pel, np.sqrt(np.diag(rCp)), 1e-9, 0))
        rec.check(ok, "C14:sharp_kin:kin_fit", "GoodnessOfFit.kin_fit lists != (name, data, sqrt diag Cm, prediction, sqrt diag Cp)",
                  inp, [names, ml, mel, pl, pel], [rm, np.sqrt(np.diag(rCm)), rp, np.sqrt(np.diag(rCp))])
    except Exception as e:
        rec.check(False, "C14:sharp_kin:kin_fit_raises", "GoodnessOfFit.kin_fit raised", inp, repr(e))


# ------------------------------------------------------------------------------------------------
# sub-check: scatter
# ------------------------------------------------------------------------------------------------
def trunc_normal(g, mu, sig, lo, hi, size):
    if sig == 0:
        return np.full(size, mu)
    out = g.normal(mu, sig, size)
    bad = (out < lo) | (out > hi)
    while bad.any():
        out[bad] = g.normal(mu, sig, int(bad.sum()))
        bad = (out < lo) | (out > hi)
    return out


def check_scatter(rec, rng, inp, ndraw):
    cd = gen_cosmo(rng)
    cosmo = make_cosmo(cd)
    am = str(rng.choice(["OM", "GOM", "const", "NONE"], p=[0.4, 0.25, 0.2, 0.15]))
    model = dict(anisotropy_model=am, anisotropy_sampling=(am != "NONE"), lambda_mst_distribution="GAUSSIAN")
    model["anisotropy_distribution"] = "NONE" if am == "NONE" else ("GAUSSIAN" if am == "const" else str(rng.choice(["GAUSSIAN", "GAUSSIAN_SCALED"])))
    if rng.random() < 0.3:
        model["gamma_in_sampling"] = True
        model["gamma_in_distribution"] = "GAUSSIAN"
    use_los = bool(rng.random() < 0.5)
    if use_los:
        model["los_distributions"] = ["GAUSSIAN"]
    kl = dict(lambda_mst=float(rng.uniform(0.9, 1.1)), gamma_ppn=float(rng.uniform(0.8, 1.2)), lambda_ifu=float(rng.uniform(0.9, 1.1)),
              lambda_mst_sigma=float(rng.choice([0.0, rng.uniform(0.01, 0.08)])), lambda_ifu_sigma=float(rng.uniform(0.01, 0.08)))
    if model.get("gamma_in_sampling"):
        kl.update(gamma_in=float(rng.uniform(0.7, 1.3)), gamma_in_sigma=float(rng.uniform(0.05, 0.3)))
    kk = {}
    if am in ("OM", "GOM"):
        kk.update(a_ani=float(rng.uniform(0.5, 3.5)), a_ani_sigma=float(rng.uniform(0.05, 0.5)))
    if am == "const":
        kk.update(a_ani=float(rng.uniform(-0.2, 0.4)), a_ani_sigma=float(rng.uniform(0.05, 0.3)))
    if am == "GOM":
        kk.update(beta_inf=float(rng.uniform(0.2, 0.8)), beta_inf_sigma=float(rng.uniform(0.05, 0.3)))
    if rng.random() < 0.5:
        kk["sigma_v_sys_error"] = float(rng.uniform(0.01, 0.05))
    klos = [dict(mean=float(rng.uniform(-0.03, 0.08)), sigma=float(rng.uniform(0.01, 0.05)))] if use_los else None
    hyper = dict(kwargs_lens=kl, kwargs_kin=kk, kwargs_source={"mu_sne": 24.0}, kwargs_los=klos)
    t = str(rng.choice(KIN_TYPES))
    # data are placed with the mean hyper-parameters
    hyper_mean = copy.deepcopy(hyper)
    lens, meta = gen_lens(rng, t, cosmo, model, hyper_mean)
    for k in ("lambda_scaling_property", "lambda_scaling_property_beta"):
        lens.pop(k, None)
    if "gamma_pl" in meta["scaling"].get("kin_scaling_param_list", []):
        # keep the scatter stream to the population parameters
        i = meta["scaling"]["kin_scaling_param_list"].index("gamma_pl")
        sc = meta["scaling"]
        sc["kin_scaling_param_list"].pop(i)
        sc["j_kin_scaling_param_axes"].pop(i)
        sc["j_kin_scaling_grid_list"] = [np.take(g, 0, axis=i) for g in sc["j_kin_scaling_grid_list"]]
        if not sc["kin_scaling_param_list"]:
            for k in list(sc):
                lens.pop(k, None)
            meta["scaling"] = {}
        else:
            lens.update(sc)
    inp = dict(inp, cosmo=cd, model=model, hyper=hyper, lens=describe(lens, meta), ndraw=ndraw)
    names = meta["scaling"].get("kin_scaling_param_list", [])
    rec.case(dict(check="scatter", type=t, model=model, scaling=names, cosmo=cd["kind"], mst_ifu=lens.get("mst_ifu", False),
                  los=lens.get("global_los_distribution", False) is not False),
             kind="scatter:%s:%s:%dd" % (t, am, len(names)))
    try:
        ll = LensLikelihood(normalized=True, num_distribution_draws=ndraw, **local_model_kwargs(model), **lens)
        np.random.seed(int(rng.integers(2 ** 31)))
        kw = dict(kwargs_lens=kl, kwargs_kin=kk, kwargs_los=klos)
        m, Cm, pv, Cp = ll.sigma_v_measured_vs_predict(cosmo, **kw)
        dm, ds_, ddm, dds_ = ll.ddt_dd_model_prediction(cosmo, kwargs_lens=kl, kwargs_los=klos)
    except Exception as e:
        rec.check(False, "C14:scatter:raises", "goodness-of-fit call raised on a valid configuration with scatter", inp, repr(e))
        return
    # ---- independent population Monte-Carlo (own generator) ----
    M = 200000
    g = np.random.default_rng([int(c) for c in inp["case_seed"]] + [99])
    zl = lens["z_lens"]
    ddt, dd, _, _ = dist(cosmo, zl, lens["z_source"])
    lam_mu = kl["lambda_ifu"] if lens.get("mst_ifu") else kl["lambda_mst"]
    lam_sig = kl["lambda_ifu_sigma"] if lens.get("mst_ifu") else kl["lambda_mst_sigma"]
    lam = g.normal(lam_mu, lam_sig, M) if lam_sig > 0 else np.full(M, lam_mu)
    has_los = lens.get("global_los_distribution", False) is not False and klos is not None
    kap = g.normal(klos[0]["mean"], klos[0]["sigma"], M) if has_los else np.zeros(M)
    lam_tot = np.maximum(lam * (1 - kap), 1e-4)
    ddt_s = ddt * lam_tot
    dd_s = dd * (1 + kl["gamma_ppn"]) / 2
    dsdds = np.maximum(ddt_s / dd_s / (1 + zl), 0)
    bounds = {nm: (float(np.min(ax)), float(np.max(ax))) for nm, ax in zip(names, meta["scaling"].get("j_kin_scaling_param_axes", []))}
    vals = {}
    if am != "NONE":
        lo, hi = bounds.get("a_ani", (-np.inf, np.inf))
        sg = kk["a_ani_sigma"] * (kk["a_ani"] if model["anisotropy_distribution"] == "GAUSSIAN_SCALED" else 1.0)
        vals["a_ani"] = trunc_normal(g, kk["a_ani"], sg, lo, hi, M)
    if am == "GOM":
        lo, hi = bounds.get("beta_inf", (-np.inf, np.inf))
        vals["beta_inf"] = trunc_normal(g, kk["beta_inf"], kk["beta_inf_sigma"], lo, hi, M)
    if model.get("gamma_in_sampling"):
        lo, hi = bounds.get("gamma_in", (-np.inf, np.inf))
        vals["gamma_in"] = trunc_normal(g, kl["gamma_in"], kl["gamma_in_sigma"], lo, hi, M)
    j = np.asarray(lens["j_model"], float)
    n = len(j)
    S = ref_scaling(meta["scaling"], vals) if names else np.ones((M, n))
    pred = np.sqrt(j[None, :] * dsdds[:, None] * S) * C_KMS  # (M, n)
    mean_pop = pred.mean(axis=0)
    cov_pop = np.atleast_2d(np.cov(pred.T))
    cj = np.asarray(lens["error_cov_j_sqrt"], float)
    cm_i = cj[None, :, :] * np.sqrt(S)[:, :, None] * np.sqrt(S)[:, None, :] * dsdds[:, None, None] * C_KMS ** 2
    cmod_mean, cmod_std = cm_i.mean(axis=0), cm_i.std(axis=0)
    pv, Cp = np.asarray(pv, float), np.atleast_2d(np.asarray(Cp, float))
    rm, rCm, _, _ = kin_reference(lens, dict(scaling=None, ds_dds=1.0), hyper)
    rec.check(rec.close(m, rm, 1e-12, 0) and rec.close(Cm, rCm, 1e-10, 1e-12), "C14:scatter:measurement",
              "reported measurement vector / covariance != data (scatter must not touch them)", inp, [m, Cm], [rm, rCm])
    # N-draw average: standard error sqrt(var/N); 6 standard errors (+ MC error of the reference, M >> N)
    se = np.sqrt(np.diag(cov_pop) / ndraw)
    rec.check(np.all(np.abs(pv - mean_pop) <= 6 * se + 1e-9 * mean_pop), "C14:scatter:prediction_mean",
              "mean prediction over the draws != population mean of sqrt(J Ds/Dds s) c (6 standard errors)", inp, pv, mean_pop)
    # sample covariance element (a,b) of N draws: variance (E[ca^2 cb^2] - Cab^2)/N with c the centred prediction
    # (fourth moments taken from the population Monte-Carlo: the prediction through a piecewise-linear scaling grid
    # can be far from Gaussian); mean model covariance: std/sqrt(N).  6 standard errors each.
    cen = pred - mean_pop[None, :]
    m22 = np.einsum("ma,mb->ab", cen ** 2, cen ** 2) / M
    tol = (6 * np.sqrt(np.maximum(m22 - cov_pop ** 2, 0) / ndraw) + 6 * cmod_std / np.sqrt(ndraw)
           + 1e-9 * np.abs(cmod_mean) + 1e-12)
    expC = cmod_mean + cov_pop
    rec.check(Cp.shape == expC.shape and np.all(np.abs(Cp - expC) <= tol), "C14:scatter:prediction_cov",
              "prediction covariance != mean model covariance + population covariance of the prediction", inp, Cp, expC)
    # model Ddt, Dd: analytic product moments (the 1e-4 floor is > 10 sigma away)
    e1 = lam_mu * (1 - (klos[0]["mean"] if has_los else 0.0))
    ks2 = klos[0]["sigma"] ** 2 if has_los else 0.0
    e2 = (lam_sig ** 2 + lam_mu ** 2) * (ks2 + (1 - (klos[0]["mean"] if has_los else 0.0)) ** 2)
    sd_tot = np.sqrt(max(e2 - e1 ** 2, 0.0))
    rec.check(abs(dm - ddt * e1) <= 6 * ddt * sd_tot / np.sqrt(ndraw) + 1e-10 * ddt, "C14:scatter:ddt_mean",
              "mean model Ddt != ddt * E[lambda (1-kappa)]", inp, dm, ddt * e1)
    # sample std of N draws: s.e. sqrt(mu4 - sigma^4) / (2 sigma sqrt(N)), mu4 from the population Monte-Carlo; 6 s.e.
    cl = lam_tot - lam_tot.mean()
    mu4 = float(np.mean(cl ** 4))
    se_std = np.sqrt(max(mu4 - sd_tot ** 4, 0.0)) / (2 * sd_tot * np.sqrt(ndraw)) if sd_tot > 0 else 0.0
    rec.check(abs(ds_ - ddt * sd_tot) <= 6 * ddt * se_std + ddt * sd_tot / ndraw + 1e-10 * ddt, "C14:scatter:ddt_spread",
              "spread of model Ddt != ddt * Std[lambda (1-kappa)]", inp, ds_, ddt * sd_tot)
    rec.check(abs(ddm - dd_s) <= 1e-10 * dd_s and abs(dds_) <= 1e-10 * dd_s, "C14:scatter:dd",
              "model Dd != dd (1+gamma_ppn)/2 with zero spread (no scatter acts on Dd)", inp, [ddm, dds_], [dd_s, 0])


def check_ifu_scatter(rec, rng, inp):
    """model Ddt of a lens whose lambda comes from the IFU population (mst_ifu) - the only scatter acting on it is lambda_ifu_sigma; the
    population's lambda_mst_sigma is zero or not given and no line-of-sight population is drawn: mean and spread still follow the population"""
    cd = gen_cosmo(rng); cosmo = make_cosmo(cd)
    zl = float(rng.uniform(0.2, 0.9)); zs = float(rng.uniform(zl + 0.4, 3.2))
    ddt, dd, _, _ = dist(cosmo, zl, zs)
    ifu = bool(rng.random() < 0.75)
    lens = dict(z_lens=zl, z_source=zs, likelihood_type="DdtGaussian", ddt_mean=float(ddt), ddt_sigma=float(0.05 * ddt), mst_ifu=ifu)
    kl = dict(lambda_mst=float(rng.uniform(0.9, 1.1)), lambda_ifu=float(rng.uniform(0.9, 1.1)), lambda_ifu_sigma=float(rng.uniform(0.02, 0.08)),
              gamma_ppn=float(rng.uniform(0.8, 1.2)))
    how = str(rng.choice(["zero", "absent", "positive"]))
    if how == "zero": kl["lambda_mst_sigma"] = 0.0
    if how == "positive": kl["lambda_mst_sigma"] = float(rng.uniform(0.02, 0.08))
    ndraw = int(inp.get("ndraw", 1500))
    inp = dict(inp, cosmo=cd, lens=lens, kwargs_lens=kl, ndraw=ndraw)
    rec.case(dict(check="ifu_scatter", mst_ifu=ifu, lambda_mst_sigma=how), kind="ifu_scatter:%s:%s" % ("ifu" if ifu else "plain", how))
    try:
        ll = LensLikelihood(num_distribution_draws=ndraw, lambda_mst_distribution="GAUSSIAN", **lens)
        np.random.seed(int(rng.integers(2 ** 31)))
        dm, ds_, ddm, dds_ = ll.ddt_dd_model_prediction(cosmo, kwargs_lens=kl, kwargs_los=None)
    except Exception as e:
        rec.check(False, "C14:scatter:raises", "ddt_dd_model_prediction raised on a valid configuration with scatter", inp, repr(e)); return
    mu = kl["lambda_ifu"] if ifu else kl["lambda_mst"]
    sg = kl["lambda_ifu_sigma"] if ifu else kl.get("lambda_mst_sigma", 0.0)
    rec.check(abs(dm - ddt * mu) <= 6 * ddt * sg / np.sqrt(ndraw) + 1e-10 * ddt, "C14:scatter:ddt_mean",
              "mean model Ddt != ddt * E[lambda] of the population the lens draws from", inp, dm, ddt * mu)
    # Gaussian: s.e. of the sample std = sigma / sqrt(2N)
    rec.check(abs(ds_ - ddt * sg) <= 6 * ddt * sg / np.sqrt(2 * ndraw) + ddt * sg / ndraw + 1e-10 * ddt, "C14:scatter:ddt_spread",
              "spread of model Ddt != ddt * Std[lambda] of the population the lens draws from", inp, ds_, ddt * sg)
    dd_s = dd * (1 + kl["gamma_ppn"]) / 2
    rec.check(abs(ddm - dd_s) <= 1e-10 * dd_s and abs(dds_) <= 1e-10 * dd_s, "C14:scatter:dd",
              "model Dd != dd (1+gamma_ppn)/2 with zero spread", inp, [ddm, dds_], [dd_s, 0])


def check_many_bins(rec, rng, inp):
    """an IFU map with very many bins (det of the covariance leaves the binary64 range, its logarithm does not): the NORMALISED lens
    log-likelihood is still the multivariate-normal log-density of the reported measurement given the reported prediction and covariances"""
    from scipy.stats import multivariate_normal
    cd = gen_cosmo(rng); cosmo = make_cosmo(cd)
    n = int(rng.choice([110, 160, 240]))
    zl = float(rng.uniform(0.2, 0.8)); zs = float(rng.uniform(zl + 0.5, 3.0))
    ddt, dd, _, _ = dist(cosmo, zl, zs)
    dsdds = ddt / dd / (1 + zl)
    sv_true = rng.uniform(180, 320, n)
    j = (sv_true / C_KMS) ** 2 / dsdds
    a = rng.normal(size=(n, n)) * 0.5
    cov_m = np.diag(rng.uniform(10, 20, n) ** 2) + a @ a.T
    lens = dict(z_lens=zl, z_source=zs, likelihood_type="IFUKinCov", sigma_v_measurement=list(sv_true + rng.normal(0, 12, n)), j_model=list(j),
                error_cov_measurement=cov_m, error_cov_j_sqrt=np.diag((0.02 * np.sqrt(j)) ** 2))
    inp = dict(inp, cosmo=cd, n_bins=n, z_lens=zl, z_source=zs)
    rec.case(dict(check="many_bins", n=n), kind="many_bins:%d" % n)
    try:
        ll = LensLikelihood(normalized=True, **lens)
        kw = dict(kwargs_lens=dict(lambda_mst=1.0, gamma_ppn=1.0), kwargs_kin={})
        v = fscalar(ll.lens_log_likelihood(cosmo, **kw))
        m, Cm, pv, Cp = ll.sigma_v_measured_vs_predict(cosmo, **kw)
    except Exception as e:
        rec.check(False, "C14:sharp_kin:raises", "goodness-of-fit call raised on a valid sharp configuration (many bins)", inp, repr(e)); return
    ref = float(multivariate_normal(mean=np.asarray(pv, float), cov=np.asarray(Cm, float) + np.asarray(Cp, float), allow_singular=False).logpdf(np.asarray(m, float)))
    rec.check(np.isfinite(v) and abs(v - ref) <= 1e-7 * max(1.0, abs(ref)), "C14:sharp_kin:value",
              "normalised log-likelihood != multivariate-normal log-density of the reported measurement / prediction / covariances (%d bins)" % n, inp, v, ref)


# ------------------------------------------------------------------------------------------------
# sub-check: ddt_measurement
# ------------------------------------------------------------------------------------------------
def check_ddt_meas(rec, rng, inp):
    cd = gen_cosmo(rng)
    cosmo = make_cosmo(cd)
    model, hyper = gen_model(rng)
    t = TYPES[int(inp["case_seed"][-1]) % len(TYPES)]
    lens, meta = gen_lens(rng, t, cosmo, model, hyper)
    inp = dict(inp, lens=describe(lens, meta), model=model)
    rec.case(dict(check="ddt_meas", type=t, weights="ddt_weights" in lens), kind="ddt_meas:%s" % t)
    try:
        gpi = 0 if "gamma_pl" in (meta["scaling"] or {}).get("kin_scaling_param_list", []) else None
        ll = LensLikelihood(normalized=bool(rng.random() < 0.5), gamma_pl_index=gpi, **local_model_kwargs(model), **lens)
        got = ll.ddt_measurement()
    except Exception as e:
        rec.check(False, "C14:ddt_meas:raises", "ddt_measurement raised", inp, repr(e))
        return
    if t in ("DdtGaussian", "DdtGaussKin"):
        exp = (lens["ddt_mean"], lens["ddt_sigma"])
    elif t in ("DdtHist", "DdtHistKDE", "DdtHistKin"):
        x = np.asarray(lens["ddt_samples"], float)
        w = np.ones_like(x) if lens.get("ddt_weights") is None else np.asarray(lens["ddt_weights"], float)
        mu = float(np.sum(w * x) / np.sum(w))
        exp = (mu, float(np.sqrt(np.sum(w * (x - mu) ** 2) / np.sum(w))))
    else:
        exp = (None, None)
    if exp[0] is None:
        ok = isinstance(got, tuple) and len(got) == 2 and got[0] is None and got[1] is None
    else:
        ok = (isinstance(got, tuple) and len(got) == 2 and got[0] is not None and got[1] is not None
              and rec.close(got[0], exp[0], 1e-12, 0) and rec.close(got[1], exp[1], 1e-10, 0))
    rec.check(ok, "C14:ddt_meas:%s" % t, "ddt_measurement != (data mean, data sigma) for Ddt types / (None, None) otherwise",
              inp, got, exp)


# ------------------------------------------------------------------------------------------------
# sub-check: chi2 / chi2_zero
# ------------------------------------------------------------------------------------------------
ZERO_TYPES = ["DdtGaussian", "DdtDdGaussian", "DsDdsGaussian", "IFUKinCov", "DdtGaussKin", "DSPL"]


def run_chi2(rec, rng, inp, types, exact, key):
    cd = gen_cosmo(rng)
    cosmo = make_cosmo(cd)
    model, hyper = gen_model(rng)
    lenses, metas = [], []
    for t in types:
        l, m = gen_lens(rng, t, cosmo, model, hyper, exact=exact)
        lenses.append(l)
        metas.append(m)
    hyper_l = with_gamma_pl(hyper, lenses, metas)
    inp = dict(inp, cosmo=cd, model=model, hyper=hyper_l, types=types, lenses=[describe(l, m) for l, m in zip(lenses, metas)])
    rec.case(dict(check=key, types=types, model=model, cosmo=cd["kind"]), kind="%s:n%d" % (key, len(types)))
    for t in types:
        rec.tally("%s:type:%s" % (key, t))
    try:
        G = GoodnessOfFit(lenses, dict(model))
        np.random.seed(int(rng.integers(2 ** 31)))
        chi = fscalar(G.reduced_chi2(cosmo, hyper_l["kwargs_lens"], hyper_l["kwargs_kin"], kwargs_source=hyper_l["kwargs_source"],
                                     kwargs_los=hyper_l["kwargs_los"]))
    except Exception as e:
        rec.check(False, "C14:%s:raises" % key, "GoodnessOfFit.reduced_chi2 raised on a valid sharp sample", inp, repr(e))
        return
    lnls = [float(ref_lnl_unnormalised(l, m, cosmo, hyper)) for l, m in zip(lenses, metas)]
    N = sum(NDATA[t](m) for t, m in zip(types, metas))
    ref = -2 * sum(lnls) / N
    if exact:
        # measurement == prediction: every Gaussian chi2 term vanishes; what is left is the normalisation that the
        # magnification types always carry
        zero_part = sum(v for v, t in zip(lnls, types) if t in ZERO_TYPES)
        rec.check(abs(zero_part) <= 1e-12, "C14:chi2_zero:reference", "harness: constructed data not on the prediction", inp, zero_part)
        if all(t in ZERO_TYPES for t in types):
            rec.check(abs(chi) <= 1e-12, "C14:chi2_zero:not_zero",
                      "reduced chi2 != 0 although every measurement equals its prediction (Gaussian types)", inp, chi, 0.0)
            return
    rec.check(abs(chi - ref) <= 1e-8 * max(1.0, abs(ref)), "C14:%s:value" % key,
              "reduced chi2 != -2 * sum(lnL un-normalised) / sum(N_data)", dict(inp, lnl_reference=lnls, N=N), chi, ref)


def check_chi2(rec, rng, inp):
    k = int(rng.integers(1, 6))
    types = [str(x) for x in rng.choice(TYPES, k)]
    run_chi2(rec, rng, inp, types, False, "chi2")


def check_chi2_zero(rec, rng, inp):
    k = int(rng.integers(1, 5))
    if rng.random() < 0.7:
        types = [str(x) for x in rng.choice(ZERO_TYPES, k)]
    else:
        types = [str(x) for x in rng.choice(ZERO_TYPES + MAG_TYPES, k)]
    run_chi2(rec, rng, inp, types, True, "chi2_zero")


def check_scatter_q(rec, rng, inp):
    check_scatter(rec, rng, inp, ndraw=int(inp.get("ndraw", 1500)))


CHECKS = dict(sharp_kin=check_sharp_kin, scatter=check_scatter_q, ddt_meas=check_ddt_meas, chi2=check_chi2,
              chi2_zero=check_chi2_zero, ifu_scatter=check_ifu_scatter, many_bins=check_many_bins)
SALT = dict(sharp_kin=1, scatter=2, ddt_meas=3, chi2=4, chi2_zero=5, ifu_scatter=6, many_bins=7)
PLAN = dict(quick=dict(sharp_kin=120, scatter=12, ddt_meas=42, chi2=60, chi2_zero=50, ifu_scatter=24, many_bins=4),
            thorough=dict(sharp_kin=1500, scatter=120, ddt_meas=280, chi2=700, chi2_zero=500, ifu_scatter=300, many_bins=30))
NDRAW = dict(quick=1500, thorough=4000)


def run_case(rec, name, cs, extra=None):
    rng = np.random.default_rng([int(c) for c in cs])
    inp = dict(check=name, case_seed=[int(c) for c in cs])
    if extra:
        inp.update(extra)
    try:
        CHECKS[name](rec, rng, inp)
    except Exception:
        rec.error("%s %s: %s" % (name, cs, traceback.format_exc(limit=8)))


def main():
    args = parse_args(PROP)
    rec = Recorder(PROP, args.tier, args.seed, RULE)
    np.random.seed(args.seed % (2 ** 31))
    if args.replay:
        with open(args.replay) as f:
            rp = json.load(f)
        i = unjson(rp["input"])
        run_case(rec, i["check"], i["case_seed"], dict(ndraw=i["ndraw"]) if i["check"] == "scatter" and "ndraw" in i else None)
    else:
        for name, cnt in PLAN[args.tier].items():
            for i in range(cnt):
                run_case(rec, name, [args.seed, SALT[name], i], dict(ndraw=NDRAW[args.tier]) if name in ("scatter", "ifu_scatter") else None)
    out = rec.write(args.out)
    print("C14 %s seed=%d: %d cases, %d violations %s, %d errors, %.1fs" % (
        args.tier, args.seed, out["evaluations"], len(out["violations"]), sorted(out["violation_counts"]),
        len(out["errors"]), out["wall_s"]))


if __name__ == "__main__":
    main()
